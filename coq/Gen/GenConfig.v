(* GENERATED on every run by harness/translators/gen_config.py from the source text of
   tensorflow_lattice/python/*.py -- do not edit.  One class description per class that
   defines get_config (and per _Config subclass); see Model/ConfigModel.v for the meaning. *)
From Coq Require Import String List ZArith QArith.
From TFL Require Import Model.ConfigModel.
Import ListNotations.
Open Scope string_scope.

(* ---- aggregation_layer.Aggregation (layer) *)
Definition params_Aggregation : list (string * option value) :=
  [("model", None)].
Definition stores_Aggregation : list pstore :=
  [mk_store "model" "model" Direct None].
Definition emits_Aggregation : list emit :=
  [mk_emit "model" (Serialized "model") None].
Definition desc_Aggregation : class_desc :=
  mk_class "Aggregation" "aggregation_layer" "layer" params_Aggregation true keras_layer_keys stores_Aggregation [] emits_Aggregation OwnOverrides ["model"] None.
Definition init_names_Aggregation : list string := param_names desc_Aggregation.
Definition keys_Aggregation : list string := emit_keys desc_Aggregation.
Definition init_Aggregation wrap_oracle (kw : kwargs) : cfg := init wrap_oracle desc_Aggregation kw.
Definition get_config_Aggregation ser (c : cfg) : kwargs := get_config ser desc_Aggregation c.

(* ---- categorical_calibration_layer.CategoricalCalibration (layer) *)
Definition params_CategoricalCalibration : list (string * option value) :=
  [("num_buckets", None); ("units", Some (VInt (1)%Z)); ("output_min", Some VNone); ("output_max", Some VNone); ("monotonicities", Some VNone); ("kernel_initializer", Some (VStr "uniform")); ("kernel_regularizer", Some VNone); ("default_input_value", Some VNone); ("split_outputs", Some (VBool false))].
Definition stores_CategoricalCalibration : list pstore :=
  [mk_store "num_buckets" "num_buckets" Direct None; mk_store "units" "units" Direct None; mk_store "output_min" "output_min" Direct None; mk_store "output_max" "output_max" Direct None; mk_store "monotonicities" "monotonicities" Direct None; mk_store "kernel_initializer" "kernel_initializer" (Wrapped "rebound;cases:keras.initializers.get") None; mk_store "kernel_regularizer" "kernel_regularizer" (Wrapped "rebound;list_of:keras.regularizers.get") None; mk_store "default_input_value" "default_input_value" Direct None; mk_store "split_outputs" "split_outputs" Direct None].
Definition emits_CategoricalCalibration : list emit :=
  [mk_emit "num_buckets" (Attr "num_buckets") None; mk_emit "units" (Attr "units") None; mk_emit "output_min" (Attr "output_min") None; mk_emit "output_max" (Attr "output_max") None; mk_emit "monotonicities" (Attr "monotonicities") None; mk_emit "kernel_initializer" (Serialized "kernel_initializer") None; mk_emit "kernel_regularizer" (Serialized "kernel_regularizer") None; mk_emit "default_input_value" (Attr "default_input_value") None; mk_emit "split_outputs" (Attr "split_outputs") None].
Definition desc_CategoricalCalibration : class_desc :=
  mk_class "CategoricalCalibration" "categorical_calibration_layer" "layer" params_CategoricalCalibration true keras_layer_keys stores_CategoricalCalibration [] emits_CategoricalCalibration BaseOverrides [] None.
Definition init_names_CategoricalCalibration : list string := param_names desc_CategoricalCalibration.
Definition keys_CategoricalCalibration : list string := emit_keys desc_CategoricalCalibration.
Definition init_CategoricalCalibration wrap_oracle (kw : kwargs) : cfg := init wrap_oracle desc_CategoricalCalibration kw.
Definition get_config_CategoricalCalibration ser (c : cfg) : kwargs := get_config ser desc_CategoricalCalibration c.

(* ---- categorical_calibration_layer.CategoricalCalibrationConstraints (constraint) *)
Definition params_CategoricalCalibrationConstraints : list (string * option value) :=
  [("output_min", Some VNone); ("output_max", Some VNone); ("monotonicities", Some VNone)].
Definition stores_CategoricalCalibrationConstraints : list pstore :=
  [mk_store "output_min" "output_min" Direct None; mk_store "output_max" "output_max" Direct None; mk_store "monotonicities" "monotonicities" Direct None].
Definition emits_CategoricalCalibrationConstraints : list emit :=
  [mk_emit "output_min" (Attr "output_min") None; mk_emit "output_max" (Attr "output_max") None; mk_emit "monotonicities" (Attr "monotonicities") None].
Definition desc_CategoricalCalibrationConstraints : class_desc :=
  mk_class "CategoricalCalibrationConstraints" "categorical_calibration_layer" "constraint" params_CategoricalCalibrationConstraints false [] stores_CategoricalCalibrationConstraints [] emits_CategoricalCalibrationConstraints NoBase [] None.
Definition init_names_CategoricalCalibrationConstraints : list string := param_names desc_CategoricalCalibrationConstraints.
Definition keys_CategoricalCalibrationConstraints : list string := emit_keys desc_CategoricalCalibrationConstraints.
Definition init_CategoricalCalibrationConstraints wrap_oracle (kw : kwargs) : cfg := init wrap_oracle desc_CategoricalCalibrationConstraints kw.
Definition get_config_CategoricalCalibrationConstraints ser (c : cfg) : kwargs := get_config ser desc_CategoricalCalibrationConstraints c.

(* ---- cdf_layer.CDF (layer) *)
Definition params_CDF : list (string * option value) :=
  [("num_keypoints", None); ("units", Some (VInt (1)%Z)); ("activation", Some (VStr "relu6")); ("reduction", Some (VStr "mean")); ("input_scaling_init", Some VNone); ("input_scaling_type", Some (VStr "fixed")); ("input_scaling_monotonicity", Some (VStr "increasing")); ("sparsity_factor", Some (VInt (1)%Z)); ("kernel_initializer", Some (VStr "random_uniform"))].
Definition stores_CDF : list pstore :=
  [mk_store "num_keypoints" "num_keypoints" Direct None; mk_store "units" "units" Direct None; mk_store "activation" "activation" Direct None; mk_store "reduction" "reduction" Direct None; mk_store "input_scaling_init" "input_scaling_init" (Wrapped "cases:float") None; mk_store "input_scaling_type" "input_scaling_type" Direct None; mk_store "input_scaling_monotonicity" "input_scaling_monotonicity" (Wrapped "utils.canonicalize_monotonicity") None; mk_store "sparsity_factor" "sparsity_factor" Direct None; mk_store "kernel_initializer" "kernel_initializer" (Wrapped "create_kernel_initializer") None].
Definition emits_CDF : list emit :=
  [mk_emit "num_keypoints" (Attr "num_keypoints") None; mk_emit "units" (Attr "units") None; mk_emit "activation" (Attr "activation") None; mk_emit "reduction" (Attr "reduction") None; mk_emit "input_scaling_init" (Attr "input_scaling_init") None; mk_emit "input_scaling_type" (Attr "input_scaling_type") None; mk_emit "input_scaling_monotonicity" (Attr "input_scaling_monotonicity") None; mk_emit "sparsity_factor" (Attr "sparsity_factor") None; mk_emit "kernel_initializer" (Serialized "kernel_initializer") None].
Definition desc_CDF : class_desc :=
  mk_class "CDF" "cdf_layer" "layer" params_CDF true keras_layer_keys stores_CDF [] emits_CDF BaseOverrides [] None.
Definition init_names_CDF : list string := param_names desc_CDF.
Definition keys_CDF : list string := emit_keys desc_CDF.
Definition init_CDF wrap_oracle (kw : kwargs) : cfg := init wrap_oracle desc_CDF kw.
Definition get_config_CDF ser (c : cfg) : kwargs := get_config ser desc_CDF c.

(* ---- configs.CalibratedLatticeEnsembleConfig (config) *)
Definition params_CalibratedLatticeEnsembleConfig : list (string * option value) :=
  [("feature_configs", Some VNone); ("lattices", Some (VStr "random")); ("num_lattices", Some VNone); ("lattice_rank", Some VNone); ("interpolation", Some (VStr "hypercube")); ("parameterization", Some (VStr "all_vertices")); ("num_terms", Some (VInt (2)%Z)); ("separate_calibrators", Some (VBool true)); ("use_linear_combination", Some (VBool false)); ("use_bias", Some (VBool false)); ("regularizer_configs", Some VNone); ("output_min", Some VNone); ("output_max", Some VNone); ("output_calibration", Some (VBool false)); ("output_calibration_num_keypoints", Some (VInt (10)%Z)); ("output_initialization", Some (VStr "quantiles")); ("output_calibration_input_keypoints_type", Some (VStr "fixed")); ("fix_ensemble_for_2d_constraints", Some (VBool true)); ("random_seed", Some (VInt (0)%Z))].
Definition stores_CalibratedLatticeEnsembleConfig : list pstore :=
  [mk_store "feature_configs" "feature_configs" Direct None; mk_store "lattices" "lattices" Direct None; mk_store "num_lattices" "num_lattices" Direct None; mk_store "lattice_rank" "lattice_rank" Direct None; mk_store "interpolation" "interpolation" Direct None; mk_store "parameterization" "parameterization" Direct None; mk_store "num_terms" "num_terms" Direct None; mk_store "separate_calibrators" "separate_calibrators" Direct None; mk_store "use_linear_combination" "use_linear_combination" Direct None; mk_store "use_bias" "use_bias" Direct None; mk_store "regularizer_configs" "regularizer_configs" Direct None; mk_store "output_min" "output_min" Direct None; mk_store "output_max" "output_max" Direct None; mk_store "output_calibration" "output_calibration" Direct None; mk_store "output_calibration_num_keypoints" "output_calibration_num_keypoints" Direct None; mk_store "output_initialization" "output_initialization" Direct None; mk_store "output_calibration_input_keypoints_type" "output_calibration_input_keypoints_type" Direct None; mk_store "fix_ensemble_for_2d_constraints" "fix_ensemble_for_2d_constraints" Direct None; mk_store "random_seed" "random_seed" Direct None].
Definition emits_CalibratedLatticeEnsembleConfig : list emit :=
  [mk_emit "feature_configs" (Serialized "feature_configs") None; mk_emit "lattices" (Attr "lattices") None; mk_emit "num_lattices" (Attr "num_lattices") None; mk_emit "lattice_rank" (Attr "lattice_rank") None; mk_emit "interpolation" (Attr "interpolation") None; mk_emit "parameterization" (Attr "parameterization") None; mk_emit "num_terms" (Attr "num_terms") None; mk_emit "separate_calibrators" (Attr "separate_calibrators") None; mk_emit "use_linear_combination" (Attr "use_linear_combination") None; mk_emit "use_bias" (Attr "use_bias") None; mk_emit "regularizer_configs" (Serialized "regularizer_configs") None; mk_emit "output_min" (Attr "output_min") None; mk_emit "output_max" (Attr "output_max") None; mk_emit "output_calibration" (Attr "output_calibration") None; mk_emit "output_calibration_num_keypoints" (Attr "output_calibration_num_keypoints") None; mk_emit "output_initialization" (Attr "output_initialization") None; mk_emit "output_calibration_input_keypoints_type" (Attr "output_calibration_input_keypoints_type") None; mk_emit "fix_ensemble_for_2d_constraints" (Attr "fix_ensemble_for_2d_constraints") None; mk_emit "random_seed" (Attr "random_seed") None].
Definition desc_CalibratedLatticeEnsembleConfig : class_desc :=
  mk_class "CalibratedLatticeEnsembleConfig" "configs" "config" params_CalibratedLatticeEnsembleConfig false [] stores_CalibratedLatticeEnsembleConfig [] emits_CalibratedLatticeEnsembleConfig NoBase ["feature_configs"; "regularizer_configs"] None.
Definition init_names_CalibratedLatticeEnsembleConfig : list string := param_names desc_CalibratedLatticeEnsembleConfig.
Definition keys_CalibratedLatticeEnsembleConfig : list string := emit_keys desc_CalibratedLatticeEnsembleConfig.
Definition init_CalibratedLatticeEnsembleConfig wrap_oracle (kw : kwargs) : cfg := init wrap_oracle desc_CalibratedLatticeEnsembleConfig kw.
Definition get_config_CalibratedLatticeEnsembleConfig ser (c : cfg) : kwargs := get_config ser desc_CalibratedLatticeEnsembleConfig c.

(* ---- configs.CalibratedLatticeConfig (config) *)
Definition params_CalibratedLatticeConfig : list (string * option value) :=
  [("feature_configs", Some VNone); ("interpolation", Some (VStr "hypercube")); ("parameterization", Some (VStr "all_vertices")); ("num_terms", Some (VInt (2)%Z)); ("regularizer_configs", Some VNone); ("output_min", Some VNone); ("output_max", Some VNone); ("output_calibration", Some (VBool false)); ("output_calibration_num_keypoints", Some (VInt (10)%Z)); ("output_initialization", Some (VStr "quantiles")); ("output_calibration_input_keypoints_type", Some (VStr "fixed")); ("random_seed", Some (VInt (0)%Z))].
Definition stores_CalibratedLatticeConfig : list pstore :=
  [mk_store "feature_configs" "feature_configs" Direct None; mk_store "interpolation" "interpolation" Direct None; mk_store "parameterization" "parameterization" Direct None; mk_store "num_terms" "num_terms" Direct None; mk_store "regularizer_configs" "regularizer_configs" Direct None; mk_store "output_min" "output_min" Direct None; mk_store "output_max" "output_max" Direct None; mk_store "output_calibration" "output_calibration" Direct None; mk_store "output_calibration_num_keypoints" "output_calibration_num_keypoints" Direct None; mk_store "output_initialization" "output_initialization" Direct None; mk_store "output_calibration_input_keypoints_type" "output_calibration_input_keypoints_type" Direct None; mk_store "random_seed" "random_seed" Direct None].
Definition emits_CalibratedLatticeConfig : list emit :=
  [mk_emit "feature_configs" (Serialized "feature_configs") None; mk_emit "interpolation" (Attr "interpolation") None; mk_emit "parameterization" (Attr "parameterization") None; mk_emit "num_terms" (Attr "num_terms") None; mk_emit "regularizer_configs" (Serialized "regularizer_configs") None; mk_emit "output_min" (Attr "output_min") None; mk_emit "output_max" (Attr "output_max") None; mk_emit "output_calibration" (Attr "output_calibration") None; mk_emit "output_calibration_num_keypoints" (Attr "output_calibration_num_keypoints") None; mk_emit "output_initialization" (Attr "output_initialization") None; mk_emit "output_calibration_input_keypoints_type" (Attr "output_calibration_input_keypoints_type") None; mk_emit "random_seed" (Attr "random_seed") None].
Definition desc_CalibratedLatticeConfig : class_desc :=
  mk_class "CalibratedLatticeConfig" "configs" "config" params_CalibratedLatticeConfig false [] stores_CalibratedLatticeConfig [] emits_CalibratedLatticeConfig NoBase ["feature_configs"; "regularizer_configs"] None.
Definition init_names_CalibratedLatticeConfig : list string := param_names desc_CalibratedLatticeConfig.
Definition keys_CalibratedLatticeConfig : list string := emit_keys desc_CalibratedLatticeConfig.
Definition init_CalibratedLatticeConfig wrap_oracle (kw : kwargs) : cfg := init wrap_oracle desc_CalibratedLatticeConfig kw.
Definition get_config_CalibratedLatticeConfig ser (c : cfg) : kwargs := get_config ser desc_CalibratedLatticeConfig c.

(* ---- configs.CalibratedLinearConfig (config) *)
Definition params_CalibratedLinearConfig : list (string * option value) :=
  [("feature_configs", Some VNone); ("regularizer_configs", Some VNone); ("use_bias", Some (VBool true)); ("output_min", Some VNone); ("output_max", Some VNone); ("output_calibration", Some (VBool false)); ("output_calibration_num_keypoints", Some (VInt (10)%Z)); ("output_initialization", Some (VStr "quantiles")); ("output_calibration_input_keypoints_type", Some (VStr "fixed"))].
Definition stores_CalibratedLinearConfig : list pstore :=
  [mk_store "feature_configs" "feature_configs" Direct None; mk_store "regularizer_configs" "regularizer_configs" Direct None; mk_store "use_bias" "use_bias" Direct None; mk_store "output_min" "output_min" Direct None; mk_store "output_max" "output_max" Direct None; mk_store "output_calibration" "output_calibration" Direct None; mk_store "output_calibration_num_keypoints" "output_calibration_num_keypoints" Direct None; mk_store "output_initialization" "output_initialization" Direct None; mk_store "output_calibration_input_keypoints_type" "output_calibration_input_keypoints_type" Direct None].
Definition emits_CalibratedLinearConfig : list emit :=
  [mk_emit "feature_configs" (Serialized "feature_configs") None; mk_emit "regularizer_configs" (Serialized "regularizer_configs") None; mk_emit "use_bias" (Attr "use_bias") None; mk_emit "output_min" (Attr "output_min") None; mk_emit "output_max" (Attr "output_max") None; mk_emit "output_calibration" (Attr "output_calibration") None; mk_emit "output_calibration_num_keypoints" (Attr "output_calibration_num_keypoints") None; mk_emit "output_initialization" (Attr "output_initialization") None; mk_emit "output_calibration_input_keypoints_type" (Attr "output_calibration_input_keypoints_type") None].
Definition desc_CalibratedLinearConfig : class_desc :=
  mk_class "CalibratedLinearConfig" "configs" "config" params_CalibratedLinearConfig false [] stores_CalibratedLinearConfig [] emits_CalibratedLinearConfig NoBase ["feature_configs"; "regularizer_configs"] None.
Definition init_names_CalibratedLinearConfig : list string := param_names desc_CalibratedLinearConfig.
Definition keys_CalibratedLinearConfig : list string := emit_keys desc_CalibratedLinearConfig.
Definition init_CalibratedLinearConfig wrap_oracle (kw : kwargs) : cfg := init wrap_oracle desc_CalibratedLinearConfig kw.
Definition get_config_CalibratedLinearConfig ser (c : cfg) : kwargs := get_config ser desc_CalibratedLinearConfig c.

(* ---- configs.AggregateFunctionConfig (config) *)
Definition params_AggregateFunctionConfig : list (string * option value) :=
  [("feature_configs", None); ("regularizer_configs", Some VNone); ("middle_dimension", Some (VInt (1)%Z)); ("middle_lattice_size", Some (VInt (2)%Z)); ("middle_calibration", Some (VBool false)); ("middle_calibration_num_keypoints", Some (VInt (10)%Z)); ("middle_calibration_input_keypoints_type", Some (VStr "fixed")); ("middle_monotonicity", Some VNone); ("middle_lattice_interpolation", Some (VStr "hypercube")); ("aggregation_lattice_interpolation", Some (VStr "hypercube")); ("output_min", Some VNone); ("output_max", Some VNone); ("output_calibration", Some (VBool false)); ("output_calibration_num_keypoints", Some (VInt (10)%Z)); ("output_initialization", Some (VStr "uniform")); ("output_calibration_input_keypoints_type", Some (VStr "fixed"))].
Definition stores_AggregateFunctionConfig : list pstore :=
  [mk_store "feature_configs" "feature_configs" Direct None; mk_store "regularizer_configs" "regularizer_configs" Direct None; mk_store "middle_dimension" "middle_dimension" Direct None; mk_store "middle_lattice_size" "middle_lattice_size" Direct None; mk_store "middle_calibration" "middle_calibration" Direct None; mk_store "middle_calibration_num_keypoints" "middle_calibration_num_keypoints" Direct None; mk_store "middle_calibration_input_keypoints_type" "middle_calibration_input_keypoints_type" Direct None; mk_store "middle_monotonicity" "middle_monotonicity" Direct None; mk_store "middle_lattice_interpolation" "middle_lattice_interpolation" Direct None; mk_store "aggregation_lattice_interpolation" "aggregation_lattice_interpolation" Direct None; mk_store "output_min" "output_min" Direct None; mk_store "output_max" "output_max" Direct None; mk_store "output_calibration" "output_calibration" Direct None; mk_store "output_calibration_num_keypoints" "output_calibration_num_keypoints" Direct None; mk_store "output_initialization" "output_initialization" Direct None; mk_store "output_calibration_input_keypoints_type" "output_calibration_input_keypoints_type" Direct None].
Definition emits_AggregateFunctionConfig : list emit :=
  [mk_emit "feature_configs" (Serialized "feature_configs") None; mk_emit "regularizer_configs" (Serialized "regularizer_configs") None; mk_emit "middle_dimension" (Attr "middle_dimension") None; mk_emit "middle_lattice_size" (Attr "middle_lattice_size") None; mk_emit "middle_calibration" (Attr "middle_calibration") None; mk_emit "middle_calibration_num_keypoints" (Attr "middle_calibration_num_keypoints") None; mk_emit "middle_calibration_input_keypoints_type" (Attr "middle_calibration_input_keypoints_type") None; mk_emit "middle_monotonicity" (Attr "middle_monotonicity") None; mk_emit "middle_lattice_interpolation" (Attr "middle_lattice_interpolation") None; mk_emit "aggregation_lattice_interpolation" (Attr "aggregation_lattice_interpolation") None; mk_emit "output_min" (Attr "output_min") None; mk_emit "output_max" (Attr "output_max") None; mk_emit "output_calibration" (Attr "output_calibration") None; mk_emit "output_calibration_num_keypoints" (Attr "output_calibration_num_keypoints") None; mk_emit "output_initialization" (Attr "output_initialization") None; mk_emit "output_calibration_input_keypoints_type" (Attr "output_calibration_input_keypoints_type") None].
Definition desc_AggregateFunctionConfig : class_desc :=
  mk_class "AggregateFunctionConfig" "configs" "config" params_AggregateFunctionConfig false [] stores_AggregateFunctionConfig [] emits_AggregateFunctionConfig NoBase ["feature_configs"; "regularizer_configs"] None.
Definition init_names_AggregateFunctionConfig : list string := param_names desc_AggregateFunctionConfig.
Definition keys_AggregateFunctionConfig : list string := emit_keys desc_AggregateFunctionConfig.
Definition init_AggregateFunctionConfig wrap_oracle (kw : kwargs) : cfg := init wrap_oracle desc_AggregateFunctionConfig kw.
Definition get_config_AggregateFunctionConfig ser (c : cfg) : kwargs := get_config ser desc_AggregateFunctionConfig c.

(* ---- configs.FeatureConfig (config) *)
Definition params_FeatureConfig : list (string * option value) :=
  [("name", None); ("is_missing_name", Some VNone); ("default_value", Some VNone); ("lattice_size", Some (VInt (2)%Z)); ("monotonicity", Some (VStr "none")); ("unimodality", Some (VStr "none")); ("reflects_trust_in", Some VNone); ("dominates", Some VNone); ("pwl_calibration_always_monotonic", Some (VBool false)); ("pwl_calibration_convexity", Some (VInt (0)%Z)); ("pwl_calibration_num_keypoints", Some (VInt (10)%Z)); ("pwl_calibration_input_keypoints", Some (VStr "quantiles")); ("pwl_calibration_input_keypoints_type", Some (VStr "fixed")); ("pwl_calibration_clip_min", Some VNone); ("pwl_calibration_clip_max", Some VNone); ("pwl_calibration_clamp_min", Some (VBool false)); ("pwl_calibration_clamp_max", Some (VBool false)); ("num_buckets", Some (VInt (0)%Z)); ("vocabulary_list", Some VNone); ("regularizer_configs", Some VNone)].
Definition stores_FeatureConfig : list pstore :=
  [mk_store "name" "name" Direct None; mk_store "is_missing_name" "is_missing_name" Direct None; mk_store "default_value" "default_value" Direct None; mk_store "lattice_size" "lattice_size" Direct None; mk_store "monotonicity" "monotonicity" Direct None; mk_store "unimodality" "unimodality" Direct None; mk_store "reflects_trust_in" "reflects_trust_in" Direct None; mk_store "dominates" "dominates" Direct None; mk_store "pwl_calibration_always_monotonic" "pwl_calibration_always_monotonic" Direct None; mk_store "pwl_calibration_convexity" "pwl_calibration_convexity" Direct None; mk_store "pwl_calibration_num_keypoints" "pwl_calibration_num_keypoints" Direct None; mk_store "pwl_calibration_input_keypoints" "pwl_calibration_input_keypoints" Direct None; mk_store "pwl_calibration_input_keypoints_type" "pwl_calibration_input_keypoints_type" Direct None; mk_store "pwl_calibration_clip_min" "pwl_calibration_clip_min" Direct None; mk_store "pwl_calibration_clip_max" "pwl_calibration_clip_max" Direct None; mk_store "pwl_calibration_clamp_min" "pwl_calibration_clamp_min" Direct None; mk_store "pwl_calibration_clamp_max" "pwl_calibration_clamp_max" Direct None; mk_store "num_buckets" "num_buckets" Direct None; mk_store "vocabulary_list" "vocabulary_list" Direct None; mk_store "regularizer_configs" "regularizer_configs" Direct None].
Definition emits_FeatureConfig : list emit :=
  [mk_emit "name" (Attr "name") None; mk_emit "is_missing_name" (Attr "is_missing_name") None; mk_emit "default_value" (Attr "default_value") None; mk_emit "lattice_size" (Attr "lattice_size") None; mk_emit "monotonicity" (Attr "monotonicity") None; mk_emit "unimodality" (Attr "unimodality") None; mk_emit "reflects_trust_in" (Serialized "reflects_trust_in") None; mk_emit "dominates" (Serialized "dominates") None; mk_emit "pwl_calibration_always_monotonic" (Attr "pwl_calibration_always_monotonic") None; mk_emit "pwl_calibration_convexity" (Attr "pwl_calibration_convexity") None; mk_emit "pwl_calibration_num_keypoints" (Attr "pwl_calibration_num_keypoints") None; mk_emit "pwl_calibration_input_keypoints" (Attr "pwl_calibration_input_keypoints") None; mk_emit "pwl_calibration_input_keypoints_type" (Attr "pwl_calibration_input_keypoints_type") None; mk_emit "pwl_calibration_clip_min" (Attr "pwl_calibration_clip_min") None; mk_emit "pwl_calibration_clip_max" (Attr "pwl_calibration_clip_max") None; mk_emit "pwl_calibration_clamp_min" (Attr "pwl_calibration_clamp_min") None; mk_emit "pwl_calibration_clamp_max" (Attr "pwl_calibration_clamp_max") None; mk_emit "num_buckets" (Attr "num_buckets") None; mk_emit "vocabulary_list" (Attr "vocabulary_list") None; mk_emit "regularizer_configs" (Serialized "regularizer_configs") None].
Definition desc_FeatureConfig : class_desc :=
  mk_class "FeatureConfig" "configs" "config" params_FeatureConfig false [] stores_FeatureConfig [] emits_FeatureConfig NoBase ["regularizer_configs"; "reflects_trust_in"; "dominates"] None.
Definition init_names_FeatureConfig : list string := param_names desc_FeatureConfig.
Definition keys_FeatureConfig : list string := emit_keys desc_FeatureConfig.
Definition init_FeatureConfig wrap_oracle (kw : kwargs) : cfg := init wrap_oracle desc_FeatureConfig kw.
Definition get_config_FeatureConfig ser (c : cfg) : kwargs := get_config ser desc_FeatureConfig c.

(* ---- configs.RegularizerConfig (config) *)
Definition params_RegularizerConfig : list (string * option value) :=
  [("name", None); ("l1", Some (VQ ((0)#1))); ("l2", Some (VQ ((0)#1)))].
Definition stores_RegularizerConfig : list pstore :=
  [mk_store "name" "name" Direct None; mk_store "l1" "l1" Direct None; mk_store "l2" "l2" Direct None].
Definition emits_RegularizerConfig : list emit :=
  [mk_emit "name" (Attr "name") None; mk_emit "l1" (Attr "l1") None; mk_emit "l2" (Attr "l2") None].
Definition desc_RegularizerConfig : class_desc :=
  mk_class "RegularizerConfig" "configs" "config" params_RegularizerConfig false [] stores_RegularizerConfig [] emits_RegularizerConfig NoBase [] None.
Definition init_names_RegularizerConfig : list string := param_names desc_RegularizerConfig.
Definition keys_RegularizerConfig : list string := emit_keys desc_RegularizerConfig.
Definition init_RegularizerConfig wrap_oracle (kw : kwargs) : cfg := init wrap_oracle desc_RegularizerConfig kw.
Definition get_config_RegularizerConfig ser (c : cfg) : kwargs := get_config ser desc_RegularizerConfig c.

(* ---- configs.TrustConfig (config) *)
Definition params_TrustConfig : list (string * option value) :=
  [("feature_name", None); ("trust_type", Some (VStr "edgeworth")); ("direction", Some (VStr "positive"))].
Definition stores_TrustConfig : list pstore :=
  [mk_store "feature_name" "feature_name" Direct None; mk_store "trust_type" "trust_type" Direct None; mk_store "direction" "direction" Direct None].
Definition emits_TrustConfig : list emit :=
  [mk_emit "feature_name" (Attr "feature_name") None; mk_emit "trust_type" (Attr "trust_type") None; mk_emit "direction" (Attr "direction") None].
Definition desc_TrustConfig : class_desc :=
  mk_class "TrustConfig" "configs" "config" params_TrustConfig false [] stores_TrustConfig [] emits_TrustConfig NoBase [] None.
Definition init_names_TrustConfig : list string := param_names desc_TrustConfig.
Definition keys_TrustConfig : list string := emit_keys desc_TrustConfig.
Definition init_TrustConfig wrap_oracle (kw : kwargs) : cfg := init wrap_oracle desc_TrustConfig kw.
Definition get_config_TrustConfig ser (c : cfg) : kwargs := get_config ser desc_TrustConfig c.

(* ---- configs.DominanceConfig (config) *)
Definition params_DominanceConfig : list (string * option value) :=
  [("feature_name", None); ("dominance_type", Some (VStr "monotonic"))].
Definition stores_DominanceConfig : list pstore :=
  [mk_store "feature_name" "feature_name" Direct None; mk_store "dominance_type" "dominance_type" Direct None].
Definition emits_DominanceConfig : list emit :=
  [mk_emit "feature_name" (Attr "feature_name") None; mk_emit "dominance_type" (Attr "dominance_type") None].
Definition desc_DominanceConfig : class_desc :=
  mk_class "DominanceConfig" "configs" "config" params_DominanceConfig false [] stores_DominanceConfig [] emits_DominanceConfig NoBase [] None.
Definition init_names_DominanceConfig : list string := param_names desc_DominanceConfig.
Definition keys_DominanceConfig : list string := emit_keys desc_DominanceConfig.
Definition init_DominanceConfig wrap_oracle (kw : kwargs) : cfg := init wrap_oracle desc_DominanceConfig kw.
Definition get_config_DominanceConfig ser (c : cfg) : kwargs := get_config ser desc_DominanceConfig c.

(* ---- kronecker_factored_lattice_layer.KroneckerFactoredLattice (layer) *)
Definition params_KroneckerFactoredLattice : list (string * option value) :=
  [("lattice_sizes", None); ("units", Some (VInt (1)%Z)); ("num_terms", Some (VInt (2)%Z)); ("monotonicities", Some VNone); ("output_min", Some VNone); ("output_max", Some VNone); ("clip_inputs", Some (VBool true)); ("kernel_initializer", Some (VStr "kfl_random_monotonic_initializer")); ("scale_initializer", Some (VStr "scale_initializer"))].
Definition stores_KroneckerFactoredLattice : list pstore :=
  [mk_store "lattice_sizes" "lattice_sizes" Direct None; mk_store "units" "units" Direct None; mk_store "num_terms" "num_terms" Direct None; mk_store "monotonicities" "monotonicities" Direct None; mk_store "output_min" "output_min" Direct None; mk_store "output_max" "output_max" Direct None; mk_store "clip_inputs" "clip_inputs" Direct None; mk_store "kernel_initializer" "kernel_initializer" (Wrapped "create_kernel_initializer") None; mk_store "scale_initializer" "scale_initializer" (Wrapped "create_scale_initializer") None].
Definition emits_KroneckerFactoredLattice : list emit :=
  [mk_emit "lattice_sizes" (Attr "lattice_sizes") None; mk_emit "units" (Attr "units") None; mk_emit "num_terms" (Attr "num_terms") None; mk_emit "monotonicities" (Attr "monotonicities") None; mk_emit "output_min" (Attr "output_min") None; mk_emit "output_max" (Attr "output_max") None; mk_emit "clip_inputs" (Attr "clip_inputs") None; mk_emit "kernel_initializer" (Serialized "kernel_initializer") None; mk_emit "scale_initializer" (Serialized "scale_initializer") None].
Definition desc_KroneckerFactoredLattice : class_desc :=
  mk_class "KroneckerFactoredLattice" "kronecker_factored_lattice_layer" "layer" params_KroneckerFactoredLattice true keras_layer_keys stores_KroneckerFactoredLattice [] emits_KroneckerFactoredLattice BaseOverrides [] None.
Definition init_names_KroneckerFactoredLattice : list string := param_names desc_KroneckerFactoredLattice.
Definition keys_KroneckerFactoredLattice : list string := emit_keys desc_KroneckerFactoredLattice.
Definition init_KroneckerFactoredLattice wrap_oracle (kw : kwargs) : cfg := init wrap_oracle desc_KroneckerFactoredLattice kw.
Definition get_config_KroneckerFactoredLattice ser (c : cfg) : kwargs := get_config ser desc_KroneckerFactoredLattice c.

(* ---- kronecker_factored_lattice_layer.KFLRandomMonotonicInitializer (initializer) *)
Definition params_KFLRandomMonotonicInitializer : list (string * option value) :=
  [("monotonicities", None); ("init_min", Some (VQ ((1)#2))); ("init_max", Some (VQ ((3)#2))); ("seed", Some VNone)].
Definition stores_KFLRandomMonotonicInitializer : list pstore :=
  [mk_store "monotonicities" "monotonicities" Direct None; mk_store "init_min" "init_min" Direct None; mk_store "init_max" "init_max" Direct None; mk_store "seed" "seed" Direct None].
Definition emits_KFLRandomMonotonicInitializer : list emit :=
  [mk_emit "monotonicities" (Attr "monotonicities") None; mk_emit "init_min" (Attr "init_min") None; mk_emit "init_max" (Attr "init_max") None; mk_emit "seed" (Attr "seed") None].
Definition desc_KFLRandomMonotonicInitializer : class_desc :=
  mk_class "KFLRandomMonotonicInitializer" "kronecker_factored_lattice_layer" "initializer" params_KFLRandomMonotonicInitializer false [] stores_KFLRandomMonotonicInitializer [] emits_KFLRandomMonotonicInitializer NoBase [] None.
Definition init_names_KFLRandomMonotonicInitializer : list string := param_names desc_KFLRandomMonotonicInitializer.
Definition keys_KFLRandomMonotonicInitializer : list string := emit_keys desc_KFLRandomMonotonicInitializer.
Definition init_KFLRandomMonotonicInitializer wrap_oracle (kw : kwargs) : cfg := init wrap_oracle desc_KFLRandomMonotonicInitializer kw.
Definition get_config_KFLRandomMonotonicInitializer ser (c : cfg) : kwargs := get_config ser desc_KFLRandomMonotonicInitializer c.

(* ---- kronecker_factored_lattice_layer.ScaleInitializer (initializer) *)
Definition params_ScaleInitializer : list (string * option value) :=
  [("output_min", None); ("output_max", None)].
Definition stores_ScaleInitializer : list pstore :=
  [mk_store "output_min" "output_min" Direct None; mk_store "output_max" "output_max" Direct None].
Definition emits_ScaleInitializer : list emit :=
  [mk_emit "output_min" (Attr "output_min") None; mk_emit "output_max" (Attr "output_max") None].
Definition desc_ScaleInitializer : class_desc :=
  mk_class "ScaleInitializer" "kronecker_factored_lattice_layer" "initializer" params_ScaleInitializer false [] stores_ScaleInitializer [] emits_ScaleInitializer NoBase [] None.
Definition init_names_ScaleInitializer : list string := param_names desc_ScaleInitializer.
Definition keys_ScaleInitializer : list string := emit_keys desc_ScaleInitializer.
Definition init_ScaleInitializer wrap_oracle (kw : kwargs) : cfg := init wrap_oracle desc_ScaleInitializer kw.
Definition get_config_ScaleInitializer ser (c : cfg) : kwargs := get_config ser desc_ScaleInitializer c.

(* ---- kronecker_factored_lattice_layer.BiasInitializer (initializer) *)
Definition params_BiasInitializer : list (string * option value) :=
  [("output_min", None); ("output_max", None)].
Definition stores_BiasInitializer : list pstore :=
  [mk_store "output_min" "output_min" Direct None; mk_store "output_max" "output_max" Direct None].
Definition emits_BiasInitializer : list emit :=
  [mk_emit "output_min" (Attr "output_min") None; mk_emit "output_max" (Attr "output_max") None].
Definition desc_BiasInitializer : class_desc :=
  mk_class "BiasInitializer" "kronecker_factored_lattice_layer" "initializer" params_BiasInitializer false [] stores_BiasInitializer [] emits_BiasInitializer NoBase [] None.
Definition init_names_BiasInitializer : list string := param_names desc_BiasInitializer.
Definition keys_BiasInitializer : list string := emit_keys desc_BiasInitializer.
Definition init_BiasInitializer wrap_oracle (kw : kwargs) : cfg := init wrap_oracle desc_BiasInitializer kw.
Definition get_config_BiasInitializer ser (c : cfg) : kwargs := get_config ser desc_BiasInitializer c.

(* ---- kronecker_factored_lattice_layer.KroneckerFactoredLatticeConstraints (constraint) *)
Definition params_KroneckerFactoredLatticeConstraints : list (string * option value) :=
  [("units", None); ("scale", None); ("monotonicities", Some VNone); ("output_min", Some VNone); ("output_max", Some VNone)].
Definition stores_KroneckerFactoredLatticeConstraints : list pstore :=
  [mk_store "units" "units" Direct None; mk_store "scale" "scale" Direct None; mk_store "monotonicities" "monotonicities" (Wrapped "utils.canonicalize_monotonicities") None; mk_store "output_min" "output_min" Direct None; mk_store "output_max" "output_max" Direct None].
Definition emits_KroneckerFactoredLatticeConstraints : list emit :=
  [mk_emit "units" (Attr "units") None; mk_emit "scale" (Attr "scale") None; mk_emit "monotonicities" (Attr "monotonicities") None; mk_emit "output_min" (Attr "output_min") None; mk_emit "output_max" (Attr "output_max") None].
Definition desc_KroneckerFactoredLatticeConstraints : class_desc :=
  mk_class "KroneckerFactoredLatticeConstraints" "kronecker_factored_lattice_layer" "constraint" params_KroneckerFactoredLatticeConstraints false [] stores_KroneckerFactoredLatticeConstraints [] emits_KroneckerFactoredLatticeConstraints NoBase [] None.
Definition init_names_KroneckerFactoredLatticeConstraints : list string := param_names desc_KroneckerFactoredLatticeConstraints.
Definition keys_KroneckerFactoredLatticeConstraints : list string := emit_keys desc_KroneckerFactoredLatticeConstraints.
Definition init_KroneckerFactoredLatticeConstraints wrap_oracle (kw : kwargs) : cfg := init wrap_oracle desc_KroneckerFactoredLatticeConstraints kw.
Definition get_config_KroneckerFactoredLatticeConstraints ser (c : cfg) : kwargs := get_config ser desc_KroneckerFactoredLatticeConstraints c.

(* ---- kronecker_factored_lattice_layer.ScaleConstraints (constraint) *)
Definition params_ScaleConstraints : list (string * option value) :=
  [("output_min", Some VNone); ("output_max", Some VNone)].
Definition stores_ScaleConstraints : list pstore :=
  [mk_store "output_min" "output_min" Direct None; mk_store "output_max" "output_max" Direct None].
Definition emits_ScaleConstraints : list emit :=
  [mk_emit "output_min" (Attr "output_min") None; mk_emit "output_max" (Attr "output_max") None].
Definition desc_ScaleConstraints : class_desc :=
  mk_class "ScaleConstraints" "kronecker_factored_lattice_layer" "constraint" params_ScaleConstraints false [] stores_ScaleConstraints [] emits_ScaleConstraints NoBase [] None.
Definition init_names_ScaleConstraints : list string := param_names desc_ScaleConstraints.
Definition keys_ScaleConstraints : list string := emit_keys desc_ScaleConstraints.
Definition init_ScaleConstraints wrap_oracle (kw : kwargs) : cfg := init wrap_oracle desc_ScaleConstraints kw.
Definition get_config_ScaleConstraints ser (c : cfg) : kwargs := get_config ser desc_ScaleConstraints c.

(* ---- lattice_layer.Lattice (layer) *)
Definition params_Lattice : list (string * option value) :=
  [("lattice_sizes", None); ("units", Some (VInt (1)%Z)); ("monotonicities", Some VNone); ("unimodalities", Some VNone); ("edgeworth_trusts", Some VNone); ("trapezoid_trusts", Some VNone); ("monotonic_dominances", Some VNone); ("range_dominances", Some VNone); ("joint_monotonicities", Some VNone); ("joint_unimodalities", Some VNone); ("output_min", Some VNone); ("output_max", Some VNone); ("num_projection_iterations", Some (VInt (10)%Z)); ("monotonic_at_every_step", Some (VBool true)); ("clip_inputs", Some (VBool true)); ("interpolation", Some (VStr "hypercube")); ("kernel_initializer", Some (VStr "random_uniform_or_linear_initializer")); ("kernel_regularizer", Some VNone)].
Definition stores_Lattice : list pstore :=
  [mk_store "lattice_sizes" "lattice_sizes" Direct None; mk_store "units" "units" Direct None; mk_store "monotonicities" "monotonicities" Direct None; mk_store "unimodalities" "unimodalities" Direct None; mk_store "edgeworth_trusts" "edgeworth_trusts" (Wrapped "single_tuple_to_list") None; mk_store "trapezoid_trusts" "trapezoid_trusts" (Wrapped "single_tuple_to_list") None; mk_store "monotonic_dominances" "monotonic_dominances" (Wrapped "single_tuple_to_list") None; mk_store "range_dominances" "range_dominances" (Wrapped "single_tuple_to_list") None; mk_store "joint_monotonicities" "joint_monotonicities" (Wrapped "single_tuple_to_list") None; mk_store "joint_unimodalities" "joint_unimodalities" (Wrapped "single_pair_to_list") None; mk_store "output_min" "output_min" Direct None; mk_store "output_max" "output_max" Direct None; mk_store "num_projection_iterations" "num_projection_iterations" Direct None; mk_store "monotonic_at_every_step" "monotonic_at_every_step" Direct None; mk_store "clip_inputs" "clip_inputs" Direct None; mk_store "interpolation" "interpolation" Direct None; mk_store "kernel_initializer" "kernel_initializer" (Wrapped "create_kernel_initializer") None; mk_store "kernel_regularizer" "kernel_regularizer" (Wrapped "rebound;list_of:TorsionRegularizer|LaplacianRegularizer|keras.regularizers.get") None].
Definition emits_Lattice : list emit :=
  [mk_emit "lattice_sizes" (Attr "lattice_sizes") None; mk_emit "units" (Attr "units") None; mk_emit "monotonicities" (Attr "monotonicities") None; mk_emit "unimodalities" (Attr "unimodalities") None; mk_emit "edgeworth_trusts" (Attr "edgeworth_trusts") None; mk_emit "trapezoid_trusts" (Attr "trapezoid_trusts") None; mk_emit "monotonic_dominances" (Attr "monotonic_dominances") None; mk_emit "range_dominances" (Attr "range_dominances") None; mk_emit "joint_monotonicities" (Attr "joint_monotonicities") None; mk_emit "joint_unimodalities" (Attr "joint_unimodalities") None; mk_emit "output_min" (Attr "output_min") None; mk_emit "output_max" (Attr "output_max") None; mk_emit "num_projection_iterations" (Attr "num_projection_iterations") None; mk_emit "monotonic_at_every_step" (Attr "monotonic_at_every_step") None; mk_emit "clip_inputs" (Attr "clip_inputs") None; mk_emit "interpolation" (Attr "interpolation") None; mk_emit "kernel_initializer" (Serialized "kernel_initializer") None; mk_emit "kernel_regularizer" (Serialized "kernel_regularizer") None].
Definition desc_Lattice : class_desc :=
  mk_class "Lattice" "lattice_layer" "layer" params_Lattice true keras_layer_keys stores_Lattice [] emits_Lattice BaseOverrides [] None.
Definition init_names_Lattice : list string := param_names desc_Lattice.
Definition keys_Lattice : list string := emit_keys desc_Lattice.
Definition init_Lattice wrap_oracle (kw : kwargs) : cfg := init wrap_oracle desc_Lattice kw.
Definition get_config_Lattice ser (c : cfg) : kwargs := get_config ser desc_Lattice c.

(* ---- lattice_layer.LinearInitializer (initializer) *)
Definition params_LinearInitializer : list (string * option value) :=
  [("lattice_sizes", None); ("monotonicities", None); ("output_min", None); ("output_max", None); ("unimodalities", Some VNone)].
Definition stores_LinearInitializer : list pstore :=
  [mk_store "lattice_sizes" "lattice_sizes" Direct None; mk_store "monotonicities" "monotonicities" Direct None; mk_store "output_min" "output_min" Direct None; mk_store "output_max" "output_max" Direct None; mk_store "unimodalities" "unimodalities" Direct None].
Definition emits_LinearInitializer : list emit :=
  [mk_emit "lattice_sizes" (Attr "lattice_sizes") None; mk_emit "monotonicities" (Attr "monotonicities") None; mk_emit "output_min" (Attr "output_min") None; mk_emit "output_max" (Attr "output_max") None; mk_emit "unimodalities" (Attr "unimodalities") None].
Definition desc_LinearInitializer : class_desc :=
  mk_class "LinearInitializer" "lattice_layer" "initializer" params_LinearInitializer false [] stores_LinearInitializer [] emits_LinearInitializer NoBase [] None.
Definition init_names_LinearInitializer : list string := param_names desc_LinearInitializer.
Definition keys_LinearInitializer : list string := emit_keys desc_LinearInitializer.
Definition init_LinearInitializer wrap_oracle (kw : kwargs) : cfg := init wrap_oracle desc_LinearInitializer kw.
Definition get_config_LinearInitializer ser (c : cfg) : kwargs := get_config ser desc_LinearInitializer c.

(* ---- lattice_layer.RandomMonotonicInitializer (initializer) *)
Definition params_RandomMonotonicInitializer : list (string * option value) :=
  [("lattice_sizes", None); ("output_min", None); ("output_max", None); ("unimodalities", Some VNone)].
Definition stores_RandomMonotonicInitializer : list pstore :=
  [mk_store "lattice_sizes" "lattice_sizes" Direct None; mk_store "output_min" "output_min" Direct None; mk_store "output_max" "output_max" Direct None; mk_store "unimodalities" "unimodalities" Direct None].
Definition emits_RandomMonotonicInitializer : list emit :=
  [mk_emit "lattice_sizes" (Attr "lattice_sizes") None; mk_emit "output_min" (Attr "output_min") None; mk_emit "output_max" (Attr "output_max") None; mk_emit "unimodalities" (Attr "unimodalities") None].
Definition desc_RandomMonotonicInitializer : class_desc :=
  mk_class "RandomMonotonicInitializer" "lattice_layer" "initializer" params_RandomMonotonicInitializer false [] stores_RandomMonotonicInitializer [] emits_RandomMonotonicInitializer NoBase [] None.
Definition init_names_RandomMonotonicInitializer : list string := param_names desc_RandomMonotonicInitializer.
Definition keys_RandomMonotonicInitializer : list string := emit_keys desc_RandomMonotonicInitializer.
Definition init_RandomMonotonicInitializer wrap_oracle (kw : kwargs) : cfg := init wrap_oracle desc_RandomMonotonicInitializer kw.
Definition get_config_RandomMonotonicInitializer ser (c : cfg) : kwargs := get_config ser desc_RandomMonotonicInitializer c.

(* ---- lattice_layer.LatticeConstraints (constraint) *)
Definition params_LatticeConstraints : list (string * option value) :=
  [("lattice_sizes", None); ("monotonicities", Some VNone); ("unimodalities", Some VNone); ("edgeworth_trusts", Some VNone); ("trapezoid_trusts", Some VNone); ("monotonic_dominances", Some VNone); ("range_dominances", Some VNone); ("joint_monotonicities", Some VNone); ("joint_unimodalities", Some VNone); ("output_min", Some VNone); ("output_max", Some VNone); ("num_projection_iterations", Some (VInt (1)%Z)); ("enforce_strict_monotonicity", Some (VBool true))].
Definition stores_LatticeConstraints : list pstore :=
  [mk_store "lattice_sizes" "lattice_sizes" Direct None; mk_store "monotonicities" "monotonicities" (Wrapped "utils.canonicalize_monotonicities") None; mk_store "unimodalities" "unimodalities" (Wrapped "utils.canonicalize_unimodalities") None; mk_store "edgeworth_trusts" "edgeworth_trusts" (Wrapped "utils.canonicalize_trust") None; mk_store "trapezoid_trusts" "trapezoid_trusts" (Wrapped "utils.canonicalize_trust") None; mk_store "monotonic_dominances" "monotonic_dominances" Direct None; mk_store "range_dominances" "range_dominances" Direct None; mk_store "joint_monotonicities" "joint_monotonicities" Direct None; mk_store "joint_unimodalities" "joint_unimodalities" Direct None; mk_store "output_min" "output_min" Direct None; mk_store "output_max" "output_max" Direct None; mk_store "num_projection_iterations" "num_projection_iterations" Direct None; mk_store "enforce_strict_monotonicity" "enforce_strict_monotonicity" Direct None].
Definition emits_LatticeConstraints : list emit :=
  [mk_emit "lattice_sizes" (Attr "lattice_sizes") None; mk_emit "monotonicities" (Attr "monotonicities") None; mk_emit "unimodalities" (Attr "unimodalities") None; mk_emit "edgeworth_trusts" (Attr "edgeworth_trusts") None; mk_emit "trapezoid_trusts" (Attr "trapezoid_trusts") None; mk_emit "monotonic_dominances" (Attr "monotonic_dominances") None; mk_emit "range_dominances" (Attr "range_dominances") None; mk_emit "joint_monotonicities" (Attr "joint_monotonicities") None; mk_emit "joint_unimodalities" (Attr "joint_unimodalities") None; mk_emit "output_min" (Attr "output_min") None; mk_emit "output_max" (Attr "output_max") None; mk_emit "num_projection_iterations" (Attr "num_projection_iterations") None; mk_emit "enforce_strict_monotonicity" (Attr "enforce_strict_monotonicity") None].
Definition desc_LatticeConstraints : class_desc :=
  mk_class "LatticeConstraints" "lattice_layer" "constraint" params_LatticeConstraints false [] stores_LatticeConstraints [] emits_LatticeConstraints NoBase [] None.
Definition init_names_LatticeConstraints : list string := param_names desc_LatticeConstraints.
Definition keys_LatticeConstraints : list string := emit_keys desc_LatticeConstraints.
Definition init_LatticeConstraints wrap_oracle (kw : kwargs) : cfg := init wrap_oracle desc_LatticeConstraints kw.
Definition get_config_LatticeConstraints ser (c : cfg) : kwargs := get_config ser desc_LatticeConstraints c.

(* ---- lattice_layer.TorsionRegularizer (regularizer) *)
Definition params_TorsionRegularizer : list (string * option value) :=
  [("lattice_sizes", None); ("l1", Some (VQ ((0)#1))); ("l2", Some (VQ ((0)#1)))].
Definition stores_TorsionRegularizer : list pstore :=
  [mk_store "lattice_sizes" "lattice_sizes" Direct None; mk_store "l1" "l1" Direct None; mk_store "l2" "l2" Direct None].
Definition emits_TorsionRegularizer : list emit :=
  [mk_emit "lattice_sizes" (Attr "lattice_sizes") None; mk_emit "l1" (Attr "l1") None; mk_emit "l2" (Attr "l2") None].
Definition desc_TorsionRegularizer : class_desc :=
  mk_class "TorsionRegularizer" "lattice_layer" "regularizer" params_TorsionRegularizer false [] stores_TorsionRegularizer [] emits_TorsionRegularizer NoBase [] None.
Definition init_names_TorsionRegularizer : list string := param_names desc_TorsionRegularizer.
Definition keys_TorsionRegularizer : list string := emit_keys desc_TorsionRegularizer.
Definition init_TorsionRegularizer wrap_oracle (kw : kwargs) : cfg := init wrap_oracle desc_TorsionRegularizer kw.
Definition get_config_TorsionRegularizer ser (c : cfg) : kwargs := get_config ser desc_TorsionRegularizer c.

(* ---- lattice_layer.LaplacianRegularizer (regularizer) *)
Definition params_lattice_layer_LaplacianRegularizer : list (string * option value) :=
  [("lattice_sizes", None); ("l1", Some (VQ ((0)#1))); ("l2", Some (VQ ((0)#1)))].
Definition stores_lattice_layer_LaplacianRegularizer : list pstore :=
  [mk_store "lattice_sizes" "lattice_sizes" Direct None; mk_store "l1" "l1" Direct None; mk_store "l2" "l2" Direct None].
Definition emits_lattice_layer_LaplacianRegularizer : list emit :=
  [mk_emit "lattice_sizes" (Attr "lattice_sizes") None; mk_emit "l1" (Attr "l1") None; mk_emit "l2" (Attr "l2") None].
Definition desc_lattice_layer_LaplacianRegularizer : class_desc :=
  mk_class "LaplacianRegularizer" "lattice_layer" "regularizer" params_lattice_layer_LaplacianRegularizer false [] stores_lattice_layer_LaplacianRegularizer [] emits_lattice_layer_LaplacianRegularizer NoBase [] None.
Definition init_names_lattice_layer_LaplacianRegularizer : list string := param_names desc_lattice_layer_LaplacianRegularizer.
Definition keys_lattice_layer_LaplacianRegularizer : list string := emit_keys desc_lattice_layer_LaplacianRegularizer.
Definition init_lattice_layer_LaplacianRegularizer wrap_oracle (kw : kwargs) : cfg := init wrap_oracle desc_lattice_layer_LaplacianRegularizer kw.
Definition get_config_lattice_layer_LaplacianRegularizer ser (c : cfg) : kwargs := get_config ser desc_lattice_layer_LaplacianRegularizer c.

(* ---- linear_layer.Linear (layer) *)
Definition params_Linear : list (string * option value) :=
  [("num_input_dims", None); ("units", Some (VInt (1)%Z)); ("monotonicities", Some VNone); ("monotonic_dominances", Some VNone); ("range_dominances", Some VNone); ("input_min", Some VNone); ("input_max", Some VNone); ("use_bias", Some (VBool true)); ("normalization_order", Some VNone); ("kernel_initializer", Some (VStr "random_uniform")); ("bias_initializer", Some (VStr "random_uniform")); ("kernel_regularizer", Some VNone); ("bias_regularizer", Some VNone)].
Definition stores_Linear : list pstore :=
  [mk_store "num_input_dims" "num_input_dims" Direct None; mk_store "units" "units" Direct None; mk_store "monotonicities" "monotonicities" (Wrapped "cases:list|expr") None; mk_store "monotonic_dominances" "monotonic_dominances" Direct None; mk_store "range_dominances" "range_dominances" Direct None; mk_store "input_min" "input_min" Direct None; mk_store "input_max" "input_max" Direct None; mk_store "use_bias" "use_bias" Direct None; mk_store "normalization_order" "normalization_order" Direct None; mk_store "kernel_initializer" "kernel_initializer" (Wrapped "keras.initializers.get") None; mk_store "bias_initializer" "bias_initializer" (Wrapped "keras.initializers.get") (Some "use_bias"); mk_store "kernel_regularizer" "kernel_regularizer" (Wrapped "rebound;list_of:keras.regularizers.get") None; mk_store "bias_regularizer" "bias_regularizer" (Wrapped "rebound;list_of:keras.regularizers.get") None].
Definition emits_Linear : list emit :=
  [mk_emit "num_input_dims" (Attr "num_input_dims") None; mk_emit "units" (Attr "units") None; mk_emit "monotonicities" (Attr "monotonicities") None; mk_emit "use_bias" (Attr "use_bias") None; mk_emit "normalization_order" (Attr "normalization_order") None; mk_emit "monotonic_dominances" (Attr "monotonic_dominances") None; mk_emit "range_dominances" (Attr "range_dominances") None; mk_emit "input_min" (Attr "input_min") None; mk_emit "input_max" (Attr "input_max") None; mk_emit "kernel_initializer" (Serialized "kernel_initializer") None; mk_emit "kernel_regularizer" (Serialized "kernel_regularizer") None; mk_emit "bias_initializer" (Serialized "bias_initializer") (Some "use_bias"); mk_emit "bias_regularizer" (Serialized "bias_regularizer") (Some "use_bias")].
Definition desc_Linear : class_desc :=
  mk_class "Linear" "linear_layer" "layer" params_Linear true keras_layer_keys stores_Linear [] emits_Linear BaseOverrides [] None.
Definition init_names_Linear : list string := param_names desc_Linear.
Definition keys_Linear : list string := emit_keys desc_Linear.
Definition init_Linear wrap_oracle (kw : kwargs) : cfg := init wrap_oracle desc_Linear kw.
Definition get_config_Linear ser (c : cfg) : kwargs := get_config ser desc_Linear c.

(* ---- linear_layer.LinearConstraints (constraint) *)
Definition params_LinearConstraints : list (string * option value) :=
  [("monotonicities", None); ("monotonic_dominances", Some VNone); ("range_dominances", Some VNone); ("input_min", Some VNone); ("input_max", Some VNone); ("normalization_order", Some VNone)].
Definition stores_LinearConstraints : list pstore :=
  [mk_store "monotonicities" "monotonicities" Direct None; mk_store "monotonic_dominances" "monotonic_dominances" Direct None; mk_store "range_dominances" "range_dominances" Direct None; mk_store "input_min" "input_min" Direct None; mk_store "input_max" "input_max" Direct None; mk_store "normalization_order" "normalization_order" Direct None].
Definition emits_LinearConstraints : list emit :=
  [mk_emit "monotonicities" (Attr "monotonicities") None; mk_emit "monotonic_dominances" (Attr "monotonic_dominances") None; mk_emit "range_dominances" (Attr "range_dominances") None; mk_emit "input_min" (Attr "input_min") None; mk_emit "input_max" (Attr "input_max") None; mk_emit "normalization_order" (Attr "normalization_order") None].
Definition desc_LinearConstraints : class_desc :=
  mk_class "LinearConstraints" "linear_layer" "constraint" params_LinearConstraints false [] stores_LinearConstraints [] emits_LinearConstraints NoBase [] None.
Definition init_names_LinearConstraints : list string := param_names desc_LinearConstraints.
Definition keys_LinearConstraints : list string := emit_keys desc_LinearConstraints.
Definition init_LinearConstraints wrap_oracle (kw : kwargs) : cfg := init wrap_oracle desc_LinearConstraints kw.
Definition get_config_LinearConstraints ser (c : cfg) : kwargs := get_config ser desc_LinearConstraints c.

(* ---- parallel_combination_layer.ParallelCombination (layer) *)
Definition params_ParallelCombination : list (string * option value) :=
  [("calibration_layers", Some VNone); ("single_output", Some (VBool true))].
Definition stores_ParallelCombination : list pstore :=
  [mk_store "calibration_layers" "calibration_layers" (Wrapped "list_of:var:calibration_layer|keras.layers.deserialize") None; mk_store "single_output" "single_output" Direct None].
Definition emits_ParallelCombination : list emit :=
  [mk_emit "calibration_layers" (Serialized "calibration_layers") None; mk_emit "single_output" (Attr "single_output") None].
Definition desc_ParallelCombination : class_desc :=
  mk_class "ParallelCombination" "parallel_combination_layer" "layer" params_ParallelCombination true keras_layer_keys stores_ParallelCombination [] emits_ParallelCombination BaseOverrides [] None.
Definition init_names_ParallelCombination : list string := param_names desc_ParallelCombination.
Definition keys_ParallelCombination : list string := emit_keys desc_ParallelCombination.
Definition init_ParallelCombination wrap_oracle (kw : kwargs) : cfg := init wrap_oracle desc_ParallelCombination kw.
Definition get_config_ParallelCombination ser (c : cfg) : kwargs := get_config ser desc_ParallelCombination c.

(* ---- premade.CalibratedLatticeEnsemble (model) *)
Definition params_CalibratedLatticeEnsemble : list (string * option value) :=
  [("model_config", Some VNone); ("dtype", Some (VObj "tf.float32" []))].
Definition stores_CalibratedLatticeEnsemble : list pstore :=
  [mk_store "model_config" "model_config" Direct None].
Definition emits_CalibratedLatticeEnsemble : list emit :=
  [mk_emit "name" (BaseAttr "name") None; mk_emit "trainable" (BaseAttr "trainable") None; mk_emit "model_config" (Serialized "model_config") None].
Definition desc_CalibratedLatticeEnsemble : class_desc :=
  mk_class "CalibratedLatticeEnsemble" "premade" "model" params_CalibratedLatticeEnsemble true keras_model_keys stores_CalibratedLatticeEnsemble ["dtype"] emits_CalibratedLatticeEnsemble NoBase ["model_config"] (Some ["model_config"; "name"; "trainable"]).
Definition init_names_CalibratedLatticeEnsemble : list string := param_names desc_CalibratedLatticeEnsemble.
Definition keys_CalibratedLatticeEnsemble : list string := emit_keys desc_CalibratedLatticeEnsemble.
Definition init_CalibratedLatticeEnsemble wrap_oracle (kw : kwargs) : cfg := init wrap_oracle desc_CalibratedLatticeEnsemble kw.
Definition get_config_CalibratedLatticeEnsemble ser (c : cfg) : kwargs := get_config ser desc_CalibratedLatticeEnsemble c.

(* ---- premade.CalibratedLattice (model) *)
Definition params_CalibratedLattice : list (string * option value) :=
  [("model_config", Some VNone); ("dtype", Some (VObj "tf.float32" []))].
Definition stores_CalibratedLattice : list pstore :=
  [mk_store "model_config" "model_config" Direct None].
Definition emits_CalibratedLattice : list emit :=
  [mk_emit "name" (BaseAttr "name") None; mk_emit "trainable" (BaseAttr "trainable") None; mk_emit "model_config" (Serialized "model_config") None].
Definition desc_CalibratedLattice : class_desc :=
  mk_class "CalibratedLattice" "premade" "model" params_CalibratedLattice true keras_model_keys stores_CalibratedLattice ["dtype"] emits_CalibratedLattice NoBase ["model_config"] (Some ["model_config"; "name"; "trainable"]).
Definition init_names_CalibratedLattice : list string := param_names desc_CalibratedLattice.
Definition keys_CalibratedLattice : list string := emit_keys desc_CalibratedLattice.
Definition init_CalibratedLattice wrap_oracle (kw : kwargs) : cfg := init wrap_oracle desc_CalibratedLattice kw.
Definition get_config_CalibratedLattice ser (c : cfg) : kwargs := get_config ser desc_CalibratedLattice c.

(* ---- premade.CalibratedLinear (model) *)
Definition params_CalibratedLinear : list (string * option value) :=
  [("model_config", Some VNone); ("dtype", Some (VObj "tf.float32" []))].
Definition stores_CalibratedLinear : list pstore :=
  [mk_store "model_config" "model_config" Direct None].
Definition emits_CalibratedLinear : list emit :=
  [mk_emit "name" (BaseAttr "name") None; mk_emit "trainable" (BaseAttr "trainable") None; mk_emit "model_config" (Serialized "model_config") None].
Definition desc_CalibratedLinear : class_desc :=
  mk_class "CalibratedLinear" "premade" "model" params_CalibratedLinear true keras_model_keys stores_CalibratedLinear ["dtype"] emits_CalibratedLinear NoBase ["model_config"] (Some ["model_config"; "name"; "trainable"]).
Definition init_names_CalibratedLinear : list string := param_names desc_CalibratedLinear.
Definition keys_CalibratedLinear : list string := emit_keys desc_CalibratedLinear.
Definition init_CalibratedLinear wrap_oracle (kw : kwargs) : cfg := init wrap_oracle desc_CalibratedLinear kw.
Definition get_config_CalibratedLinear ser (c : cfg) : kwargs := get_config ser desc_CalibratedLinear c.

(* ---- premade.AggregateFunction (model) *)
Definition params_AggregateFunction : list (string * option value) :=
  [("model_config", Some VNone); ("dtype", Some (VObj "tf.float32" []))].
Definition stores_AggregateFunction : list pstore :=
  [mk_store "model_config" "model_config" Direct None].
Definition emits_AggregateFunction : list emit :=
  [mk_emit "name" (BaseAttr "name") None; mk_emit "trainable" (BaseAttr "trainable") None; mk_emit "model_config" (Serialized "model_config") None].
Definition desc_AggregateFunction : class_desc :=
  mk_class "AggregateFunction" "premade" "model" params_AggregateFunction true keras_model_keys stores_AggregateFunction ["dtype"] emits_AggregateFunction NoBase ["model_config"] (Some ["model_config"; "name"; "trainable"]).
Definition init_names_AggregateFunction : list string := param_names desc_AggregateFunction.
Definition keys_AggregateFunction : list string := emit_keys desc_AggregateFunction.
Definition init_AggregateFunction wrap_oracle (kw : kwargs) : cfg := init wrap_oracle desc_AggregateFunction kw.
Definition get_config_AggregateFunction ser (c : cfg) : kwargs := get_config ser desc_AggregateFunction c.

(* ---- pwl_calibration_layer.PWLCalibration (layer) *)
Definition params_PWLCalibration : list (string * option value) :=
  [("input_keypoints", None); ("units", Some (VInt (1)%Z)); ("output_min", Some VNone); ("output_max", Some VNone); ("clamp_min", Some (VBool false)); ("clamp_max", Some (VBool false)); ("monotonicity", Some (VStr "none")); ("convexity", Some (VStr "none")); ("is_cyclic", Some (VBool false)); ("kernel_initializer", Some (VStr "equal_heights")); ("kernel_regularizer", Some VNone); ("impute_missing", Some (VBool false)); ("missing_input_value", Some VNone); ("missing_output_value", Some VNone); ("num_projection_iterations", Some (VInt (8)%Z)); ("split_outputs", Some (VBool false)); ("input_keypoints_type", Some (VStr "fixed"))].
Definition stores_PWLCalibration : list pstore :=
  [mk_store "input_keypoints" "input_keypoints" Direct None; mk_store "units" "units" Direct None; mk_store "output_min" "output_min" Direct None; mk_store "output_max" "output_max" Direct None; mk_store "clamp_min" "clamp_min" Direct None; mk_store "clamp_max" "clamp_max" Direct None; mk_store "monotonicity" "monotonicity" Direct None; mk_store "convexity" "convexity" Direct None; mk_store "is_cyclic" "is_cyclic" Direct None; mk_store "kernel_initializer" "kernel_initializer" (Wrapped "cases:keras.initializers.get") None; mk_store "kernel_regularizer" "kernel_regularizer" (Wrapped "rebound;list_of:LaplacianRegularizer|HessianRegularizer|WrinkleRegularizer|keras.regularizers.get") None; mk_store "impute_missing" "impute_missing" Direct None; mk_store "missing_input_value" "missing_input_value" Direct None; mk_store "missing_output_value" "missing_output_value" Direct None; mk_store "num_projection_iterations" "num_projection_iterations" Direct None; mk_store "split_outputs" "split_outputs" Direct None; mk_store "input_keypoints_type" "input_keypoints_type" Direct None].
Definition emits_PWLCalibration : list emit :=
  [mk_emit "input_keypoints" (Attr "input_keypoints") None; mk_emit "units" (Attr "units") None; mk_emit "output_min" (Attr "output_min") None; mk_emit "output_max" (Attr "output_max") None; mk_emit "clamp_min" (Attr "clamp_min") None; mk_emit "clamp_max" (Attr "clamp_max") None; mk_emit "monotonicity" (Attr "monotonicity") None; mk_emit "convexity" (Attr "convexity") None; mk_emit "is_cyclic" (Attr "is_cyclic") None; mk_emit "kernel_initializer" (Serialized "kernel_initializer") None; mk_emit "kernel_regularizer" (Serialized "kernel_regularizer") None; mk_emit "impute_missing" (Attr "impute_missing") None; mk_emit "missing_input_value" (Attr "missing_input_value") None; mk_emit "missing_output_value" (Attr "missing_output_value") None; mk_emit "num_projection_iterations" (Attr "num_projection_iterations") None; mk_emit "split_outputs" (Attr "split_outputs") None; mk_emit "input_keypoints_type" (Attr "input_keypoints_type") None].
Definition desc_PWLCalibration : class_desc :=
  mk_class "PWLCalibration" "pwl_calibration_layer" "layer" params_PWLCalibration true keras_layer_keys stores_PWLCalibration [] emits_PWLCalibration BaseOverrides [] None.
Definition init_names_PWLCalibration : list string := param_names desc_PWLCalibration.
Definition keys_PWLCalibration : list string := emit_keys desc_PWLCalibration.
Definition init_PWLCalibration wrap_oracle (kw : kwargs) : cfg := init wrap_oracle desc_PWLCalibration kw.
Definition get_config_PWLCalibration ser (c : cfg) : kwargs := get_config ser desc_PWLCalibration c.

(* ---- pwl_calibration_layer.UniformOutputInitializer (initializer) *)
Definition params_UniformOutputInitializer : list (string * option value) :=
  [("output_min", None); ("output_max", None); ("monotonicity", None); ("keypoints", Some VNone)].
Definition stores_UniformOutputInitializer : list pstore :=
  [mk_store "output_min" "output_min" Direct None; mk_store "output_max" "output_max" Direct None; mk_store "monotonicity" "monotonicity" Direct None; mk_store "keypoints" "keypoints" Direct None].
Definition emits_UniformOutputInitializer : list emit :=
  [mk_emit "output_min" (Attr "output_min") None; mk_emit "output_max" (Attr "output_max") None; mk_emit "monotonicity" (Attr "monotonicity") None; mk_emit "keypoints" (Attr "keypoints") None].
Definition desc_UniformOutputInitializer : class_desc :=
  mk_class "UniformOutputInitializer" "pwl_calibration_layer" "initializer" params_UniformOutputInitializer false [] stores_UniformOutputInitializer [] emits_UniformOutputInitializer NoBase [] None.
Definition init_names_UniformOutputInitializer : list string := param_names desc_UniformOutputInitializer.
Definition keys_UniformOutputInitializer : list string := emit_keys desc_UniformOutputInitializer.
Definition init_UniformOutputInitializer wrap_oracle (kw : kwargs) : cfg := init wrap_oracle desc_UniformOutputInitializer kw.
Definition get_config_UniformOutputInitializer ser (c : cfg) : kwargs := get_config ser desc_UniformOutputInitializer c.

(* ---- pwl_calibration_layer.PWLCalibrationConstraints (constraint) *)
Definition params_PWLCalibrationConstraints : list (string * option value) :=
  [("monotonicity", Some (VStr "none")); ("convexity", Some (VStr "none")); ("lengths", Some VNone); ("output_min", Some VNone); ("output_max", Some VNone); ("output_min_constraints", Some (VObj "pwl_calibration_lib.BoundConstraintsType.NONE" [])); ("output_max_constraints", Some (VObj "pwl_calibration_lib.BoundConstraintsType.NONE" [])); ("num_projection_iterations", Some (VInt (8)%Z))].
Definition stores_PWLCalibrationConstraints : list pstore :=
  [mk_store "monotonicity" "monotonicity" Direct None; mk_store "convexity" "convexity" Direct None; mk_store "lengths" "lengths" Direct None; mk_store "output_min" "output_min" Direct None; mk_store "output_max" "output_max" Direct None; mk_store "output_min_constraints" "output_min_constraints" Direct None; mk_store "output_max_constraints" "output_max_constraints" Direct None; mk_store "num_projection_iterations" "num_projection_iterations" Direct None].
Definition emits_PWLCalibrationConstraints : list emit :=
  [mk_emit "monotonicity" (Attr "monotonicity") None; mk_emit "output_min" (Attr "output_min") None; mk_emit "output_max" (Attr "output_max") None; mk_emit "output_min_constraints" (Attr "output_min_constraints") None; mk_emit "output_max_constraints" (Attr "output_max_constraints") None; mk_emit "convexity" (Attr "convexity") None; mk_emit "lengths" (Attr "lengths") None; mk_emit "num_projection_iterations" (Attr "num_projection_iterations") None].
Definition desc_PWLCalibrationConstraints : class_desc :=
  mk_class "PWLCalibrationConstraints" "pwl_calibration_layer" "constraint" params_PWLCalibrationConstraints false [] stores_PWLCalibrationConstraints [] emits_PWLCalibrationConstraints NoBase [] None.
Definition init_names_PWLCalibrationConstraints : list string := param_names desc_PWLCalibrationConstraints.
Definition keys_PWLCalibrationConstraints : list string := emit_keys desc_PWLCalibrationConstraints.
Definition init_PWLCalibrationConstraints wrap_oracle (kw : kwargs) : cfg := init wrap_oracle desc_PWLCalibrationConstraints kw.
Definition get_config_PWLCalibrationConstraints ser (c : cfg) : kwargs := get_config ser desc_PWLCalibrationConstraints c.

(* ---- pwl_calibration_layer.NaiveBoundsConstraints (constraint) *)
Definition params_NaiveBoundsConstraints : list (string * option value) :=
  [("lower_bound", Some VNone); ("upper_bound", Some VNone)].
Definition stores_NaiveBoundsConstraints : list pstore :=
  [mk_store "lower_bound" "lower_bound" Direct None; mk_store "upper_bound" "upper_bound" Direct None].
Definition emits_NaiveBoundsConstraints : list emit :=
  [mk_emit "lower_bound" (Attr "lower_bound") None; mk_emit "upper_bound" (Attr "upper_bound") None].
Definition desc_NaiveBoundsConstraints : class_desc :=
  mk_class "NaiveBoundsConstraints" "pwl_calibration_layer" "constraint" params_NaiveBoundsConstraints false [] stores_NaiveBoundsConstraints [] emits_NaiveBoundsConstraints NoBase [] None.
Definition init_names_NaiveBoundsConstraints : list string := param_names desc_NaiveBoundsConstraints.
Definition keys_NaiveBoundsConstraints : list string := emit_keys desc_NaiveBoundsConstraints.
Definition init_NaiveBoundsConstraints wrap_oracle (kw : kwargs) : cfg := init wrap_oracle desc_NaiveBoundsConstraints kw.
Definition get_config_NaiveBoundsConstraints ser (c : cfg) : kwargs := get_config ser desc_NaiveBoundsConstraints c.

(* ---- pwl_calibration_layer.LaplacianRegularizer (regularizer) *)
Definition params_pwl_calibration_layer_LaplacianRegularizer : list (string * option value) :=
  [("l1", Some (VQ ((0)#1))); ("l2", Some (VQ ((0)#1))); ("is_cyclic", Some (VBool false))].
Definition stores_pwl_calibration_layer_LaplacianRegularizer : list pstore :=
  [mk_store "l1" "l1" Direct None; mk_store "l2" "l2" Direct None; mk_store "is_cyclic" "is_cyclic" Direct None].
Definition emits_pwl_calibration_layer_LaplacianRegularizer : list emit :=
  [mk_emit "l1" (Attr "l1") None; mk_emit "l2" (Attr "l2") None; mk_emit "is_cyclic" (Attr "is_cyclic") None].
Definition desc_pwl_calibration_layer_LaplacianRegularizer : class_desc :=
  mk_class "LaplacianRegularizer" "pwl_calibration_layer" "regularizer" params_pwl_calibration_layer_LaplacianRegularizer false [] stores_pwl_calibration_layer_LaplacianRegularizer [] emits_pwl_calibration_layer_LaplacianRegularizer NoBase [] None.
Definition init_names_pwl_calibration_layer_LaplacianRegularizer : list string := param_names desc_pwl_calibration_layer_LaplacianRegularizer.
Definition keys_pwl_calibration_layer_LaplacianRegularizer : list string := emit_keys desc_pwl_calibration_layer_LaplacianRegularizer.
Definition init_pwl_calibration_layer_LaplacianRegularizer wrap_oracle (kw : kwargs) : cfg := init wrap_oracle desc_pwl_calibration_layer_LaplacianRegularizer kw.
Definition get_config_pwl_calibration_layer_LaplacianRegularizer ser (c : cfg) : kwargs := get_config ser desc_pwl_calibration_layer_LaplacianRegularizer c.

(* ---- pwl_calibration_layer.HessianRegularizer (regularizer) *)
Definition params_HessianRegularizer : list (string * option value) :=
  [("l1", Some (VQ ((0)#1))); ("l2", Some (VQ ((0)#1))); ("is_cyclic", Some (VBool false))].
Definition stores_HessianRegularizer : list pstore :=
  [mk_store "l1" "l1" Direct None; mk_store "l2" "l2" Direct None; mk_store "is_cyclic" "is_cyclic" Direct None].
Definition emits_HessianRegularizer : list emit :=
  [mk_emit "l1" (Attr "l1") None; mk_emit "l2" (Attr "l2") None; mk_emit "is_cyclic" (Attr "is_cyclic") None].
Definition desc_HessianRegularizer : class_desc :=
  mk_class "HessianRegularizer" "pwl_calibration_layer" "regularizer" params_HessianRegularizer false [] stores_HessianRegularizer [] emits_HessianRegularizer NoBase [] None.
Definition init_names_HessianRegularizer : list string := param_names desc_HessianRegularizer.
Definition keys_HessianRegularizer : list string := emit_keys desc_HessianRegularizer.
Definition init_HessianRegularizer wrap_oracle (kw : kwargs) : cfg := init wrap_oracle desc_HessianRegularizer kw.
Definition get_config_HessianRegularizer ser (c : cfg) : kwargs := get_config ser desc_HessianRegularizer c.

(* ---- pwl_calibration_layer.WrinkleRegularizer (regularizer) *)
Definition params_WrinkleRegularizer : list (string * option value) :=
  [("l1", Some (VQ ((0)#1))); ("l2", Some (VQ ((0)#1))); ("is_cyclic", Some (VBool false))].
Definition stores_WrinkleRegularizer : list pstore :=
  [mk_store "l1" "l1" Direct None; mk_store "l2" "l2" Direct None; mk_store "is_cyclic" "is_cyclic" Direct None].
Definition emits_WrinkleRegularizer : list emit :=
  [mk_emit "l1" (Attr "l1") None; mk_emit "l2" (Attr "l2") None; mk_emit "is_cyclic" (Attr "is_cyclic") None].
Definition desc_WrinkleRegularizer : class_desc :=
  mk_class "WrinkleRegularizer" "pwl_calibration_layer" "regularizer" params_WrinkleRegularizer false [] stores_WrinkleRegularizer [] emits_WrinkleRegularizer NoBase [] None.
Definition init_names_WrinkleRegularizer : list string := param_names desc_WrinkleRegularizer.
Definition keys_WrinkleRegularizer : list string := emit_keys desc_WrinkleRegularizer.
Definition init_WrinkleRegularizer wrap_oracle (kw : kwargs) : cfg := init wrap_oracle desc_WrinkleRegularizer kw.
Definition get_config_WrinkleRegularizer ser (c : cfg) : kwargs := get_config ser desc_WrinkleRegularizer c.

(* ---- rtl_layer.RTL (layer) *)
Definition params_RTL : list (string * option value) :=
  [("num_lattices", None); ("lattice_rank", None); ("lattice_size", Some (VInt (2)%Z)); ("output_min", Some VNone); ("output_max", Some VNone); ("init_min", Some VNone); ("init_max", Some VNone); ("separate_outputs", Some (VBool false)); ("random_seed", Some (VInt (42)%Z)); ("num_projection_iterations", Some (VInt (10)%Z)); ("monotonic_at_every_step", Some (VBool true)); ("clip_inputs", Some (VBool true)); ("interpolation", Some (VStr "hypercube")); ("parameterization", Some (VStr "all_vertices")); ("num_terms", Some (VInt (2)%Z)); ("avoid_intragroup_interaction", Some (VBool true)); ("kernel_initializer", Some (VStr "random_monotonic_initializer")); ("kernel_regularizer", Some VNone); ("average_outputs", Some (VBool false))].
Definition stores_RTL : list pstore :=
  [mk_store "num_lattices" "num_lattices" Direct None; mk_store "lattice_rank" "lattice_rank" Direct None; mk_store "lattice_size" "lattice_size" Direct None; mk_store "output_min" "output_min" Direct None; mk_store "output_max" "output_max" Direct None; mk_store "init_min" "init_min" Direct None; mk_store "init_max" "init_max" Direct None; mk_store "separate_outputs" "separate_outputs" Direct None; mk_store "random_seed" "random_seed" Direct None; mk_store "num_projection_iterations" "num_projection_iterations" Direct None; mk_store "monotonic_at_every_step" "monotonic_at_every_step" Direct None; mk_store "clip_inputs" "clip_inputs" Direct None; mk_store "interpolation" "interpolation" Direct None; mk_store "parameterization" "parameterization" Direct None; mk_store "num_terms" "num_terms" Direct None; mk_store "avoid_intragroup_interaction" "avoid_intragroup_interaction" Direct None; mk_store "kernel_initializer" "kernel_initializer" Direct None; mk_store "kernel_regularizer" "kernel_regularizer" Direct None; mk_store "average_outputs" "average_outputs" Direct None].
Definition emits_RTL : list emit :=
  [mk_emit "num_lattices" (Attr "num_lattices") None; mk_emit "lattice_rank" (Attr "lattice_rank") None; mk_emit "lattice_size" (Attr "lattice_size") None; mk_emit "output_min" (Attr "output_min") None; mk_emit "output_max" (Attr "output_max") None; mk_emit "init_min" (Attr "init_min") None; mk_emit "init_max" (Attr "init_max") None; mk_emit "separate_outputs" (Attr "separate_outputs") None; mk_emit "random_seed" (Attr "random_seed") None; mk_emit "num_projection_iterations" (Attr "num_projection_iterations") None; mk_emit "monotonic_at_every_step" (Attr "monotonic_at_every_step") None; mk_emit "clip_inputs" (Attr "clip_inputs") None; mk_emit "interpolation" (Attr "interpolation") None; mk_emit "parameterization" (Attr "parameterization") None; mk_emit "num_terms" (Attr "num_terms") None; mk_emit "avoid_intragroup_interaction" (Attr "avoid_intragroup_interaction") None; mk_emit "kernel_initializer" (Attr "kernel_initializer") None; mk_emit "kernel_regularizer" (Attr "kernel_regularizer") None; mk_emit "average_outputs" (Attr "average_outputs") None].
Definition desc_RTL : class_desc :=
  mk_class "RTL" "rtl_layer" "layer" params_RTL true keras_layer_keys stores_RTL [] emits_RTL OwnOverrides [] None.
Definition init_names_RTL : list string := param_names desc_RTL.
Definition keys_RTL : list string := emit_keys desc_RTL.
Definition init_RTL wrap_oracle (kw : kwargs) : cfg := init wrap_oracle desc_RTL kw.
Definition get_config_RTL ser (c : cfg) : kwargs := get_config ser desc_RTL c.

Definition all_classes : list class_desc :=
  [desc_Aggregation; desc_CategoricalCalibration; desc_CategoricalCalibrationConstraints; desc_CDF; desc_CalibratedLatticeEnsembleConfig; desc_CalibratedLatticeConfig; desc_CalibratedLinearConfig; desc_AggregateFunctionConfig; desc_FeatureConfig; desc_RegularizerConfig; desc_TrustConfig; desc_DominanceConfig; desc_KroneckerFactoredLattice; desc_KFLRandomMonotonicInitializer; desc_ScaleInitializer; desc_BiasInitializer; desc_KroneckerFactoredLatticeConstraints; desc_ScaleConstraints; desc_Lattice; desc_LinearInitializer; desc_RandomMonotonicInitializer; desc_LatticeConstraints; desc_TorsionRegularizer; desc_lattice_layer_LaplacianRegularizer; desc_Linear; desc_LinearConstraints; desc_ParallelCombination; desc_CalibratedLatticeEnsemble; desc_CalibratedLattice; desc_CalibratedLinear; desc_AggregateFunction; desc_PWLCalibration; desc_UniformOutputInitializer; desc_PWLCalibrationConstraints; desc_NaiveBoundsConstraints; desc_pwl_calibration_layer_LaplacianRegularizer; desc_HessianRegularizer; desc_WrinkleRegularizer; desc_RTL].
(* premade.get_custom_objects: registered name -> defining module *)
Definition custom_objects : list (string * string) :=
  [("AggregateFunction", "premade"); ("AggregateFunctionConfig", "configs"); ("Aggregation", "aggregation_layer"); ("BiasInitializer", "kronecker_factored_lattice_layer"); ("CalibratedLatticeEnsemble", "premade"); ("CDF", "cdf_layer"); ("CalibratedLattice", "premade"); ("CalibratedLatticeConfig", "configs"); ("CalibratedLatticeEnsembleConfig", "configs"); ("CalibratedLinear", "premade"); ("CalibratedLinearConfig", "configs"); ("CategoricalCalibration", "categorical_calibration_layer"); ("CategoricalCalibrationConstraints", "categorical_calibration_layer"); ("DominanceConfig", "configs"); ("FeatureConfig", "configs"); ("KFLRandomMonotonicInitializer", "kronecker_factored_lattice_layer"); ("KroneckerFactoredLattice", "kronecker_factored_lattice_layer"); ("KroneckerFactoredLatticeConstraints", "kronecker_factored_lattice_layer"); ("LaplacianRegularizer", "lattice_layer"); ("Lattice", "lattice_layer"); ("LatticeConstraints", "lattice_layer"); ("Linear", "linear_layer"); ("LinearConstraints", "linear_layer"); ("LinearInitializer", "lattice_layer"); ("NaiveBoundsConstraints", "pwl_calibration_layer"); ("ParallelCombination", "parallel_combination_layer"); ("PWLCalibration", "pwl_calibration_layer"); ("PWLCalibrationConstraints", "pwl_calibration_layer"); ("RandomMonotonicInitializer", "lattice_layer"); ("RegularizerConfig", "configs"); ("RTL", "rtl_layer"); ("ScaleConstraints", "kronecker_factored_lattice_layer"); ("ScaleInitializer", "kronecker_factored_lattice_layer"); ("TorsionRegularizer", "lattice_layer"); ("TrustConfig", "configs")].
