#!/bin/sh
# Regenerates _CoqProject (all .v files of the development) and the Makefile.
cd "$(dirname "$0")" || exit 1
(
flock 9
tmp=_CoqProject.new.$$
{
  echo "-Q . TFL"
  echo "-arg -w -arg -deprecated-hint-without-locality,-deprecated-instance-without-locality,-notation-overridden"
  find Base Model Proofs Props Harness Gen -name '*.v' | LC_ALL=C sort
} > $tmp
if ! cmp -s $tmp _CoqProject; then mv $tmp _CoqProject; coq_makefile -f _CoqProject -o Makefile >/dev/null; else rm $tmp; fi
[ -f Makefile ] || coq_makefile -f _CoqProject -o Makefile >/dev/null
) 9>.configure.lock
