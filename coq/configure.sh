#!/bin/sh
# Regenerates _CoqProject (all .v files of the development) and the Makefile.
cd "$(dirname "$0")" || exit 1
{
  echo "-Q . TFL"
  echo "-arg -w -arg -deprecated-hint-without-locality,-deprecated-instance-without-locality,-notation-overridden"
  find Base Model Proofs Props Harness Gen -name '*.v' | LC_ALL=C sort
} > _CoqProject.new
if ! cmp -s _CoqProject.new _CoqProject; then mv _CoqProject.new _CoqProject; coq_makefile -f _CoqProject -o Makefile >/dev/null; else rm _CoqProject.new; fi
[ -f Makefile ] || coq_makefile -f _CoqProject -o Makefile >/dev/null
