(* Model of linear_lib.project (one column of the (dims, units) weight matrix;
   the code is elementwise across units except tf.norm(axis=0), which is per
   column) and of categorical_calibration_lib.project. *)
From TFL Require Export Model.PartialOrder.
From Coq Require Export Qround.
Open Scope Q_scope.

Definition swap_pairs (ps : pairs) : pairs := map (fun p => (snd p, fst p)) ps.

(* tf.maximum(w, w * mask) with mask 0 on increasing dims, then
   tf.minimum(w, w * mask) with mask 0 on decreasing dims *)
Definition sign_clip (ms : list Z) (w : list Q) : list Q :=
  map2 (fun m x => if (m =? 1)%Z then qmax x (x * 0) else if (m =? -1)%Z then qmin x (x * 0) else x) ms w.

(* scalings[dim] = (-1 if m == -1 else 1) * (upper - lower if both set and upper > lower) *)
Definition scaling (m : Z) (lo hi : option Q) : Q :=
  let base := if (m =? -1)%Z then -(1) else 1 in
  match lo, hi with
  | Some l, Some h => if qlt l h then base * (h - l) else base
  | _, _ => base
  end.
Fixpoint scalings (ms : list Z) (los his : list (option Q)) : list Q :=
  match ms, los, his with
  | m :: ms', lo :: los', hi :: his' => scaling m lo hi :: scalings ms' los' his'
  | _, _, _ => []
  end.

(* a Newton iteration for the square root, truncated to multiples of 2^-80:
   only used to EXECUTE the order-2 norm; theorems treat the root as an oracle *)
Definition qtrunc (x : Q) : Q := Qred (Qfloor (x * inject_Z (2 ^ 80)) # (2 ^ 80)).
Fixpoint newton (n : nat) (a y : Q) : Q :=
  match n with O => y | S n' => newton n' a (qtrunc ((y + a / y) * (1#2))) end.
Definition qsqrt (a : Q) : Q := if Qle_bool a 0 then 0 else newton 60 a (1 + a).

Definition norm_eps : Q := 1 # 100000000.
Definition col_norm (rt : Q -> Q) (order : nat) (w : list Q) : Q :=
  match order with
  | 1%nat => qsum (map qabs w)
  | _ => rt (qsum (map (fun x => x * x) w))
  end.
(* norm = tf.where(norm < eps, 1.0, norm); weights / norm *)
Definition normalize (rt : Q -> Q) (order : nat) (w : list Q) : list Q :=
  match order with
  | O => w
  | _ => let n := col_norm rt order w in
         let n' := if qlt n norm_eps then 1 else n in
         map (fun x => Qred (x / n')) w
  end.

Record lin_cfg := mkLin {
  lc_monos : list Z;
  lc_mdom : pairs;              (* (dominant, weak) *)
  lc_rdom : pairs;              (* (dominant, weak) *)
  lc_min : list (option Q);
  lc_max : list (option Q);
  lc_norm : nat                 (* 0 = none, 1, 2 *)
}.

(* None = the code raises ValueError from the topological sort *)
Definition lin_project_col (rt : Q -> Q) (c : lin_cfg) (w : list Q) : option (list Q) :=
  let w1 := sign_clip (lc_monos c) w in
  match (match lc_mdom c with [] => Some w1 | _ => po_project (swap_pairs (lc_mdom c)) w1 end) with
  | None => None
  | Some w2 =>
    match (match lc_rdom c with
           | [] => Some w2
           | _ => let sc := scalings (lc_monos c) (lc_min c) (lc_max c) in
                  match po_project (swap_pairs (lc_rdom c)) (map2 Qmult w2 sc) with
                  | Some p => Some (map2 (fun x s => Qred (x / s)) p sc)
                  | None => None
                  end
           end) with
    | None => None
    | Some w3 => Some (normalize rt (lc_norm c) w3)
    end
  end.

Definition opt_map_all {A B} (f : A -> option B) (l : list A) : option (list B) :=
  fold_right (fun a acc => match f a, acc with Some b, Some r => Some (b :: r) | _, _ => None end) (Some []) l.

(* the (dims, units) matrix, given by rows, projected column by column *)
Definition lin_project (rt : Q -> Q) (c : lin_cfg) (units : nat) (W : list (list Q)) : option (list (list Q)) :=
  match opt_map_all (fun u => lin_project_col rt c (column u W)) (seq 0 units) with
  | Some cols => Some (transpose (length W) cols)
  | None => None
  end.

(* categorical_calibration_lib.project on one column *)
Definition cat_project_col (ps : pairs) (lo hi : option Q) (w : list Q) : option (list Q) :=
  match (match ps with [] => Some w | _ => po_project ps w end) with
  | None => None
  | Some p => Some (map (fun x => clip_hi hi (clip_lo lo x)) p)
  end.
Definition cat_project (ps : pairs) (lo hi : option Q) (units : nat) (W : list (list Q)) : option (list (list Q)) :=
  match opt_map_all (fun u => cat_project_col ps lo hi (column u W)) (seq 0 units) with
  | Some cols => Some (transpose (length W) cols)
  | None => None
  end.
