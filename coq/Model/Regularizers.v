(* Model of the five regularizers (property C13).  Definitions only.

   Part A (code-shaped) mirrors
     pwl_calibration_layer.py  LaplacianRegularizer / HessianRegularizer /
                               WrinkleRegularizer .__call__
     lattice_lib.py            laplacian_regularizer / torsion_regularizer
   as they are: Python truthiness of the amounts, early returns, the
   `losses` list, `x[1:] - x[:-1]` slicing, the concatenated wrap-around rows,
   the `< 3 rows` rule, scalar amounts broadcast to every dimension, units
   appended as an extra dimension with amount 0, per-dimension skipping.
   transpose(dim to front) + reshape([size, -1]) is modelled by its index-level
   meaning (row k = all entries whose coordinate `dim` is k).

   Part B (doc-shaped) writes the documented formulas independently: PWL
   regularizers as l1/l2 norms of first/second/third differences of the
   KEYPOINT OUTPUTS (cumulative sums of the kernel column, indices wrapping
   modulo the number of keypoints when cyclic); lattice regularizers as sums over
   vertices v of the (prod(sizes), units) kernel matrix, over dimensions d with
   v+e_d inside the lattice (Laplacian), over pairs i<j with v+e_i+e_j inside
   (torsion). *)
From TFL Require Export Base.Lists Base.Tensor.
Open Scope Q_scope.

Definition row := list Q.
Definition sq (x : Q) : Q := x * x.
(* Python truthiness of a float amount: `if l1:` *)
Definition nz (q : Q) : bool := negb (Qeq_bool q 0).

Definition rsub (a b : row) : row := map2 Qminus a b.
Definition radd (a b : row) : row := map2 Qplus a b.
Definition rneg (r : row) : row := map Qopp r.
(* reduce_sum(f(.)) over a vector / matrix / 3-D block *)
Definition sum1 (f : Q -> Q) (r : row) : Q := qsum (map f r).
Definition sum2 (f : Q -> Q) (m : list row) : Q := qsum (map (sum1 f) m).
Definition sum3 (f : Q -> Q) (p : list (list row)) : Q := qsum (map (sum2 f) p).
(* m[1:] - m[:-1] *)
Definition sl_diff (m : list row) : list row := map2 rsub (tl m) (removelast m).
(* tf.reduce_sum(m, axis=0, keepdims=True)[0] for a (rows, units) matrix *)
Definition col_sums (units : nat) (m : list row) : row := map (fun u => qsum (column u m)) (seq 0 units).

(* ------------------------------------------------------------------ *)
(* A.1  PWL calibration regularizers (code-shaped)                     *)
(* ------------------------------------------------------------------ *)

(* losses = []; if l1: losses.append(l1 * sum|m|); if l2: losses.append(l2 * sum m^2);
   result = losses[0]; if len(losses) == 2: result += losses[1] *)
Definition pwl_losses (l1 l2 : Q) (m : list row) : Q :=
  let losses := (if nz l1 then [l1 * sum2 qabs m] else []) ++ (if nz l2 then [l2 * sum2 sq m] else []) in
  match losses with
  | [a] => a
  | a :: b :: _ => a + b
  | [] => 0
  end.

(* x : kernel of shape (k, units); row 0 = bias, rows 1.. = heights *)
Definition pwl_laplacian (l1 l2 : Q) (cyclic : bool) (units : nat) (x : list row) : Q :=
  if negb (nz l1) && negb (nz l2) then 0 else
  let heights := tl x in
  let heights := if cyclic then heights ++ [rneg (col_sums units heights)] else heights in
  pwl_losses l1 l2 heights.

Definition pwl_nonlinearity (cyclic : bool) (units : nat) (x : list row) (extra : list row) : list row :=
  if cyclic then
    let heights := tl x in
    sl_diff (heights ++ [rneg (col_sums units heights)] ++ firstn 1 heights ++ extra)
  else map2 rsub (skipn 2 x) (removelast (tl x)).           (* x[2:] - x[1:-1] *)

Definition pwl_hessian (l1 l2 : Q) (cyclic : bool) (units : nat) (x : list row) : Q :=
  if negb (nz l1) && negb (nz l2) then 0 else
  pwl_losses l1 l2 (pwl_nonlinearity cyclic units x []).

Definition pwl_wrinkle (l1 l2 : Q) (cyclic : bool) (units : nat) (x : list row) : Q :=
  if negb (nz l1) && negb (nz l2) then 0 else
  if (length x <? 3)%nat then 0 else
  let nonlinearity := pwl_nonlinearity cyclic units x (firstn 1 (skipn 1 (tl x))) in   (* + heights[1:2] *)
  pwl_losses l1 l2 (sl_diff nonlinearity).

(* ------------------------------------------------------------------ *)
(* A.2  Lattice regularizers (code-shaped)                             *)
(* ------------------------------------------------------------------ *)

(* l1 / l2 argument: a single float, or a list / tuple of floats *)
Inductive amount := Scalar (q : Q) | PerDim (l : list Q).
Definition truthy (a : amount) : bool :=
  match a with Scalar q => nz q | PerDim [] => false | PerDim _ => true end.

(* weights.reshape(shape) for the row-major flat kernel *)
Definition reshape (shape : list nat) (w : list Q) : tens := of_list shape w.

(* transpose(dim d to front) ; reshape([shape[d], -1]) *)
Definition rest_idx (shape : list nat) (d : nat) : list idx := all_idx (upd shape d 1%nat).
Definition slices (shape : list nat) (d : nat) (W : tens) : list row :=
  map (fun k => map (fun r => W (upd r d k)) (rest_idx shape d)) (seq 0 (nth d shape 0%nat)).

(* Laplacian: amounts after `if l1 and not isinstance(l1, (list, tuple)): l1 = [l1] * rank`;
   None stands for a falsy amount (0.0 or an empty list) *)
Definition lap_norm (rank : nat) (a : amount) : option (list Q) :=
  match a with
  | Scalar q => if nz q then Some (repeat q rank) else None
  | PerDim [] => None
  | PerDim l => Some l
  end.
(* `if l1: l1 = list(l1) + [0.0]` *)
Definition append_zero (a : option (list Q)) : option (list Q) := option_map (fun l => l ++ [0]) a.
(* `not l1 or not l1[dim]` *)
Definition dim_off (a : option (list Q)) (d : nat) : bool :=
  match a with None => true | Some l => negb (nz (nth d l 0)) end.

Definition lap_dim (shape : list nat) (a1 a2 : option (list Q)) (W : tens) (d : nat) : Q :=
  if dim_off a1 d && dim_off a2 d then 0 (* continue *) else
  let diff := sl_diff (slices shape d W) in
  (match a1 with Some l => sum2 qabs diff * nth d l 0 | None => 0 end) +
  (match a2 with Some l => sum2 sq diff * nth d l 0 | None => 0 end).

(* the `for dim in range(rank): result += ...` loop *)
Definition lap_core (shape : list nat) (a1 a2 : option (list Q)) (W : tens) : Q :=
  qsum (map (lap_dim shape a1 a2 W) (seq 0 (length shape))).

(* w : the (prod(sizes), units) kernel flattened row-major *)
Definition lattice_laplacian (sizes : list nat) (units : nat) (l1 l2 : amount) (w : list Q) : Q :=
  if negb (truthy l1) && negb (truthy l2) then 0 else
  let rank := length sizes in
  let a1 := lap_norm rank l1 in
  let a2 := lap_norm rank l2 in
  if (1 <? units)%nat then
    let shape := sizes ++ [units] in
    lap_core shape (append_zero a1) (append_zero a2) (reshape shape w)
  else lap_core sizes a1 a2 (reshape sizes w).

(* Torsion: per-dimension factors.  A scalar amount becomes [sqrt(l)] * rank;
   only products of two factors are ever used and sqrt(l)*sqrt(l) = l, so the
   model keeps the scalar and the number of dimensions it was broadcast to
   (TSqrt q rank): the product of two broadcast factors is q, the product
   with the factor 0.0 appended for the units dimension is 0.
   Proofs/Regularizers.v shows that any s with s*s == q used literally as
   [s]*rank gives the same result (tors_sqrt_oracle). *)
Inductive tfac := TNone | TSqrt (q : Q) (rank : nat) | TList (l : list Q).
Definition tors_norm (rank : nat) (a : amount) : tfac :=
  match a with
  | Scalar q => if nz q then TSqrt q rank else TNone
  | PerDim [] => TNone
  | PerDim l => TList l
  end.
Definition tors_append_zero (t : tfac) : tfac :=
  match t with TList l => TList (l ++ [0]) | _ => t end.
(* l[i] * l[j] *)
Definition pair_weight (t : tfac) (i j : nat) : Q :=
  match t with
  | TNone => 0
  | TSqrt q r => if (i <? r)%nat && (j <? r)%nat then q else 0
  | TList l => nth i l 0 * nth j l 0
  end.
(* `not l or not l[i] or not l[j]` *)
Definition pair_off (t : tfac) (i j : nat) : bool :=
  match t with
  | TNone => true
  | TSqrt q r => negb ((i <? r)%nat && (j <? r)%nat)      (* sqrt(q) <> 0 because q <> 0 *)
  | TList l => negb (nz (nth i l 0)) || negb (nz (nth j l 0))
  end.

(* transpose(i, j to front) ; reshape([shape[i], shape[j], -1]) *)
Definition planes (shape : list nat) (i j : nat) (W : tens) : list (list row) :=
  map (fun a => map (fun b => map (fun r => W (upd (upd r i a) j b))
                                  (all_idx (upd (upd shape i 1%nat) j 1%nat)))
                    (seq 0 (nth j shape 0%nat)))
      (seq 0 (nth i shape 0%nat)).
Definition op3 (f : Q -> Q -> Q) (a b : list (list row)) : list (list row) := map2 (map2 (map2 f)) a b.
Definition twist_block (p : list (list row)) : list (list row) :=
  let a00 := map (@removelast row) (removelast p) in
  let a01 := map (@tl row) (removelast p) in
  let a10 := map (@removelast row) (tl p) in
  let a11 := map (@tl row) (tl p) in
  op3 Qminus (op3 Qminus (op3 Qplus a00 a11) a01) a10.

Definition tors_pair (shape : list nat) (t1 t2 : tfac) (W : tens) (ij : nat * nat) : Q :=
  let (i, j) := ij in
  if pair_off t1 i j && pair_off t2 i j then 0 (* continue *) else
  let torsion := twist_block (planes shape i j W) in
  (match t1 with TNone => 0 | _ => sum3 qabs torsion * pair_weight t1 i j end) +
  (match t2 with TNone => 0 | _ => sum3 sq torsion * pair_weight t2 i j end).

(* for i in range(rank - 1): for j in range(i + 1, rank) *)
Definition dim_pairs (rank : nat) : list (nat * nat) :=
  flat_map (fun i => map (pair i) (seq (S i) (rank - S i))) (seq 0 (rank - 1)).

Definition tors_core (shape : list nat) (t1 t2 : tfac) (W : tens) : Q :=
  qsum (map (tors_pair shape t1 t2 W) (dim_pairs (length shape))).

Definition lattice_torsion (sizes : list nat) (units : nat) (l1 l2 : amount) (w : list Q) : Q :=
  let rank := length sizes in
  if (rank =? 1)%nat || (negb (truthy l1) && negb (truthy l2)) then 0 else
  let t1 := tors_norm rank l1 in
  let t2 := tors_norm rank l2 in
  if (1 <? units)%nat then
    let shape := sizes ++ [units] in
    tors_core shape (tors_append_zero t1) (tors_append_zero t2) (reshape shape w)
  else tors_core sizes t1 t2 (reshape sizes w).

(* ------------------------------------------------------------------ *)
(* B.1  PWL regularizers, documented formulas                          *)
(* ------------------------------------------------------------------ *)

(* output_keypoints of one unit: y_0 = bias, y_i = y_(i-1) + height_i *)
Fixpoint cumsum_from (acc : Q) (c : list Q) : list Q :=
  match c with [] => [] | a :: r => (acc + a) :: cumsum_from (acc + a) r end.
Definition keypoint_outputs (c : list Q) : list Q := cumsum_from 0 c.

(* y[i]; when cyclic the index wraps around *)
Definition out_at (cyclic : bool) (y : list Q) (i : nat) : Q :=
  nth (if cyclic then i mod length y else i) y 0.
(* output_keypoints[1:end] - output_keypoints[0:end-1] *)
Definition first_diff (cyclic : bool) (y : list Q) (i : nat) : Q :=
  out_at cyclic y (i + 1) - out_at cyclic y i.
(* 2 * output_keypoints[1:end-1] - output_keypoints[0:end-2] - output_keypoints[2:end] *)
Definition second_diff (cyclic : bool) (y : list Q) (i : nat) : Q :=
  2 * out_at cyclic y (i + 1) - out_at cyclic y i - out_at cyclic y (i + 2).
(* 3 * output_keypoints[1:end-2] - 3 * output_keypoints[2:end-1]
   - output_keypoints[0:end-3] + output_keypoints[3:end] *)
Definition third_diff (cyclic : bool) (y : list Q) (i : nat) : Q :=
  3 * out_at cyclic y (i + 1) - 3 * out_at cyclic y (i + 2) - out_at cyclic y i + out_at cyclic y (i + 3).

(* l1 * ||t||_1 + l2 * ||t||_2^2 *)
Definition doc_norms (l1 l2 : Q) (t : list Q) : Q := l1 * qsum (map qabs t) + l2 * qsum (map sq t).
(* number of differences of the given order: k - order, or k (one per keypoint) when cyclic *)
Definition n_terms (cyclic : bool) (k order : nat) : nat := if cyclic then k else (k - order)%nat.

Definition doc_pwl_unit (diff : bool -> list Q -> nat -> Q) (order : nat) (l1 l2 : Q) (cyclic : bool)
           (c : list Q) : Q :=
  let y := keypoint_outputs c in
  doc_norms l1 l2 (map (diff cyclic y) (seq 0 (n_terms cyclic (length y) order))).
(* all units: the penalties of the units add up *)
Definition doc_pwl (diff : bool -> list Q -> nat -> Q) (order : nat) (l1 l2 : Q) (cyclic : bool)
           (units : nat) (x : list row) : Q :=
  qsum (map (fun u => doc_pwl_unit diff order l1 l2 cyclic (column u x)) (seq 0 units)).
Definition doc_pwl_laplacian := doc_pwl first_diff 1.
Definition doc_pwl_hessian := doc_pwl second_diff 2.
Definition doc_pwl_wrinkle := doc_pwl third_diff 3.

(* ------------------------------------------------------------------ *)
(* B.2  Lattice regularizers, documented formulas                      *)
(* ------------------------------------------------------------------ *)

(* kernel[flat(v), u] : weight of vertex v (row-major vertex numbering, as
   used by the interpolation) in unit u *)
Definition kernel_at (sizes : list nat) (units : nat) (w : list Q) (u : nat) : tens :=
  fun v => nth (flat sizes v * units + u) w 0.
(* v + e_d is still a vertex *)
Definition has_next (sizes : list nat) (v : idx) (d : nat) : bool := (S (nth d v 0%nat) <? nth d sizes 0%nat)%nat.
(* v + e_d *)
Definition step (v : idx) (d : nat) : idx := upd v d (S (nth d v 0%nat)).
(* amount of dimension d *)
Definition amt (a : amount) (d : nat) : Q := match a with Scalar q => q | PerDim l => nth d l 0 end.
(* amount of the pair (i, j): product of the per-dimension amounts; a scalar
   amount is the amount of every pair *)
Definition pair_amt (a : amount) (i j : nat) : Q :=
  match a with Scalar q => q | PerDim l => nth i l 0 * nth j l 0 end.

Definition doc_laplacian_unit (sizes : list nat) (l1 l2 : amount) (K : tens) : Q :=
  qsum (map (fun v =>
    qsum (map (fun d =>
      if has_next sizes v d then
        let delta := K (step v d) - K v in amt l1 d * qabs delta + amt l2 d * sq delta
      else 0) (seq 0 (length sizes)))) (all_idx sizes)).
Definition doc_laplacian (sizes : list nat) (units : nat) (l1 l2 : amount) (w : list Q) : Q :=
  qsum (map (fun u => doc_laplacian_unit sizes l1 l2 (kernel_at sizes units w u)) (seq 0 units)).

Definition doc_torsion_unit (sizes : list nat) (l1 l2 : amount) (K : tens) : Q :=
  qsum (map (fun v =>
    qsum (map (fun i =>
      qsum (map (fun j =>
        if (i <? j)%nat && has_next sizes v i && has_next sizes v j then
          let twist := K v + K (step (step v i) j) - K (step v i) - K (step v j) in
          pair_amt l1 i j * qabs twist + pair_amt l2 i j * sq twist
        else 0) (seq 0 (length sizes)))) (seq 0 (length sizes)))) (all_idx sizes)).
Definition doc_torsion (sizes : list nat) (units : nat) (l1 l2 : amount) (w : list Q) : Q :=
  qsum (map (fun u => doc_torsion_unit sizes l1 l2 (kernel_at sizes units w u)) (seq 0 units)).
