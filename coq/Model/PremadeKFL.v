(* Premade / composed models with KroneckerFactoredLattice members
   (premade_lib.build_lattice_layer / build_rtl_layer with
   parameterization='kronecker_factored') and the update disciplines of the
   Keras optimizers for the THREE variables of one KFL layer.  Definitions only;
   lemmas are in Proofs/PremadeKFL.v.

   premade_lib builds the KFL layer with lattice_sizes = the common lattice
   size L, units = 1 (single lattice; RTL: one unit per lattice of the entry),
   monotonicities = the lattice-dimension flags, output_min / output_max = the
   model's (or [0, 1] under an output calibrator), clip_inputs=False; the
   calibrated columns arrive as a Python list and are concatenated.

   The KFL layer model itself is Model/KFL.v (property C07): [MK.unit_out c p u xs]
   is the output of unit u of the layer with configuration c and parameters
   p = (kernel, scale, bias) at the dims coordinates xs. *)
From TFL Require Export Model.Premade.
From TFL Require Model.KFL.
Module MK := TFL.Model.KFL.
Open Scope Q_scope.

(* ---------------------------------------------------------------------- *)
(* tfl.premade.CalibratedLattice, parameterization='kronecker_factored'     *)
(* ---------------------------------------------------------------------- *)
Definition cal_kfl_eval (c : MK.config) (p : MK.params) (cals : list calib) (oc : out_calib) (x : list Q) : Q :=
  out_eval oc (MK.unit_out c p 0 (calibrate cals x)).

(* ---------------------------------------------------------------------- *)
(* Ensembles whose members are all-vertices lattices OR units of a KFL layer *)
(* (explicit / random / Crystals: one single-unit layer per lattice; RTL:    *)
(* one layer per monotonicity tuple with one unit per lattice).  A member    *)
(* may read the same feature at several positions (RTL tiles its inputs).    *)
(* ---------------------------------------------------------------------- *)
Inductive member2 :=
| MLat (m : member)
| MKfl (idx : list nat) (cals : list calib) (c : MK.config) (p : MK.params) (u : nat).

Definition member2_idx (m : member2) : list nat :=
  match m with MLat m => m_idx m | MKfl idx _ _ _ _ => idx end.
Definition member2_cals (m : member2) : list calib :=
  match m with MLat m => m_cals m | MKfl _ cals _ _ _ => cals end.

Definition member2_eval (m : member2) (x : list Q) : Q :=
  match m with
  | MLat m => member_eval m x
  | MKfl idx cals c p u => MK.unit_out c p u (calibrate cals (map (fun i => nth i x 0) idx))
  end.

Definition ensemble2_eval (ms : list member2) (c : combiner) (oc : out_calib) (x : list Q) : Q :=
  out_eval oc (combine_outs c (map (fun m => member2_eval m x) ms)).

(* ---------------------------------------------------------------------- *)
(* One optimizer update of a KFL layer                                      *)
(* ---------------------------------------------------------------------- *)
(* The layer owns scale, bias, kernel (created in this order by build()).
   The kernel constraint object holds a reference to the scale VARIABLE and
   reads its current value when called; the bias has no constraint and is
   trainable only when no output bound is set.

   (a) tf_keras.optimizers.Optimizer.apply_gradients (optimizer.py:731-736):
       ALL variables of grads_and_vars receive their raw new values first, then
           for variable in trainable_variables:
             if variable.constraint is not None:
               variable.assign(variable.constraint(variable))
       in the order of grads_and_vars.  On the raw parameters [raw] this is
       MK.run root c steps raw with steps = [StepS; StepK] (layer order) or
       [StepK; StepS] (any other order the caller chose).
   The non-trainable bias of a bounded layer keeps its value; in every
   reachable state that is the initial value, so the update is modelled as
   "bias := initial bias" for bounded layers ([kfl_fix_bias]). *)
Record kfl_desc := mkKflD {
  kd_root : nat -> Q -> Q;        (* tf.pow(x, 1/d) *)
  kd_cfg : MK.config;
  kd_dims : nat;
  kd_steps : list MK.step;        (* the constraint applications of one update *)
  kd_init : MK.params }.

Definition kfl_fix_bias (c : MK.config) (init raw : MK.params) : MK.params :=
  if MK.has_bounds c then MK.mkPar (MK.p_kern raw) (MK.p_scale raw) (MK.p_bias init) else raw.
Definition kfl_update (d : kfl_desc) (raw : MK.params) : MK.params :=
  MK.run (kd_root d) (kd_cfg d) (kd_steps d) (kfl_fix_bias (kd_cfg d) (kd_init d) raw).
Definition kfl_var (d : kfl_desc) : var MK.params := mkVar (kd_init d) (kfl_update d).

(* (b) tf_keras.optimizers.legacy.OptimizerV2._distributed_apply
       (legacy/optimizer_v2.py:767-796): PER VARIABLE, in the order of
       grads_and_vars,
           update_op = self._resource_apply_dense(grad, var)
           if var.constraint is not None: var.assign(var.constraint(var))
       i.e. a variable is constrained before the next one is updated. *)
Inductive kvar := VScale | VBias | VKernel.
Definition legacy_assign_constrain (root : nat -> Q -> Q) (c : MK.config) (raw p : MK.params) (v : kvar) : MK.params :=
  match v with
  | VScale => MK.apply_step root c (MK.mkPar (MK.p_kern p) (MK.p_scale raw) (MK.p_bias p)) MK.StepS
  | VBias => MK.mkPar (MK.p_kern p) (MK.p_scale p) (MK.p_bias raw)
  | VKernel => MK.apply_step root c (MK.mkPar (MK.p_kern raw) (MK.p_scale p) (MK.p_bias p)) MK.StepK
  end.
(* the parameters after the update, from the parameters p before it *)
Definition legacy_update (root : nat -> Q -> Q) (c : MK.config) (order : list kvar) (raw p : MK.params) : MK.params :=
  fold_left (legacy_assign_constrain root c raw) order p.
