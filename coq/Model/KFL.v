(* Model of tfl.layers.KroneckerFactoredLattice
   (kronecker_factored_lattice_lib.py / kronecker_factored_lattice_layer.py):
   evaluation, weight / scale constraints with their gating, the fixed bias and
   the scale initializer.  Definitions only (proofs: Proofs/KFL.v).

   Layout.  The implementation's kernel has shape (1, L, units*dims, terms)
   and is reshaped to (L, units, dims, terms), i.e. the third axis is
   unit-major: j = u*dims + d.  The model works on the structured form
     kernel[u][t][d][i]   (unit, term, input dimension, vertex)
   because every step of the code acts per (unit, term); [unpack] converts the
   implementation layout k[i][j][t] to it and is executed by the tie. *)
From Coq Require Export Qround.
From TFL Require Export Base.Lists.
Open Scope Q_scope.

Definition vec := list Q.                 (* one 1-D piecewise-linear function: L vertex values *)
Definition term := list vec.              (* [d][i] *)
Definition kernel := list (list term).    (* [u][t][d][i] *)

Definition qn (k : nat) : Q := inject_Z (Z.of_nat k).
Fixpoint qprod (l : list Q) : Q := match l with [] => 1 | x :: r => x * qprod r end.
Fixpoint qpow (r : Q) (d : nat) : Q := match d with O => 1 | S d' => r * qpow r d' end.
(* tf.reduce_mean over an axis *)
Definition qmean (l : list Q) : Q := qsum l / qn (length l).
(* tf.sign *)
Definition qsgn (s : Q) : Q := if qlt 0 s then 1 else if qlt s 0 then -1 else 0.

Definition is_some {A} (o : option A) : bool := match o with Some _ => true | None => false end.

(* ---------------------------------------------------------------- layout *)
Definition unpack (L units dims terms : nat) (k : list (list (list Q))) : kernel :=
  map (fun u => map (fun t => map (fun d => map (fun i =>
        nth t (nth (u * dims + d) (nth i k []) []) 0)
      (seq 0 L)) (seq 0 dims)) (seq 0 terms)) (seq 0 units).

(* ------------------------------------------------------------ evaluation *)
(* interpolation_weights of evaluate_with_hypercube_interpolation: a special
   linear form for lattice_sizes == 2 (extrapolates outside [0,1]), hat
   functions 1 - min(|i - x|, 1) otherwise. *)
Definition hat (z : Q) : Q := 1 - qmin (qabs z) 1.
Definition interp_weights (L : nat) (x : Q) : list Q :=
  if (L =? 2)%nat then [1 - x; x] else map (fun i => hat (qn i - x)) (seq 0 L).
(* depthwise_conv2d of the weights with one kernel column *)
Definition pwl1d (L : nat) (v : vec) (x : Q) : Q := qsum (map2 Qmult (interp_weights L x) v).

(* tf.clip_by_value(inputs, 0.0, lattice_sizes - 1.0) when clip_inputs *)
Definition clip_in (clip : bool) (L : nat) (x : Q) : Q := if clip then qclip 0 (qn L - 1) x else x.

(* scale_t * prod_d PLF(x_d; w_d) *)
Definition term_out (L : nat) (xs : list Q) (s : Q) (vs : term) : Q :=
  s * qprod (map2 (pwl1d L) vs xs).
(* one unit: mean over terms + bias *)
Definition unit_eval (clip : bool) (L : nat) (su : list Q) (ku : list term) (b : Q) (xs : list Q) : Q :=
  qmean (map2 (term_out L (map (clip_in clip L) xs)) su ku) + b.

(* ------------------------------------------------------ weight projection *)
Definition vscale (c : Q) (v : vec) : vec := map (fun w => c * w) v.

(* max_projection[i] = maximum(max_projection[i], max_projection[i-1]), forward *)
Fixpoint cummax_from (m : Q) (l : vec) : vec :=
  match l with [] => [] | x :: r => let m' := qmax x m in m' :: cummax_from m' r end.
Definition cummax (l : vec) : vec := match l with [] => [] | x :: r => x :: cummax_from x r end.
(* min_projection[i] = minimum(min_projection[i], min_projection[i+1]), backward *)
Fixpoint cummin_back (l : vec) : vec :=
  match l with
  | [] => []
  | x :: r => match cummin_back r with [] => [x] | (y :: _) as r' => qmin x y :: r' end
  end.
Definition mono_proj1 (w : vec) : vec :=
  cummin_back (map2 (fun a m => (a + m) * (1#2)) w (cummax w)).

(* _approximately_project_monotonicity for one (unit, term): direction is
   multiplied into EVERY dimension before the per-dimension loop and again
   after it; zip(weights, monotonicities) is map2 (truncating). *)
Definition project_mono_term (monos : list bool) (s : Q) (vs : term) : term :=
  let dir := qsgn s in
  map (vscale dir)
      (map2 (fun w (m : bool) => if m then mono_proj1 w else w) (map (vscale dir) vs) monos).

Definition maxabs (v : vec) : Q := qmaxl (map qabs v).
Definition clip0 (vs : term) : term := map (map (fun w => qmax w 0)) vs.

(* _approximately_project_bounds for one (unit, term); root d x stands for
   tf.pow(x, 1.0 / d) *)
Definition project_bounds_term (root : nat -> Q -> Q) (omin omax : option Q) (vs : term) : term :=
  match omin, omax with
  | None, None => vs
  | Some _, Some _ =>
      let f := root (length vs) (qmax (qprod (map maxabs vs)) 1) in
      map (map (fun w => w / f)) vs
  | _, _ => clip0 vs
  end.

Definition count_true (l : list bool) : nat := length (filter (fun b => b) l).
(* utils.count_non_zeros(monotonicities) with monotonicities possibly None *)
Definition num_constraint_dims (monos : option (list bool)) : nat :=
  match monos with Some l => count_true l | None => 0%nat end.

Definition finalize_weights_term (root : nat -> Q -> Q) (monos : option (list bool))
           (omin omax : option Q) (s : Q) (vs : term) : term :=
  let vs1 := match monos with
             | Some ms => if (0 <? count_true ms)%nat then project_mono_term ms s (clip0 vs) else vs
             | None => vs
             end in
  if is_some omin || is_some omax then project_bounds_term root omin omax vs1 else vs1.

Definition finalize_weights (root : nat -> Q -> Q) (monos : option (list bool))
           (omin omax : option Q) (scale : list (list Q)) (k : kernel) : kernel :=
  map2 (fun su ku => map2 (finalize_weights_term root monos omin omax) su ku) scale k.

(* finalize_scale_constraints, one entry.  clip_by_value(s, -b, b). *)
Definition finalize_scale1 (omin omax : option Q) (s : Q) : Q :=
  match omin, omax with
  | Some lo, Some hi => let b := (hi - lo) * (1#2) in qclip (- b) b s
  | Some _, None => qmax s 0
  | None, Some _ => qmin s 0
  | None, None => s
  end.

(* ------------------------------------------------------------ the layer *)
Record config := mkCfg {
  c_size : nat;                       (* lattice_sizes *)
  c_monos : option (list bool);       (* monotonicities as given: None or a list *)
  c_min : option Q;
  c_max : option Q;
  c_clip : bool
}.
Record params := mkPar { p_kern : kernel; p_scale : list (list Q); p_bias : list Q }.

(* utils.canonicalize_monotonicities: `if monotonicities:` maps [] to None *)
Definition canon_monos (m : option (list bool)) : option (list bool) :=
  match m with Some ((_ :: _) as l) => Some l | _ => None end.
Definition has_bounds (c : config) : bool := is_some (c_min c) || is_some (c_max c).

(* KroneckerFactoredLatticeConstraints.__call__ (with its gate) *)
Definition kfl_constraints_call (root : nat -> Q -> Q) (c : config) (scale : list (list Q)) (k : kernel) : kernel :=
  let ms := canon_monos (c_monos c) in
  if (0 <? num_constraint_dims ms)%nat || is_some (c_min c) || is_some (c_max c)
  then finalize_weights root ms (c_min c) (c_max c) scale k else k.
(* ScaleConstraints.__call__ (with its gate) *)
Definition scale_constraints_call (c : config) (scale : list (list Q)) : list (list Q) :=
  if has_bounds c then map (map (finalize_scale1 (c_min c) (c_max c))) scale else scale.

(* build(): the kernel variable gets the constraint object only if
   `self.monotonicities or bounds`, the scale variable only if bounds. *)
Definition kernel_variable_constraint (root : nat -> Q -> Q) (c : config) (scale : list (list Q)) (k : kernel) : kernel :=
  if is_some (canon_monos (c_monos c)) || has_bounds c then kfl_constraints_call root c scale k else k.
Definition scale_variable_constraint (c : config) (scale : list (list Q)) : list (list Q) :=
  if has_bounds c then scale_constraints_call c scale else scale.

(* What can happen to the parameters "by the constraints":
   StepK  kernel.assign(kernel.constraint(kernel))   (reads the CURRENT scale variable)
   StepS  scale.assign(scale.constraint(scale))
   StepF  finalize_constraints(): the ungated-at-build _final_kernel_constraints on
          the kernel first (assign_add(K(k) - k), which is K(k) in exact
          arithmetic), then _final_scale_constraints on the scale. *)
Inductive step := StepK | StepS | StepF.
Definition apply_step (root : nat -> Q -> Q) (c : config) (p : params) (st : step) : params :=
  match st with
  | StepK => mkPar (kernel_variable_constraint root c (p_scale p) (p_kern p)) (p_scale p) (p_bias p)
  | StepS => mkPar (p_kern p) (scale_variable_constraint c (p_scale p)) (p_bias p)
  | StepF => mkPar (kfl_constraints_call root c (p_scale p) (p_kern p))
                   (scale_constraints_call c (p_scale p)) (p_bias p)
  end.
Definition run (root : nat -> Q -> Q) (c : config) (steps : list step) (p : params) : params :=
  fold_left (apply_step root c) steps p.

(* bias_initializer (the bias is not trainable when a bound is set) *)
Definition bias_init1 (omin omax : option Q) : Q :=
  match omin, omax with
  | Some lo, Some hi => (lo + hi) * (1#2)
  | Some lo, None => lo
  | None, Some hi => hi
  | None, None => 0
  end.
Definition bias_init (c : config) (units : nat) : list Q := repeat (bias_init1 (c_min c) (c_max c)) units.
(* scale_initializer: signs = (arange(terms) % -2) * 2 + 1 *)
Definition scale_init1 (omin omax : option Q) (t : nat) : Q :=
  match omin, omax with
  | Some _, None => 1
  | None, Some _ => -1
  | Some lo, Some hi => (if Nat.even t then 1 else -1) * ((hi - lo) * (1#2))
  | None, None => if Nat.even t then 1 else -1
  end.
Definition scale_init (c : config) (units terms : nat) : list (list Q) :=
  repeat (map (scale_init1 (c_min c) (c_max c)) (seq 0 terms)) units.

(* layer output of unit u at the point xs (the dims coordinates fed to unit u) *)
Definition unit_out (c : config) (p : params) (u : nat) (xs : list Q) : Q :=
  unit_eval (c_clip c) (c_size c) (nth u (p_scale p) []) (nth u (p_kern p) []) (nth u (p_bias p) 0) xs.
(* all units; xss[u] = coordinates of unit u *)
Definition layer_out (c : config) (p : params) (xss : list (list Q)) : list Q :=
  map (fun u => unit_out c p u (nth u xss [])) (seq 0 (length (p_scale p))).

(* ---------------------------------------- executable root for the tie only *)
(* d-th root by a truncated Newton iteration from above, precision 2^-64 (the
   theorems quantify over every root function satisfying root_ok, Proofs/KFL.v:
   result >= 1, d-th power >= x, 1 at 1; this executable approximation is only
   used to compare the model with the implementation). *)
Definition qtrunc (x : Q) : Q := Qfloor (x * inject_Z (2 ^ 64)) # (2 ^ 64).
Fixpoint newton_root (n d : nat) (a y : Q) : Q :=
  match n with
  | O => y
  | S n' => let y' := qtrunc ((qn (d - 1) * y + a / qpow y (d - 1)) / qn d) in
            if Qle_bool y y' then y else newton_root n' d a y'
  end.
(* a power of two whose d-th power is above a *)
Definition root_start (d : nat) (a : Q) : Q :=
  inject_Z (2 ^ (Z.log2 (Qceiling a) / Z.of_nat d + 1)).
Definition qroot (d : nat) (a : Q) : Q :=
  match d with
  | O => 1
  | 1%nat => a
  | _ => if Qle_bool a 1 then 1 else newton_root 100 d a (root_start d a)
  end.
