(* C11 — model of "constructor -> object state -> get_config -> from_config ->
   constructor" for the Keras-style classes of tensorflow_lattice.

   Definitions only.  The per-class DATA (class descriptions) is not written by
   hand: harness/translators/gen_config.py regenerates Gen/GenConfig.v from the
   source text of /repo on every run.  This file gives the value universe, the
   shape of a class description and the interpreter that turns a description
   into the two functions  init : kwargs -> cfg  and  get_config : cfg -> kwargs
   (plus from_config).  Lemmas are in Proofs/ConfigRoundTrip.v. *)
From Coq Require Import String List ZArith QArith Bool.
Import ListNotations.
Open Scope string_scope.
Open Scope list_scope.

(* ---------------------------------------------------------------------- *)
(* Python values that occur as constructor arguments / config entries.     *)
(* VUnset = "no such attribute / argument not supplied and no default".    *)
Inductive value : Type :=
| VNone
| VBool (b : bool)
| VInt (z : Z)
| VQ (q : Q)
| VStr (s : string)
| VList (l : list value)
| VTuple (l : list value)
| VObj (name : string) (kw : list (string * value))
| VUnset.

Definition kwargs := list (string * value).
(* object state: attributes set by __init__, and what went to the Keras base
   class through **kwargs (name, trainable, dtype ...) *)
Definition cfg := (list (string * value) * kwargs)%type.

Fixpoint assoc {A : Type} (k : string) (l : list (string * A)) : option A :=
  match l with
  | [] => None
  | (k', v) :: r => if String.eqb k k' then Some v else assoc k r
  end.
Definition mem (k : string) (l : list string) : bool := existsb (String.eqb k) l.

(* Python truthiness (used by `if self.use_bias:`) *)
Definition truthy (v : value) : bool :=
  match v with
  | VNone => false
  | VBool b => b
  | VInt z => negb (Z.eqb z 0)
  | VQ q => negb (Qeq_bool q 0)
  | VStr s => negb (String.eqb s "")
  | VList l => match l with [] => false | _ => true end
  | VTuple l => match l with [] => false | _ => true end
  | VObj _ _ => true
  | VUnset => false
  end.

(* Structural equality (Q compared by Qeq_bool); used by the harness only. *)
Fixpoint value_eqb (a b : value) : bool :=
  match a, b with
  | VNone, VNone => true
  | VBool x, VBool y => Bool.eqb x y
  | VInt x, VInt y => Z.eqb x y
  | VQ x, VQ y => Qeq_bool x y
  | VStr x, VStr y => String.eqb x y
  | VList x, VList y =>
      (fix go (x y : list value) : bool :=
         match x, y with
         | [], [] => true
         | a' :: x', b' :: y' => value_eqb a' b' && go x' y'
         | _, _ => false
         end) x y
  | VTuple x, VTuple y =>
      (fix go (x y : list value) : bool :=
         match x, y with
         | [], [] => true
         | a' :: x', b' :: y' => value_eqb a' b' && go x' y'
         | _, _ => false
         end) x y
  | VObj n x, VObj m y =>
      String.eqb n m &&
      (fix go (x y : list (string * value)) : bool :=
         match x, y with
         | [], [] => true
         | (k, a') :: x', (k', b') :: y' => String.eqb k k' && value_eqb a' b' && go x' y'
         | _, _ => false
         end) x y
  | VUnset, VUnset => true
  | _, _ => false
  end.

(* ---------------------------------------------------------------------- *)
(* Class descriptions (what the translator extracts from the source).      *)

(* How __init__ stores a parameter p in its attribute:
     Direct      self.a = p
     Wrapped w   self.a = w(p ...)   (canonicaliser, float(), list(), [p] for a
                 single tuple, keras.initializers.get, the "list of
                 regularizers" loop, if/elif chains assigning self.a ...)
   A parameter that reaches no attribute is listed in c_dropped instead. *)
Inductive how := Direct | Wrapped (w : string).

Record pstore := mk_store {
  ps_param : string;
  ps_attr : string;
  ps_how : how;
  ps_cond : option string   (* Some c: stored only under `if c:` (c a parameter) *)
}.

(* Right-hand side of a get_config entry. *)
Inductive src :=
| Attr (a : string)          (* self.a *)
| Serialized (a : string)    (* keras...serialize(self.a) / [serialize(r) for r in self.a] *)
| BaseAttr (k : string)      (* self.name / self.trainable: state of the Keras base class *)
| Other.                     (* anything else (never round-trips in the model) *)

Record emit := mk_emit {
  em_key : string;
  em_src : src;
  em_cond : option string    (* Some a: written only under `if self.a:` *)
}.

(* How get_config combines its own entries with the Keras base class's. *)
Inductive base_mode :=
| NoBase          (* returns only its own dictionary *)
| BaseOverrides   (* config = {...}; config.update(super().get_config()) *)
| OwnOverrides.   (* config = super().get_config(); config.update({...}) *)

Record class_desc := mk_class {
  c_name : string;
  c_module : string;
  c_kind : string;                              (* layer | model | constraint | initializer | regularizer | config *)
  c_params : list (string * option value);      (* __init__ parameters in order; None = required *)
  c_var_kw : bool;                              (* has **kwargs (forwarded to the Keras base class) *)
  c_base_keys : list string;                    (* keys the Keras base class keeps and reports *)
  c_stores : list pstore;
  c_dropped : list string;                      (* parameters that reach no attribute *)
  c_emits : list emit;                          (* get_config's own entries, in source order *)
  c_base : base_mode;
  c_deser : list string;                        (* keys from_config deserialises before calling __init__ *)
  c_passes : option (list string)               (* None: cls( **config ); Some ks: only these keys are passed on *)
}.

(* Keys reported by tf_keras' Layer.get_config / kept by keras.Model (fixed
   here; the harness checks on every run that the running Keras reports a
   subset of these). *)
Definition keras_layer_keys : list string := ["name"; "trainable"; "dtype"; "batch_input_shape"].
Definition keras_model_keys : list string := ["name"; "trainable"].

Definition param_names (d : class_desc) : list string := map fst (c_params d).
Definition emit_keys (d : class_desc) : list string := map em_key (c_emits d).
Definition required_params (d : class_desc) : list string :=
  map fst (filter (fun pv => match snd pv with None => true | Some _ => false end) (c_params d)).
Definition stored_params (d : class_desc) : list string := map ps_param (c_stores d).

Fixpoint find_emit (k : string) (es : list emit) : option emit :=
  match es with
  | [] => None
  | e :: r => if String.eqb k (em_key e) then Some e else find_emit k r
  end.
Fixpoint find_store_by_attr (a : string) (ss : list pstore) : option pstore :=
  match ss with
  | [] => None
  | s :: r => if String.eqb a (ps_attr s) then Some s else find_store_by_attr a r
  end.
Fixpoint find_store_by_param (p : string) (ss : list pstore) : option pstore :=
  match ss with
  | [] => None
  | s :: r => if String.eqb p (ps_param s) then Some s else find_store_by_param p r
  end.

(* ---------------------------------------------------------------------- *)
(* Wrappers with a concrete meaning; every other wrapper name is an oracle. *)
Definition wrap_single_tuple (v : value) : value :=
  (* if isinstance(v, tuple) and isinstance(v[0], int): [v] else v *)
  match v with
  | VTuple (VInt _ :: _) => VList [v]
  | _ => v
  end.
Definition wrap_single_pair (v : value) : value :=
  (* if isinstance(v, tuple) and len(v) == 2 and isinstance(v[1], str): [v] else v *)
  match v with
  | VTuple [_; VStr _] => VList [v]
  | _ => v
  end.
Definition wrap_float (v : value) : value :=
  match v with
  | VInt z => VQ (inject_Z z)
  | VBool b => VQ (if b then 1 else 0)
  | _ => v
  end.
Definition wrap_list (v : value) : value :=
  match v with
  | VTuple l => VList l
  | _ => v
  end.
Definition known_wrapper (w : string) : option (value -> value) :=
  if String.eqb w "single_tuple_to_list" then Some wrap_single_tuple
  else if String.eqb w "single_pair_to_list" then Some wrap_single_pair
  else if String.eqb w "float" then Some wrap_float
  else if String.eqb w "list" then Some wrap_list
  else None.

(* ---------------------------------------------------------------------- *)
(* The interpreter.  Oracles: every wrapper without a concrete meaning
   (canonicalisers of utils.py, keras.*.get, create_kernel_initializer ...),
   Keras' serialize / deserialize of an object. *)
Section Interp.
Variable wrap_oracle : string -> value -> value.
Variable ser deser : value -> value.

Definition wrap (w : string) (v : value) : value :=
  match known_wrapper w with Some f => f v | None => wrap_oracle w v end.
Definition apply_how (h : how) (v : value) : value :=
  match h with Direct => v | Wrapped w => wrap w v end.

Definition default_of (d : class_desc) (p : string) : option value :=
  match assoc p (c_params d) with Some (Some v) => Some v | _ => None end.
(* value bound to parameter p by the call cls( **kw ) *)
Definition arg (d : class_desc) (kw : kwargs) (p : string) : value :=
  match assoc p kw with
  | Some v => v
  | None => match default_of d p with Some v => v | None => VUnset end
  end.
Definition argb (kw : kwargs) (k : string) : value :=
  match assoc k kw with Some v => v | None => VUnset end.

Definition store_val (d : class_desc) (kw : kwargs) (s : pstore) : value :=
  let v := apply_how (ps_how s) (arg d kw (ps_param s)) in
  match ps_cond s with
  | None => v
  | Some c => if truthy (arg d kw c) then v else VUnset
  end.

Definition init (d : class_desc) (kw : kwargs) : cfg :=
  (map (fun s => (ps_attr s, store_val d kw s)) (c_stores d),
   map (fun k => (k, argb kw k)) (c_base_keys d)).

Definition attr_val (c : cfg) (a : string) : value :=
  match assoc a (fst c) with Some v => v | None => VUnset end.
Definition base_val (c : cfg) (k : string) : value :=
  match assoc k (snd c) with Some v => v | None => VUnset end.
Definition emit_val (c : cfg) (e : emit) : value :=
  match em_src e with
  | Attr a => attr_val c a
  | Serialized a => ser (attr_val c a)
  | BaseAttr k => base_val c k
  | Other => VUnset
  end.
Definition emit_on (c : cfg) (e : emit) : bool :=
  match em_cond e with None => true | Some a => truthy (attr_val c a) end.
Definition own_config (d : class_desc) (c : cfg) : kwargs :=
  map (fun e => (em_key e, emit_val c e)) (filter (emit_on c) (c_emits d)).
(* association lists are read first-match, so the overriding part comes first *)
Definition get_config (d : class_desc) (c : cfg) : kwargs :=
  match c_base d with
  | NoBase => own_config d c
  | BaseOverrides => snd c ++ own_config d c
  | OwnOverrides => own_config d c ++ snd c
  end.

Definition passes (d : class_desc) (k : string) : bool :=
  match c_passes d with None => true | Some ks => mem k ks end.
Definition from_config (d : class_desc) (c : kwargs) : kwargs :=
  map (fun kv => if mem (fst kv) (c_deser d) then (fst kv, deser (snd kv)) else kv)
      (filter (fun kv => passes d (fst kv)) c).
Definition rebuild (d : class_desc) (c : kwargs) : cfg := init d (from_config d c).
End Interp.

(* ---------------------------------------------------------------------- *)
(* Decidable well-formedness checks on a description (the finite part that
   per-class theorems discharge by computation). *)
Fixpoint nodupb (l : list string) : bool :=
  match l with
  | [] => true
  | x :: r => negb (mem x r) && nodupb r
  end.
Definition inclb (a b : list string) : bool := forallb (fun x => mem x b) a.
Definition disjointb (a b : list string) : bool := forallb (fun x => negb (mem x b)) a.

Definition reads (e : emit) (a : string) : bool :=
  match em_src e with
  | Attr a' => String.eqb a' a
  | Serialized a' => String.eqb a' a
  | _ => false
  end.

(* every parameter that is required or stored is written by get_config, from
   the attribute it was stored in *)
Definition store_coveredb (d : class_desc) (s : pstore) : bool :=
  match find_emit (ps_param s) (c_emits d) with
  | Some e => reads e (ps_attr s)
  | None => false
  end.
Definition keys_cover_initb (d : class_desc) : bool :=
  forallb (store_coveredb d) (c_stores d) &&
  inclb (required_params d) (emit_keys d).

(* every own key is accepted by __init__ (by name, or by **kwargs when it is
   a key of the Keras base class) *)
Definition key_acceptedb (d : class_desc) (k : string) : bool :=
  mem k (param_names d) || (c_var_kw d && mem k (c_base_keys d)).
Definition keys_are_paramsb (d : class_desc) : bool :=
  forallb (key_acceptedb d) (emit_keys d).

(* every attribute read by get_config is set by __init__, unconditionally or
   under the very condition get_config tests *)
Definition cond_pairb (d : class_desc) (c ca : string) : bool :=
  (* parameter c is stored directly and unconditionally in attribute ca, and
     get_config reports it unconditionally *)
  match find_store_by_param c (c_stores d) with
  | Some sc => String.eqb (ps_attr sc) ca &&
               match ps_how sc, ps_cond sc with Direct, None => true | _, _ => false end
  | None => false
  end &&
  match find_emit c (c_emits d) with
  | Some e => match em_cond e with None => true | Some _ => false end
  | None => false
  end.
(* the parameter whose (direct) attribute is ca *)
Definition cond_param_of (d : class_desc) (ca : string) : option string :=
  match find_store_by_attr ca (c_stores d) with
  | Some sc => if cond_pairb d (ps_param sc) ca then Some (ps_param sc) else None
  | None => None
  end.
Definition emit_reads_setb (d : class_desc) (e : emit) : bool :=
  match em_src e with
  | Attr a | Serialized a =>
      match find_store_by_attr a (c_stores d) with
      | Some s => match ps_cond s, em_cond e with
                  | None, _ => true
                  | Some c, Some ca => cond_pairb d c ca
                  | Some _, None => false
                  end
      | None => false
      end
  | BaseAttr k => mem k (c_base_keys d)
  | Other => true
  end &&
  match em_cond e with
  | None => true
  | Some ca => match find_store_by_attr ca (c_stores d) with
               | Some s => match ps_cond s with None => true | Some _ => false end
               | None => false
               end
  end.
Definition reads_are_setb (d : class_desc) : bool := forallb (emit_reads_setb d) (c_emits d).

(* the round-trip condition per stored parameter *)
Definition store_rt_okb (d : class_desc) (s : pstore) : bool :=
  let p := ps_param s in
  passes d p && negb (mem p (c_base_keys d)) &&
  match find_emit p (c_emits d) with
  | None => false
  | Some e =>
      match em_src e, ps_how s, mem p (c_deser d) with
      | Attr a, _, false => String.eqb a (ps_attr s)
      | Serialized a, Direct, true => String.eqb a (ps_attr s)
      | Serialized a, Wrapped w, false =>
          String.eqb a (ps_attr s) && match known_wrapper w with None => true | Some _ => false end
      | _, _, _ => false
      end &&
      match ps_cond s, em_cond e with
      | None, None => true
      | Some c, Some ca => cond_pairb d c ca
      | None, Some ca =>
          (* stored always, reported only under `if self.ca:` -- "hidden" when
             ca is false; see hidden_pairs: the round trip then needs a guard *)
          match cond_param_of d ca with Some _ => true | None => false end
      | Some _, None => false
      end
  end.
Definition base_rt_okb (d : class_desc) (k : string) : bool :=
  passes d k && negb (mem k (c_deser d)) &&
  match c_base d with
  | NoBase => match find_emit k (c_emits d) with
              | Some e => match em_src e, em_cond e with
                          | BaseAttr k', None => String.eqb k' k
                          | _, _ => false
                          end
              | None => false
              end
  | BaseOverrides => true
  | OwnOverrides => negb (mem k (emit_keys d))
  end.
Definition roundtrip_okb (d : class_desc) : bool :=
  nodupb (emit_keys d) && nodupb (map ps_attr (c_stores d)) && nodupb (c_base_keys d) &&
  forallb (store_rt_okb d) (c_stores d) &&
  forallb (base_rt_okb d) (c_base_keys d).

(* Converse well-formedness of the entries (needed for "the rebuilt object
   reports an equal config" WITHOUT a visibility guard): every condition tested
   by get_config is the attribute of a directly stored, always reported
   parameter; an entry that reads the attribute of a "hidden" store (always
   stored, reported under `if self.ca0`) is itself written under the same
   condition. *)
Definition emit_okb (d : class_desc) (e : emit) : bool :=
  match em_cond e with
  | None => true
  | Some ca => match cond_param_of d ca with Some _ => true | None => false end
  end &&
  match em_src e with
  | Attr a | Serialized a =>
      match find_store_by_attr a (c_stores d) with
      | None => true
      | Some s =>
          match ps_cond s, find_emit (ps_param s) (c_emits d) with
          | None, Some e0 => match em_cond e0 with
                             | None => true
                             | Some ca0 => match em_cond e with
                                           | Some ca => String.eqb ca ca0
                                           | None => false
                                           end
                             end
          | Some _, Some _ => true
          | _, None => false
          end
      end
  | _ => true
  end.
Definition emits_okb (d : class_desc) : bool := forallb (emit_okb d) (c_emits d).

(* (parameter p, condition parameter c): p is always stored but reported only
   when c is true *)
Definition hidden_pairs (d : class_desc) : list (string * string) :=
  flat_map (fun s =>
    match ps_cond s, find_emit (ps_param s) (c_emits d) with
    | None, Some e => match em_cond e with
                      | Some ca => match cond_param_of d ca with
                                   | Some c => [(ps_param s, c)]
                                   | None => []
                                   end
                      | None => []
                      end
    | _, _ => []
    end) (c_stores d).

(* custom-object registry (premade.get_custom_objects): name -> module *)
Definition registered (reg : list (string * string)) (d : class_desc) : bool :=
  match assoc (c_name d) reg with
  | Some m => String.eqb m (c_module d)
  | None => false
  end.
