(* Model of tfl.layers.Linear.call (linear_layer.py): clip each input to its
   optional bounds, multiply by the unit's kernel column, sum, add bias. *)
From TFL Require Export Base.Lists.
Open Scope Q_scope.

Definition bound := (option Q * option Q)%type.

(* sum_i k_i * clip_i(x_i) for one unit *)
Fixpoint lin_sum (k : list Q) (bs : list bound) (x : list Q) : Q :=
  match k, bs, x with
  | kq :: k', (lo, hi) :: bs', xq :: x' => kq * clip_opt lo hi xq + lin_sum k' bs' x'
  | _, _, _ => 0
  end.

Definition lin_unit (k : list Q) (b : Q) (bs : list bound) (x : list Q) : Q := b + lin_sum k bs x.

(* kernel K[i][u] (rows = input dims), bias per unit (all 0 when use_bias is
   off), xs[u] = the input row of unit u (the same row for every unit when
   units = 1) *)
Definition linear_eval (units : nat) (K : list (list Q)) (bias : list Q) (bs : list bound)
           (xs : list (list Q)) : list Q :=
  map (fun u => lin_unit (column u K) (nth u bias 0) bs (nth u xs [])) (seq 0 units).
