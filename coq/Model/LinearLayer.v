(* Model of tfl.layers.Linear as a whole (linear_layer.py): the bounds the layer
   clips by are the input_min / input_max lists of the SAME configuration that
   its kernel constraint (linear_lib.project, Model/LinearProject.v) uses; the
   two input forms (units == 1: one row, tf.matmul; units > 1: one row per unit,
   reduce_sum of inputs * transpose(kernel)); the optional bias.  Definitions
   only; proofs in Proofs/LinearComposed.v. *)
From TFL Require Export Model.LinearEval Model.LinearProject.
Open Scope Q_scope.

(* Linear.build: lower/upper bounds per input, "input_min or [None] * n"; a
   missing bound becomes -inf/+inf, i.e. no clipping on that side *)
Definition layer_bounds (c : lin_cfg) (n : nat) : list bound :=
  map (fun i => (nth i (lc_min c) None, nth i (lc_max c) None)) (seq 0 n).

(* tf.clip_by_value(inputs, clip_value_min, clip_value_max) on one row *)
Definition clip_row (bs : list bound) (x : list Q) : list Q :=
  map2 (fun b v => clip_opt (fst b) (snd b) v) bs x.
Definition dot (a b : list Q) : Q := qsum (map2 Qmult a b).

(* one example: units == 1 takes a row of n values, units > 1 takes one row per unit *)
Inductive lin_input := In1 (x : list Q) | InN (xs : list (list Q)).

(* Linear.call.  bias = None: use_bias is off.  None result: the input form
   does not fit the unit count (input_spec rejects it). *)
Definition linear_call (units : nat) (K : list (list Q)) (bias : option (list Q)) (bs : list bound)
           (inp : lin_input) : option (list Q) :=
  let addb u v := match bias with Some b => v + nth u b 0 | None => v end in
  match inp, (units =? 1)%nat with
  | In1 x, true => Some [addb 0%nat (dot (clip_row bs x) (column 0 K))]
  | InN xs, false =>
      Some (map (fun u => addb u (dot (clip_row bs (nth u xs [])) (nth u (transpose units K) []))) (seq 0 units))
  | _, _ => None
  end.

(* the layer after its kernel constraint has been applied to the kernel W
   (what training leaves behind after every step): n = rows of W *)
Definition linear_constrained (rt : Q -> Q) (c : lin_cfg) (units : nat) (W : list (list Q))
           (bias : option (list Q)) (inp : lin_input) : option (list Q) :=
  match lin_project rt c units W with
  | Some R => linear_call units R bias (layer_bounds c (length W)) inp
  | None => None
  end.
