(* Model of tfl.layers.PWLCalibration evaluation (pwl_calibration_layer.py:
   build, call, keypoints_inputs, keypoints_outputs) and of
   pwl_calibration_lib.compute_interpolation_weights.  Definitions only. *)
From TFL Require Export Base.Lists.
Open Scope Q_scope.

(* ---------------------------------------------------------------------- *)
(* build(): tables derived from input_keypoints                            *)
(* ---------------------------------------------------------------------- *)

(* input_keypoints[:-1] *)
Fixpoint kp_lefts (ks : list Q) : list Q :=
  match ks with a :: ((_ :: _) as r) => a :: kp_lefts r | _ => [] end.
(* input_keypoints[1:] - input_keypoints[:-1] *)
Fixpoint kp_diffs (ks : list Q) : list Q :=
  match ks with a :: ((b :: _) as r) => (b - a) :: kp_diffs r | _ => [] end.

(* tf.cumsum(l, exclusive=True) *)
Fixpoint cumsum_excl (acc : Q) (l : list Q) : list Q :=
  match l with [] => [] | x :: r => acc :: cumsum_excl (acc + x) r end.
(* tf.cumsum(l) *)
Fixpoint cumsum_incl (acc : Q) (l : list Q) : list Q :=
  match l with [] => [] | x :: r => (acc + x) :: cumsum_incl (acc + x) r end.

(* learned_interior, per unit, from one row [sm] of softmax(interpolation_logits, axis=1):
   _lengths = softmax * _keypoint_range,
   _interpolation_keypoints = cumsum(_lengths, exclusive) + _keypoint_min *)
Definition keypoint_min (ks : list Q) : Q := hd 0 ks.
Definition keypoint_range (ks : list Q) : Q := last ks 0 - hd 0 ks.
Definition learned_lengths (ks sm : list Q) : list Q := map (fun s => s * keypoint_range ks) sm.
Definition learned_lefts (ks sm : list Q) : list Q :=
  map (fun c => c + keypoint_min ks) (cumsum_excl 0 (learned_lengths ks sm)).

(* ---------------------------------------------------------------------- *)
(* compute_interpolation_weights                                           *)
(* ---------------------------------------------------------------------- *)
(* maximum(minimum((x - keypoint) / length, 1), 0) per segment *)
Fixpoint interp_w (x : Q) (kps lens : list Q) : list Q :=
  match kps, lens with
  | k :: kps', l :: lens' => qmax (qmin ((x - k) / l) 1) 0 :: interp_w x kps' lens'
  | _, _ => []
  end.
(* leading 1 for the bias *)
Definition interpolation_weights (x : Q) (kps lens : list Q) : list Q := 1 :: interp_w x kps lens.

Fixpoint dot (a b : list Q) : Q :=
  match a, b with x :: a', y :: b' => x * y + dot a' b' | _, _ => 0 end.

(* the calibration function of one unit: weights . (bias :: heights) *)
Definition pwl_fn (kps lens col : list Q) (x : Q) : Q := dot (interpolation_weights x kps lens) col.

(* ---------------------------------------------------------------------- *)
(* The built layer                                                         *)
(* ---------------------------------------------------------------------- *)
Record pwl_layer := mkPWL {
  p_units : nat;
  p_learned : bool;            (* input_keypoints_type == "learned_interior" *)
  p_lefts : list (list Q);     (* _interpolation_keypoints: one row (fixed), [units] rows (learned) *)
  p_lens : list (list Q);      (* _lengths, same layout *)
  p_cyclic : bool;
  p_kernel : list (list Q);    (* [num_weights][units]; row 0 = bias, rest = heights *)
  p_impute : bool;
  p_missing_input : option Q;  (* missing_input_value *)
  p_missing_output : list Q;   (* missing_output [1, units]: constant or learned weight *)
  p_split : bool }.

(* missing_output: tf.constant(missing_output_value, shape=[1, units]) or the weight *)
Definition build_missing_output (units : nat) (value : option Q) (weight : list Q) : list Q :=
  match value with Some v => repeat v units | None => weight end.

Definition build_fixed (units : nat) (ks : list Q) (cyclic : bool) (kernel : list (list Q))
    (impute : bool) (miv mov : option Q) (mow : list Q) (split : bool) : pwl_layer :=
  mkPWL units false [kp_lefts ks] [kp_diffs ks] cyclic kernel impute miv
        (build_missing_output units mov mow) split.

(* [sm]: softmax(interpolation_logits, axis=1), one row per unit *)
Definition build_learned (units : nat) (ks : list Q) (sm : list (list Q)) (cyclic : bool)
    (kernel : list (list Q)) (impute : bool) (miv mov : option Q) (mow : list Q) (split : bool) : pwl_layer :=
  mkPWL units true (map (learned_lefts ks) sm) (map (learned_lengths ks) sm) cyclic kernel impute miv
        (build_missing_output units mov mow) split.

(* broadcasting of the keypoint tables against the units axis *)
Definition unit_row (learned : bool) (tbl : list (list Q)) (u : nat) : list Q :=
  if learned then nth u tbl [] else nth 0 tbl [].
Definition unit_lefts (L : pwl_layer) (u : nat) := unit_row (p_learned L) (p_lefts L) u.
Definition unit_lens (L : pwl_layer) (u : nat) := unit_row (p_learned L) (p_lens L) u.

(* is_cyclic: concat([kernel, -reduce_sum(kernel[1:], axis=0, keepdims)], axis=0) *)
Definition closing_row (L : pwl_layer) : list Q :=
  map (fun u => - qsum (column u (tl (p_kernel L)))) (seq 0 (p_units L)).
Definition bias_and_heights (L : pwl_layer) : list (list Q) :=
  if p_cyclic L then p_kernel L ++ [closing_row L] else p_kernel L.

(* The calibration part of call() for one batch row (1 or [units] columns). *)
Definition expands (L : pwl_layer) (cols : nat) : bool :=
  (1 <? cols)%nat || (p_learned L && (1 <? p_units L)%nat).
Definition calib_row (L : pwl_layer) (row : list Q) : list Q :=
  let bh := bias_and_heights L in
  if expands L (length row) then
    (* interpolation weights [batch, units, weights]; reduce_sum(w * transpose(bh), -1) *)
    map (fun u => dot (interpolation_weights (nth (if (length row =? 1)%nat then 0 else u) row 0)
                                             (unit_lefts L u) (unit_lens L u))
                      (column u bh)) (seq 0 (p_units L))
  else
    (* interpolation weights [batch, weights]; matmul(w, bh) *)
    let w := interpolation_weights (nth 0 row 0) (nth 0 (p_lefts L) []) (nth 0 (p_lens L) []) in
    map (fun u => dot w (column u bh)) (seq 0 (p_units L)).

(* is_missing * missing_output + (1 - is_missing) * result, is_missing [batch, cols] *)
Definition mix_row (L : pwl_layer) (m res : list Q) : list Q :=
  map (fun u => let mu := nth (if (length m =? 1)%nat then 0 else u) m 0 in
                mu * nth u (p_missing_output L) 0 + (1 - mu) * nth u res 0) (seq 0 (p_units L)).
(* cast(equal(inputs, missing_input_value)) *)
Definition equal_flags (v : Q) (row : list Q) : list Q := map (fun x => if Qeq_bool x v then 1 else 0) row.

Definition call_row (L : pwl_layer) (row : list Q) (given : option (list Q)) : list Q :=
  let res := calib_row L row in
  if p_impute L then
    match given, p_missing_input L with
    | Some m, _ => mix_row L m res
    | None, Some v => mix_row L (equal_flags v row) res
    | None, None => res  (* unreachable: call rejects this combination first *)
    end
  else res.

(* tf.split(result, units, axis=1) when units > 1 and split_outputs; outputs are
   always represented as a list of matrices (one matrix when not split). *)
Definition split_result (L : pwl_layer) (res : list (list Q)) : list (list (list Q)) :=
  if (1 <? p_units L)%nat && p_split L then
    map (fun u => map (fun r => [nth u r 0]) res) (seq 0 (p_units L))
  else [res].

Definition all_len (n : nat) (m : list (list Q)) : bool := forallb (fun r => (length r =? n)%nat) m.
Fixpoint zip_opt (xs : list (list Q)) (ms : option (list (list Q))) : list (list Q * option (list Q)) :=
  match xs, ms with
  | [], _ => []
  | x :: xs', None => (x, None) :: zip_opt xs' None
  | x :: xs', Some [] => (x, None) :: zip_opt xs' None
  | x :: xs', Some (m :: ms') => (x, Some m) :: zip_opt xs' (Some ms')
  end.

(* call(): None models the ValueError exits.  [inputs] is the [batch, cols]
   input, [is_missing] the optional second tensor of a two-element list,
   [as_list] says the argument was a Python list (of one or two tensors). *)
Definition pwl_call (L : pwl_layer) (as_list : bool) (inputs : list (list Q)) (is_missing : option (list (list Q)))
  : option (list (list (list Q))) :=
  let cols := length (hd [] inputs) in
  let ms_given := match is_missing with Some _ => true | None => false end in
  if (as_list || ms_given) && negb (p_impute L) then None
  else if match is_missing with
          | Some ms => negb ((length ms =? length inputs)%nat && all_len cols ms)
          | None => false end then None
  else if negb (all_len cols inputs) || negb ((cols =? p_units L)%nat || (cols =? 1)%nat) then None
  else if p_impute L && negb ms_given && match p_missing_input L with None => true | _ => false end then None
  else Some (split_result L (map (fun xm => call_row L (fst xm) (snd xm)) (zip_opt inputs is_missing))).

(* keypoints_outputs(): cumsum(kernel) along axis 0 [+ first row again when cyclic] *)
Definition keypoints_outputs_col (L : pwl_layer) (u : nat) : list Q :=
  let c := cumsum_incl 0 (column u (p_kernel L)) in
  if p_cyclic L then c ++ firstn 1 c else c.
(* keypoints_inputs(): interpolation keypoints + (last keypoint + last length) *)
Definition keypoints_inputs_col (L : pwl_layer) (u : nat) : list Q :=
  unit_lefts L u ++ [last (unit_lefts L u) 0 + last (unit_lens L u) 0].
(* both are returned as [num_keypoints][units] *)
Definition table_of_cols (units : nat) (col : nat -> list Q) : list (list Q) :=
  map (fun j => map (fun u => nth j (col u) 0) (seq 0 units)) (seq 0 (length (col 0%nat))).
Definition keypoints_outputs (L : pwl_layer) := table_of_cols (p_units L) (keypoints_outputs_col L).
Definition keypoints_inputs (L : pwl_layer) := table_of_cols (p_units L) (keypoints_inputs_col L).
