(* Model of lattice_lib.project_by_dykstra and the eight _project_partial_*
   group projections.  Same tensor conventions as Model/LatticeFinalize.v: shape
   sizes ++ [units], unit axis last (the code appends it as an unconstrained
   dimension when units > 1).  Every group update is written pointwise: the new
   value at index x is computed from the coordinates of x in the constrained
   dimensions and from the old values at the other vertices of the (unique)
   local constraint of the group that contains x. *)
From TFL Require Export Model.LatticeFinalize.
Open Scope Q_scope.

Definition third (x : Q) : Q := x * (1#3).
Definition quarter (x : Q) : Q := x * (1#4).

(* position of coordinate k inside the pairs (i, i+1), i = g, g+2, ... < n-1 :
   Some (i, false) = k is the lower element, Some (i, true) = the upper one *)
Definition pair_pos (g n k : nat) : option (nat * bool) :=
  if (g <=? k)%nat && Nat.even (k - g) && (S k <? n)%nat then Some (k, false)
  else if (S g <=? k)%nat && Nat.odd (k - g) then Some ((k - 1)%nat, true)
  else None.

(* ---- _project_partial_monotonicity (monotone or unimodal dimension d, group g) ---- *)
Definition mono_group (sh : list nat) (mono uni : Z) (d g : nat) (W : tens) : tens :=
  let n := nth d sh 0%nat in
  memo sh (fun x =>
    match pair_pos g n (nth d x 0%nat) with
    | None => W x
    | Some (i, up) =>
      let lo := W (upd x d i) in let hi := W (upd x d (S i)) in
      let avg := (lo + hi) * (1#2) in
      let first := (i <? n / 2)%nat in
      (* after the monotone update (if any), the unimodal one (if any), as the code *)
      let lo1 := if (mono =? 1)%Z then qmin lo avg else lo in
      let hi1 := if (mono =? 1)%Z then qmax hi avg else hi in
      let inc := ((uni =? -1)%Z && first) || ((uni =? 1)%Z && negb first) in
      let lo2 := if (uni =? 0)%Z then lo1 else if inc then qmin lo1 avg else qmax lo1 avg in
      let hi2 := if (uni =? 0)%Z then hi1 else if inc then qmax hi1 avg else qmin hi1 avg in
      Qred (if up then hi2 else lo2)
    end).

(* reversed conditional axis for direction -1 *)
Definition rv (dir : Z) (sc j : nat) : nat := if (dir <? 0)%Z then (sc - 1 - j)%nat else j.

(* ---- _project_partial_edgeworth ---- *)
Definition edge_group (sh : list nat) (t : trust) (g0 g1 : nat) (W : tens) : tens :=
  let '(m, c, dir) := t in
  let sm := nth m sh 0%nat in let sc := nth c sh 0%nat in
  memo sh (fun x =>
    match pair_pos g0 sm (nth m x 0%nat), pair_pos g1 sc (rv dir sc (nth c x 0%nat)) with
    | Some (i, pm), Some (j, pc) =>
      let L := fun i' j' => W (at2 x m c i' (rv dir sc j')) in
      let diff := (L (S i) j - L i j) - (L (S i) (S j) - L i (S j)) in
      let corr := qmax (quarter diff) 0 in
      Qred (if Bool.eqb pm pc then W x + corr else W x - corr)
    | _, _ => W x
    end).

(* ---- _project_partial_trapezoid ---- *)
Definition trap_group (sh : list nat) (t : trust) (g : nat) (W : tens) : tens :=
  let '(m, c, dir) := t in
  let sm := nth m sh 0%nat in let sc := nth c sh 0%nat in
  let mx := (sm - 1)%nat in
  memo sh (fun x =>
    let a := nth m x 0%nat in
    match pair_pos g sc (rv dir sc (nth c x 0%nat)) with
    | Some (j, up) =>
      let L := fun i' j' => W (at2 x m c i' (rv dir sc j')) in
      if (a =? 0)%nat then
        let corr := qmax ((L 0%nat (S j) - L 0%nat j) * (1#2)) 0 in
        Qred (if up then W x - corr else W x + corr)
      else if (a =? mx)%nat then
        let corr := qmax ((L mx j - L mx (S j)) * (1#2)) 0 in
        Qred (if up then W x + corr else W x - corr)
      else W x
    | None => W x
    end).

(* ---- _project_partial_monotonic_dominance ---- *)
Definition mdom_group (sh : list nat) (p q : nat) (g0 g1 : nat) (g2 : bool) (W : tens) : tens :=
  let sp := nth p sh 0%nat in let sq := nth q sh 0%nat in
  memo sh (fun x =>
    match pair_pos g0 sp (nth p x 0%nat), pair_pos g1 sq (nth q x 0%nat) with
    | Some (i, pa), Some (j, pb) =>
      let L := fun i' j' => W (at2 x p q i' j') in
      let mid := (L i j + L (S i) (S j)) * (1#2) in
      if g2 then
        let corr := qmax (third (mid - L (S i) j)) 0 in
        match pa, pb with
        | true, false => Qred (W x + 2 * corr)
        | false, false | true, true => Qred (W x - corr)
        | false, true => W x
        end
      else
        let corr := qmin (third (mid - L i (S j))) 0 in
        match pa, pb with
        | false, true => Qred (W x + 2 * corr)
        | false, false | true, true => Qred (W x - corr)
        | true, false => W x
        end
    | _, _ => W x
    end).

(* ---- _project_partial_joint_monotonicity ---- *)
Definition jmono_group (sh : list nat) (p q : nat) (g0 g1 : nat) (g2 : bool) (W : tens) : tens :=
  let sp := nth p sh 0%nat in let sq := nth q sh 0%nat in
  memo sh (fun x =>
    match pair_pos g0 sp (nth p x 0%nat), pair_pos g1 sq (nth q x 0%nat) with
    | Some (i, pa), Some (j, pb) =>
      let L := fun i' j' => W (at2 x p q i' j') in
      let mid := (L (S i) j + L i (S j)) * (1#2) in
      if g2 then
        let corr := qmax (third (mid - L (S i) (S j))) 0 in
        match pa, pb with
        | true, true => Qred (W x + 2 * corr)
        | true, false | false, true => Qred (W x - corr)
        | false, false => W x
        end
      else
        let corr := qmin (third (mid - L i j)) 0 in
        match pa, pb with
        | false, false => Qred (W x + 2 * corr)
        | true, false | false, true => Qred (W x - corr)
        | true, true => W x
        end
    | _, _ => W x
    end).

(* ---- _project_partial_range_dominance, constraint group = vertex (i, j) ---- *)
Definition rdom_group (sh : list nat) (p q : nat) (i j : nat) (W : tens) : tens :=
  let dmax := (nth p sh 0%nat - 1)%nat in let wmax := (nth q sh 0%nat - 1)%nat in
  let corner := ((i =? 0)%nat || (i =? dmax)%nat) && ((j =? 0)%nat || (j =? wmax)%nat) in
  memo sh (fun x =>
    let a := nth p x 0%nat in let b := nth q x 0%nat in
    let L := fun i' j' => W (at2 x p q i' j') in
    let diff := (L i wmax - L i 0%nat) - (L dmax j - L 0%nat j) in
    let is := fun i' j' => (a =? i')%nat && (b =? j')%nat in
    if corner then
      let corr := qmax (diff * (1#2)) 0 in
      let d1 := if (i =? 0)%nat then (if is dmax j then corr else 0) else (if is 0%nat j then - corr else 0) in
      let d2 := if (j =? 0)%nat then (if is i wmax then - corr else 0) else (if is i 0%nat then corr else 0) in
      Qred (W x + d1 + d2)
    else
      let corr := qmax (quarter diff) 0 in
      Qred (W x + (if is i wmax then - corr else 0) + (if is i 0%nat then corr else 0)
                + (if is dmax j then corr else 0) + (if is 0%nat j then - corr else 0))).

(* ---- _project_partial_joint_unimodality ---- *)
(* equation / vertices for (vertex, offsets): None = the code returns None.
   vertices are coordinate lists over [dims]; the last entry is the vertex itself *)
Fixpoint ju_terms (sizes centre vertex : list nat) (offs : list bool) (k : nat)
  : option (list (nat * nat * Z)) :=   (* (position in dims, new coordinate, coefficient) *)
  match sizes, centre, vertex, offs with
  | s :: sizes', c :: centre', v :: vertex', o :: offs' =>
      match ju_terms sizes' centre' vertex' offs' (S k) with
      | None => None
      | Some rest =>
        let dw := (Z.of_nat v - Z.of_nat c)%Z in
        if (dw =? 0)%Z then Some rest
        else
          let nb := (Z.of_nat v + (if o then 1 else -1))%Z in
          if (nb <? 0)%Z || (Z.of_nat s <=? nb)%Z then None
          else Some ((k, Z.to_nat nb, (dw * (if o then 1 else -1))%Z) :: rest)
      end
  | _, _, _, _ => Some []
  end.

Fixpoint set_coords (x : idx) (dims : list nat) (vals : list nat) : idx :=
  match dims, vals with d :: dims', v :: vals' => set_coords (upd x d v) dims' vals' | _, _ => x end.
Fixpoint coords_eqb (x : idx) (dims : list nat) (vals : list nat) : bool :=
  match dims, vals with
  | d :: dims', v :: vals' => (nth d x 0%nat =? v)%nat && coords_eqb x dims' vals'
  | _, _ => true
  end.

Definition junimod_group (sh : list nat) (dims : list nat) (valley : bool) (vertex : list nat) (offs : list bool)
  : option (tens -> tens) :=
  let sizes := map (fun d => nth d sh 0%nat) dims in
  let centre := map (fun s => (s / 2)%nat) sizes in
  if forallb (fun p => (fst p =? snd p)%nat) (combine vertex centre) then None
  else match ju_terms sizes centre vertex offs 0 with
  | None => None
  | Some [] => None
  | Some terms =>
    let nbs := map (fun t => let '(k, nv, cf) := t in (upd vertex k nv, inject_Z cf)) terms in
    let csum := fold_right Z.add 0%Z (map (fun t => snd t) terms) in
    let eqn := nbs ++ [(vertex, inject_Z (- csum))] in
    let norm := qsum (map (fun e => snd e * snd e) eqn) in
    Some (fun W => memo sh (fun x =>
      let viol := qsum (map (fun e => W (set_coords x dims (fst e)) * snd e) eqn) in
      let viol := if valley then qmin viol 0 else qmax viol 0 in
      let cf := viol / norm in
      match find (fun e => coords_eqb x dims (fst e)) eqn with
      | Some e => Qred (W x - cf * snd e)
      | None => W x
      end))
  end.

(* ---- project_by_dykstra ---- *)
Record dyk_cfg := mkDykCfg {
  k_sizes : list nat; k_units : nat;
  k_monos : list Z; k_unis : list Z;
  k_edge : list trust; k_trap : list trust;
  k_mdom : list (nat * nat); k_rdom : list (nat * nat);
  k_jmono : list (nat * nat);
  k_juni : list (list nat * bool);      (* (dimensions, valley?) *)
  k_iters : nat
}.
Definition k_shape (c : dyk_cfg) : list nat := k_sizes c ++ [k_units c].

Definition count_nonzero (l : list Z) : nat := length (filter (fun z => negb (z =? 0)%Z) l).

(* all coordinate vectors over the given sizes, lexicographic (itertools.product) *)
Definition all_vertices (sizes : list nat) : list (list nat) := all_idx sizes.
Fixpoint all_offsets (n : nat) : list (list bool) :=
  match n with O => [[]] | S n' => flat_map (fun o => map (cons o) (all_offsets n')) [false; true] end.

(* the group projections of one sweep, in the order of body(), each with the key
   under which the code stores its last change (duplicated constraints share
   one dictionary entry) *)
Definition zn (n : nat) : Z := Z.of_nat n.
Definition zb (b : bool) : Z := if b then 1%Z else 0%Z.
Definition key := list Z.
Fixpoint key_eqb (a b : key) : bool :=
  match a, b with
  | [], [] => true
  | x :: a', y :: b' => (x =? y)%Z && key_eqb a' b'
  | _, _ => false
  end.

Definition group_ops (c : dyk_cfg) : list (key * (tens -> tens)) :=
  let sh := k_shape c in
  let rank := length (k_sizes c) in
  let sz := fun d => nth d sh 0%nat in
  flat_map (fun d =>
      let m := nth d (k_monos c) 0%Z in let u := nth d (k_unis c) 0%Z in
      if (m =? 0)%Z && (u =? 0)%Z then []
      else flat_map (fun g => if (sz d <=? g + 1)%nat then [] else [([0; zn d; zn g]%Z, mono_group sh m u d g)]) [0%nat; 1%nat])
    (seq 0 rank)
  ++ flat_map (fun t => let '(m, cd, dir) := t in
      flat_map (fun g => let '(g0, g1) := g in
          if (sz m - 1 <=? g0)%nat || (sz cd - 1 <=? g1)%nat then []
          else [([1; zn m; zn cd; dir; zn g0; zn g1]%Z, edge_group sh t g0 g1)])
        [(0, 0); (0, 1); (1, 0); (1, 1)]%nat) (k_edge c)
  ++ flat_map (fun t => let '(m, cd, dir) := t in
      flat_map (fun g => if (sz cd - 1 <=? g)%nat then [] else [([2; zn m; zn cd; dir; zn g]%Z, trap_group sh t g)]) [0%nat; 1%nat]) (k_trap c)
  ++ flat_map (fun pq => let '(p, q) := pq in
      flat_map (fun g => let '(g0, g1, g2) := g in
          if (sz p - 1 <=? g0)%nat || (sz q - 1 <=? g1)%nat then []
          else [([3; zn p; zn q; zn g0; zn g1; zb g2]%Z, mdom_group sh p q g0 g1 g2)])
        [(0,0,false); (0,0,true); (0,1,false); (0,1,true); (1,0,false); (1,0,true); (1,1,false); (1,1,true)]%nat)
      (k_mdom c)
  ++ flat_map (fun pq => let '(p, q) := pq in
      map (fun ij => ([4; zn p; zn q; zn (fst ij); zn (snd ij)]%Z, rdom_group sh p q (fst ij) (snd ij)))
          (list_prod (seq 0 (sz p)) (seq 0 (sz q)))) (k_rdom c)
  ++ flat_map (fun pq => let '(p, q) := pq in
      flat_map (fun g => let '(g0, g1, g2) := g in
          if (sz p - 1 <=? g0)%nat || (sz q - 1 <=? g1)%nat then []
          else [([5; zn p; zn q; zn g0; zn g1; zb g2]%Z, jmono_group sh p q g0 g1 g2)])
        [(0,0,false); (0,0,true); (0,1,false); (0,1,true); (1,0,false); (1,0,true); (1,1,false); (1,1,true)]%nat)
      (k_jmono c)
  ++ flat_map (fun ju => let '(dims, valley) := ju in
      flat_map (fun v => flat_map (fun o =>
          match junimod_group sh dims valley v o with
          | Some f => [((6 :: zn (length dims) :: map zn dims ++ map zn v ++ map zb o)%Z, f)]
          | None => []
          end) (all_offsets (length dims)))
        (all_vertices (map sz dims))) (k_juni c).

(* last_change dictionary *)
Definition lc_get (lc : list (key * tens)) (k : key) : tens :=
  match find (fun e => key_eqb (fst e) k) lc with Some e => snd e | None => (fun _ => 0) end.
Fixpoint lc_set (lc : list (key * tens)) (k : key) (t : tens) : list (key * tens) :=
  match lc with
  | [] => [(k, t)]
  | e :: r => if key_eqb (fst e) k then (k, t) :: r else e :: lc_set r k t
  end.

(* one group step: roll back the stored change, project, store the new change *)
Definition dyk_step (sh : list nat) (st : tens * list (key * tens)) (kop : key * (tens -> tens)) : tens * list (key * tens) :=
  let '(W, lc) := st in let '(k, op) := kop in
  let last := lc_get lc k in
  let rolled := memo sh (fun x => Qred (W x - last x)) in
  let W' := op rolled in
  (W', lc_set lc k (memo sh (fun x => Qred (W' x - rolled x)))).

Definition dyk_sweep (sh : list nat) (ops : list (key * (tens -> tens))) (st : tens * list (key * tens)) : tens * list (key * tens) :=
  fold_left (dyk_step sh) ops st.

Fixpoint dyk_loop (sh : list nat) (ops : list (key * (tens -> tens))) (n : nat) (st : tens * list (key * tens)) : tens * list (key * tens) :=
  match n with O => st | S n' => dyk_loop sh ops n' (dyk_sweep sh ops st) end.

Definition project_by_dykstra (c : dyk_cfg) (W : tens) : tens :=
  if (k_iters c =? 0)%nat then W
  else if (count_nonzero (k_monos c) + count_nonzero (k_unis c) =? 0)%nat
          && match k_jmono c with [] => true | _ => false end
          && match k_juni c with [] => true | _ => false end
          && match k_rdom c with [] => true | _ => false end then W
  else
    let sh := k_shape c in
    fst (dyk_loop sh (group_ops c) (k_iters c) (W, [])).

Definition dykstra_flat (c : dyk_cfg) (w : list Q) : list Q :=
  to_list (k_shape c) (project_by_dykstra c (of_list (k_shape c) w)).
