(* Model of the Lattice layer's forward pass (lattice_layer.py Lattice.call,
   lattice_lib.py evaluate_with_hypercube_interpolation,
   compute_interpolation_weights, batch_outer_operation,
   evaluate_with_simplex_interpolation, _clip_onto_lattice_range).
   Definitions only; lemmas are in Proofs/LatticeInterp.v.

   Kernel: matrix K[p][u], p = row-major flat vertex index, u = unit.
   Input point: one coordinate row per unit (a single row when units = 1). *)
From TFL Require Export Base.Lists Base.Tensor Model.Interp1D.
Open Scope Q_scope.

(* ---------- _clip_onto_lattice_range: clip_by_value(x_d, 0, size_d - 1.0) ---------- *)
Definition clip_onto (sizes : list nat) (x : list Q) : list Q :=
  map2 (fun s xd => qclip 0 (qn s - 1) xd) sizes x.

Definition all2 (sizes : list nat) : bool := forallb (Nat.eqb 2) sizes.

(* ---------- hypercube ---------- *)
(* 2^d special case, input given as one tensor:
     w = stack([1 - x, x]); if clip_inputs: w = clip_by_value(w, 0, 1) *)
Definition w_fast (clip : bool) (xd : Q) : nat -> Q := fun k =>
  let w := match k with O => 1 - xd | S O => xd | _ => 0 end in
  if clip then qclip 0 1 w else w.

(* one-dimensional interpolation weights, one weight function per dimension.
   General path: inputs clipped onto the lattice range first (if requested),
   weight of keypoint k = 1 - min(|x - k|, 1).  The bucketing of consecutive
   equal sizes only shares TF ops; per dimension it computes the same thing. *)
Definition hyper_weights (tensor_input clip : bool) (sizes : list nat) (x : list Q) : list (nat -> Q) :=
  if all2 sizes && tensor_input then map (w_fast clip) x
  else map hat (if clip then clip_onto sizes x else x).

(* sum over all vertices of (prod_d w_d(i_d)) * K(i), written as a recursion
   over the dimensions: the index-level meaning of batch_outer_operation (outer
   products merged in row-major order, tf.multiply or tf.matmul alike) followed
   by the product with the kernel column. *)
Fixpoint interp_w (sizes : list nat) (ws : list (nat -> Q)) (K : tens) : Q :=
  match sizes, ws with
  | s :: ss, w :: ws' => rsum (map (fun k => w k * interp_w ss ws' (fun i => K (k :: i))) (seq 0 s))
  | _, _ => K []
  end.

Definition hyper_unit (tensor_input clip : bool) (sizes : list nat) (K : tens) (x : list Q) : Q :=
  interp_w sizes (hyper_weights tensor_input clip sizes x) K.

(* The same computation as the code literally performs it.
   batch_outer_operation: result = w_0; for every further weight vector w:
     result = reshape(result[..., :, None] * w[..., None, :])   (tf.multiply, or tf.matmul from the 8th on)
   i.e. result'[j * |w| + k] = result[j] * w[k]; then the product with the kernel
   column (matmul for units = 1, reduce_sum(weights * transpose(kernel)) else).
   Proofs/LatticeOuter.v shows hyper_unit_lit == hyper_unit on the row-major kernel. *)
Definition outer_step (acc w : list Q) : list Q := flat_map (fun a => map (Qmult a) w) acc.
Definition batch_outer (ws : list (list Q)) : list Q :=
  match ws with [] => [] | w0 :: rest => fold_left outer_step rest w0 end.
Definition weight_lists (sizes : list nat) (ws : list (nat -> Q)) : list (list Q) :=
  map2 (fun s w => map w (seq 0 s)) sizes ws.
Definition dot (a b : list Q) : Q := rsum (map2 Qmult a b).
Definition hyper_unit_lit (tensor_input clip : bool) (sizes : list nat) (Kcol : list Q) (x : list Q) : Q :=
  dot (batch_outer (weight_lists sizes (hyper_weights tensor_input clip sizes x))) Kcol.

(* ---------- simplex ---------- *)
Definition prodn (l : list nat) : nat := fold_right Nat.mul 1%nat l.
(* np.cumprod([1] + sizes[::-1][:-1])[::-1] : stride of dimension d = product of the later sizes *)
Fixpoint strides (sizes : list nat) : list nat :=
  match sizes with [] => [] | _ :: ss => prodn ss :: strides ss end.

(* tf.cast(x, tf.int32): truncation toward zero *)
Definition qtrunc (x : Q) : Z := Z.quot (Qnum x) (Zpos (Qden x)).

(* tf.argsort / tf.sort with direction="DESCENDING" (top_k): among equal values
   the lower index comes first.  Insertion sort over (value, dimension) pairs;
   fold_right inserts the later dimensions first, so an element must be placed
   in front of everything that is <= it. *)
Fixpoint insert_desc (a : Q * nat) (l : list (Q * nat)) : list (Q * nat) :=
  match l with
  | [] => [a]
  | b :: l' => if qle (fst b) (fst a) then a :: l else b :: insert_desc a l'
  end.
Definition sort_desc (l : list (Q * nat)) : list (Q * nat) := fold_right insert_desc [] l.

Definition nthZ (i : Z) (l : list Q) : Q := if (i <? 0)%Z then 0 else nth (Z.to_nat i) l 0.
Fixpoint cumsumZ (acc : Z) (l : list Z) : list Z :=
  match l with [] => [] | a :: l' => (acc + a)%Z :: cumsumZ (acc + a) l' end.
Fixpoint zdot (a : list Z) (b : list nat) : Z :=
  match a, b with x :: a', y :: b' => (x * Z.of_nat y + zdot a' b')%Z | _, _ => 0%Z end.

(* lower corner of the cell (not computed for 2^d lattices: offset 0, the
   inputs themselves are the residuals) and residual *)
Definition lower_corner (sizes : list nat) (x : list Q) : list Z :=
  map2 (fun s xd => Z.min (qtrunc xd) (Z.of_nat s - 2)) sizes x.

Definition simplex_unit (clip : bool) (sizes : list nat) (gather : Z -> Q) (x : list Q) : Q :=
  let x := if clip then clip_onto sizes x else x in
  let st := strides sizes in
  let corner := lower_corner sizes x in
  let offset := if all2 sizes then 0%Z else zdot corner st in
  let res := if all2 sizes then x else map2 (fun xd c => xd - inject_Z c) x corner in
  let sorted := sort_desc (combine res (seq 0 (length res))) in
  let sorted_inputs := map fst sorted in
  (* pad left with 1, pad right with 0, subtract *)
  let weights := map2 Qminus (1 :: sorted_inputs) (sorted_inputs ++ [0]) in
  let sorted_strides := map (fun p => Z.of_nat (nth (snd p) st 0%nat)) sorted in
  let indices := cumsumZ 0 (offset :: sorted_strides) in
  rsum (map2 Qmult (map gather indices) weights).

(* ---------- layer ---------- *)
Inductive scheme := Hypercube | Simplex.

(* output function of unit u.
   hypercube: units = 1: matmul(weights, kernel); units > 1:
     reduce_sum(weights * transpose(kernel), -1)   -> column u of the kernel;
   simplex: units = 1: gather(reshape(kernel, [-1]), indices); units > 1:
     gather(reshape(kernel, [-1]), indices * units + u). *)
Definition unit_fn (sc : scheme) (tensor_input clip : bool) (units : nat) (sizes : list nat)
           (K : list (list Q)) (u : nat) : list Q -> Q :=
  match sc with
  | Hypercube =>
      let Kcol := column u K in
      fun x => hyper_unit_lit tensor_input clip sizes Kcol x
  | Simplex =>
      let flat := concat K in
      let g := if (units =? 1)%nat then fun i => nthZ i flat
               else fun i => nthZ (i * Z.of_nat units + Z.of_nat u) flat in
      fun x => simplex_unit clip sizes g x
  end.

(* a batch of points; each point has one coordinate row per unit *)
Definition lattice_eval (sc : scheme) (tensor_input clip : bool) (units : nat) (sizes : list nat)
           (K : list (list Q)) (pts : list (list (list Q))) : list (list Q) :=
  let fs := map (unit_fn sc tensor_input clip units sizes K) (seq 0 units) in
  map (fun pt => map2 (fun f x => f x) fs pt) pts.
