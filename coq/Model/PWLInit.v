(* Model of the PWLCalibration kernel initialisers:
     pwl_calibration_lib.linear_initializer (equal heights / equal slopes,
     decreasing flip, tiling over units), convert_all_constraints (init range
     _output_init_min/_max and the bound-constraint kinds), and the choice made
     by PWLCalibration.__init__/build ('equal_heights' / 'equal_slopes',
     num_weights = num_keypoints - is_cyclic).
   One kernel column is  bias :: heights  (as in Model/PWLProject.v). *)
From TFL Require Export Base.Lists Model.PWLProject.
Open Scope Q_scope.

(* _convert_constraints *)
Definition convert_constraints (value : option Q) (clamp : bool) : Q * bct :=
  match value with
  | None => (0, BNone)
  | Some v => (v, if clamp then BClamped else BBound)
  end.
(* convert_all_constraints: (output_min, output_max, min kind, max kind) *)
Definition convert_all_constraints (omin omax : option Q) (clamp_min clamp_max : bool) : Q * Q * bct * bct :=
  match omin, omax with
  | None, _ => let '(mx, cmx) := convert_constraints omax clamp_max in (mx, mx, BNone, cmx)
  | Some _, None => let '(mn, cmn) := convert_constraints omin clamp_min in (mn, mn, cmn, BNone)
  | Some _, Some _ =>
      let '(mn, cmn) := convert_constraints omin clamp_min in
      let '(mx, cmx) := convert_constraints omax clamp_max in (mn, mx, cmn, cmx)
  end.

(* keypoints[1:] - keypoints[:-1] *)
Definition kp_lengths (kps : list Q) : list Q := map2 (fun b a => b - a) (tl kps) kps.

Definition pwl_init_heights (num_keypoints : nat) (omin omax : Q) (kps : option (list Q)) : list Q :=
  match kps with
  | None =>
      let num_pieces := (num_keypoints - 1)%nat in
      repeat (Qred ((omax - omin) / qn num_pieces)) num_pieces
  | Some k =>
      let lengths := kp_lengths k in
      let c := (omax - omin) / qsum lengths in
      map (fun l => Qred (l * c)) lengths
  end.

(* one column of linear_initializer's result *)
Definition pwl_linear_init_col (num_keypoints : nat) (omin omax : Q) (mono : Z) (kps : option (list Q)) : list Q :=
  let hs := pwl_init_heights num_keypoints omin omax kps in
  if (mono =? -1)%Z then omax :: map Qopp hs else omin :: hs.
(* the (num_keypoints, units) matrix, rows = weights: every column identical (tf.tile / shape=[1, units]) *)
Definition pwl_linear_init (num_keypoints units : nat) (omin omax : Q) (mono : Z) (kps : option (list Q)) : list (list Q) :=
  map (fun x => repeat x units) (pwl_linear_init_col num_keypoints omin omax mono kps).

(* PWLCalibration(...).build: kernel_initializer 'equal_heights' (slopes = false) or 'equal_slopes' *)
Definition pwl_layer_init (kps : list Q) (units : nat) (omin omax : option Q) (clamp_min clamp_max : bool)
           (mono : Z) (is_cyclic slopes : bool) : list (list Q) :=
  let '(imin, imax, _, _) := convert_all_constraints omin omax clamp_min clamp_max in
  let num_weights := (length kps - (if is_cyclic then 1 else 0))%nat in
  pwl_linear_init num_weights units imin imax mono (if slopes then Some kps else None).

(* value of the calibrator at the keypoints: cumulative sums of the column *)
Definition pwl_keypoint_values (col : list Q) : list Q := cumsum col.
