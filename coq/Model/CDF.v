(* Model of tensorflow_lattice/python/conditional_cdf.py (cdf_fn,
   _verify_cdf_params) and cdf_layer.py (CDF.build / CDF.call, NonNeg input
   scaling constraint).  Definitions only.

   sigmoid, exp and log are ORACLES passed as arguments ([sg], [ex], [lg]);
   relu6(x)/6 is exact. *)
From TFL Require Export Base.QNum Base.Lists Model.CondPWL.
Open Scope Q_scope.

Inductive act := Relu6 | Sigmoid | ActOther.
Inductive red := RMean | RGeo | RNone | RedOther.

Definition relu6 (z : Q) : Q := qmin (qmax z 0) 6.
(* reduce_mean over a list *)
Definition qmean (l : list Q) : Q := qsum l / inject_Z (Z.of_nat (length l)).
(* reduce_mean(activation(x), axis=2) [/ 6] for one (input, unit-column) cell:
   zs = pre-activations over the keypoint axis *)
Definition basis (sg : Q -> Q) (a : act) (zs : list Q) : Q :=
  match a with
  | Sigmoid => qmean (map sg zs)
  | _ => qmean (map relu6 zs) * (1 # 6)
  end.

(* tf.reshape(result, (-1, rows, units)) of one example, row-major *)
Definition reshape2 (rows cols : nat) (m : list (list Q)) : list (list Q) :=
  let flat := concat m in
  map (fun i => map (fun u => nth (i * cols + u) flat 0) (seq 0 cols)) (seq 0 rows).

(* reduction over axis 1 of one example's (rows x units) matrix *)
Definition geo (ex lg : Q -> Q) (eps : Q) (nterms : nat) (col : list Q) : Q :=
  ex (qsum (map (fun v => lg (v + eps)) col) / inject_Z (Z.of_nat nterms)).
Definition reduce (ex lg : Q -> Q) (r : red) (eps : Q) (nterms units : nat) (m : list (list Q)) : list (list Q) :=
  match r with
  | RMean => [map (fun u => qmean (column u m)) (seq 0 units)]
  | RGeo => [map (fun u => geo ex lg eps nterms (column u m)) (seq 0 units)]
  | _ => m
  end.

Definition act_ok (a : act) : bool := match a with ActOther => false | _ => true end.
Definition red_ok (r : red) : bool := match r with RedOther => false | _ => true end.

(* ---- cdf_fn, one example ---------------------------------------------- *)
(* loc : input_dim x num_functions x (units / sparsity); scal broadcastable to it
   (each axis full or of size 1); [scal = None] : no scaling_parameters.
   [expm] = scaling_exp_transform_multiplier. *)
Definition eps_fn : Q := 1 # 100000000.
Definition scale_of (ex : Q -> Q) (expm : option Q) (s : Q) : Q :=
  match expm with Some m => ex (s * m) | None => s end.
Definition cdf_cells (sg ex : Q -> Q) (a : act) (expm : option Q) (x : list Q)
    (loc : list (list (list Q))) (scal : option (list (list (list Q)))) (uf : nat) : list (list Q) :=
  map (fun i =>
    map (fun v =>
      basis sg a
        (map (fun k =>
           let z := nth i x 0 - nth v (nth k (nth i loc []) []) 0 in
           match scal with
           | None => z
           | Some s => z * scale_of ex expm (bsel 0 v (bsel [] k (bsel [] i s)))
           end)
         (seq 0 (length (nth i loc [])))))
      (seq 0 uf))
    (seq 0 (length x)).

(* _verify_cdf_params on the static shapes *)
Definition verify_cdf (a : act) (r : red) (input_dim units sf : nat) (loc : list (list (list Q))) : bool :=
  act_ok a && red_ok r
  && (0 <? sf)%nat
  && (units mod sf =? 0)%nat && (input_dim mod sf =? 0)%nat
  && (length loc =? input_dim)%nat
  && forallb (fun li => forallb (fun lk => (length lk =? units / sf)%nat) li) loc.

Definition cdf_fn (sg ex lg : Q -> Q) (a : act) (r : red) (units sf : nat) (expm : option Q)
    (x : list Q) (loc : list (list (list Q))) (scal : option (list (list (list Q))))
    : option (list (list Q)) :=
  let input_dim := length x in
  if negb (verify_cdf a r input_dim units sf loc) then None else
  let cells := cdf_cells sg ex a expm x loc scal (units / sf) in
  let res := if (sf =? 1)%nat then cells else reshape2 (input_dim / sf) units cells in
  Some (reduce ex lg r eps_fn (length res) units res).

(* ---- tfl.layers.CDF, one example --------------------------------------- *)
Inductive scaling_type := SFixed | SShared | SPerInput.
Definition eps_layer : Q := 1 # 1000.

(* keras.constraints.NonNeg: w * cast(w >= 0) *)
Definition nonneg (w : list Q) : list Q := map (fun v => if qle 0 v then v else 0) w.

(* kernel : D x num_keypoints x (units / sparsity)  (leading axis of size 1 dropped);
   scaling : [s] for 'fixed' / 'learned_shared', D values for 'learned_per_input'.
   x : the example, of width D, or of width 1 (broadcast against the kernel). *)
Definition layer_cells (sg : Q -> Q) (a : act) (kernel : list (list (list Q))) (scaling x : list Q) (uf : nat)
    : list (list Q) :=
  map (fun i =>
    map (fun v =>
      basis sg a
        (map (fun k => bsel 0 i scaling * (bsel 0 i x - nth v (nth k (nth i kernel []) []) 0))
           (seq 0 (length (nth i kernel [])))))
      (seq 0 uf))
    (seq 0 (length kernel)).
Definition cdf_layer (sg ex lg : Q -> Q) (a : act) (r : red) (units sf : nat)
    (kernel : list (list (list Q))) (scaling : list Q) (x : list Q) : option (list (list Q)) :=
  let D := length kernel in
  let W := length x in
  if negb (act_ok a && red_ok r && (0 <? sf)%nat && (D mod sf =? 0)%nat && (units mod sf =? 0)%nat
           && ((W =? D) || (W =? 1))%nat) then None else
  let cells := layer_cells sg a kernel scaling x (units / sf) in
  if (sf =? 1)%nat then Some (reduce ex lg r eps_layer W units cells)
  else if (W =? D)%nat then Some (reduce ex lg r eps_layer (W / sf) units (reshape2 (W / sf) units cells))
  else None.

(* exact stand-ins for execution when an oracle is not exercised *)
Definition no_oracle (z : Q) : Q := 0.
(* closest-key table lookup (keys of the tables are float values; the model's
   argument differs from them by rounding only) *)
Definition tbl_near (tbl : list (Q * Q)) (x : Q) : Q :=
  match tbl with
  | [] => 0
  | e :: r => snd (fold_left (fun best e' => if qlt (qabs (fst e' - x)) (qabs (fst best - x)) then e' else best) r e)
  end.
