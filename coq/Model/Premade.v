(* Model of the premade / composed models (premade.py, premade_lib.py build_xxx functions):
   the composed forward functions, assembled FROM the evaluation models of the
   single layers (Model/PWLEval.v pwl_fn, Model/CategoricalEval.v cat_row,
   Model/LatticeInterp.v unit_fn, Model/LinearEval.v lin_unit), and the layer
   state machine "any sequence of optimizer updates / weight restores /
   re-initialisations".  Definitions only; lemmas are in Proofs/Premade.v.

   Shapes as premade_lib builds them:
   - one input column per feature; every feature goes through its calibrator
     (build_multi_unit_calibration_layers; units > 1 calibrators are split into
     one output per lattice, so every (feature, unit) pair is one [calib]);
   - the lattice receives the calibrated columns as a Python LIST and is built
     with clip_inputs=False (build_lattice_layer, build_rtl_layer);
   - Linear is built without input bounds (build_linear_layer,
     build_linear_combination_layer);
   - optional output PWL calibrator on top (build_output_calibration_layer). *)
From TFL Require Export Base.Lists Model.PWLEval Model.CategoricalEval Model.LinearEval Model.LatticeInterp.
Open Scope Q_scope.

(* ---------------------------------------------------------------------- *)
(* Calibrators                                                             *)
(* ---------------------------------------------------------------------- *)
(* CPwl: tables of one PWLCalibration unit (left keypoints, lengths, kernel
   column bias :: heights) and, when the feature has a default_value,
   (missing_input_value, missing output of that unit).
   CCat: the kernel column of one CategoricalCalibration unit and
   default_input_value. *)
Inductive calib :=
| CPwl (kps lens col : list Q) (missing : option (Q * Q))
| CCat (vals : list Q) (default : option Z).

Definition cat_layer_of (vals : list Q) (default : option Z) : cat_layer :=
  mkCat (length vals) 1 (map (fun v => [v]) vals) default false.

(* PWLCalibration.call with impute_missing: is_missing = cast(equal(x, missing_input_value));
   is_missing * missing_output + (1 - is_missing) * result. *)
Definition calib_eval (c : calib) (x : Q) : Q :=
  match c with
  | CPwl kps lens col None => pwl_fn kps lens col x
  | CPwl kps lens col (Some (miv, mo)) =>
      let m := if Qeq_bool x miv then 1 else 0 in
      m * mo + (1 - m) * pwl_fn kps lens col x
  | CCat vals default => nth 0 (cat_row (cat_layer_of vals default) [x]) 0
  end.

(* the calibrated coordinates handed to the next layer *)
Definition calibrate (cals : list calib) (x : list Q) : list Q := map2 calib_eval cals x.

(* optional output calibrator (kps, lens, column); no missing-value handling *)
Definition out_calib := option (list Q * list Q * list Q)%type.
Definition out_eval (oc : out_calib) (y : Q) : Q :=
  match oc with Some (kps, lens, col) => pwl_fn kps lens col y | None => y end.

(* ---------------------------------------------------------------------- *)
(* tfl.premade.CalibratedLattice (all_vertices parameterization)            *)
(* ---------------------------------------------------------------------- *)
Definition cal_lattice_eval (sc : scheme) (sizes : list nat) (K : list (list Q)) (cals : list calib)
           (oc : out_calib) (x : list Q) : Q :=
  out_eval oc (LatticeInterp.unit_fn sc false false 1 sizes K 0 (calibrate cals x)).

(* ---------------------------------------------------------------------- *)
(* tfl.premade.CalibratedLinear                                             *)
(* ---------------------------------------------------------------------- *)
Definition no_bounds (k : list Q) : list bound := map (fun _ => (None, None)) k.
Definition cal_linear_eval (k : list Q) (b : Q) (cals : list calib) (oc : out_calib) (x : list Q) : Q :=
  out_eval oc (lin_unit k b (no_bounds k) (calibrate cals x)).

(* ---------------------------------------------------------------------- *)
(* tfl.premade.CalibratedLatticeEnsemble (explicit / random / crystals / RTL  *)
(* structure): every member lattice reads a sub-list of the features through *)
(* its own calibrator units (shared calibration = the same calib repeated);  *)
(* outputs are averaged (keras Average / RTL average_outputs) or combined by *)
(* the output Linear layer.                                                  *)
(* ---------------------------------------------------------------------- *)
Record member := mkMember {
  m_idx : list nat;          (* which features, in lattice-dimension order *)
  m_cals : list calib;       (* their calibrator units *)
  m_sc : scheme;
  m_sizes : list nat;
  m_K : list (list Q) }.

Definition member_inputs (m : member) (x : list Q) : list Q := map (fun i => nth i x 0) (m_idx m).
Definition member_eval (m : member) (x : list Q) : Q :=
  LatticeInterp.unit_fn (m_sc m) false false 1 (m_sizes m) (m_K m) 0 (calibrate (m_cals m) (member_inputs m x)).

Inductive combiner := Average | LinComb (w : list Q) (b : Q).
Definition average (outs : list Q) : Q := qsum outs / qn (length outs).
Definition combine_outs (c : combiner) (outs : list Q) : Q :=
  match c with
  | Average => average outs
  | LinComb w b => lin_unit w b (no_bounds w) outs
  end.

Definition ensemble_eval (ms : list member) (c : combiner) (oc : out_calib) (x : list Q) : Q :=
  out_eval oc (combine_outs c (map (fun m => member_eval m x) ms)).

(* ---------------------------------------------------------------------- *)
(* How premade_lib maps a feature's configuration to layer arguments         *)
(* ---------------------------------------------------------------------- *)
(* feature_config.monotonicity after canonicalisation: numeric features 1 / -1 / 0,
   categorical features a list of (left, right) bucket pairs *)
Inductive fmono := MNum (m : Z) | MPairs (ps : list (nat * nat)).

(* _monotonicities_from_feature_configs: lattice / linear dimension flag.
   0 / 'none' / empty list -> 0, everything else -> 1 (decreasing features get
   a DEcreasing calibrator and an INcreasing lattice dimension). *)
Definition lattice_dim_mono (f : fmono) : Z :=
  match f with
  | MNum m => if (m =? 0)%Z then 0%Z else 1%Z
  | MPairs [] => 0%Z
  | MPairs _ => 1%Z
  end.

(* build_multi_unit_calibration_layers: PWL calibrator monotonicity; an
   unconstrained feature still gets an increasing calibrator when
   pwl_calibration_always_monotonic is set *)
Definition calibrator_mono (m : Z) (always_monotonic : bool) : Z :=
  if (m =? 0)%Z && always_monotonic then 1%Z else m.

(* build_rtl_layer: a feature goes to the RTL 'increasing' input iff
   _monotonicities_from_feature_configs([feature_config])[0] is non-zero - the
   same rule as for explicit lattices (since the fix of the routing finding;
   before it the test was "monotonicity in [1, -1, 'increasing',
   'decreasing']", which sent categorical pair lists to 'unconstrained'). *)
Definition rtl_routed_increasing (f : fmono) : bool := negb (lattice_dim_mono f =? 0)%Z.

(* _output_range: (output_min, output_max) of the layer feeding ... *)
Inductive layer_range := InputToLattice (lattice_size : nat) | ModelOutput (omin omax : option Q) | InputToFinalCalibration.
Definition output_range (r : layer_range) : option Q * option Q :=
  match r with
  | InputToLattice s => (Some 0, Some (qn s - 1))
  | ModelOutput lo hi => (lo, hi)
  | InputToFinalCalibration => (Some 0, Some 1)
  end.

(* ---------------------------------------------------------------------- *)
(* Layer state machine                                                       *)
(* ---------------------------------------------------------------------- *)
(* A constrained variable: its initial value and the constraint function that
   Keras applies to the raw value an optimizer step produced
   (add_weight(constraint=...)).  A state holds one value per variable.
   Update delta: variable i receives the ARBITRARY raw value delta i (any
   optimizer, loss, batch, learning rate, number of micro-steps), then its
   constraint is applied.  Restore k: the k-th state reached so far (in
   chronological order; set_weights / load_weights of something saved
   earlier).  Init: a freshly constructed model. *)
Section Machine.
  Variable val : Type.
  Record var := mkVar { v_init : val; v_con : val -> val }.
  Definition state := list val.
  Inductive op := Update (delta : nat -> val) | Restore (k : nat) | Init.

  Definition init_state (vs : list var) : state := map v_init vs.
  Fixpoint apply_update_from (i : nat) (vs : list var) (delta : nat -> val) : state :=
    match vs with [] => [] | v :: r => v_con v (delta i) :: apply_update_from (S i) r delta end.
  Definition apply_update (vs : list var) (delta : nat -> val) : state := apply_update_from 0 vs delta.

  (* history: newest state first *)
  Definition step (vs : list var) (hist : list state) (o : op) : list state :=
    match o with
    | Update delta => apply_update vs delta :: hist
    | Restore k => nth k (rev hist) (hd (init_state vs) hist) :: hist
    | Init => init_state vs :: hist
    end.
  Definition run (vs : list var) (ops : list op) : list state := fold_left (step vs) ops [init_state vs].
  Definition final (vs : list var) (ops : list op) : state := hd (init_state vs) (run vs ops).
End Machine.
Arguments mkVar {val}. Arguments v_init {val}. Arguments v_con {val}.
Arguments Update {val}. Arguments Restore {val}. Arguments Init {val}.
Arguments init_state {val}. Arguments apply_update {val}. Arguments step {val}.
Arguments run {val}. Arguments final {val}.
