(* Model of tensorflow_lattice/python/conditional_pwl_calibration.py
   (pwl_calibration_fn, _verify_pwl_calibration, _compute_interpolation_weights,
   _front_pad, default_keypoint_*_parameters' size arithmetic).  Definitions only.

   softmax and sigmoid are ORACLES: every function takes [sm : list Q -> list Q]
   and [sg : Q -> Q] as arguments; the theorems quantify over them under the
   hypotheses they use, the correspondence check instantiates them by tables
   captured from TensorFlow ([tbl_softmax], [tbl_sigmoid]).

   The division (inputs - keypoints) / lengths is modelled IEEE-style for finite
   operands: a zero length gives +-inf (clipped to 1 / 0) or, for a zero
   numerator, NaN, which the code replaces by 0 before the clip: a zero-length
   piece is the left-continuous step "1 if x > kp else 0". *)
From TFL Require Export Base.QNum Base.Lists.
Open Scope Q_scope.

Inductive mono := MonoNone | MonoInc | MonoOther.

Record pcfg := mkP {
  p_imin : Q; p_imax : Q;          (* keypoint_input_min / max *)
  p_omin : Q; p_omax : Q;          (* keypoint_output_min / max *)
  p_units : nat;
  p_mono : mono;
  p_cmin : bool; p_cmax : bool; p_cyc : bool;
  p_min : option Q;                (* missing_input_value *)
  p_mout : option Q }.             (* missing_output_value *)

Definition rng_in (c : pcfg) : Q := p_imax c - p_imin c.
Definition rng_out (c : pcfg) : Q := p_omax c - p_omin c.
Definition is_none (c : pcfg) : bool := match p_mono c with MonoNone => true | _ => false end.
Definition is_inc (c : pcfg) : bool := match p_mono c with MonoInc => true | _ => false end.
Definition opt_some {A} (o : option A) : bool := match o with Some _ => true | None => false end.

(* ---- one (batch row, unit) slice ------------------------------------- *)

(* tf.cumsum(l, exclusive=True) started at acc *)
Fixpoint cumsum_excl (acc : Q) (l : list Q) : list Q :=
  match l with [] => [] | x :: r => acc :: cumsum_excl (acc + x) r end.

(* clip(nan_to_zero((x - kp) / len), 0, 1) *)
Definition wclip (x kp len : Q) : Q :=
  if Qeq_bool len 0 then (if qlt kp x then 1 else 0)
  else qclip 0 1 ((x - kp) / len).

(* _compute_interpolation_weights: front-pad 1.0 *)
Definition interp_weights (x : Q) (kps lens : list Q) : list Q :=
  1 :: map2 (wclip x) kps lens.
(* reduce_sum(weights * kernel_outputs, axis=-1) *)
Definition interp (x : Q) (kps lens kos : list Q) : Q :=
  qsum (map2 Qmult (interp_weights x kps lens) kos).

(* softmax(front_pad(params)) * (input_max - input_min); the None form uses
   zeros((1, units, 1)) WITHOUT front padding *)
Definition key_deltas (sm : list Q -> list Q) (c : pcfg) (kip : option (list Q)) : list Q :=
  map (fun v => v * rng_in c) (sm (match kip with None => [0] | Some p => 0 :: p end)).
Definition keypoints (c : pcfg) (deltas : list Q) : list Q :=
  map (fun s => s + p_imin c) (cumsum_excl 0 deltas).

(* missing output and the remaining output parameters *)
Definition split_missing (sg : Q -> Q) (c : pcfg) (kop : list Q) : option Q * list Q :=
  match p_min c with
  | None => (None, kop)
  | Some _ =>
      match p_mout c with
      | None => (Some (p_omin c + sg (last kop 0) * rng_out c), removelast kop)
      | Some v => (Some v, kop)
      end
  end.

(* monotonicity == 'none': sigmoid, optional cyclic duplication, then
   [initial value, delta_0, delta_1, ...] *)
Definition ko_none (sg : Q -> Q) (c : pcfg) (ko : list Q) : list Q :=
  let ys := map (fun p => sg p * rng_out c + p_omin c) ko in
  let ys := if p_cyc c then ys ++ firstn 1 ys else ys in
  firstn 1 ys ++ map2 Qminus (skipn 1 ys) (removelast ys).
(* monotonicity == 'increasing': front-pad 0, softmax, scale, clamp glue *)
Definition ko_inc (sm : list Q -> list Q) (c : pcfg) (ko : list Q) : list Q :=
  let d := map (fun v => v * rng_out c) (sm (0 :: ko)) in
  let d := if p_cmin c then p_omin c :: d
           else map (fun v => v + p_omin c) (firstn 1 d) ++ skipn 1 d in
  if p_cmax c then d else removelast d.
Definition kernel_outputs (sm : list Q -> list Q) (sg : Q -> Q) (c : pcfg) (ko : list Q) : list Q :=
  if is_none c then ko_none sg c ko else ko_inc sm c ko.

Definition pwl_row (sm : list Q -> list Q) (sg : Q -> Q) (c : pcfg)
    (kip : option (list Q)) (kop : list Q) (x : Q) : Q :=
  let deltas := key_deltas sm c kip in
  let mk := split_missing sg c kop in
  let out := interp x (keypoints c deltas) deltas (kernel_outputs sm sg c (snd mk)) in
  match p_min c, fst mk with
  | Some m, Some v => if Qeq_bool x m then v else out
  | _, _ => out
  end.

(* ---- parameter tensors, shape checks, broadcasting --------------------- *)
Inductive ptens := P2 (t : list (list Q)) | P3 (t : list (list (list Q))).
Definition prank (t : ptens) : nat := match t with P2 _ => 2 | P3 _ => 3 end.
Definition plast (t : ptens) : nat :=
  match t with P2 t => length (hd [] t) | P3 t => length (hd [] (hd [] t)) end.
Definition pdim1 (t : ptens) : nat := match t with P2 t => length (hd [] t) | P3 t => length (hd [] t) end.
Definition width (m : list (list Q)) : nat := length (hd [] m).

Definition b2z (b : bool) : Z := if b then 1%Z else 0%Z.
Definition num_keypoints (kip : option ptens) : Z :=
  match kip with Some t => (Z.of_nat (plast t) + 2)%Z | None => 2%Z end.
Definition output_param_size (c : pcfg) (kip : option ptens) : Z :=
  (num_keypoints kip - b2z (p_cmax c) - b2z (p_cmin c) - b2z (p_cyc c)
   + b2z (opt_some (p_min c)) - b2z (opt_some (p_mout c)))%Z.

(* _verify_pwl_calibration: true = accepted, false = ValueError *)
Definition verify (c : pcfg) (inputs : list (list Q)) (kip : option ptens) (kop : ptens) : bool :=
  negb (qlt (p_imax c) (p_imin c))
  && (is_none c || is_inc c)
  && negb (is_none c && (p_cmin c || p_cmax c))
  && negb (qlt (p_omax c) (p_omin c))
  && negb (is_inc c && p_cyc c)
  && negb (opt_some (p_mout c) && negb (opt_some (p_min c)))
  && (0 <? output_param_size c kip)%Z
  && negb ((1 <? p_units c)%nat && negb (prank kop =? 3)%nat)
  && negb ((prank kop =? 3)%nat && negb (pdim1 kop =? p_units c)%nat)
  && (Z.of_nat (plast kop) =? output_param_size c kip)%Z
  && negb ((1 <? width inputs)%nat && negb (width inputs =? p_units c)%nat).

(* x[:, tf.newaxis, :] for rank-2 parameters *)
Definition to3 (t : ptens) : list (list (list Q)) :=
  match t with P2 t => map (fun r => [r]) t | P3 t => t end.
(* tf.tile(x, [1, units, 1]) when shape[1] == 1 and units > 1 *)
Definition tile1 {A} (units : nat) (t : list (list A)) : list (list A) :=
  if ((length (hd [] t) =? 1) && (1 <? units))%nat then map (fun r => concat (repeat r units)) t else t.
(* broadcasting read: an axis of size 1 is read at 0 *)
Definition bsel {A} (d : A) (i : nat) (l : list A) : A :=
  if (length l =? 1)%nat then nth 0 l d else nth i l d.
Definition bcompat (n len : nat) : bool := ((len =? 1) || (len =? n))%nat.

Definition pwl_fn (sm : list Q -> list Q) (sg : Q -> Q) (c : pcfg)
    (inputs : list (list Q)) (kip : option ptens) (kop : ptens) : option (list (list Q)) :=
  if negb (verify c inputs kip kop) then None else
  let units := p_units c in
  let kip3 := match kip with None => None | Some t => Some (tile1 units (to3 t)) end in
  let kop3 := tile1 units (to3 kop) in
  let xs := tile1 units inputs in
  let bk := match kip3 with None => 1%nat | Some t => length t end in
  let uk := match kip3 with None => units | Some t => length (hd [] t) end in
  let B := Nat.max (length xs) (Nat.max bk (length kop3)) in
  if bcompat B (length xs) && bcompat B bk && bcompat B (length kop3)
     && bcompat units uk && bcompat units (length (hd [] kop3)) && bcompat units (width xs)
  then
    Some (map (fun b => map (fun u =>
            pwl_row sm sg c
              (match kip3 with None => None | Some t => Some (bsel [] u (bsel [] b t)) end)
              (bsel [] u (bsel [] b kop3))
              (bsel 0 u (bsel [] b xs)))
          (seq 0 units)) (seq 0 B))
  else None.

(* derived parameters returned with return_derived_parameters=True: keypoint
   deltas with the batch axis of keypoint_input_parameters (1 for the None
   form) and the [y0, delta_1, ...] lists with the batch axis of
   keypoint_output_parameters *)
Definition derived_outputs sm sg (c : pcfg) (kop : list Q) : list Q :=
  kernel_outputs sm sg c (snd (split_missing sg c kop)).
Definition pwl_derived (sm : list Q -> list Q) (sg : Q -> Q) (c : pcfg)
    (kip : option ptens) (kop : ptens) : list (list (list Q)) * list (list (list Q)) :=
  let units := p_units c in
  (match kip with
   | None => [repeat (key_deltas sm c None) units]
   | Some t => map (fun row => map (fun p => key_deltas sm c (Some p)) row) (tile1 units (to3 t))
   end,
   map (fun row => map (fun p => derived_outputs sm sg c p) row) (tile1 units (to3 kop))).

(* default_keypoint_output_parameters / default_keypoint_input_parameters:
   last-dimension size of the all-zero tensor they return *)
Definition default_output_size (num_kp : Z) (increasing cyc cmin cmax derived_missing : bool) : Z :=
  if increasing then (num_kp - b2z cmin - b2z cmax + b2z derived_missing)%Z
  else (num_kp - b2z cyc + b2z derived_missing)%Z.
Definition default_input_size (num_kp : Z) : Z := (num_kp - 2)%Z.

(* ---- table oracles for execution --------------------------------------- *)
Fixpoint qlist_eqb (a b : list Q) : bool :=
  match a, b with
  | [], [] => true
  | x :: a', y :: b' => Qeq_bool x y && qlist_eqb a' b'
  | _, _ => false
  end.
Definition tbl_softmax (tbl : list (list Q * list Q)) (l : list Q) : list Q :=
  match find (fun e => qlist_eqb (fst e) l) tbl with Some e => snd e | None => [] end.
Definition tbl_sigmoid (tbl : list (Q * Q)) (x : Q) : Q :=
  match find (fun e => Qeq_bool (fst e) x) tbl with Some e => snd e | None => 0 end.
