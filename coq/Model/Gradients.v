(* C19 - models of the gradients that the layers deliver to training.

   1. kronecker_factored_lattice_lib.custom_reduce_prod: forward product and
      the hand-written grad_fn (zero mask, divide_no_nan, single-zero branch),
      over one slice along the reduced axis (a list), as the code computes it.
   2. The evaluation functions that are LINEAR in the kernel
      (out = sum_v weight_v(x) * K_v): the weight vectors of Lattice
      (hypercube and simplex interpolation), PWLCalibration and
      CategoricalCalibration, as the code computes them.
   3. The Kronecker-factored lattice output for one unit and the gradient
      that back-propagation through grad_fn delivers for kernel and scale.
   Definitions only; proofs are in Proofs/Gradients.v. *)
From TFL Require Export Base.Lists.
Open Scope Q_scope.

(* ------------------------------------------------------------------ *)
(* 1. custom_reduce_prod                                               *)
(* ------------------------------------------------------------------ *)

(* fwd = tf.reduce_prod(t, axis) on one slice *)
Fixpoint prod (t : list Q) : Q := match t with [] => 1 | x :: r => x * prod r end.

(* is_zero = tf.cast(tf.equal(t, 0), tf.float32) *)
Definition is_zero (x : Q) : Q := if Qeq_bool x 0 then 1 else 0.
(* tf.math.divide_no_nan(a, b): 0 where b == 0 *)
Definition divide_no_nan (a b : Q) : Q := if Qeq_bool b 0 then 0 else a / b.
(* num_zeros = tf.reduce_sum(is_zero, axis) *)
Definition num_zeros (t : list Q) : Q := qsum (map is_zero t).
(* t + is_zero *)
Definition plus_mask (t : list Q) : list Q := map (fun x => x + is_zero x) t.

(* grad0 = divide_no_nan(expand_dims(fwd), t)
   prod  = reduce_prod(t + is_zero)
   grad1 = cast(num_zeros == 1) * prod;  grad1 = expand_dims(grad1) * is_zero
   result (for dy = 1) = grad0 + grad1 *)
Definition grad_prod (t : list Q) : list Q :=
  let fwd := prod t in
  let g1 := (if Qeq_bool (num_zeros t) 1 then 1 else 0) * prod (plus_mask t) in
  map (fun x => Qred (divide_no_nan fwd x + g1 * is_zero x)) t.

(* return expand_dims(dy) * (grad0 + grad1) *)
Definition grad_prod_dy (dy : Q) (t : list Q) : list Q := map (fun g => Qred (dy * g)) (grad_prod t).

(* the reference: product of all the other entries *)
Fixpoint remove_nth (i : nat) (t : list Q) : list Q :=
  match t, i with
  | [], _ => []
  | _ :: r, O => r
  | x :: r, S i' => x :: remove_nth i' r
  end.
Definition prod_others (i : nat) (t : list Q) : Q := prod (remove_nth i t).

(* ------------------------------------------------------------------ *)
(* 2. evaluations that are linear in the kernel                        *)
(* ------------------------------------------------------------------ *)

(* out = sum_v w_v * K_v  (tf.matmul(weights, kernel) for units = 1,
   reduce_sum(weights * transpose(kernel), -1) for units > 1: per unit the
   same sum over that unit's kernel column) *)
Fixpoint dot (w K : list Q) : Q :=
  match w, K with a :: w', k :: K' => a * k + dot w' K' | _, _ => 0 end.
Definition lin_eval (w K : list Q) : Q := dot w K.

Definition qnat (k : nat) : Q := inject_Z (Z.of_nat k).

(* -- Lattice, hypercube interpolation (lattice_lib.compute_interpolation_weights) -- *)
(* weights = 1.0 - tf.minimum(tf.abs(x - keypoint), 1.0) *)
Definition hat (x : Q) (k : nat) : Q := 1 - qmin (qabs (x - qnat k)) 1.
Definition w1d (size : nat) (x : Q) : list Q := map (hat x) (seq 0 size).
(* _clip_onto_lattice_range: clip_by_value(x, 0, size - 1) *)
Definition clip_lat (size : nat) (x : Q) : Q := qclip 0 (qnat size - 1) x.
(* special case 2^d with tensor input: stack([1 - x, x]) clipped to [0,1] if clip_inputs *)
Definition w1d_two (clip : bool) (x : Q) : list Q :=
  if clip then [qclip 0 1 (1 - x); qclip 0 1 x] else [1 - x; x].
(* batch_outer_operation: row-major outer product (first dimension most significant) *)
Fixpoint outer (ws : list (list Q)) : list Q :=
  match ws with
  | [] => [1]
  | w :: r => let o := outer r in flat_map (fun a => map (fun b => Qred (a * b)) o) w
  end.
Definition all_two (sizes : list nat) : bool := forallb (Nat.eqb 2) sizes.
(* as_list: inputs given as a Python list of tensors (the 2^d shortcut is not taken) *)
Definition hyper_weights (clip as_list : bool) (sizes : list nat) (x : list Q) : list Q :=
  if all_two sizes && negb as_list then outer (map (w1d_two clip) x)
  else outer (map2 (fun s xi => w1d s (if clip then clip_lat s xi else xi)) sizes x).

(* -- Lattice, simplex interpolation (lattice_lib.evaluate_with_simplex_interpolation) -- *)
(* strides: [.., s_{d-1} * s_d, s_d, 1] *)
Fixpoint strides (sizes : list nat) : list nat :=
  match sizes with
  | [] => []
  | _ :: r => fold_right Nat.mul 1%nat r :: strides r
  end.
(* tf.cast(x, tf.int32): truncation toward zero *)
Definition trunc (x : Q) : Z := Z.quot (Qnum x) (Zpos (Qden x)).
(* lower corner coordinate: min(trunc x, size - 2); all-2 lattices skip this step (corner 0) *)
Definition corner (all2 : bool) (size : nat) (x : Q) : Z :=
  if all2 then 0%Z else Z.min (trunc x) (Z.of_nat size - 2).
(* insertion sort, DESCENDING by residual, of (residual, stride) pairs *)
Fixpoint ins_desc (p : Q * Z) (l : list (Q * Z)) : list (Q * Z) :=
  match l with
  | [] => [p]
  | q :: r => if Qle_bool (fst q) (fst p) then p :: q :: r else q :: ins_desc p r
  end.
Definition sort_desc (l : list (Q * Z)) : list (Q * Z) := fold_right ins_desc [] l.
(* weights = [1, r_(1), .., r_(d)] - [r_(1), .., r_(d), 0];
   indices = cumsum([offset, stride_(1), .., stride_(d)]) *)
Fixpoint simplex_terms (prev : Q) (idx : Z) (l : list (Q * Z)) : list (Z * Q) :=
  match l with
  | [] => [(idx, prev)]
  | (r, s) :: l' => (idx, prev - r) :: simplex_terms r (idx + s)%Z l'
  end.
(* sparse weights: (flat kernel index, weight) for the d+1 simplex vertices *)
Definition simplex_sparse (clip : bool) (sizes : list nat) (x : list Q) : list (Z * Q) :=
  let all2 := all_two sizes in
  let xc := if clip then map2 clip_lat sizes x else x in
  let cs := map2 (corner all2) sizes xc in
  let st := map Z.of_nat (strides sizes) in
  let offset := fold_right Z.add 0%Z (map2 Z.mul cs st) in
  let res := map2 (fun xi c => xi - inject_Z c) xc cs in
  simplex_terms 1 offset (sort_desc (combine res st)).
(* the weight that a sparse term list puts on kernel entry v (gather: the
   gradient of a gather accumulates over repeated indices) *)
Definition sp_weight (ts : list (Z * Q)) (v : Z) : Q :=
  qsum (map (fun p => if Z.eqb (fst p) v then snd p else 0) ts).
Definition sp_eval (ts : list (Z * Q)) (K : Z -> Q) : Q := qsum (map (fun p => snd p * K (fst p)) ts).
Definition num_vertices (sizes : list nat) : nat := fold_right Nat.mul 1%nat sizes.
Definition simplex_weights (clip : bool) (sizes : list nat) (x : list Q) : list Q :=
  let ts := simplex_sparse clip sizes x in
  map (fun v => Qred (sp_weight ts (Z.of_nat v))) (seq 0 (num_vertices sizes)).

(* -- PWLCalibration (pwl_calibration_lib.compute_interpolation_weights + layer call) -- *)
(* weights = [1, clip((x - kp_i) / len_i, 0, 1) ...] *)
Definition pwl_weights (kps lens : list Q) (x : Q) : list Q :=
  1 :: map2 (fun kp len => qmax (qmin ((x - kp) / len) 1) 0) kps lens.
(* is_cyclic: bias_and_heights = concat(kernel, -sum(kernel[1:])), so kernel
   entry j >= 1 additionally receives minus the last weight.  Here w has one
   entry more than the kernel. *)
Definition cyclic_fold (w : list Q) : list Q :=
  match w with
  | [] => []
  | b :: hs => let last := nth (length hs - 1) hs 0 in
               b :: map (fun a => a - last) (removelast hs)
  end.
(* impute_missing: result = is_missing * missing_output + (1 - is_missing) * result *)
Definition pwl_kernel_weights (cyclic : bool) (is_missing : Q) (kps lens : list Q) (x : Q) : list Q :=
  let w := pwl_weights kps lens x in
  map (fun a => Qred ((1 - is_missing) * a)) (if cyclic then cyclic_fold w else w).

(* the layer's output for one unit: cyclic calibrators append the height that
   makes all heights sum to zero; missing inputs are imputed *)
Definition pwl_eval (cyclic : bool) (is_missing missing_out : Q) (kps lens K : list Q) (x : Q) : Q :=
  let bias_and_heights := if cyclic then K ++ [- qsum (tl K)] else K in
  is_missing * missing_out + (1 - is_missing) * dot (pwl_weights kps lens x) bias_and_heights.

(* -- CategoricalCalibration: one_hot(index, depth = num_buckets) after the
   default_input_value replacement; out-of-range indices give the zero vector -- *)
Definition cat_index (num_buckets : nat) (default : option Z) (i : Z) : Z :=
  match default with
  | Some d => if Z.eqb i d then (Z.of_nat num_buckets - 1)%Z else i
  | None => i
  end.
Definition cat_weights (num_buckets : nat) (default : option Z) (i : Z) : list Q :=
  let j := cat_index num_buckets default i in
  map (fun b => if Z.eqb (Z.of_nat b) j then 1 else 0) (seq 0 num_buckets).

(* ------------------------------------------------------------------ *)
(* 3. Kronecker-factored lattice, one unit                             *)
(* ------------------------------------------------------------------ *)
(* kernel of one term: K[d][k] (dimension d, vertex k); interpolation weights
   per dimension ws[d][k]; dotprod_d = sum_k ws[d][k] * K[d][k];
   term = scale_t * prod_d dotprod_d; out = bias + mean_t term. *)
Fixpoint set_nth_g {A} (i : nat) (v : A) (l : list A) : list A :=
  match l, i with
  | [], _ => []
  | _ :: r, O => v :: r
  | x :: r, S i' => x :: set_nth_g i' v r
  end.
Definition kfl_dots (ws K : list (list Q)) : list Q := map2 dot ws K.
Definition kfl_term (ws : list (list Q)) (scale : Q) (K : list (list Q)) : Q := scale * prod (kfl_dots ws K).
Definition kfl_out (ws : list (list Q)) (bias : Q) (scales : list Q) (Ks : list (list (list Q))) : Q :=
  bias + qsum (map2 (kfl_term ws) scales Ks) / qnat (length scales).
(* 1-D weights of the KFL layer: lattice_sizes == 2 -> [1 - x, x] (no hat), else hat weights;
   inputs clipped to [0, size-1] first when clip_inputs *)
Definition kfl_w1d (clip : bool) (size : nat) (x : Q) : list Q :=
  let xc := if clip then clip_lat size x else x in
  if Nat.eqb size 2 then [1 - xc; xc] else w1d size xc.
(* gradient delivered for K[d][k] of term t when the upstream gradient of the
   output is 1: reduce_mean gives 1/T, scale * prod gives scale_t, grad_fn gives
   grad_prod(dots)_d, the depthwise convolution gives ws[d][k]. *)
Definition kfl_grad_kernel (ws : list (list Q)) (nterms : nat) (scale : Q) (K : list (list Q)) : list (list Q) :=
  map2 (fun g w => map (fun a => Qred (scale / qnat nterms * g * a)) w) (grad_prod (kfl_dots ws K)) ws.
Definition kfl_grad_scale (ws : list (list Q)) (nterms : nat) (K : list (list Q)) : Q :=
  prod (kfl_dots ws K) / qnat nterms.

(* derivative of the 1-D weights w.r.t. the input, at a point where they are
   differentiable (not on a kink): clip_by_value is flat outside the range,
   [1 - x, x] has slopes [-1, 1], a hat has slope +1 left of its vertex and -1
   right of it within distance 1 *)
Definition hat_dx (x : Q) (k : nat) : Q :=
  if qlt (qabs (x - qnat k)) 1 then (if qlt x (qnat k) then 1 else -(1)) else 0.
Definition kfl_dw1d (clip : bool) (size : nat) (x : Q) : list Q :=
  if clip && (qlt x 0 || qlt (qnat size - 1) x) then repeat 0 size
  else if Nat.eqb size 2 then [-(1); 1] else map (hat_dx x) (seq 0 size).
(* gradient delivered for input d (upstream gradient of the output = 1) *)
Definition kfl_grad_input (ws dws : list (list Q)) (scales : list Q) (Ks : list (list (list Q))) : list Q :=
  let T := length scales in
  map (fun d => Qred (qsum (map2 (fun s K => s / qnat T * nth d (grad_prod (kfl_dots ws K)) 0
                                             * dot (nth d dws []) (nth d K [])) scales Ks)))
      (seq 0 (length ws)).
