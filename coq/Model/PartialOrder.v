(* Model of internal_utils.py: _topological_sort, _min_projection,
   _max_projection, approximately_project_categorical_partial_monotonicities,
   on one column of weights (the code works elementwise on rows of shape
   (units,), so a multi-unit matrix is handled column by column). *)
From TFL Require Export Base.Lists.
Open Scope Q_scope.

Definition pairs := list (nat * nat).

(* collections.defaultdict(list) filled in order of the pairs *)
Definition succs (ps : pairs) (i : nat) : list nat :=
  map snd (filter (fun p => Nat.eqb (fst p) i) ps).
Definition preds (ps : pairs) (j : nat) : list nat :=
  map fst (filter (fun p => Nat.eqb (snd p) j) ps).
(* keys of key_less_than_values in insertion order *)
Definition keys (ps : pairs) : list nat := dedup (map fst ps) [].
Definition roots (ps : pairs) : list nat :=
  filter (fun k => negb (mem_nat k (map snd ps))) (keys ps).
Definition nodes (ps : pairs) : list nat := dedup (map fst ps ++ map snd ps) [].

(* while q: v = q[-1]; seen.add(v); expand = [x in klt[v] if x not in seen];
   if not expand: result = [v] + result; q.pop() else: q.append(expand[0]).
   The stack is kept with its top at the head. *)
Fixpoint dfs (fuel : nat) (ps : pairs) (q seen result : list nat) : option (list nat) :=
  match fuel with
  | O => None
  | S f =>
    match q with
    | [] => Some result
    | v :: q' =>
      let seen' := v :: seen in
      match filter (fun x => negb (mem_nat x seen')) (succs ps v) with
      | [] => dfs f ps q' seen' (v :: result)
      | x :: _ => dfs f ps (x :: q) seen' result
      end
    end
  end.

Inductive topo_result := TopoOk (order : list nat) | TopoCircular | TopoFuel.

Definition toposort (ps : pairs) : topo_result :=
  match roots ps with
  | [] => TopoCircular (* raise ValueError("Circular monotonicity constraints") *)
  | r => match dfs (2 * length (nodes ps) + 2) ps (rev r) [] [] with
         | Some s => TopoOk s
         | None => TopoFuel
         end
  end.

(* One update of a pass: w[i] = step * sel(w[i], w[j] for j in nb i) + (1-step) * w[i]
   when nb i is non-empty.  sel = qmin for the min pass, qmax for the max pass. *)
Definition gen_step (sel : Q -> Q -> Q) (nb : nat -> list nat) (step : Q) (w : list Q) (i : nat) : list Q :=
  match nb i with
  | [] => w
  | js => let wi := nth i w 0 in
          let m := fold_left (fun m j => sel m (nth j w 0)) js wi in
          set_nth i (Qred (step * m + (1 - step) * wi)) w
  end.
Definition gen_pass sel nb step (order : list nat) (w : list Q) : list Q :=
  fold_left (gen_step sel nb step) order w.

Definition min_proj (ps : pairs) (sorted : list nat) (step : Q) (w : list Q) : list Q :=
  gen_pass qmin (succs ps) step (rev sorted) w.
Definition max_proj (ps : pairs) (sorted : list nat) (step : Q) (w : list Q) : list Q :=
  gen_pass qmax (preds ps) step sorted w.

Definition po_with_order (ps : pairs) (s : list nat) (w : list Q) : list Q :=
  let a := max_proj ps s 1 (min_proj ps s (1#2) w) in
  let b := min_proj ps s 1 (max_proj ps s (1#2) w) in
  map2 (fun x y => Qred ((x + y) * (1#2))) a b.

(* None = the code raises ValueError (no root) *)
Definition po_project (ps : pairs) (w : list Q) : option (list Q) :=
  match toposort ps with
  | TopoOk s => Some (po_with_order ps s w)
  | _ => None
  end.

(* Multi-unit form: weights as a matrix of rows (one row per index, one column
   per unit); the code's elementwise tf.minimum/maximum on rows = column-wise. *)
Definition po_project_matrix (units : nat) (ps : pairs) (W : list (list Q)) : option (list (list Q)) :=
  match toposort ps with
  | TopoOk s => Some (transpose (length W) (map (fun u => po_with_order ps s (column u W)) (seq 0 units)))
  | _ => None
  end.

(* executable validity check of a topological order (reflected in Proofs) *)
Fixpoint nodupb (l : list nat) : bool :=
  match l with [] => true | x :: r => negb (mem_nat x r) && nodupb r end.
Fixpoint orderedb (ps : pairs) (s : list nat) : bool :=
  match s with
  | [] => true
  | v :: rest => forallb (fun p => negb (Nat.eqb (snd p) v && mem_nat (fst p) rest)) ps && orderedb ps rest
  end.
Definition topo_okb (ps : pairs) (s : list nat) : bool :=
  nodupb s && forallb (fun p => mem_nat (fst p) s && mem_nat (snd p) s) ps && orderedb ps s.
