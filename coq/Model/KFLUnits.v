(* Restriction of KroneckerFactoredLattice parameters to one unit, in the
   model's structured form and in the implementation's kernel layout
   (Model/KFL.v).  Definitions only; proofs in Proofs/UnitsKFL.v; executed by
   the tie of C09 (Harness/H_C09.v). *)
From TFL Require Export Model.KFL.
Open Scope Q_scope.

(* the one-unit parameters [kernel_u], [scale_u], [bias_u] *)
Definition unit_params (p : params) (u : nat) : params :=
  mkPar [nth u (p_kern p) []] [nth u (p_scale p) []] [nth u (p_bias p) 0].

(* any selection / duplication / reordering of units: new unit u is old unit s u *)
Definition select_units (s : nat -> nat) (n : nat) (p : params) : params :=
  mkPar (map (fun u => nth (s u) (p_kern p) []) (seq 0 n)) (map (fun u => nth (s u) (p_scale p) []) (seq 0 n))
        (map (fun u => nth (s u) (p_bias p) 0) (seq 0 n)).

(* implementation layout k[i][j][t], j = u*dims + d: rows u*dims .. u*dims+dims-1
   of every vertex slice k[i], i.e. kernel[:, :, u*dims:(u+1)*dims, :] *)
Definition slice_unit (dims u : nat) (k : list (list (list Q))) : list (list (list Q)) :=
  map (fun rows => firstn dims (skipn (u * dims) rows)) k.

(* the layer applied to every batch row on its own *)
Definition batch_out (c : config) (p : params) (X : list (list (list Q))) : list (list Q) := map (layer_out c p) X.
