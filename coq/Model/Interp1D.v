(* One-dimensional linear interpolation on the integer grid 0, 1, ..., n-1:
   definitions only (theory in Proofs/Interp1D.v).  Shared by the lattice,
   calibration and linear properties. *)
From TFL Require Export Base.Lists.
Open Scope Q_scope.

(* the integer k as a rational keypoint *)
Definition qn (k : nat) : Q := inject_Z (Z.of_nat k).

(* Interpolation weight of keypoint k at input x exactly as
   lattice_lib.compute_interpolation_weights computes it:
     distance = |x - k| ;  weight = 1.0 - minimum(distance, 1.0)
   (Proofs/Interp1D.v: hat x k == max 0 (1 - |x - k|).) *)
Definition hat (x : Q) (k : nat) : Q := 1 - qmin (qabs (x - qn k)) 1.

(* sum that normalises as it goes (keeps vm_compute fast); == qsum *)
Fixpoint rsum (l : list Q) : Q := match l with [] => 0 | a :: r => Qred (a + rsum r) end.

(* weighted sum over the keypoints 0..n-1 of an arbitrary weight function *)
Definition wsum (n : nat) (w : nat -> Q) (a : nat -> Q) : Q := qsum (map (fun k => w k * a k) (seq 0 n)).

(* the piecewise-linear interpolant of the sequence a_0 .. a_(n-1) *)
Definition interp1 (n : nat) (a : nat -> Q) (x : Q) : Q := wsum n (hat x) a.

(* unit ramp: clip(t, 0, 1) *)
Definition ramp (t : Q) : Q := qclip 0 1 t.
