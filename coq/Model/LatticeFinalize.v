(* Model of lattice_lib.finalize_constraints and its helpers
   (_approximately_project_monotonicity / _edgeworth / _trapezoid / _bounds)
   and of LatticeConstraints.__call__'s strict path after the Dykstra stage.

   Tensors are functions on index vectors (Base/Tensor.v).  The kernel of shape
   (prod(sizes), units) is the tensor of shape  sizes ++ [units]  (row-major);
   the unit axis [ud = length sizes] is always present in the model, reductions
   "over all axes but the last" are per-unit maxima / minima.  (For units = 1
   the code drops the axis and reduces globally - the same thing.) *)
From TFL Require Export Base.Tensor Base.Lists.
Open Scope Q_scope.

Definition trust := (nat * nat * Z)%type.   (* (main_dim, cond_dim, direction) *)

Definition at2 (b : idx) (m c i j : nat) : idx := upd (upd b m i) c j.

(* ---- _approximately_project_monotonicity ---- *)
Fixpoint sufmin (f : tens) (i : idx) (d : nat) (k n : nat) : Q :=
  match n with O => f (upd i d k) | S n' => qmin (f (upd i d k)) (sufmin f i d (S k) n') end.
Definition cummin (shape : list nat) (d : nat) (f : tens) : tens :=
  memo shape (fun i => sufmin f i d (nth d i 0%nat) (nth d shape 0%nat - 1 - nth d i 0%nat)).
Fixpoint prefmax (f : tens) (i : idx) (d : nat) (k : nat) : Q :=
  match k with O => f (upd i d 0%nat) | S k' => qmax (f (upd i d k)) (prefmax f i d k') end.
Definition cummax (shape : list nat) (d : nat) (f : tens) : tens :=
  memo shape (fun i => prefmax f i d (nth d i 0%nat)).

(* dimensions with a non-zero monotonicity flag, in increasing order *)
Fixpoint mono_dims_from (k : nat) (ms : list Z) : list nat :=
  match ms with [] => [] | m :: r => if (m =? 0)%Z then mono_dims_from (S k) r else k :: mono_dims_from (S k) r end.
Definition mono_dims (ms : list Z) : list nat := mono_dims_from 0 ms.

Definition approx_mono (shape : list nat) (monos : list nat) (w : tens) : tens :=
  let mx := fold_left (fun acc d => cummax shape d acc) monos w in
  let half := memo shape (fun i => Qred ((w i + mx i) * (1#2))) in
  fold_left (fun acc d => cummin shape d acc) monos half.

(* ---- "behind" positions and per-unit reductions ---- *)
(* all index vectors that are 0 at the [keep] dimensions *)
Definition behind (shape : list nat) (keep : list nat) : list idx :=
  all_idx (fold_left (fun s d => upd s d 1%nat) keep shape).
(* tf.maximum(tf.reduce_max(g, axis=all but units), 0), one value per unit *)
Definition unit_viols (ud units : nat) (B : list idx) (g : idx -> Q) : list Q :=
  map (fun u => maxl0 (map (fun b => g (upd b ud u)) B)) (seq 0 units).

(* ---- _approximately_project_edgeworth ---- *)
Definition esq (W : tens) (m c i j : nat) (b : idx) : Q :=
  (W (at2 b m c (S i) j) - W (at2 b m c i j)) - (W (at2 b m c (S i) (S j)) - W (at2 b m c i (S j))).

Definition edge_step_pos (sh : list nat) (ud units : nat) (B : list idx) (m c : nat) (W : tens) (p : nat * nat) : tens :=
  let '(i, j) := p in
  let tab := unit_viols ud units B (esq W m c i j) in
  memo sh (fun x => if (nth m x 0 =? S i)%nat && (nth c x 0 =? S j)%nat
                    then Qred (W x + nth (nth ud x 0%nat) tab 0) else W x).
Definition edge_step_neg (sh : list nat) (ud units : nat) (B : list idx) (m c : nat) (W : tens) (p : nat * nat) : tens :=
  let '(i, j) := p in
  let tab := unit_viols ud units B (fun b => - esq W m c i j b) in
  memo sh (fun x => if (nth m x 0 =? i)%nat && (nth c x 0 =? j)%nat
                    then Qred (W x - nth (nth ud x 0%nat) tab 0) else W x).
Definition grid_pairs (a b : nat) : list (nat * nat) := list_prod (seq 0 a) (seq 0 b).

Definition edgeworth_one (sh : list nat) (ud units : nat) (W : tens) (t : trust) : tens :=
  let '(m, c, dir) := t in
  let B := behind sh [m; c; ud] in
  let ps := grid_pairs (nth m sh 0%nat - 1) (nth c sh 0%nat - 1) in
  if (0 <? dir)%Z then fold_left (edge_step_pos sh ud units B m c) ps W
  else fold_left (edge_step_neg sh ud units B m c) (rev ps) W.
Definition approx_edgeworth (sh : list nat) (ud units : nat) (ts : list trust) (W : tens) : tens :=
  fold_left (edgeworth_one sh ud units) ts W.

(* ---- _approximately_project_trapezoid ---- *)
Definition trust_eqb (a b : trust) : bool :=
  let '(m1, c1, d1) := a in let '(m2, c2, d2) := b in
  (m1 =? m2)%nat && (c1 =? c2)%nat && (d1 =? d2)%Z.
Definition cj (rv : bool) (sc j : nat) : nat := if rv then (sc - 1 - j)%nat else j.

Record trap_state := mkTS { ts_W : tens; ts_l : list Q; ts_r : list Q }.

Definition trap_step (sh : list nat) (ud units : nat) (B : list idx) (m c : nat) (rv any_e same_e : bool)
           (st : trap_state) (j : nat) : trap_state :=
  let sc := nth c sh 0%nat in
  let mx := (nth m sh 0%nat - 1)%nat in
  let j0 := cj rv sc j in let j1 := cj rv sc (S j) in
  let W := ts_W st in
  if any_e then
    let lraw := unit_viols ud units B (fun b => W (at2 b m c 0%nat j1) - W (at2 b m c 0%nat j0)) in
    let lu := if same_e then map2 qmax lraw (ts_l st) else lraw in
    let W1 := memo sh (fun x => if (nth m x 0 =? 0)%nat && (nth c x 0 =? j1)%nat
                                then Qred (W x - nth (nth ud x 0%nat) lu 0) else W x) in
    let rraw := unit_viols ud units B (fun b => W1 (at2 b m c mx j0) - W1 (at2 b m c mx j1)) in
    let ru := if same_e then map2 qmax rraw (ts_r st) else rraw in
    let W2 := memo sh (fun x => if (nth m x 0 =? mx)%nat && (nth c x 0 =? j1)%nat
                                then Qred (W1 x + nth (nth ud x 0%nat) ru 0) else W1 x) in
    mkTS W2 lu ru
  else
    let W1 := memo sh (fun x => if (nth m x 0 =? 0)%nat && (nth c x 0 =? j1)%nat
                                then Qred (W x - qmax (W x - W (upd x c j0)) 0) else W x) in
    let W2 := memo sh (fun x => if (nth m x 0 =? mx)%nat && (nth c x 0 =? j1)%nat
                                then Qred (W1 x + qmax (W1 (upd x c j0) - W1 x) 0) else W1 x) in
    mkTS W2 (ts_l st) (ts_r st).

Definition trapezoid_one (sh : list nat) (ud units : nat) (edge : list trust) (W : tens) (t : trust) : tens :=
  let '(m, c, dir) := t in
  let B := behind sh [m; c; ud] in
  let any_e := match edge with [] => false | _ => true end in
  let same_e := existsb (trust_eqb t) edge in
  let zeros := map (fun _ => 0) (seq 0 units) in
  ts_W (fold_left (trap_step sh ud units B m c (dir <? 0)%Z any_e same_e)
                  (seq 0 (nth c sh 0%nat - 1)) (mkTS W zeros zeros)).
Definition approx_trapezoid (sh : list nat) (ud units : nat) (trap edge : list trust) (W : tens) : tens :=
  fold_left (trapezoid_one sh ud units edge) trap W.

(* ---- _approximately_project_bounds ---- *)
Definition unit_vals (sh : list nat) (ud : nat) (W : tens) (u : nat) : list Q :=
  map (fun b => W (upd b ud u)) (behind sh [ud]).
Definition approx_bounds (sh : list nat) (ud units : nat) (omin omax : option Q) (W : tens) : tens :=
  match omin, omax with
  | None, None => W
  | Some lo, None =>
      let tab := map (fun u => qmax (lo - qminl (unit_vals sh ud W u)) 0) (seq 0 units) in
      memo sh (fun x => Qred (W x + nth (nth ud x 0%nat) tab 0))
  | None, Some hi =>
      let tab := map (fun u => qmax (qmaxl (unit_vals sh ud W u) - hi) 0) (seq 0 units) in
      memo sh (fun x => Qred (W x - nth (nth ud x 0%nat) tab 0))
  | Some lo, Some hi =>
      let maxv := map (fun u => qmax (qmaxl (unit_vals sh ud W u) - hi) 0) (seq 0 units) in
      let minv := map (fun u => qmax (lo - qminl (unit_vals sh ud W u)) 0) (seq 0 units) in
      memo sh (fun x => let u := nth ud x 0%nat in
                        Qred ((W x + (nth u minv 0 - lo)) *
                              ((hi - lo) / ((hi + nth u maxv 0) - (lo - nth u minv 0))) + lo))
  end.

(* ---- finalize_constraints ---- *)
Record lat_cfg := mkLat {
  l_sizes : list nat;
  l_units : nat;
  l_monos : list Z;            (* canonical {0,1} *)
  l_edge : list trust;
  l_trap : list trust;
  l_min : option Q;
  l_max : option Q
}.
Definition l_shape (c : lat_cfg) : list nat := l_sizes c ++ [l_units c].
Definition l_ud (c : lat_cfg) : nat := length (l_sizes c).

Definition finalize (c : lat_cfg) (W : tens) : tens :=
  match mono_dims (l_monos c) with
  | [] => W     (* if utils.count_non_zeros(monotonicities) == 0: return weights *)
  | md =>
    let sh := l_shape c in let ud := l_ud c in let units := l_units c in
    let W1 := approx_mono sh md W in
    match l_edge c, l_trap c with
    | [], [] => W1
    | _, _ =>
      let W2 := approx_edgeworth sh ud units (l_edge c) W1 in
      let W3 := approx_trapezoid sh ud units (l_trap c) (l_edge c) W2 in
      approx_bounds sh ud units (l_min c) (l_max c) W3
    end
  end.

(* final tf.maximum(w, output_min); tf.minimum(w, output_max) of LatticeConstraints.__call__ *)
Definition clip_bounds (sh : list nat) (omin omax : option Q) (W : tens) : tens :=
  memo sh (fun x => clip_hi omax (clip_lo omin (W x))).

(* strict LatticeConstraints.__call__ applied to the result [Wd] of the Dykstra
   stage; [ran] = the Dykstra/finalize block was entered (some monotone or
   unimodal dimension, or joint constraints) *)
Definition lattice_constraint_after_dykstra (c : lat_cfg) (ran : bool) (Wd : tens) : tens :=
  clip_bounds (l_shape c) (l_min c) (l_max c) (if ran then finalize c Wd else Wd).

(* flat kernel I/O *)
Definition finalize_flat (c : lat_cfg) (w : list Q) : list Q :=
  to_list (l_shape c) (finalize c (of_list (l_shape c) w)).
Definition constraint_flat (c : lat_cfg) (ran : bool) (wd : list Q) : list Q :=
  to_list (l_shape c) (lattice_constraint_after_dykstra c ran (of_list (l_shape c) wd)).
