(* Models of the ensemble constructions of premade_lib.py.  Definitions only;
   lemmas are in Proofs/Ensembles.v.  Features are their positions 0..n-1 in
   feature_names (the names are assumed pairwise distinct).

   1. set_random_lattice_ensemble    (np.random.choice = ORACLES ch1, ch2)
   2. _set_all_pairs_cover_lattices / _add_pair_to_ensemble
                                      (np.random.shuffle = ORACLE sh)
   3. _get_final_crystal_lattices after the prefitting scores (torsions,
      laplacians: INPUTS) have been computed.                                *)
From TFL Require Export Base.QNum Model.RTLStructure.
Open Scope nat_scope.

Definition memb (x : nat) (l : list nat) : bool := existsb (Nat.eqb x) l.

(* ------------------------------------------------------------------ *)
(* 1. random ensemble                                                  *)
(* ------------------------------------------------------------------ *)
Section Random.
(* ch1 f cands: the value of np.random.choice(non_full_indices) in the
   iteration for feature f *)
Variable ch1 : nat -> list nat -> nat.
(* ch2 k cands size: np.random.choice(feature_names_not_in_lattice,
   size=remaining_size, replace=False) for lattice k *)
Variable ch2 : nat -> list nat -> nat -> list nat.

(* [i for (i, lattice) in enumerate(lattices) if len(lattice) < lattice_rank] *)
Definition non_full (rank : nat) (lats : list (list nat)) : list nat :=
  filter (fun i => length (nth i lats []) <? rank) (seq 0 (length lats)).

(* "Start by using each feature once." None = np.random.choice([]) raises *)
Fixpoint rnd_phase1 (rank : nat) (feats : list nat) (lats : list (list nat)) : option (list (list nat)) :=
  match feats with
  | [] => Some lats
  | f :: r =>
      match non_full rank lats with
      | [] => None
      | nf => let c := ch1 f nf in rnd_phase1 rank r (set_at c (nth c lats [] ++ [f]) lats)
      end
  end.

(* "Fill up lattices avoiding repeated features." None = choice raises
   "Cannot take a larger sample than population when replace=False" *)
Fixpoint rnd_phase2 (rank : nat) (feats : list nat) (k : nat) (lats : list (list nat)) : option (list (list nat)) :=
  match lats with
  | [] => Some []
  | l :: r =>
      let avail := filter (fun f => negb (memb f l)) feats in
      let remaining := rank - length l in
      if length avail <? remaining then None
      else match rnd_phase2 rank feats (S k) r with
           | None => None
           | Some r' => Some ((l ++ ch2 k avail remaining) :: r')
           end
  end.

Definition random_ensemble (n num rank : nat) : option (list (list nat)) :=
  match rnd_phase1 rank (seq 0 n) (repeat [] num) with
  | None => None
  | Some lats => rnd_phase2 rank (seq 0 n) 0 lats
  end.
End Random.

(* ------------------------------------------------------------------ *)
(* 2. all-pairs cover                                                  *)
(* ------------------------------------------------------------------ *)
(* lattices are Python sets; modelled as duplicate-free lists in insertion
   order (the iteration order of a set is not modelled) *)
Definition set_add (x : nat) (l : list nat) : list nat := if memb x l then l else l ++ [x].

(* "Try adding to a lattice that already has either i or j." *)
Fixpoint cover_second (rank i j : nat) (ls : list (list nat)) : option (list (list nat)) :=
  match ls with
  | [] => None
  | l :: r =>
      if (length l <? rank) && memb i l then Some (set_add j l :: r)
      else if (length l <? rank) && memb j l then Some (set_add i l :: r)
      else option_map (cons l) (cover_second rank i j r)
  end.
(* "Add both i and j to a lattice that has enough space left." *)
Fixpoint cover_third (rank i j : nat) (ls : list (list nat)) : option (list (list nat)) :=
  match ls with
  | [] => None
  | l :: r =>
      if length l <? rank - 1 then Some (set_add j (set_add i l) :: r)
      else option_map (cons l) (cover_third rank i j r)
  end.

Definition add_pair (rank : nat) (ls : list (list nat)) (ij : nat * nat) : list (list nat) :=
  let '(i, j) := ij in
  if existsb (fun l => memb i l && memb j l) ls then ls
  else match cover_second rank i j ls with
       | Some ls' => ls'
       | None => match cover_third rank i j ls with
                 | Some ls' => ls'
                 | None => ls ++ [set_add j (set_add i [])]      (* set([i, j]) *)
                 end
       end.

Definition pairs_cover (sh : list (nat * nat) -> list (nat * nat)) (n rank : nat) : list (list nat) :=
  fold_left (add_pair rank) (sh (pairs n)) [].

Definition prefitting_cover (sh : list (nat * nat) -> list (nat * nat)) (n rank : nat) : option (list (list nat)) :=
  if n <=? rank then None           (* construct_prefitting_model_config: ValueError *)
  else Some (pairs_cover sh n rank).

(* ------------------------------------------------------------------ *)
(* 3. Crystals: _get_final_crystal_lattices                            *)
(* ------------------------------------------------------------------ *)
From Coq Require Import Qround.
Open Scope Q_scope.

Record crystal_cfg := mkcr {
  k_n : nat;                    (* len(feature_names) *)
  k_num : nat;                  (* num_lattices *)
  k_rank : nat;                 (* lattice_rank *)
  k_max_swaps : nat;            (* _MAX_CRYSTALS_SWAPS *)
  k_T : list (list Q);          (* torsions[f0][f1] from the prefitting model *)
  k_lap : list Q }.             (* laplacians[f] *)

Definition tget (T : list (list Q)) (i j : nat) : Q := nth j (nth i T []) 0.

(* importance = laplacians * 6.0; for f0 < f1: both += torsions[f0][f1] *)
Definition importance (n : nat) (T : list (list Q)) (lap : list Q) : list Q :=
  map (fun f => Qred (nth f lap 0 * 6 +
                      qsum (map (fun g => if (f <? g)%nat then tget T f g
                                          else if (g <? f)%nat then tget T g f else 0) (seq 0 n))))
      (seq 0 n).

(* np.argsort(-importance): descending importance.  The MODEL breaks ties by
   index (insertion of seq 0 n from the right keeps equal scores in increasing
   index order).  NumPy does NOT promise that: np.argsort's default kind is
   quicksort (introsort / vectorised sorts in NumPy 2), which is not stable,
   so on tied importance scores the code's order of the tied features is
   unspecified.  The correspondence check therefore generates pairwise
   distinct importance scores only (harness/props/c17.py LIMITS); on ties the
   model describes one of the orders the code may take. *)
Fixpoint ins_desc (imp : list Q) (x : nat) (l : list nat) : list nat :=
  match l with
  | [] => [x]
  | y :: r => if Qle_bool (nth y imp 0) (nth x imp 0) then x :: l else y :: ins_desc imp x r
  end.
Definition argsort_desc (imp : list Q) : list nat := fold_right (ins_desc imp) [] (seq 0 (length imp)).

(* Python 3 round(): to nearest, ties to even *)
Definition qround_half_even (x : Q) : Z :=
  let f := Qfloor x in
  match Qcompare (x - inject_Z f) (1#2) with
  | Lt => f
  | Gt => (f + 1)%Z
  | Eq => if Z.even f then f else (f + 1)%Z
  end.

Fixpoint zset_add (i : nat) (d : Z) (l : list Z) : list Z :=
  match l, i with
  | [], _ => []
  | x :: r, O => (x + d)%Z :: r
  | x :: r, S i' => x :: zset_add i' d r
  end.

(* the use-allocation loop; None = int(round(nan or inf)) raises *)
Fixpoint alloc_uses (num : nat) (imp : list Q) (order : list nat)
         (uses : list Z) (rem_uses : Z) (rem_scores : Q) : option (list Z) :=
  match order with
  | [] => Some uses
  | f :: r =>
      if Qeq_bool rem_scores 0 then None
      else
        let added := Z.min (qround_half_even (inject_Z rem_uses * nth f imp 0 / rem_scores))
                           (Z.of_nat num - 1) in
        alloc_uses num imp r (zset_add f added uses) (rem_uses - added)%Z (Qred (rem_scores - nth f imp 0))
  end.

Definition zsum (l : list Z) : Z := fold_right Z.add 0%Z l.
Definition zmax_list (l : list Z) : Z := match l with [] => 0%Z | x :: r => fold_left Z.max r x end.

(* features_uses; None = exception or failed `assert np.sum(features_uses) == total` *)
Definition crystal_uses (c : crystal_cfg) : option (list Z) :=
  let imp := importance (k_n c) (k_T c) (k_lap c) in
  let total := Z.of_nat (k_num c * k_rank c) in
  match alloc_uses (k_num c) imp (argsort_desc imp) (repeat 1%Z (k_n c))
                   (total - Z.of_nat (k_n c))%Z (Qred (qsum imp)) with
  | None => None
  | Some uses => if (zsum uses =? total)%Z then Some uses else None
  end.

(* round-robin add list *)
Definition add_list (n : nat) (uses : list Z) : list nat :=
  flat_map (fun u => filter (fun f => (Z.of_nat u <=? nth f uses 0%Z)%Z) (seq 0 n))
           (seq 1 (Z.to_nat (zmax_list uses))).

Definition half_pow (z : Z) : Q := Qred (Qpower (1#2) z).   (* 0.5 ** count *)
Definition cget (C : list (list Z)) (i j : nat) : Z := nth j (nth i C []) 0%Z.
Definition cadd (i j : nat) (d : Z) (C : list (list Z)) : list (list Z) :=
  set_at i (zset_add j d (nth i C [])) C.
(* cooccurrence_counts[i][j] += d; cooccurrence_counts[j][i] += d *)
Definition cadd2 (d : Z) (C : list (list Z)) (ij : nat * nat) : list (list Z) :=
  cadd (snd ij) (fst ij) d (cadd (fst ij) (snd ij) d C).

Definition mean_T (n : nat) (T : list (list Q)) : Q :=
  qsum (map qsum T) / inject_Z (Z.of_nat (n * n)).

Section Placement.
Variable c : crystal_cfg.
Let rank := k_rank c.
Let T := k_T c.

Definition addition_score (lats : list (list nat)) (C : list (list Z)) (f cand : nat) : Q :=
  let l := nth cand lats [] in
  if (rank <=? length l)%nat then -(2)
  else if memb f l then -(1)
  else match l with
       | [] => Qred (mean_T (k_n c) T * inject_Z (Z.of_nat (rank * rank)) / 2)
       | _ => Qred (qsum (map (fun o => tget T f o * half_pow (cget C f o)) l))
       end.

(* score_candidates_pairs.sort(reverse=True)[0][1]: the lexicographic maximum
   of (score, candidate index); candidates are scanned in increasing index k,
   so on equal scores the later candidate wins *)
Fixpoint argmax_scan (scores : list Q) (k : nat) (best : Q * nat) : Q * nat :=
  match scores with
  | [] => best
  | s :: r => argmax_scan r (S k) (if Qle_bool (fst best) s then (s, k) else best)
  end.
Definition best_candidate (scores : list Q) : option nat :=
  match scores with
  | [] => None                                       (* IndexError *)
  | s0 :: r => Some (snd (argmax_scan r 1 (s0, O)))
  end.

Definition place_one (st : option (list (list nat) * list (list Z))) (f : nat)
  : option (list (list nat) * list (list Z)) :=
  match st with
  | None => None
  | Some (lats, C) =>
      match best_candidate (map (addition_score lats C f) (seq 0 (k_num c))) with
      | None => None
      | Some b =>
          let l := nth b lats [] in
          Some (set_at b (l ++ [f]) lats, fold_left (fun C' o => cadd2 1 C' (f, o)) l C)
      end
  end.

Definition sorted_pair (a b : nat) : nat * nat := if (a <=? b)%nat then (a, b) else (b, a).
Definition pair_eqb (p q : nat * nat) : bool := (fst p =? fst q)%nat && (snd p =? snd q)%nat.
Definition pmem (p : nat * nat) (l : list (nat * nat)) : bool := existsb (pair_eqb p) l.
Fixpoint pdedup (l : list (nat * nat)) : list (nat * nat) :=
  match l with [] => [] | p :: r => if pmem p r then pdedup r else p :: pdedup r end.
Definition count_in (x : nat) (l : list nat) : nat := length (filter (Nat.eqb x) l).

(* body of the innermost loop of the swap optimisation *)
Definition crystal_try_swap (st : list (list nat) * list (list Z)) (a b i0 i1 : nat)
  : (list (list nat) * list (list Z)) * bool :=
  let '(lats, C) := st in
  let la := nth a lats [] in
  let lb := nth b lats [] in
  let f0 := nth i0 la O in
  let f1 := nth i1 lb O in
  let rest0 := remove_at i0 la in
  let rest1 := remove_at i1 lb in
  if (f0 =? f1)%nat then (st, false)
  else
    let added0 := pdedup (map (sorted_pair f1) rest0 ++ map (sorted_pair f0) rest1) in
    let removed0 := pdedup (map (sorted_pair f0) rest0 ++ map (sorted_pair f1) rest1) in
    let added := filter (fun p => negb (pmem p removed0)) added0 in
    let removed := filter (fun p => negb (pmem p added0)) removed0 in
    let diff := Qred (qsum (map (fun p => tget T (fst p) (snd p) * half_pow (cget C (fst p) (snd p))) added)
                      - qsum (map (fun p => tget T (fst p) (snd p) * half_pow (cget C (fst p) (snd p) - 1)) removed)) in
    if negb (memb f0 lb) && negb (memb f1 la) &&
       ((1 <? count_in f0 la)%nat || (1 <? count_in f1 lb)%nat || negb (Qle_bool diff 0))
    then ((set_at a (set_at i0 f1 la) (set_at b (set_at i1 f0 lb) lats),
           fold_left (cadd2 (-1)) removed (fold_left (cadd2 1) added C)), true)
    else (st, false).

Definition crystal_swap_step (a b : nat) (acc : (list (list nat) * list (list Z)) * bool) (q : nat * nat) :=
  let '(st', ch) := crystal_try_swap (fst acc) a b (fst q) (snd q) in (st', snd acc || ch).
Definition crystal_pass_pair (acc : (list (list nat) * list (list Z)) * bool) (ab : nat * nat) :=
  let '(a, b) := ab in
  fold_left (crystal_swap_step a b)
            (list_prod (seq 0 (length (nth a (fst (fst acc)) []))) (seq 0 (length (nth b (fst (fst acc)) []))))
            acc.
Definition crystal_swap_pass (st : list (list nat) * list (list Z)) :=
  fold_left crystal_pass_pair (pairs (length (fst st))) (st, false).
Fixpoint crystal_swap_loop (fuel : nat) (st : list (list nat) * list (list Z)) : list (list nat) * list (list Z) :=
  match fuel with
  | O => st
  | S f => let '(st', ch) := crystal_swap_pass st in if ch then crystal_swap_loop f st' else st'
  end.

(* everything after the use allocation *)
Definition crystals_from_uses (uses : list Z) : option (list (list nat)) :=
  let al := add_list (k_n c) uses in
  if negb (length al =? k_num c * rank)%nat then None          (* assert len(add_list) == total *)
  else
    match fold_left place_one al
                    (Some (repeat [] (k_num c), repeat (repeat 0%Z (k_n c)) (k_n c))) with
    | None => None
    | Some st => Some (fst (crystal_swap_loop (S (k_max_swaps c)) st))
    end.
End Placement.

Definition crystal_lattices (c : crystal_cfg) : option (list (list nat)) :=
  match crystal_uses c with
  | None => None
  | Some uses => crystals_from_uses c uses
  end.
