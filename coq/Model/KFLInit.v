(* Model of the KroneckerFactoredLattice initialisers
   (kronecker_factored_lattice_lib.default_init_params,
   kfl_random_monotonic_initializer, scale_initializer, bias_initializer) and
   of the value the layer computes from (scale, bias, kernel) for given
   per-dimension interpolated kernel values (results = scale * prod over dims,
   mean over terms, + bias).

   The kernel has shape (1, lattice_sizes, units * dims, num_terms); one
   COLUMN is the vector over the lattice axis for a fixed (unit, dim, term).
   tf.random.uniform is an argument (oracle): the raw sample column. *)
From TFL Require Export Base.Lists.
Open Scope Q_scope.

Definition kfl_default_init_params (omin omax : option Q) : Q * Q :=
  match omin, omax with None, None => (1#2, 3#2) | _, _ => (0, 1) end.

(* tf.sign *)
Definition qsign (x : Q) : Q := if qlt 0 x then 1 else if qlt x 0 then -1 else 0.

(* tf.sort (ascending) as insertion sort *)
Fixpoint qinsert (x : Q) (l : list Q) : list Q :=
  match l with [] => [x] | y :: r => if Qle_bool x y then x :: l else y :: qinsert x r end.
Definition qsort (l : list Q) : list Q := fold_right qinsert [] l.

(* kfl_random_monotonic_initializer on one column.  any_mono: count_non_zeros(monotonicities) > 0;
   mono: this column's dimension is monotone; scale: the scale entry of (unit, term) *)
Definition kfl_init_col (any_mono mono : bool) (scale : Q) (samples : list Q) : list Q :=
  if any_mono then
    let dir := qsign scale in
    let w := map (fun x => dir * x) samples in
    let w := if mono then qsort w else w in
    map (fun x => Qred (dir * x)) w
  else samples.

(* scale_initializer: rows = units, columns = terms *)
Definition kfl_term_sign (t : nat) : Q := if Nat.even t then 1 else -1.     (* (arange % -2) * 2 + 1 *)
Definition kfl_scale_init (units terms : nat) (omin omax : option Q) : list (list Q) :=
  let row :=
    match omin, omax with
    | Some _, None => repeat 1 terms
    | None, Some _ => repeat (-1) terms
    | Some a, Some b => map (fun t => Qred (kfl_term_sign t * ((b - a) * (1#2)))) (seq 0 terms)
    | None, None => map kfl_term_sign (seq 0 terms)
    end in
  repeat row units.
Definition kfl_bias_init (units : nat) (omin omax : option Q) : list Q :=
  repeat (match omin, omax with
          | Some a, Some b => Qred ((a + b) * (1#2))
          | Some a, None => a
          | None, Some b => b
          | None, None => 0
          end) units.

(* output of one unit: vals[t][d] = interpolated kernel value of term t in dimension d *)
Definition qprod (l : list Q) : Q := fold_right Qmult 1 l.
Definition kfl_unit_out (scales : list Q) (bias : Q) (vals : list (list Q)) : Q :=
  qsum (map2 (fun s vs => s * qprod vs) scales vals) / inject_Z (Z.of_nat (length scales)) + bias.
