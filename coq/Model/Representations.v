(* C14 - alternative representations of the same function.  Only what is not
   modelled elsewhere (definitions only; lemmas in Proofs/Representations.v):

   (a) dense_of_kfl: the dense Lattice kernel of a KroneckerFactoredLattice,
       bias + mean_t scale_t * prod_d v_{d,t}[i_d], vertices in row-major order
       (kronecker_factored_lattice_layer.py docstring; KFL evaluation itself is
       Model/KFL.v, Lattice evaluation is Model/LatticeInterp.v);
   (b) the PWLCalibration keypoints / CDF scaling tensor that "correspond" to
       the derived parameters of pwl_calibration_fn / cdf_fn (the functions
       themselves are Model/CondPWL.v, Model/PWLEval.v, Model/CDF.v);
   (c) ParallelCombination.call   (parallel_combination_layer.py)
   (d) Aggregation.call           (aggregation_layer.py)
   (e) RTL.call                   (rtl_layer.py; the structure is Model/RTLStructure.v)
   over ABSTRACT calibrator / model / lattice functions.

   The other models are required WITHOUT import (their short names clash:
   hat, qn, interp_w, dot, pwl_fn, p_units ...); they are used qualified. *)
From TFL Require Export Base.Lists Base.Tensor.
From TFL Require Model.KFL Model.LatticeInterp Model.PWLEval Model.CondPWL Model.CDF Model.RTLStructure.
Open Scope Q_scope.

Definition mat := list (list Q).

(* ------------------------------------------------------------------ (a) *)
(* all lattice sizes of a KFL are equal *)
Definition kfl_sizes (L dims : nat) : list nat := repeat L dims.
(* scale_t * prod_d v_{d,t}[i_d] *)
Definition term_vertex (s : Q) (vs : KFL.term) (i : list nat) : Q :=
  s * KFL.qprod (map2 (fun (v : list Q) (k : nat) => nth k v 0) vs i).
(* value of the dense kernel of one unit at the vertex i *)
Definition dense_vertex (su : list Q) (ku : list KFL.term) (b : Q) (i : list nat) : Q :=
  KFL.qmean (map2 (fun s vs => term_vertex s vs i) su ku) + b.
(* the Lattice kernel matrix K[p][u], p = row-major flat vertex index *)
Definition dense_of_kfl (L dims units : nat) (p : KFL.params) : mat :=
  map (fun i => map (fun u => Qred (dense_vertex (nth u (KFL.p_scale p) []) (nth u (KFL.p_kern p) [])
                                                 (nth u (KFL.p_bias p) 0) i))
                    (seq 0 units))
      (all_idx (kfl_sizes L dims)).

(* ------------------------------------------------------------------ (b) *)
(* input_keypoints of the PWLCalibration layer that holds the keypoints derived
   by pwl_calibration_fn: imin, imin + d0, imin + d0 + d1, ... *)
Definition layer_keypoints (imin : Q) (deltas : list Q) : list Q :=
  imin :: PWLEval.cumsum_incl imin deltas.
(* scaling_parameters of shape (input_dim, 1, 1) holding a CDF layer's
   input_scaling ('fixed' / 'learned_shared': one value, 'learned_per_input': D) *)
Definition cdf_scaling_param (D : nat) (scaling : list Q) : list (list (list Q)) :=
  map (fun i => [[CondPWL.bsel 0 i scaling]]) (seq 0 D).

(* ------------------------------------------------------------------ (c) *)
(* a Keras layer acting on a (batch, w) tensor *)
Definition layer_fn := mat -> mat.
(* inputs: one (batch, k) tensor, or a Python list of k (batch, 1) tensors *)
Inductive pc_in := PCTensor (m : mat) | PCList (cols : list mat).
(* single_output: one (batch, k) tensor, else the list of the layers' outputs *)
Inductive pc_out := PCSingle (m : mat) | PCMulti (cols : list mat).
Definition width (m : mat) : nat := length (hd [] m).
(* tf.split(inputs, axis=1, num_or_size_splits=inputs.shape[1]) *)
Definition split_cols (m : mat) : list mat :=
  map (fun j => map (fun r => [nth j r 0]) m) (seq 0 (width m)).
(* tf.concat(outputs, axis=1) *)
Definition concat_cols (batch : nat) (outs : list mat) : mat :=
  map (fun b => concat (map (fun o => nth b o []) outs)) (seq 0 batch).
(* None = ValueError (number of inputs does not match the number of layers) *)
Definition pc_call (layers : list layer_fn) (single : bool) (x : pc_in) : option pc_out :=
  let cols := match x with PCTensor m => split_cols m | PCList c => c end in
  if negb (length cols =? length layers)%nat then None else
  let outs := map2 (fun (f : layer_fn) c => f c) layers cols in
  Some (if single then PCSingle (concat_cols (length (hd [] outs)) outs) else PCMulti outs).
(* a calibrator that maps every (batch, 1) row through a scalar function *)
Definition pointwise (g : Q -> Q) : layer_fn := map (fun r => [g (nth 0 r 0)]).

(* ------------------------------------------------------------------ (d) *)
(* Ragged input x[b][e] = element e of example b, an element being the list of
   its feature values (the implementation holds one ragged tensor per feature
   with shared row splits; this is its index-level meaning).
   call: reduce_mean(tf.ragged.map_flat_values(model, x), axis=1):
   the model sees the FLAT values of the whole batch and its outputs are cut
   back into rows by the row lengths. *)
Fixpoint unflatten {A} (lens : list nat) (l : list A) : list (list A) :=
  match lens with [] => [] | n :: r => firstn n l :: unflatten r (skipn n l) end.
Definition aggregation (model : list (list Q) -> list Q) (x : list (list (list Q))) : list Q :=
  map KFL.qmean (unflatten (map (@length _) x) (model (concat x))).
(* a model that treats every row of its batch independently *)
Definition rowwise (g : list Q -> Q) : list (list Q) -> list Q := map g.

(* ------------------------------------------------------------------ (e) *)
(* One example.  inc / unc: the groups supplied under 'increasing' /
   'unconstrained' (a non-dict input is {unconstrained: x}); sorted(x.keys())
   puts 'increasing' first; tf.concat(axis=1). *)
Definition rtl_flat (inc unc : list (list Q)) : list Q := concat inc ++ concat unc.
(* tf.gather(flattened_input, idx, axis=1) *)
Definition gather (flat : list Q) (idx : list nat) : list Q := map (fun i => nth i flat 0) idx.
(* lat m rows: the lattice layer stored under str(monotonicities) applied to
   its (units, lattice_rank) input rows, one output per unit *)
Definition entry_out (lat : list nat -> list (list Q) -> list Q) (flat : list Q)
           (e : list nat * list (list nat)) : list Q :=
  lat (fst e) (map (gather flat) (snd e)).
(* outputs_for_monotonicity[label], label = max(monotonicities) *)
Definition entries (s : RTLStructure.structure) (label : nat) : RTLStructure.structure :=
  filter (fun e => RTLStructure.out_label (fst e) =? label)%nat s.
Definition bucket (lat : list nat -> list (list Q) -> list Q) (flat : list Q)
           (s : RTLStructure.structure) (label : nat) : list (list Q) :=
  map (entry_out lat flat) (entries s label).
Inductive rtl_out :=
| RSep (unc inc : option (list Q))   (* separate_outputs: dict without the empty keys *)
| RJoint (y : list Q).
Definition opt_concat (l : list (list Q)) : option (list Q) :=
  match l with [] => None | _ => Some (concat l) end.
Definition rtl_call (lat : list nat -> list (list Q) -> list Q) (s : RTLStructure.structure)
           (separate average : bool) (inc unc : list (list Q)) : rtl_out :=
  let flat := rtl_flat inc unc in
  let b0 := bucket lat flat s 0 in
  let b1 := bucket lat flat s 1 in
  if separate then RSep (opt_concat b0) (opt_concat b1)
  else let j := concat (b0 ++ b1) in
       RJoint (if average then [KFL.qmean j] else j).
(* a lattice layer whose unit u computes ufn m u on its own input row *)
Definition unitwise (ufn : list nat -> nat -> list Q -> Q) (m : list nat) (rows : list (list Q)) : list Q :=
  map (fun u => ufn m u (nth u rows [])) (seq 0 (length rows)).

(* ---- observation helper for (e): the lattices behind the outputs ----
   (monotonicities key, unit index inside that lattice layer, input indices)
   of every lattice whose output label is [label], in output order *)
Definition lattice_slots (s : RTLStructure.structure) (label : nat) : list (list nat * nat * list nat) :=
  flat_map (fun e => map (fun u => (fst e, u, nth u (snd e) [])) (seq 0 (length (snd e))))
           (entries s label).
(* a key of the separate_outputs dict exists iff some structure entry has that label *)
Definition if_entries {A} (s : RTLStructure.structure) (label : nat) (v : A) : option A :=
  match entries s label with [] => None | _ => Some v end.
Definition slot_out (ufn : list nat -> nat -> list Q -> Q) (flat : list Q) (t : list nat * nat * list nat) : Q :=
  ufn (fst (fst t)) (snd (fst t)) (gather flat (snd t)).
