(* Model of the Lattice kernel initialisers:
     lattice_lib.default_init_params, _linspace, linear_initializer,
     random_monotonic_initializer,
     lattice_layer.create_kernel_initializer (id resolution, merge of joint
     unimodalities into per-dimension unimodalities, init range).

   The kernel of shape (prod(sizes), units) is the function-tensor of shape
   sizes ++ [units] (row-major, as in Model/LatticeFinalize.v); tf.tile over the
   units axis = the value does not depend on the last coordinate.

   Random sources are ARGUMENTS of the model (oracles): the order in which
   np.random.shuffle leaves the vertices of each level, and the sorted vector
   of tf.random.uniform samples.  Proofs/LatticeInit.v quantifies over them. *)
From TFL Require Export Base.Tensor Base.Lists.
Open Scope Q_scope.

(* ---- default_init_params ---- *)
Definition default_init_params (omin omax : option Q) : Q * Q :=
  let imin := match omin with
              | Some a => a
              | None => match omax with Some b => qmin 0 b | None => 0 end
              end in
  let imax := match omax with
              | Some b => b
              | None => match omin with Some a => qmax 1 a | None => 1 end
              end in
  (imin, imax).

(* ---- _linspace ---- *)
Definition qnat (n : nat) : Q := inject_Z (Z.of_nat n).
(* start + (stop - start) * i / (num - 1.0);  [start] alone when num == 1 *)
Definition linspace_at (start stop : Q) (num k : nat) : Q :=
  if (num =? 1)%nat then start else Qred (start + (stop - start) * qnat k / (qnat num - 1)).
Definition linspace (start stop : Q) (num : nat) : list Q := map (linspace_at start stop num) (seq 0 num).

(* ---- linear_initializer ---- *)
Definition nz (z : Z) : bool := negb (z =? 0)%Z.
(* utils.count_non_zeros over one iterable *)
Definition count_nz (l : list Z) : nat := length (filter nz l).

(* the per-dimension weights  one_d  *)
Definition one_d (m u : Z) (s : nat) (r : Q) : list Q :=
  if nz m then linspace 0 r s
  else if nz u then
    let h := ((s + 1) / 2)%nat in
    let decreasing := linspace r 0 h in
    let increasing := linspace 0 r h in
    if (u =? 1)%Z then decreasing ++ skipn (s mod 2) increasing
    else increasing ++ skipn (s mod 2) decreasing
  else repeat 0 s.

Definition zeros_if_none (rank : nat) (l : option (list Z)) : list Z :=
  match l with Some x => x | None => repeat 0%Z rank end.

(* what linear_initializer computes before touching tensors: the effective
   monotonicities (all 1 when nothing is constrained) and the per-dimension range *)
Definition lin_eff_monos (sizes : list nat) (monos unis : list Z) : list Z :=
  if (count_nz monos + count_nz unis =? 0)%nat then repeat 1%Z (length sizes) else monos.
Definition lin_num_constraint_dims (sizes : list nat) (monos unis : list Z) : nat :=
  if (count_nz monos + count_nz unis =? 0)%nat then length sizes else (count_nz monos + count_nz unis)%nat.
Definition lin_dim_range (sizes : list nat) (omin omax : Q) (monos unis : list Z) : Q :=
  (omax - omin) / qnat (lin_num_constraint_dims sizes monos unis).
Definition lin_profile (sizes : list nat) (omin omax : Q) (monos unis : list Z) (d : nat) : list Q :=
  one_d (nth d (lin_eff_monos sizes monos unis) 0%Z) (nth d unis 0%Z) (nth d sizes 0%nat)
        (lin_dim_range sizes omin omax monos unis).

(* batch_outer_operation(one_d_weights, tf.add) + output_min, tiled over units *)
Definition linear_init_fn (sizes : list nat) (omin omax : Q) (monos unis : list Z) : tens :=
  fun i => qsum (map (fun d => nth (nth d i 0%nat) (lin_profile sizes omin omax monos unis d) 0)
                     (seq 0 (length sizes))) + omin.
Definition linear_init (sizes : list nat) (omin omax : Q) (monos unis : option (list Z)) (units : nat) : tens :=
  let rank := length sizes in
  let f := linear_init_fn sizes omin omax (zeros_if_none rank monos) (zeros_if_none rank unis) in
  memo (sizes ++ [units]) (fun i => Qred (f i)).

(* ---- random_monotonic_initializer ---- *)
(* a vertex is an index vector of length rank (no unit coordinate) *)
Definition vsum (v : idx) : nat := fold_right Nat.add 0%nat v.
Definition idx_eqb (a b : idx) : bool := if list_eq_dec Nat.eq_dec a b then true else false.
(* the vertices expanded in iteration L of the while loop: coordinate sum L *)
Definition level_set (sizes : list nat) (L : nat) : list idx :=
  filter (fun v => (vsum v =? L)%nat) (all_idx sizes).
Definition num_levels (sizes : list nat) : nat := S (vsum (map pred sizes)).
Definition levels (sizes : list nat) : list (list idx) := map (level_set sizes) (seq 0 (num_levels sizes)).

Fixpoint index_of (v : idx) (l : list idx) : nat :=
  match l with [] => 0%nat | x :: r => if idx_eqb v x then 0%nat else S (index_of v r) end.

(* order: for every level, its vertices in the order np.random.shuffle left them
   (parameter_index is handed out in this order, level after level);
   samples: tf.sort(tf.random.uniform([total], output_min, output_max)).
   weights = tf.gather(samples, lattice_parameter_indices), tiled over units. *)
Definition random_mono_param_index (rank : nat) (order : list (list idx)) (i : idx) : nat :=
  index_of (firstn rank i) (concat order).
Definition random_mono_init (sizes : list nat) (units : nat) (order : list (list idx)) (samples : list Q) : tens :=
  memo (sizes ++ [units]) (fun i => nth (random_mono_param_index (length sizes) order i) samples 0).

(* ---- create_kernel_initializer ---- *)
Fixpoint set_nth_z (i : nat) (v : Z) (l : list Z) : list Z :=
  match l, i with
  | [], _ => []
  | _ :: r, O => v :: r
  | x :: r, S i' => x :: set_nth_z i' v r
  end.
Definition joint_uni := (list nat * Z)%type.   (* (dimensions, direction: valley 1 / peak -1) *)

(* all_unimodalities: regular ones, overwritten by every joint group's direction *)
Definition merge_unimodalities (rank : nat) (unis : option (list Z)) (juni : list joint_uni) : list Z :=
  let base := map (fun d => match unis with Some l => nth d l 0%Z | None => 0%Z end) (seq 0 rank) in
  fold_left (fun acc (g : joint_uni) => fold_left (fun a d => set_nth_z d (snd g) a) (fst g) acc) juni base.

(* do_joint_unimodalities_contain_all_features *)
Definition juni_contains_all (rank : nat) (juni : list joint_uni) : bool :=
  match juni with
  | [g] => forallb (fun d => mem_nat d (fst g)) (seq 0 rank) && forallb (fun d => (d <? rank)%nat) (fst g)
  | _ => false
  end.

Inductive init_id := IdLinear | IdRandomMono | IdUniformOrLinear | IdKeras.
Inductive init_choice :=
| UseLinear (monos : option (list Z)) (unis : list Z) (imin imax : Q)
| UseRandomMono (imin imax : Q)
| UseKeras.                                     (* keras.initializers.get(id): outside the model *)

Definition init_range (omin omax : option Q) (override : option (Q * Q)) : Q * Q :=
  match override with Some p => p | None => default_init_params omin omax end.

Definition create_kernel_initializer (id : init_id) (sizes : list nat) (monos : option (list Z))
           (omin omax : option Q) (unis : option (list Z)) (juni : list joint_uni)
           (override : option (Q * Q)) : init_choice :=
  let all_uni := merge_unimodalities (length sizes) unis juni in
  let '(imin, imax) := init_range omin omax override in
  match id with
  | IdLinear => UseLinear monos all_uni imin imax
  | IdRandomMono => UseRandomMono imin imax
  | IdUniformOrLinear =>
      if juni_contains_all (length sizes) juni then UseKeras else UseLinear monos all_uni imin imax
  | IdKeras => UseKeras
  end.

(* the initial kernel of a fresh Lattice layer for the two library initialisers *)
Definition lattice_init_kernel (ch : init_choice) (sizes : list nat) (units : nat)
           (order : list (list idx)) (samples : list Q) : option tens :=
  match ch with
  | UseLinear monos unis imin imax => Some (linear_init sizes imin imax monos (Some unis) units)
  | UseRandomMono imin imax => Some (random_mono_init sizes units order samples)
  | UseKeras => None
  end.
