(* A small universe of Python values and the meaning of the handful of Python
   operations that utils.py's canonicalisers use.  Hand-written; the generated
   file Gen/GenCanon.v (harness/translators/gen_canon.py) is written against
   these definitions.  Definitions only.

   Exceptions: a Python function either returns a value, raises ValueError, or
   raises some other exception class (TypeError for iterating / len() of a
   non-container, AttributeError for .lower() of a non-string ...).  The third
   outcome is kept in the result type on purpose: "total inside the universe"
   is then a real statement (the generated function never reaches OtherError),
   not a consequence of the type. *)
From Coq Require Export ZArith QArith List Bool String Ascii.
Export ListNotations.
Open Scope string_scope.

Inductive value : Type :=
| VNone
| VBool (b : bool)
| VInt (z : Z)
| VFloat (q : Q)          (* a finite Python float; NaN/inf are outside the universe *)
| VStr (s : string)       (* ASCII strings *)
| VList (l : list value)
| VTuple (l : list value).

Inductive result (A : Type) : Type :=
| Ok (a : A)
| ValueError
| OtherError (cls : string).
Arguments Ok {A} a.
Arguments ValueError {A}.
Arguments OtherError {A} cls.

Definition bind {A B} (r : result A) (k : A -> result B) : result B :=
  match r with Ok a => k a | ValueError => ValueError | OtherError c => OtherError c end.

(* Outcome of one loop iteration / of a whole loop: go on with the new values
   of the variables the body assigns, or leave the function. *)
Inductive step (S : Type) : Type :=
| Next (s : S)
| Exit (r : result value).
Arguments Next {S} s.
Arguments Exit {S} r.

Fixpoint py_for {S} (l : list value) (body : value -> S -> step S) (s : S) : step S :=
  match l with
  | [] => Next s
  | x :: r => match body x s with Next s' => py_for r body s' | Exit e => Exit e end
  end.

(* bind for an effectful expression inside a loop body *)
Definition sbind {A S} (r : result A) (k : A -> step S) : step S :=
  match r with Ok a => k a | ValueError => Exit ValueError | OtherError c => Exit (OtherError c) end.

(* ---- numbers ---- *)
Definition num_of (v : value) : option Q :=
  match v with
  | VBool b => Some (if b then 1%Q else 0%Q)
  | VInt z => Some (inject_Z z)
  | VFloat q => Some q
  | _ => None
  end.

(* ---- Python == ---- *)
Fixpoint py_eq (a b : value) {struct a} : bool :=
  let fix eq_list (la lb : list value) {struct la} : bool :=
    match la, lb with
    | [], [] => true
    | x :: ra, y :: rb => py_eq x y && eq_list ra rb
    | _, _ => false
    end in
  match a, b with
  | VNone, VNone => true
  | VStr s, VStr t => String.eqb s t
  | VList la, VList lb => eq_list la lb
  | VTuple la, VTuple lb => eq_list la lb
  | VBool x, _ => match num_of b with Some q => Qeq_bool (if x then 1%Q else 0%Q) q | None => false end
  | VInt x, _ => match num_of b with Some q => Qeq_bool (inject_Z x) q | None => false end
  | VFloat x, _ => match num_of b with Some q => Qeq_bool x q | None => false end
  | _, _ => false
  end.

(* x in [a; b; c] : identity or equality with some element *)
Definition py_in (v : value) (l : list value) : bool := existsb (py_eq v) l.

Definition py_truthy (v : value) : bool :=
  match v with
  | VNone => false
  | VBool b => b
  | VInt z => negb (Z.eqb z 0)
  | VFloat q => negb (Qeq_bool q 0)
  | VStr s => negb (String.eqb s "")
  | VList l => match l with [] => false | _ => true end
  | VTuple l => match l with [] => false | _ => true end
  end.

Definition is_none (v : value) : bool := match v with VNone => true | _ => false end.
Definition is_str (v : value) : bool := match v with VStr _ => true | _ => false end.
Definition is_float (v : value) : bool := match v with VFloat _ => true | _ => false end.
(* isinstance(True, int) is True in Python *)
Definition is_int (v : value) : bool := match v with VInt _ | VBool _ => true | _ => false end.
Definition is_bool (v : value) : bool := match v with VBool _ => true | _ => false end.
Definition is_list (v : value) : bool := match v with VList _ => true | _ => false end.
Definition is_tuple (v : value) : bool := match v with VTuple _ => true | _ => false end.

(* ---- strings ---- *)
Definition lower_ascii (c : ascii) : ascii :=
  let n := nat_of_ascii c in
  if (Nat.leb 65 n && Nat.leb n 90)%bool then ascii_of_nat (n + 32) else c.
Fixpoint lower (s : string) : string :=
  match s with EmptyString => EmptyString | String c r => String (lower_ascii c) (lower r) end.

Definition py_lower (v : value) : result value :=
  match v with VStr s => Ok (VStr (lower s)) | _ => OtherError "AttributeError" end.

Fixpoint chars (s : string) : list value :=
  match s with EmptyString => [] | String c r => VStr (String c EmptyString) :: chars r end.

(* ---- containers ---- *)
Definition py_iter (v : value) : result (list value) :=
  match v with
  | VList l | VTuple l => Ok l
  | VStr s => Ok (chars s)
  | _ => OtherError "TypeError"
  end.

Definition py_len (v : value) : result value :=
  match v with
  | VList l | VTuple l => Ok (VInt (Z.of_nat (List.length l)))
  | VStr s => Ok (VInt (Z.of_nat (String.length s)))
  | _ => OtherError "TypeError"
  end.

(* a, b, c = v : wrong arity is a ValueError in Python, non-iterable a TypeError *)
Definition py_unpack (n : nat) (v : value) : result (list value) :=
  bind (py_iter v) (fun l => if Nat.eqb (List.length l) n then Ok l else ValueError).

Definition py_append (acc x : value) : result value :=
  match acc with VList l => Ok (VList (l ++ [x])) | _ => OtherError "AttributeError" end.

Definition py_add (a b : value) : result value :=
  match a, b with
  | VInt x, VInt y => Ok (VInt (x + y))
  | VInt x, VBool y => Ok (VInt (x + (if y then 1 else 0)))
  | VBool x, VInt y => Ok (VInt ((if x then 1 else 0) + y))
  | VBool x, VBool y => Ok (VInt ((if x then 1 else 0) + (if y then 1 else 0)))
  | VFloat x, _ => match num_of b with Some q => Ok (VFloat (Qred (x + q))) | None => OtherError "TypeError" end
  | _, VFloat y => match num_of a with Some q => Ok (VFloat (Qred (q + y))) | None => OtherError "TypeError" end
  | _, _ => OtherError "TypeError"
  end.

Definition nth_value (l : list value) (n : nat) : value := nth n l VNone.

(* comparison of outcomes (used by the correspondence check): exception classes
   must agree, values must agree structurally, floats up to Qeq *)
Fixpoint value_same (a b : value) {struct a} : bool :=
  let fix same_list (la lb : list value) {struct la} : bool :=
    match la, lb with
    | [], [] => true
    | x :: ra, y :: rb => value_same x y && same_list ra rb
    | _, _ => false
    end in
  match a, b with
  | VNone, VNone => true
  | VBool x, VBool y => Bool.eqb x y
  | VInt x, VInt y => Z.eqb x y
  | VFloat x, VFloat y => Qeq_bool x y
  | VStr s, VStr t => String.eqb s t
  | VList la, VList lb => same_list la lb
  | VTuple la, VTuple lb => same_list la lb
  | _, _ => false
  end.
Definition result_same (a b : result value) : bool :=
  match a, b with
  | Ok x, Ok y => value_same x y
  | ValueError, ValueError => true
  | OtherError c, OtherError d => String.eqb c d
  | _, _ => false
  end.
