(* Model of premade_lib.compute_keypoints / _weighted_quantile and of the
   feature / label keypoint helpers (premade_lib.py), over exact rationals.
   Definitions only; lemmas are in Proofs/Keypoints.v.

   NumPy semantics modelled:
   - np.unique / argsort + unique(return_index, return_counts) + add.reduceat:
     [sort_unique] inserts every (value, weight) pair into a strictly sorted
     list of groups (value, weight sum, count);
   - np.quantile(sorted, q, method='nearest'): index = around((n-1)*q);
   - np.rint / np.around: a rounding function [rnd : position -> Q -> Z] is a
     parameter; the code's own is [rnd_he] (round half to even).  The
     theorems hold for every rounding to a nearest integer, whatever it does
     at ties (float evaluation of an exact tie may land on either side);
   - np.interp(x, xp, arange(n)) with left/right fill, exact hit and linear
     interpolation; the binary search is the linear scan NumPy itself uses for
     short arrays (j = number of leading xp[1..] that are <= x).  Where zero
     weights repeat a value of xp and x hits it exactly, np.interp jumps from
     the first to the last repeated position; a float x may fall on either
     side, so the scan's comparison is the second numerics parameter
     ([strict] = false is NumPy's exact behaviour, true takes the first);
   - np.linspace(a, b, k) = a + j * ((b - a) / (k - 1)).
   Errors (raise) are [None]. *)
From Coq Require Export Qround ZArith.
From TFL Require Export Base.Lists.
Open Scope Q_scope.

Definition nq (n : nat) : Q := inject_Z (Z.of_nat n).

(* ---------- rounding ---------- *)
Definition round_tie (up : bool) (x : Q) : Z :=
  let f := Qfloor x in
  let d := x - inject_Z f in
  if qlt d (1#2) then f else if qlt (1#2) d then (f + 1)%Z else if up then (f + 1)%Z else f.
Definition round_half_even (x : Q) : Z := round_tie (negb (Z.even (Qfloor x))) x.
Definition rnd_he : nat -> Q -> Z := fun _ => round_half_even.
Definition round_all (rnd : nat -> Q -> Z) (raws : list Q) : list Z :=
  map (fun p => rnd (fst p) (snd p)) (combine (seq 0 (length raws)) raws).

(* ---------- default removal, clipping with sentinels ---------- *)
Definition pairs (vs : list Q) (ws : option (list Q)) : list (Q * Q) :=
  combine vs (match ws with Some w => w | None => map (fun _ => 1) vs end).
Definition remove_default (dv : option Q) (ps : list (Q * Q)) : list (Q * Q) :=
  match dv with None => ps | Some d => filter (fun p => negb (Qeq_bool (fst p) d)) ps end.
Definition clip_lo_step (cmin : option Q) (ps : list (Q * Q)) : list (Q * Q) :=
  match cmin with None => ps | Some lo => map (fun p => (qmax (fst p) lo, snd p)) ps ++ [(lo, 0)] end.
Definition clip_hi_step (cmax : option Q) (ps : list (Q * Q)) : list (Q * Q) :=
  match cmax with None => ps | Some hi => map (fun p => (qmin (fst p) hi, snd p)) ps ++ [(hi, 0)] end.
Definition prep (vs : list Q) (ws : option (list Q)) (cmin cmax dv : option Q) : list (Q * Q) :=
  clip_hi_step cmax (clip_lo_step cmin (remove_default dv (pairs vs ws))).
(* the same on the values alone: the clipped data with the appended clip bounds *)
Definition clipped (vs : list Q) (cmin cmax dv : option Q) : list Q :=
  let v0 := match dv with None => vs | Some d => filter (fun v => negb (Qeq_bool v d)) vs end in
  let v1 := match cmin with None => v0 | Some lo => map (fun v => qmax v lo) v0 ++ [lo] end in
  match cmax with None => v1 | Some hi => map (fun v => qmin v hi) v1 ++ [hi] end.

(* ---------- sort + de-duplication with weight accumulation ---------- *)
Record grp := mkg { gv : Q; gw : Q; gc : nat }.
Fixpoint ins (v w : Q) (l : list grp) : list grp :=
  match l with
  | [] => [mkg v w 1]
  | g :: r => if qlt v (gv g) then mkg v w 1 :: l
              else if Qeq_bool v (gv g) then mkg (gv g) (Qred (gw g + w)) (S (gc g)) :: r
              else g :: ins v w r
  end.
Definition sort_unique (ps : list (Q * Q)) : list grp :=
  fold_right (fun p acc => ins (fst p) (snd p) acc) [] ps.

(* np.unique(values): the sorted distinct clipped values *)
Definition distinct_values (vs : list Q) (ws : option (list Q)) (cmin cmax dv : option Q) : list Q :=
  map gv (sort_unique (prep vs ws cmin cmax dv)).

Inductive reduction := RMean | RSum | ROther.
Definition reduce (red : reduction) (g : grp) : Q :=
  match red with RMean => Qred (gw g / nq (gc g)) | _ => gw g end.

(* ---------- quantiles ---------- *)
Definition quantiles (k : nat) : list Q := map (fun j => Qred (nq j / nq (k - 1))) (seq 0 k).
Definition take (sv : list Q) (idx : list Z) : list Q := map (fun i => nth (Z.to_nat i) sv 0) idx.

(* unweighted: np.quantile(sorted_values, quantiles, method='nearest') *)
Definition nq_raw (n k : nat) : list Q := map (fun q => Qred (nq (n - 1) * q)) (quantiles k).
Definition nearest_quantile (rnd : nat -> Q -> Z) (sv : list Q) (k : nat) : list Q :=
  take sv (round_all rnd (nq_raw (length sv) k)).

(* weighted: (cumsum(w) - 0.5 w) / sum(w) *)
Fixpoint wq_from (acc S : Q) (ws : list Q) : list Q :=
  match ws with
  | [] => []
  | w :: r => let c := Qred (acc + w) in Qred ((c - (1#2) * w) / S) :: wq_from c S r
  end.
Definition wquantiles (ws : list Q) : list Q := wq_from 0 (qsum ws) ws.

Fixpoint count_le (strict : bool) (x : Q) (l : list Q) : nat :=
  match l with
  | [] => O
  | y :: r => if (if strict then qlt y x else qle y x) then S (count_le strict x r) else O
  end.
(* np.interp(x, xp, fp = arange(len xp)) *)
Definition interp_idx (strict : bool) (x : Q) (xp : list Q) : Q :=
  match xp with
  | [] => 0
  | x0 :: rest =>
    let n := length xp in
    if qlt x x0 then 0
    else if qlt (last xp 0) x then nq (n - 1)
    else let j := count_le strict x rest in
         if (j =? n - 1)%nat then nq j
         else let xj := nth j xp 0 in
              if Qeq_bool xj x then nq j
              else Qred (nq j + (x - xj) / (nth (S j) xp 0 - xj))
  end.
Definition wq_raw (strict : bool) (ws : list Q) (k : nat) : list Q :=
  let xp := wquantiles ws in map (fun q => interp_idx strict q xp) (quantiles k).
(* quantiles_idx[quantiles <= 0] = 0 ; quantiles_idx[quantiles >= 1] = n - 1 *)
Definition pin (n : nat) (q : Q) (i : Z) : Z :=
  if qle 1 q then (Z.of_nat n - 1)%Z else if qle q 0 then 0%Z else i.
Definition pin_all (n k : nat) (idx : list Z) : list Z := map2 (pin n) (quantiles k) idx.

(* repeated-index repair *)
Definition zmem (z : Z) (l : list Z) : bool := existsb (Z.eqb z) l.
Definition cand_ok (n : nat) (used : list Z) (c : Z) : bool :=
  (0 <=? c)%Z && (c <? Z.of_nat n)%Z && negb (zmem c used).
(* for delta in range(delta0, delta0 + fuel): for direction in [-1, 1] *)
Fixpoint find_cand (fuel : nat) (delta : Z) (n : nat) (v : Z) (used : list Z) : option Z :=
  match fuel with
  | O => None
  | S f => if cand_ok n used (v - delta) then Some (v - delta)%Z
           else if cand_ok n used (v + delta) then Some (v + delta)%Z
           else find_cand f (delta + 1) n v used
  end.
(* values at their first use, in order (np.unique(..., return_index=True)) *)
Fixpoint first_uses (seen : list Z) (l : list Z) : list Z :=
  match l with
  | [] => []
  | v :: r => if zmem v seen then first_uses seen r else v :: first_uses (v :: seen) r
  end.
(* the loop over positions; [seen] = original values of the positions already
   passed (a position is a first use iff its value is not in [seen]) *)
Fixpoint repair_go (n : nat) (seen rest used : list Z) : list Z :=
  match rest with
  | [] => []
  | v :: r =>
    if zmem v seen then
      match find_cand (n - 1) 1 n v used with
      | Some c => c :: repair_go n seen r (c :: used)
      | None => v :: repair_go n seen r used
      end
    else v :: repair_go n (v :: seen) r used
  end.
Definition repair (n : nat) (idx : list Z) : list Z := repair_go n [] idx (first_uses [] idx).

Fixpoint zinsert (x : Z) (l : list Z) : list Z :=
  match l with [] => [x] | y :: r => if (x <=? y)%Z then x :: l else y :: zinsert x r end.
Definition zsort (l : list Z) : list Z := fold_right zinsert [] l.

Definition weighted_idx (rnd : nat -> Q -> Z) (strict : bool) (n : nat) (ws : list Q) (k : nat) : list Z :=
  zsort (repair n (pin_all n k (round_all rnd (wq_raw strict ws k)))).
Definition weighted_quantile (rnd : nat -> Q -> Z) (strict : bool) (sv ws : list Q) (k : nat) : option (list Q) :=
  if (length sv <? k)%nat then None
  else Some (take sv (weighted_idx rnd strict (length sv) ws k)).

(* ---------- uniform ---------- *)
Definition linspace (a b : Q) (k : nat) : list Q :=
  map (fun j => Qred (a + nq j * ((b - a) / nq (k - 1)))) (seq 0 k).

(* ---------- compute_keypoints ---------- *)
Inductive kmode := Quantiles | Uniform | MOther.

Definition finish (rnd : nat -> Q -> Z) (strict : bool) (gs : list grp) (k : nat) (mode : kmode)
           (weighted : bool) (red : reduction) : option (list Q) :=
  let sv := map gv gs in
  match weighted, red with
  | true, ROther => None
  | _, _ =>
    match mode with
    | Quantiles =>
      if (length sv <? k)%nat then Some sv
      else if weighted then
             let rw := map (reduce red) gs in
             (* zero weight sum: every interpolated index is NaN; only the pinned
                positions (all of them iff k <= 2) survive, else IndexError *)
             if Qeq_bool (qsum rw) 0 && (2 <? k)%nat then None else weighted_quantile rnd strict sv rw k
           else Some (nearest_quantile rnd sv k)
    | Uniform => match sv with [] => None | a :: _ => Some (linspace a (last sv a) k) end
    | MOther => None
    end
  end.

Definition is_some {A} (o : option A) : bool := match o with Some _ => true | None => false end.

Definition compute_keypoints (rnd : nat -> Q -> Z) (strict : bool) (vs : list Q) (k : nat) (mode : kmode)
           (cmin cmax dv : option Q) (ws : option (list Q)) (red : reduction) : option (list Q) :=
  finish rnd strict (sort_unique (prep vs ws cmin cmax dv)) k mode (is_some ws) red.

(* pre-rounding quantile indices of a call (for the tie handling of the
   correspondence check); [] when no rounding happens *)
Definition raw_indices (gs : list grp) (k : nat) (mode : kmode) (weighted : bool) (red : reduction) : list Q :=
  match mode with
  | Quantiles => if (length gs <? k)%nat then []
                 else if weighted then wq_raw false (map (reduce red) gs) k else nq_raw (length gs) k
  | _ => []
  end.

(* pwl_calibration_lib.verify_hyperparameters: at least 2 keypoints, strictly increasing *)
Fixpoint strictly_inc_b (l : list Q) : bool :=
  match l with
  | x :: ((y :: _) as r) => qlt x y && strictly_inc_b r
  | _ => true
  end.
Definition pwl_keypoints_ok (kps : list Q) : bool := (2 <=? length kps)%nat && strictly_inc_b kps.

(* ---------- feature / label helpers ---------- *)
(* input_keypoints of a config: a mode string or user-given keypoints *)
Inductive kp_spec := KMode (m : kmode) | KGiven (kps : list Q).
Record feature_config := mkfc {
  fc_name : nat; fc_num_buckets : nat; fc_spec : kp_spec; fc_num_keypoints : nat;
  fc_clip_min : option Q; fc_clip_max : option Q; fc_default : option Q }.
(* configs.FeatureConfig(name) defaults *)
Definition default_fc (name : nat) : feature_config := mkfc name 0 (KMode Quantiles) 10 None None None.
Fixpoint fc_by_name (fcs : list feature_config) (name : nat) : feature_config :=
  match fcs with
  | [] => default_fc name
  | fc :: r => if (fc_name fc =? name)%nat then fc else fc_by_name r name
  end.
(* result of one feature: skipped (categorical), error, or keypoints *)
Inductive fk_result := FSkip | FError | FKeypoints (kps : list Q).
Definition feature_keypoints_one (rnd : nat -> Q -> Z) (strict : bool) (fc : feature_config) (vs : list Q)
           (ws : option (list Q)) (red : reduction) : fk_result :=
  if (fc_num_buckets fc =? 0)%nat then
    match fc_spec fc with
    | KMode m => match compute_keypoints rnd strict vs (fc_num_keypoints fc) m (fc_clip_min fc) (fc_clip_max fc)
                                           (fc_default fc) ws red with
                 | Some kps => FKeypoints kps
                 | None => FError
                 end
    | KGiven kps => FKeypoints kps
    end
  else FSkip.
Definition compute_feature_keypoints (rnd : nat -> Q -> Z) (strict : bool) (fcs : list feature_config)
           (features : list (nat * list Q)) (ws : option (list Q)) (red : reduction) : list (nat * fk_result) :=
  map (fun f => (fst f, feature_keypoints_one rnd strict (fc_by_name fcs (fst f)) (snd f) ws red)) features.
(* set_feature_keypoints: configs found by name are updated; a missing config
   is appended (as a default config carrying the keypoints) iff add_missing *)
Fixpoint has_fc (fcs : list feature_config) (name : nat) : bool :=
  match fcs with [] => false | fc :: r => (fc_name fc =? name)%nat || has_fc r name end.
Definition set_spec (fc : feature_config) (kps : list Q) : feature_config :=
  mkfc (fc_name fc) (fc_num_buckets fc) (KGiven kps) (fc_num_keypoints fc)
       (fc_clip_min fc) (fc_clip_max fc) (fc_default fc).
Fixpoint set_first (fcs : list feature_config) (name : nat) (kps : list Q) : list feature_config :=
  match fcs with
  | [] => []
  | fc :: r => if (fc_name fc =? name)%nat then set_spec fc kps :: r else fc :: set_first r name kps
  end.
Definition set_feature_keypoints_one (add_missing : bool) (fcs : list feature_config)
           (name : nat) (kps : list Q) : list feature_config :=
  if has_fc fcs name then set_first fcs name kps
  else if add_missing then fcs ++ [set_spec (default_fc name) kps] else fcs.
Definition set_feature_keypoints (add_missing : bool) (fcs : list feature_config)
           (fk : list (nat * list Q)) : list feature_config :=
  fold_left (fun acc f => set_feature_keypoints_one add_missing acc (fst f) (snd f)) fk fcs.

(* compute_label_keypoints.  Labels are numeric, or strings (given by an
   identifier per example): string labels become arange(number of distinct
   labels) and the weights are dropped.  logits -> linspace(-2, 2, k). *)
Inductive labels_in := LNum (l : list Q) | LStr (ids : list nat).
Record label_config := mklc { lc_spec : kp_spec; lc_num_keypoints : nat;
                              lc_output_min : option Q; lc_output_max : option Q }.
Definition label_values (labels : labels_in) : list Q :=
  match labels with LNum l => l | LStr ids => map nq (seq 0 (length (dedup ids []))) end.
Definition label_weights (labels : labels_in) (ws : option (list Q)) : option (list Q) :=
  match labels with LNum _ => ws | LStr _ => None end.
Definition compute_label_keypoints (rnd : nat -> Q -> Z) (strict : bool) (lc : label_config) (labels : labels_in)
           (logits_output : bool) (ws : option (list Q)) (red : reduction) : fk_result :=
  match lc_spec lc with
  | KMode m =>
    if logits_output then FKeypoints (linspace (-2#1) (2#1) (lc_num_keypoints lc))
    else match compute_keypoints rnd strict (label_values labels) (lc_num_keypoints lc) m
                                 (lc_output_min lc) (lc_output_max lc) None (label_weights labels ws) red with
         | Some kps => FKeypoints kps
         | None => FError
         end
  | KGiven kps => FKeypoints kps
  end.
