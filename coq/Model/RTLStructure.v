(* Model of tfl.layers.RTL._get_rtl_structure and of the index plumbing of
   RTL.call (rtl_layer.py).  Definitions only; lemmas are in
   Proofs/RTLStructure.v.

   The two calls rs.shuffle(rtl_inputs) of a np.random.RandomState seeded with
   random_seed are ORACLES: arguments [sh1 sh2 : list rin -> list rin] of
   [rtl_structure]; the theorems assume only that they return a permutation
   of their argument.  Everything else is the code as it is:

     flatten the input dict in sorted-key order ('increasing' sorts before
       'unconstrained'), one group per tensor of a list / per column of a
       single tensor;
     ValueError when num_lattices*lattice_rank < number of inputs
       (ZeroDivisionError for zero inputs)                         -> None;
     shuffle, tile 1 + total//n times, truncate to total, shuffle;
     cut into num_lattices consecutive slices of lattice_rank;
     the group-avoiding swap loop (in-place, pairs of lattices in
       itertools.combinations order, positions in itertools.product order,
       at most _MAX_RTL_SWAPS+1 passes, stops after a pass without a swap);
     stable sort of every lattice by monotonicity;
     defaultdict keyed by the monotonicity tuple, values appended in lattice
       order; sorted(items()).                                                *)
From Coq Require Export List Arith Bool Lia.
Export ListNotations.

(* _RTLInput(monotonicity, group, input_index) *)
Record rin := mkrin { r_mono : nat; r_group : nat; r_idx : nat }.
Definition rin0 : rin := mkrin 0 0 0.

(* value stored under one key of the input-shape dict: a single shape
   (batch, D) (conceptually D tensors (batch, 1): D groups of one input) or a
   list of shapes (batch, D_i) (one group of D_i inputs each) *)
Inductive shapes := Single (d : nat) | Multi (ds : list nat).
Definition group_sizes (s : shapes) : list nat :=
  match s with Single d => repeat 1 d | Multi ds => ds end.

(* the input-shape dict; a non-dict input shape s is {unconstrained: s} *)
Record rtl_input := mkin { in_inc : option shapes; in_unc : option shapes }.
Definition sizes_of (o : option shapes) : list nat :=
  match o with None => [] | Some s => group_sizes s end.

(* for shape in shapes: for _ in range(shape[1]): append(mono, group, index);
   index += 1; group += 1 *)
Fixpoint flat_groups (mono : nat) (sizes : list nat) (g i : nat) : list rin :=
  match sizes with
  | [] => []
  | s :: r => map (fun k => mkrin mono g (i + k)) (seq 0 s) ++ flat_groups mono r (S g) (i + s)
  end.

(* sorted(input_shape.keys()) = ['increasing', 'unconstrained'] *)
Definition flatten (x : rtl_input) : list rin :=
  let gi := sizes_of (in_inc x) in
  let gu := sizes_of (in_unc x) in
  flat_groups 1 gi 0 0 ++ flat_groups 0 gu (length gi) (list_sum gi).

(* the monotonicity under which flattened input index i was supplied *)
Definition input_mono (x : rtl_input) (i : nat) : nat := r_mono (nth i (flatten x) rin0).

Record rtl_cfg := mkcfg {
  c_num : nat;            (* num_lattices *)
  c_rank : nat;           (* lattice_rank *)
  c_avoid : bool;         (* avoid_intragroup_interaction *)
  c_max_swaps : nat;      (* _MAX_RTL_SWAPS *)
  c_input : rtl_input }.

(* l * k *)
Fixpoint tile {A} (l : list A) (k : nat) : list A :=
  match k with O => [] | S k' => l ++ tile l k' end.

(* [l[i*rank:(i+1)*rank] for i in range(num)] *)
Fixpoint chunks {A} (rank num : nat) (l : list A) : list (list A) :=
  match num with O => [] | S n' => firstn rank l :: chunks rank n' (skipn rank l) end.

Fixpoint remove_at {A} (i : nat) (l : list A) : list A :=
  match l, i with
  | [], _ => []
  | _ :: r, O => r
  | x :: r, S i' => x :: remove_at i' r
  end.
Fixpoint set_at {A} (i : nat) (v : A) (l : list A) : list A :=
  match l, i with
  | [], _ => []
  | _ :: r, O => v :: r
  | x :: r, S i' => x :: set_at i' v r
  end.

Definition has_group (g : nat) (l : list rin) : bool := existsb (fun r => r_group r =? g) l.

(* body of the innermost loop for lattices a < b and positions i0, i1 *)
Definition try_swap (st : list (list rin)) (a b i0 i1 : nat) : list (list rin) * bool :=
  let la := nth a st [] in
  let lb := nth b st [] in
  let f0 := nth i0 la rin0 in
  let f1 := nth i1 lb rin0 in
  let rest0 := remove_at i0 la in
  let rest1 := remove_at i1 lb in
  if r_group f0 =? r_group f1 then (st, false)
  else if has_group (r_group f0) rest0 && negb (has_group (r_group f0) rest1)
          && negb (has_group (r_group f1) rest0)
  then (set_at a (set_at i0 f1 la) (set_at b (set_at i1 f0 lb) st), true)
  else (st, false).

(* itertools.combinations(range(n), 2) *)
Definition pairs (n : nat) : list (nat * nat) :=
  flat_map (fun a => map (fun b => (a, b)) (seq (S a) (n - S a))) (seq 0 n).

Definition swap_step (a b : nat) (acc : list (list rin) * bool) (q : nat * nat) : list (list rin) * bool :=
  let '(st', c) := try_swap (fst acc) a b (fst q) (snd q) in (st', snd acc || c).

(* itertools.product(range(len(lattice_0)), range(len(lattice_1))) is built when
   the pair is reached *)
Definition pass_pair (acc : list (list rin) * bool) (ab : nat * nat) : list (list rin) * bool :=
  let '(a, b) := ab in
  fold_left (swap_step a b)
            (list_prod (seq 0 (length (nth a (fst acc) []))) (seq 0 (length (nth b (fst acc) []))))
            acc.

Definition swap_pass (st : list (list rin)) : list (list rin) * bool :=
  fold_left pass_pair (pairs (length st)) (st, false).

(* fuel = number of passes still allowed *)
Fixpoint swap_loop (fuel : nat) (st : list (list rin)) : list (list rin) :=
  match fuel with
  | O => st
  | S f => let '(st', ch) := swap_pass st in if ch then swap_loop f st' else st'
  end.

(* lattice.sort(key=monotonicity): stable *)
Fixpoint ins_mono (x : rin) (l : list rin) : list rin :=
  match l with
  | [] => [x]
  | y :: r => if r_mono x <=? r_mono y then x :: l else y :: ins_mono x r
  end.
Definition sort_mono (l : list rin) : list rin := fold_right ins_mono [] l.

Definition structure := list (list nat * list (list nat)).

Fixpoint list_eqb (a b : list nat) : bool :=
  match a, b with
  | [], [] => true
  | x :: a', y :: b' => (x =? y) && list_eqb a' b'
  | _, _ => false
  end.

(* defaultdict(list)[k].append(v), insertion-ordered *)
Fixpoint dict_append (k v : list nat) (d : structure) : structure :=
  match d with
  | [] => [(k, [v])]
  | (k', vs) :: r => if list_eqb k k' then (k', vs ++ [v]) :: r else (k', vs) :: dict_append k v r
  end.

(* tuple comparison a <= b *)
Fixpoint lex_leb (a b : list nat) : bool :=
  match a, b with
  | [], _ => true
  | _ :: _, [] => false
  | x :: a', y :: b' => if x <? y then true else if y <? x then false else lex_leb a' b'
  end.
Fixpoint ins_item (e : list nat * list (list nat)) (d : structure) : structure :=
  match d with
  | [] => [e]
  | e' :: r => if lex_leb (fst e) (fst e') then e :: d else e' :: ins_item e r
  end.
(* sorted(d.items()); the keys are distinct *)
Definition sort_items (d : structure) : structure := fold_right ins_item [] d.

Definition group_step (d : structure) (lat : list rin) : structure :=
  let s := sort_mono lat in dict_append (map r_mono s) (map r_idx s) d.

(* the slots after shuffle / tile / truncate / shuffle *)
Definition rtl_slots (cfg : rtl_cfg) (sh1 sh2 : list rin -> list rin) : list rin :=
  let inputs := flatten (c_input cfg) in
  let total := c_num cfg * c_rank cfg in
  sh2 (firstn total (tile (sh1 inputs) (1 + total / length inputs))).

(* the lattices (lists of _RTLInput) after the swap loop *)
Definition rtl_lattices (cfg : rtl_cfg) (sh1 sh2 : list rin -> list rin) : list (list rin) :=
  let lats := chunks (c_rank cfg) (c_num cfg) (rtl_slots cfg sh1 sh2) in
  if c_avoid cfg then swap_loop (S (c_max_swaps cfg)) lats else lats.

Definition rtl_structure (cfg : rtl_cfg) (sh1 sh2 : list rin -> list rin) : option structure :=
  let n := length (flatten (c_input cfg)) in
  if c_num cfg * c_rank cfg <? n then None          (* ValueError: too small *)
  else if n =? 0 then None                          (* ZeroDivisionError *)
  else Some (sort_items (fold_left group_step (rtl_lattices cfg sh1 sh2) [])).

(* ---- observation helpers ---- *)
Definition all_lattices (s : structure) : list (list nat) := concat (map snd s).
Definition usage (s : structure) (i : nat) : nat := count_occ Nat.eq_dec (concat (all_lattices s)) i.

(* ---- RTL.call: which lattices feed which output ----
   output_monotonicity = max(monotonicities);
   outputs_for_monotonicity[output_monotonicity].append(lattice_layer(gather(x, inputs_for_units)))
   Each structure entry contributes its units (lattices) in order. *)
Definition out_label (m : list nat) : nat := list_max m.
Definition rtl_outputs (s : structure) : list (list nat) * list (list nat) :=
  (concat (map snd (filter (fun e => out_label (fst e) =? 0) s)),
   concat (map snd (filter (fun e => out_label (fst e) =? 1) s))).
