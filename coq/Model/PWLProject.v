(* Model of pwl_calibration_lib.project_all_constraints and its helpers, on one
   unit (column) of the kernel: bias (first row) and heights (remaining rows).
   Every reduction of the code (reduce_sum / cumsum along axis 0) is per column,
   so a multi-unit kernel is projected column by column. *)
From TFL Require Export Base.Lists.
Open Scope Q_scope.

Inductive bct := BNone | BBound | BClamped.
Definition bct_eqb (a b : bct) : bool :=
  match a, b with BNone, BNone | BBound, BBound | BClamped, BClamped => true | _, _ => false end.

Definition qn (n : nat) : Q := inject_Z (Z.of_nat n).
Definition qneg_list (l : list Q) : list Q := map Qopp l.

(* tf.cumsum *)
Fixpoint cumsum_from (acc : Q) (l : list Q) : list Q :=
  match l with [] => [] | x :: r => (acc + x) :: cumsum_from (acc + x) r end.
Definition cumsum (l : list Q) : list Q := cumsum_from 0 l.
(* sums[1:] - sums[:-1] with first element kept *)
Fixpoint diffs_from (prev : Q) (l : list Q) : list Q :=
  match l with [] => [] | x :: r => Qred (x - prev) :: diffs_from x r end.

(* _approximately_project_bounds_only (never called with CLAMPED in the model:
   the code raises ValueError there) *)
Definition bounds_only (bias : Q) (heights : list Q) (omin omax : Q) (cmin cmax : bct) : Q * list Q :=
  match cmin, cmax with
  | BNone, BNone => (bias, heights)
  | _, _ =>
    let sums := cumsum (bias :: heights) in
    let sums := match cmin with BBound => map (fun s => qmax s omin) sums | _ => sums end in
    let sums := match cmax with BBound => map (fun s => qmin s omax) sums | _ => sums end in
    match sums with
    | [] => (bias, heights)
    | b :: rest => (b, diffs_from b rest)
    end
  end.

(* _project_bounds_considering_monotonicity for an increasing function *)
Definition bounds_mono_inc (bias : Q) (heights : list Q) (omin omax : Q) (cmin cmax : bct) : Q * list Q :=
  match cmax with
  | BNone =>
      match cmin with
      | BClamped => (omin, heights)
      | BBound => (qmax bias omin, heights)
      | BNone => (bias, heights)
      end
  | _ =>
      let n := qn (length heights) in
      let s := qsum heights in
      let clamped_max := bct_eqb cmax BClamped in
      let '(bias', hd) :=
        match cmin with
        | BClamped => (omin, (omax - (omin + s)) / n)
        | BBound =>
            let bd := (omax - (bias + s)) / (n + 1) in
            let bd := if clamped_max then bd else qmin bd 0 in
            let b' := qmax (bias + bd) omin in
            (b', (omax - (b' + s)) / n)
        | BNone =>
            let bd := (omax - (bias + s)) / (n + 1) in
            let hd := bd in
            let bd := if clamped_max then bd else qmin bd 0 in
            (bias + bd, hd)
        end in
      let hd := if clamped_max then hd else qmin hd 0 in
      (Qred bias', map (fun h => Qred (h + hd)) heights)
  end.

Definition bounds_mono (mono : Z) (bias : Q) (heights : list Q) (omin omax : Q) (cmin cmax : bct) : Q * list Q :=
  if (mono =? -1)%Z then
    let '(b, h) := bounds_mono_inc (- bias) (qneg_list heights) (- omax) (- omin) cmax cmin in
    (- b, qneg_list h)
  else bounds_mono_inc bias heights omin omax cmin cmax.

Definition project_monotonicity (mono : Z) (heights : list Q) : list Q :=
  if (mono =? 0)%Z then heights
  else if (mono =? 1)%Z then map (fun h => qmax h 0) heights
  else map (fun h => qmin h 0) heights.

(* _project_convexity on consecutive pairs starting at [group] *)
Fixpoint convex_pairs (conv : Z) (hs ls : list Q) : list Q :=
  match hs, ls with
  | h0 :: h1 :: hr, l0 :: l1 :: lr =>
      let base := (h0 + h1) / (l0 + l1) in
      let h0' := l0 * base in let h1' := l1 * base in
      (if (conv =? 1)%Z then Qred (qmin h0 h0') else Qred (qmax h0 h0')) ::
      (if (conv =? 1)%Z then Qred (qmax h1 h1') else Qred (qmin h1 h1')) :: convex_pairs conv hr lr
  | _, _ => hs
  end.
Definition project_convexity (conv : Z) (group : nat) (hs ls : list Q) : list Q :=
  if (conv =? 0)%Z then hs
  else match length hs with
       | 1%nat => hs
       | _ => match group with
              | O => convex_pairs conv hs ls
              | _ => match hs, ls with h :: hr, _ :: lr => h :: convex_pairs conv hr lr | _, _ => hs end
              end
       end.

(* _approximately_project_convexity: left to right *)
Fixpoint approx_convexity_from (conv : Z) (hprev lprev : Q) (hs ls : list Q) : list Q :=
  match hs, ls with
  | h :: hr, l :: lr =>
      let temp := hprev * (l / lprev) in
      let h' := if (conv =? 1)%Z then Qred (qmax h temp) else Qred (qmin h temp) in
      h' :: approx_convexity_from conv h' l hr lr
  | _, _ => hs
  end.
Definition approx_convexity (conv : Z) (hs ls : list Q) : list Q :=
  if (conv =? 0)%Z then hs
  else match hs, ls with h :: hr, l :: lr => h :: approx_convexity_from conv h l hr lr | _, _ => hs end.

(* _squeeze_by_scaling for an increasing function *)
Definition squeeze_inc (bias : Q) (heights : list Q) (omax : Q) (cmax : bct) : Q * list Q :=
  match cmax with
  | BNone => (bias, heights)
  | _ =>
      let delta := omax - bias in
      let sf := if qlt (1 # 1000) delta then qsum heights / delta else 1 in
      let d := qmax sf 1 in
      (bias, map (fun h => Qred (h / d)) heights)
  end.
Definition squeeze (mono : Z) (bias : Q) (heights : list Q) (omin omax : Q) (cmin cmax : bct) : Q * list Q :=
  if (mono =? -1)%Z then
    match cmin with
    | BNone => (bias, heights)
    | _ => let '(b, h) := squeeze_inc (- bias) (qneg_list heights) (- omin) cmin in (- b, qneg_list h)
    end
  else squeeze_inc bias heights omax cmax.

Record pwl_cfg := mkPwl {
  p_mono : Z; p_conv : Z;
  p_min : Q; p_max : Q; p_cmin : bct; p_cmax : bct;
  p_lengths : list Q;
  p_iters : nat
}.

Definition has_bounds (c : pwl_cfg) : bool := negb (bct_eqb (p_cmin c) BNone) || negb (bct_eqb (p_cmax c) BNone).

(* _finalize_constraints *)
Definition pwl_finalize (c : pwl_cfg) (bias : Q) (heights : list Q) : Q * list Q :=
  let heights := if (p_mono c =? 0)%Z then heights else project_monotonicity (p_mono c) heights in
  let heights := if (p_conv c =? 0)%Z then heights else approx_convexity (p_conv c) heights (p_lengths c) in
  if has_bounds c then
    if negb (p_mono c =? 0)%Z && negb (p_conv c =? 0)%Z
    then squeeze (p_mono c) bias heights (p_min c) (p_max c) (p_cmin c) (p_cmax c)
    else let down := fun b => match b with BClamped => BBound | x => x end in
         bounds_only bias heights (p_min c) (p_max c) (down (p_cmin c)) (down (p_cmax c))
  else (bias, heights).

(* Dykstra state: current point and the stored last changes *)
Record dyk := mkDyk {
  d_bias : Q; d_h : list Q;
  d_lb_bounds : Q; d_lh_bounds : list Q; d_lh_mono : list Q; d_lh_c0 : list Q; d_lh_c1 : list Q
}.
Definition lsub (a b : list Q) : list Q := map2 (fun x y => Qred (x - y)) a b.

(* one iteration of body(); returns the new state and num_projections *)
Definition dyk_body (c : pwl_cfg) (st : dyk) : dyk * nat :=
  let bias := d_bias st in let h := d_h st in
  let '(bias, h, lbb, lhb, np) :=
    if has_bounds c then
      let rb := Qred (bias - d_lb_bounds st) in
      let rh := lsub h (d_lh_bounds st) in
      let '(b', h') := if (p_mono c =? 0)%Z
                       then bounds_only rb rh (p_min c) (p_max c) (p_cmin c) (p_cmax c)
                       else bounds_mono (p_mono c) rb rh (p_min c) (p_max c) (p_cmin c) (p_cmax c) in
      (b', h', Qred (b' - rb), lsub h' rh, 1%nat)
    else (bias, h, d_lb_bounds st, d_lh_bounds st, 0%nat) in
  let '(h, lhm, np) :=
    if (p_mono c =? 0)%Z then (h, d_lh_mono st, np)
    else let rh := lsub h (d_lh_mono st) in
         let h' := project_monotonicity (p_mono c) rh in (h', lsub h' rh, S np) in
  let '(h, lc0, np) :=
    if negb (p_conv c =? 0)%Z && (2 <=? length h)%nat then
      let rh := lsub h (d_lh_c0 st) in
      let h' := project_convexity (p_conv c) 0 rh (p_lengths c) in (h', lsub h' rh, S np)
    else (h, d_lh_c0 st, np) in
  let '(h, lc1, np) :=
    if negb (p_conv c =? 0)%Z && (3 <=? length h)%nat then
      let rh := lsub h (d_lh_c1 st) in
      let h' := project_convexity (p_conv c) 1 rh (p_lengths c) in (h', lsub h' rh, S np)
    else (h, d_lh_c1 st, np) in
  (mkDyk bias h lbb lhb lhm lc0 lc1, np).

Definition dyk_init (bias : Q) (h : list Q) : dyk :=
  let z := map (fun _ => 0) h in mkDyk bias h 0 z z z z.

Fixpoint dyk_iter (c : pwl_cfg) (n : nat) (st : dyk) : dyk :=
  match n with O => st | S n' => dyk_iter c n' (fst (dyk_body c st)) end.

(* project_all_constraints on one column  w = bias :: heights *)
Definition pwl_project_col (c : pwl_cfg) (w : list Q) : list Q :=
  match w with
  | [] => []
  | bias :: h =>
    let '(st1, np) := dyk_body c (dyk_init bias h) in
    if (np <=? 1)%nat then d_bias st1 :: d_h st1
    else let st := dyk_iter c (p_iters c) (dyk_init bias h) in
         let '(b, hs) := pwl_finalize c (d_bias st) (d_h st) in b :: hs
  end.

Definition pwl_project (c : pwl_cfg) (units : nat) (W : list (list Q)) : list (list Q) :=
  transpose (length W) (map (fun u => pwl_project_col c (column u W)) (seq 0 units)).

(* NaiveBoundsConstraints *)
Definition naive_bounds (lo hi : option Q) (w : Q) : Q := clip_hi hi (clip_lo lo w).

(* keypoint outputs described by a kernel column *)
Definition keypoint_outputs (w : list Q) : list Q := cumsum w.
