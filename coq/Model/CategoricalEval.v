(* Model of tfl.layers.CategoricalCalibration.call
   (categorical_calibration_layer.py).  Definitions only. *)
From TFL Require Export Base.Lists Model.PWLEval.
From Coq Require Export Qround.
Open Scope Q_scope.

Record cat_layer := mkCat {
  c_buckets : nat;            (* num_buckets *)
  c_units : nat;
  c_kernel : list (list Q);   (* [num_buckets][units] *)
  c_default : option Z;       (* int(default_input_value) *)
  c_split : bool }.

(* tf.cast(inputs, int32) of a float: truncation toward zero (identity on
   integer-valued inputs, which is all an integer dtype can carry) *)
Definition cast_int (x : Q) : Z := if Qle_bool 0 x then Qfloor x else Qceiling x.

(* where(equal(inputs, default_input_value), num_buckets - 1, inputs) *)
Definition replace_default (L : cat_layer) (i : Z) : Z :=
  match c_default L with
  | Some d => if (i =? d)%Z then (Z.of_nat (c_buckets L) - 1)%Z else i
  | None => i
  end.

(* tf.one_hot(i, depth): all zeros when i is outside [0, depth) *)
Definition one_hot (depth : nat) (i : Z) : list Q :=
  map (fun b => if (Z.of_nat b =? i)%Z then 1 else 0) (seq 0 depth).

Definition cat_row (L : cat_layer) (row : list Q) : list Q :=
  let idx := map (fun x => replace_default L (cast_int x)) row in
  if (c_units L =? 1)%nat then
    (* matmul(one_hot(squeeze(inputs, -1), depth), kernel) *)
    [dot (one_hot (c_buckets L) (nth 0 idx 0%Z)) (column 0 (c_kernel L))]
  else
    (* reduce_sum(one_hot(inputs, axis=1, depth) * kernel, axis=1) *)
    map (fun u => dot (one_hot (c_buckets L) (nth (if (length row =? 1)%nat then 0 else u) idx 0%Z))
                      (column u (c_kernel L))) (seq 0 (c_units L)).

(* outputs as a list of matrices (one matrix when not split); the units == 1
   branch returns before split_outputs is looked at *)
Definition cat_call (L : cat_layer) (inputs : list (list Q)) : list (list (list Q)) :=
  let res := map (cat_row L) inputs in
  if (c_units L =? 1)%nat then [res]
  else if c_split L then map (fun u => map (fun r => [nth u r 0]) res) (seq 0 (c_units L))
  else [res].
