(* Model of the assert_constraints functions
     lattice_lib.assert_constraints            (+ Lattice.assert_constraints)
     pwl_calibration_lib.assert_constraints    (+ PWLCalibration.assert_constraints)
     linear_lib.assert_constraints             (+ Linear.assert_constraints)
     categorical_calibration_lib.assert_constraints
     kronecker_factored_lattice_lib.assert_constraints
     RTL.assert_constraints
   as boolean functions  (weights, eps) -> bool,  true = every tf.Assert of the
   call passes (the eager call returns), false = some tf.Assert fails (the eager
   call raises InvalidArgumentError).  Every tf.Assert of the code is one
   conjunct, with the code's own reduction (reduce_min over the slices left by
   tf.unstack, per-unit reduce_min over axis 0, gather + reduce_max, ...) and the
   code's own comparison (>= -eps, <= eps, strict < where the code is strict).

   Conventions: the Lattice kernel of shape (prod(sizes), units) is the
   function-tensor of shape  sizes ++ [units]  of Model/LatticeFinalize.v (the
   code appends the units axis only when units > 1; for units = 1 the trailing
   axis of size 1 changes no reduction).  PWL / Linear / Categorical kernels
   are lists of rows (row = one list entry per unit).  Definitions only. *)
From TFL Require Export Model.LatticeFinalize.
Open Scope Q_scope.

(* tf.reduce_min(t) >= lo  and  tf.reduce_max(t) <= hi  on the entries of t *)
Definition rmin_ge (l : list Q) (lo : Q) : bool := qle lo (qminl l).
Definition rmax_le (l : list Q) (hi : Q) : bool := qle (qmaxl l) hi.

(* ====================================================================== *)
(* lattice_lib.assert_constraints                                          *)
(* ====================================================================== *)
Record la_cfg := mkLA {
  a_sizes : list nat;
  a_units : nat;
  a_monos : list Z;                 (* canonical, as passed by the layer; [] = None *)
  a_edge : list trust;              (* (main, cond, direction +-1) *)
  a_trap : list trust;
  a_mdom : list (nat * nat);        (* (dominant, weak) *)
  a_rdom : list (nat * nat);
  a_jmono : list (nat * nat);
  a_min : option Q;
  a_max : option Q
}.
Definition a_shape (c : la_cfg) : list nat := a_sizes c ++ [a_units c].

(* tf.reduce_min(g) >= -eps  where g is an elementwise expression of the
   slices obtained by unstacking the dimensions [keep]; the entries of a slice
   are indexed by the positions that are 0 at the unstacked dimensions *)
Definition slices_ge (sh : list nat) (keep : list nat) (eps : Q) (g : idx -> Q) : bool :=
  rmin_ge (map g (behind sh keep)) (- eps).

(* for i in range(len(monotonicities)): if monotonicities[i] != 1: continue
     layers = unstack(weights, axis=i)
     for j in 1..: reduce_min(layers[j] - layers[j-1]) >= -eps *)
Definition assert_mono (sh : list nat) (monos : list Z) (eps : Q) (W : tens) : bool :=
  forallb (fun d =>
    if (nth d monos 0 =? 1)%Z then
      forallb (fun j => slices_ge sh [d] eps (fun b => W (upd b d (S j)) - W (upd b d j)))
              (seq 0 (nth d sh 0%nat - 1))
    else true) (seq 0 (length monos)).

Definition pairs_all (a b : nat) (f : nat -> nat -> bool) : bool :=
  forallb (fun i => forallb (fun j => f i j) (seq 0 b)) (seq 0 a).

(* cond_direction * ((L[i+1][j+1] - L[i][j+1]) - (L[i+1][j] - L[i][j])) *)
Definition assert_edge_one (sh : list nat) (eps : Q) (W : tens) (t : trust) : bool :=
  let '(m, c, dir) := t in
  pairs_all (nth m sh 0%nat - 1) (nth c sh 0%nat - 1) (fun i j =>
    slices_ge sh [m; c] eps (fun b =>
      inject_Z dir * ((W (at2 b m c (S i) (S j)) - W (at2 b m c i (S j))) -
                      (W (at2 b m c (S i) j) - W (at2 b m c i j))))).

(* lhs: dir * (L[0][j] - L[0][j+1]);  rhs: dir * (L[max][j+1] - L[max][j]) *)
Definition assert_trap_one (sh : list nat) (eps : Q) (W : tens) (t : trust) : bool :=
  let '(m, c, dir) := t in
  let mx := (nth m sh 0%nat - 1)%nat in
  forallb (fun j =>
    slices_ge sh [m; c] eps (fun b => inject_Z dir * (W (at2 b m c 0%nat j) - W (at2 b m c 0%nat (S j)))) &&
    slices_ge sh [m; c] eps (fun b => inject_Z dir * (W (at2 b m c mx (S j)) - W (at2 b m c mx j))))
    (seq 0 (nth c sh 0%nat - 1)).

(* midpoint = (L[i+1][j+1] + L[i][j]) / 2;  L[i+1][j] - midpoint;  midpoint - L[i][j+1] *)
Definition assert_mdom_one (sh : list nat) (eps : Q) (W : tens) (pq : nat * nat) : bool :=
  let '(p, q) := pq in
  pairs_all (nth p sh 0%nat - 1) (nth q sh 0%nat - 1) (fun i j =>
    slices_ge sh [p; q] eps (fun b =>
      W (at2 b p q (S i) j) - (W (at2 b p q (S i) (S j)) + W (at2 b p q i j)) * (1#2)) &&
    slices_ge sh [p; q] eps (fun b =>
      (W (at2 b p q (S i) (S j)) + W (at2 b p q i j)) * (1#2) - W (at2 b p q i (S j)))).

(* for every i, j (all of them, not only i+1 < size):
   (L[dmax][j] - L[0][j]) - (L[i][wmax] - L[i][0]) *)
Definition assert_rdom_one (sh : list nat) (eps : Q) (W : tens) (pq : nat * nat) : bool :=
  let '(p, q) := pq in
  let dmax := (nth p sh 0%nat - 1)%nat in let wmax := (nth q sh 0%nat - 1)%nat in
  pairs_all (nth p sh 0%nat) (nth q sh 0%nat) (fun i j =>
    slices_ge sh [p; q] eps (fun b =>
      (W (at2 b p q dmax j) - W (at2 b p q 0%nat j)) - (W (at2 b p q i wmax) - W (at2 b p q i 0%nat)))).

(* midpoint = (L[i+1][j] + L[i][j+1]) / 2;  L[i+1][j+1] - midpoint;  midpoint - L[i][j] *)
Definition assert_jmono_one (sh : list nat) (eps : Q) (W : tens) (pq : nat * nat) : bool :=
  let '(p, q) := pq in
  pairs_all (nth p sh 0%nat - 1) (nth q sh 0%nat - 1) (fun i j =>
    slices_ge sh [p; q] eps (fun b =>
      W (at2 b p q (S i) (S j)) - (W (at2 b p q (S i) j) + W (at2 b p q i (S j))) * (1#2)) &&
    slices_ge sh [p; q] eps (fun b =>
      (W (at2 b p q (S i) j) + W (at2 b p q i (S j))) * (1#2) - W (at2 b p q i j))).

(* reduce_min(weights) >= output_min - eps;  reduce_max(weights) <= output_max + eps *)
Definition assert_lower (sh : list nat) (eps : Q) (omin : option Q) (W : tens) : bool :=
  match omin with None => true | Some lo => rmin_ge (map W (all_idx sh)) (lo - eps) end.
Definition assert_upper (sh : list nat) (eps : Q) (omax : option Q) (W : tens) : bool :=
  match omax with None => true | Some hi => rmax_le (map W (all_idx sh)) (hi + eps) end.

(* joint_unimodalities are deleted on entry ("TODO: actually assert them");
   unimodalities are not even a parameter *)
Definition assert_lattice (c : la_cfg) (W : tens) (eps : Q) : bool :=
  let sh := a_shape c in
  assert_mono sh (a_monos c) eps W &&
  forallb (assert_edge_one sh eps W) (a_edge c) &&
  forallb (assert_trap_one sh eps W) (a_trap c) &&
  forallb (assert_mdom_one sh eps W) (a_mdom c) &&
  forallb (assert_rdom_one sh eps W) (a_rdom c) &&
  forallb (assert_jmono_one sh eps W) (a_jmono c) &&
  assert_lower sh eps (a_min c) W &&
  assert_upper sh eps (a_max c) W.

(* flat kernel I/O (row-major, as tf.reshape) *)
Definition assert_lattice_flat (c : la_cfg) (w : list Q) (eps : Q) : bool :=
  assert_lattice c (of_list (a_shape c) w) eps.

(* RTL.assert_constraints: every lattice layer of the structure is asserted *)
Definition assert_rtl (layers : list (la_cfg * list Q)) (eps : Q) : bool :=
  forallb (fun cw => assert_lattice_flat (fst cw) (snd cw) eps) layers.

(* ====================================================================== *)
(* pwl_calibration_lib.assert_constraints                                  *)
(* ====================================================================== *)
Record pwl_acfg := mkPA {
  pa_units : nat;
  pa_mono : Z;               (* -1, 0, 1 *)
  pa_min : option Q;
  pa_max : option Q;
  pa_clamp_min : bool;
  pa_clamp_max : bool
}.

(* reduce_min(outputs, axis=0) / reduce_max(outputs, axis=0): one value per unit *)
Definition col_mins (units : nat) (outs : list (list Q)) : list Q := map (fun u => qminl (column u outs)) (seq 0 units).
Definition col_maxs (units : nat) (outs : list (list Q)) : list Q := map (fun u => qmaxl (column u outs)) (seq 0 units).

(* outputs[1:] - outputs[0:-1], all entries *)
Fixpoint row_diffs (units : nat) (outs : list (list Q)) : list Q :=
  match outs with
  | r0 :: ((r1 :: _) as rest) => map (fun u => nth u r1 0 - nth u r0 0) (seq 0 units) ++ row_diffs units rest
  | _ => []
  end.

Definition assert_pwl_outputs (c : pwl_acfg) (outs : list (list Q)) (eps : Q) : bool :=
  let units := pa_units c in
  match pa_min c with
  | None => true
  | Some lo =>
    if pa_clamp_min c then forallb (fun m => qle (qabs (m - lo)) eps) (col_mins units outs)
    else forallb (fun m => qle (lo - eps) m) (col_mins units outs)
  end &&
  match pa_max c with
  | None => true
  | Some hi =>
    if pa_clamp_max c then forallb (fun m => qle (qabs (m - hi)) eps) (col_maxs units outs)
    else forallb (fun m => qle m (hi + eps)) (col_maxs units outs)
  end &&
  (if (pa_mono c =? 0)%Z then true
   else rmin_ge (map (fun d => d * inject_Z (pa_mono c)) (row_diffs units outs)) (- eps)).

(* PWLCalibration.assert_constraints: outputs = self.keypoints_outputs()
   = tf.cumsum(kernel) [+ concat of its first row when is_cyclic]; it is
   independent of split_outputs, of the keypoint type and of the missing-value
   settings (since fix 60eb4dd; before, call() was evaluated on the initial
   keypoints). *)
Fixpoint run_sums (acc : list Q) (units : nat) (rows : list (list Q)) : list (list Q) :=
  match rows with
  | [] => []
  | r :: rest => let s := map (fun u => nth u acc 0 + nth u r 0) (seq 0 units) in s :: run_sums s units rest
  end.
Definition pwl_keypoint_outputs (units : nat) (cyclic : bool) (kernel : list (list Q)) : list (list Q) :=
  let outs := run_sums (map (fun _ => 0) (seq 0 units)) units kernel in
  if cyclic then outs ++ firstn 1 outs else outs.

Record pwl_layer_acfg := mkPL {
  pl_cfg : pwl_acfg;
  pl_cyclic : bool;
  pl_missing : option (list Q)   (* Some missing_output when impute_missing and missing_output_value is None *)
}.
Definition assert_pwl_layer (c : pwl_layer_acfg) (kernel : list (list Q)) (eps : Q) : bool :=
  let pc := pl_cfg c in
  assert_pwl_outputs pc (pwl_keypoint_outputs (pa_units pc) (pl_cyclic c) kernel) eps &&
  match pl_missing c with
  | None => true
  | Some mo => assert_pwl_outputs (mkPA (pa_units pc) 0 (pa_min pc) (pa_max pc) false false) [mo] eps
  end.

(* ====================================================================== *)
(* linear_lib.assert_constraints                                           *)
(* ====================================================================== *)
Record lin_acfg := mkLinA {
  li_units : nat;
  li_monos : list Z;                       (* -1, 0, 1 per input *)
  li_mdom : list (nat * nat);              (* (dominant, weak) *)
  li_rdom : list (nat * nat);
  li_min : list (option Q);                (* canonicalised input_min ([] = None) *)
  li_max : list (option Q);
  li_norm : option nat                     (* normalization_order: None, Some 1, Some 2 *)
}.

Definition any_nonzero (ms : list Z) : bool := existsb (fun m => negb (m =? 0)%Z) ms.
Definition krow (K : list (list Q)) (i : nat) : list Q := nth i K [].
Definition kat (K : list (list Q)) (i u : nat) : Q := nth u (krow K i) 0.

(* reduce_min(weights * monotonicities[:, None]) >= -eps, only `if any(monotonicities)` *)
Definition assert_lin_mono (c : lin_acfg) (K : list (list Q)) (eps : Q) : bool :=
  if any_nonzero (li_monos c) then
    rmin_ge (flat_map (fun i => map (fun u => kat K i u * inject_Z (nth i (li_monos c) 0%Z)) (seq 0 (li_units c)))
                      (seq 0 (length K))) (- eps)
  else true.

(* reduce_min(weights[dominant] - weights[weak]) >= -eps *)
Definition assert_lin_mdom (c : lin_acfg) (K : list (list Q)) (eps : Q) (dw : nat * nat) : bool :=
  let '(d, w) := dw in rmin_ge (map (fun u => kat K d u - kat K w u) (seq 0 (li_units c))) (- eps).

(* scalings = [-1 if m == -1 else 1] * (upper - lower where both are given) *)
Fixpoint zip_bounds (lo hi : list (option Q)) : list (option Q * option Q) :=
  match lo, hi with l :: lo', h :: hi' => (l, h) :: zip_bounds lo' hi' | _, _ => [] end.
Definition lin_scaling (c : lin_acfg) (i : nat) : Q :=
  let s := if (nth i (li_monos c) 0 =? -1)%Z then - (1) else 1 in
  match nth i (zip_bounds (li_min c) (li_max c)) (None, None) with
  | (Some l, Some h) => s * (h - l)
  | _ => s
  end.
Definition assert_lin_rdom (c : lin_acfg) (K : list (list Q)) (eps : Q) (dw : nat * nat) : bool :=
  let '(d, w) := dw in
  rmin_ge (map (fun u => lin_scaling c d * kat K d u - lin_scaling c w * kat K w u) (seq 0 (li_units c))) (- eps).

(* tf.norm(weights, axis=0, ord): ord 1 = sum of absolute values; ord 2 = the
   square root of the sum of squares, compared through squares:
     |sqrt s - 1| < eps  <->  s < (1+eps)^2 /\ (1 - eps < 0 \/ (1-eps)^2 < s),
     |sqrt s| < 1e-8     <->  s < 1e-16.
   The assert passes when  |norm - 1| < eps  OR  |norm| < _NORMALIZATION_EPS. *)
Definition norm_eps : Q := 1 # 100000000.
Definition unit_col (K : list (list Q)) (u : nat) : list Q := map (fun r => nth u r 0) K.
Definition norm_ok (ord : nat) (col : list Q) (eps : Q) : bool :=
  match ord with
  | 1%nat => let n := qsum (map qabs col) in
             qlt (qabs (n - 1)) eps || qlt (qabs n) norm_eps
  | _ => let s := qsum (map (fun x => x * x) col) in
         (qlt s ((1 + eps) * (1 + eps)) && (qlt (1 - eps) 0 || qlt ((1 - eps) * (1 - eps)) s))
         || qlt s (norm_eps * norm_eps)
  end.
Definition assert_lin_norm (c : lin_acfg) (K : list (list Q)) (eps : Q) : bool :=
  match li_norm c with
  | None => true
  | Some ord => forallb (fun u => norm_ok ord (unit_col K u) eps) (seq 0 (li_units c))
  end.

Definition assert_linear (c : lin_acfg) (K : list (list Q)) (eps : Q) : bool :=
  assert_lin_mono c K eps &&
  forallb (assert_lin_mdom c K eps) (li_mdom c) &&
  (match li_rdom c with [] => true | _ => forallb (assert_lin_rdom c K eps) (li_rdom c) end) &&
  assert_lin_norm c K eps.

(* ====================================================================== *)
(* categorical_calibration_lib.assert_constraints                          *)
(* ====================================================================== *)
Record cat_acfg := mkCatA {
  ca_units : nat;
  ca_min : option Q;
  ca_max : option Q;
  ca_pairs : list (nat * nat)     (* (i, j): weight[i] <= weight[j] *)
}.
Definition all_entries (units : nat) (K : list (list Q)) : list Q :=
  flat_map (fun r => map (fun u => nth u r 0) (seq 0 units)) K.
(* left = gather(weights, [i...]); right = gather(weights, [j...]);
   reduce_max(left - right) <= eps *)
Definition assert_categorical (c : cat_acfg) (K : list (list Q)) (eps : Q) : bool :=
  match ca_min c with None => true | Some lo => rmin_ge (all_entries (ca_units c) K) (lo - eps) end &&
  match ca_max c with None => true | Some hi => rmax_le (all_entries (ca_units c) K) (hi + eps) end &&
  match ca_pairs c with
  | [] => true
  | ps => rmax_le (flat_map (fun ij => map (fun u => kat K (fst ij) u - kat K (snd ij) u) (seq 0 (ca_units c))) ps) eps
  end.

(* ====================================================================== *)
(* kronecker_factored_lattice_lib.assert_constraints                       *)
(* ====================================================================== *)
(* kernel (1, lattice_sizes, units * dims, num_terms), reshaped by the code to
   (1, lattice_sizes, units, dims, num_terms): function-tensor of shape
   [L; units; dims; terms], index [k; u; d; t].  scale: [units][terms]. *)
Record kfl_acfg := mkKA {
  k_L : nat;
  k_units : nat;
  k_dims : nat;
  k_terms : nat;
  k_monos : list Z;          (* canonical {0,1}; [] = None *)
  k_min : option Q;
  k_max : option Q
}.
Definition k_shape (c : kfl_acfg) : list nat := [k_L c; k_units c; k_dims c; k_terms c].
Definition qsign (x : Q) : Q := if qlt 0 x then 1 else if qlt x 0 then - (1) else 0.
Definition sc_at (Sc : list (list Q)) (u t : nat) : Q := nth t (nth u Sc []) 0.

(* direction = sign(scale)[:, None, :];  w = direction * weights; per monotone
   dimension d, per keypoint j >= 1: reduce_min(w[j] - w[j-1]) >= -eps over
   (units, terms).  `zip(weights, monotonicities)` stops at the shorter list. *)
Definition assert_kfl_mono (c : kfl_acfg) (Sc : list (list Q)) (eps : Q) (K : tens) : bool :=
  match k_monos c with
  | [] => true
  | ms =>
    forallb (fun d =>
      if (nth d ms 0 =? 0)%Z then true else
      forallb (fun j =>
        rmin_ge (flat_map (fun u => map (fun t =>
                   qsign (sc_at Sc u t) * K [S j; u; d; t] - qsign (sc_at Sc u t) * K [j; u; d; t])
                   (seq 0 (k_terms c))) (seq 0 (k_units c))) (- eps))
        (seq 0 (k_L c - 1)))
      (seq 0 (Nat.min (length ms) (k_dims c)))
  end.

Fixpoint qprod (l : list Q) : Q := match l with [] => 1 | x :: r => x * qprod r end.
(* reduce_prod over dims of reduce_max over keypoints of |w| *)
Definition kfl_max_product (c : kfl_acfg) (K : tens) (u t : nat) : Q :=
  qprod (map (fun d => qmaxl (map (fun k => qabs (K [k; u; d; t])) (seq 0 (k_L c)))) (seq 0 (k_dims c))).
Definition kfl_all_entries (c : kfl_acfg) (K : tens) : list Q := map K (all_idx (k_shape c)).
Definition kfl_all_scales (c : kfl_acfg) (Sc : list (list Q)) : list Q :=
  flat_map (fun u => map (fun t => sc_at Sc u t) (seq 0 (k_terms c))) (seq 0 (k_units c)).

Definition assert_kfl_bounds (c : kfl_acfg) (Sc : list (list Q)) (eps : Q) (K : tens) : bool :=
  match k_min c, k_max c with
  | None, None => true
  | Some lo, Some hi =>
    (* per term, per unit: 1 - max product >= -eps *)
    forallb (fun t => forallb (fun u => qle (- eps) (1 - kfl_max_product c K u t)) (seq 0 (k_units c)))
            (seq 0 (k_terms c)) &&
    (* count(scale < -bound) + count(scale > bound) <= 0, bound = (max - min) / 2: no eps *)
    forallb (fun s => negb (qlt s (- ((hi - lo) * (1#2)))) && negb (qlt ((hi - lo) * (1#2)) s)) (kfl_all_scales c Sc)
  | Some _, None =>
    (* count(weights < 0) <= 0 and count(scale < 0) <= 0: no eps *)
    forallb (fun w => negb (qlt w 0)) (kfl_all_entries c K) &&
    forallb (fun s => negb (qlt s 0)) (kfl_all_scales c Sc)
  | None, Some _ =>
    forallb (fun w => negb (qlt w 0)) (kfl_all_entries c K) &&
    forallb (fun s => negb (qlt 0 s)) (kfl_all_scales c Sc)
  end.

Definition assert_kfl (c : kfl_acfg) (Sc : list (list Q)) (K : tens) (eps : Q) : bool :=
  assert_kfl_mono c Sc eps K && assert_kfl_bounds c Sc eps K.
Definition assert_kfl_flat (c : kfl_acfg) (Sc : list (list Q)) (w : list Q) (eps : Q) : bool :=
  assert_kfl c Sc (of_list (k_shape c) w) eps.
