(* Hand-written decision functions: does the library accept this configuration
   (true) or reject it with a ValueError (false)?  They mirror the cores of the
   verify_hyperparameters functions of /repo/tensorflow_lattice/python as they
   are (lattice_lib, linear_lib, pwl_calibration_lib,
   categorical_calibration_lib, kronecker_factored_lattice_lib) plus the few
   extra checks the corresponding layers make in __init__ / build.
   Hyperparameters arrive here already canonicalised to integers (the spelled
   forms go through the GENERATED canonicalisers in Harness/H_C16.v).
   Definitions only.  Tied to the implementation by correspondence only.

   Where the real code raises something other than ValueError the decision is
   "reject"; the harness reports the other exception class by itself. *)
From Coq Require Import ZArith QArith List Bool.
Import ListNotations.
Open Scope Z_scope.

Definition znth (l : list Z) (i : Z) : Z := nth (Z.to_nat i) l 0.
Definition zlen {A} (l : list A) : Z := Z.of_nat (List.length l).
Definition in_range (n i : Z) : bool := (0 <=? i) && (i <? n).
Definition all_b {A} (f : A -> bool) (l : list A) : bool := forallb f l.
Definition zmem (x : Z) (l : list Z) : bool := existsb (Z.eqb x) l.
Definition pair_mem (p : Z * Z) (l : list (Z * Z)) : bool :=
  existsb (fun q => Z.eqb (fst p) (fst q) && Z.eqb (snd p) (snd q)) l.
Fixpoint distinct (l : list Z) : bool :=
  match l with [] => true | x :: r => negb (zmem x r) && distinct r end.
Definition qlt_b (a b : Q) : bool := negb (Qle_bool b a).

(* monotonicities[dim] with monotonicities possibly None *)
Definition mono_at (m : option (list Z)) (d : Z) : option Z :=
  match m with None => None | Some l => Some (znth l d) end.
Definition mono_is (m : option (list Z)) (d : Z) (v : Z) : bool :=
  match mono_at m d with Some x => Z.eqb x v | None => false end.

(* ------------------------------------------------------------------------- *)
(* lattice_lib.verify_hyperparameters                                          *)
(* ------------------------------------------------------------------------- *)
Record lattice_cfg := mkL {
  l_sizes : list Z;
  l_monos : option (list Z);        (* canonical, None when not given / empty *)
  l_unimods : option (list Z);
  l_edge : list (Z * Z * Z);        (* canonical (main, cond, direction) *)
  l_trap : list (Z * Z * Z);
  l_mdom : option (list (list Z));  (* as given: each constraint a list of ints *)
  l_rdom : option (list (list Z));
  l_jmono : option (list (list Z));
  l_junimod : option (list (list Z * bool));  (* (dimensions, direction is 'valley'/'peak' in any case) *)
  l_omin : option Q;
  l_omax : option Q;
  l_interp_ok : bool                (* interpolation in ['hypercube', 'simplex'] *)
}.

Definition sizes_ok (sizes : list Z) : bool := all_b (fun s => 2 <=? s) sizes.

Definition len_matches {A} (o : option (list A)) (n : Z) : bool :=
  match o with None => true | Some l => Z.eqb (zlen l) n end.

Definition unimod_sizes_ok (u : option (list Z)) (sizes : list Z) : bool :=
  match u with
  | None => true
  | Some us => all_b (fun p => Z.eqb (fst p) 0 || (3 <=? snd p)) (combine us sizes)
  end.

Definition mono_unimod_disjoint (m u : option (list Z)) : bool :=
  match m, u with
  | Some ms, Some us => all_b (fun p => Z.eqb (fst p) 0 || Z.eqb (snd p) 0) (combine ms us)
  | _, _ => true
  end.

(* the loop over all trusts: range, main feature monotone, no opposite
   directions on one pair; afterwards main and conditional sets disjoint *)
Fixpoint trusts_loop (n : Z) (m : option (list Z)) (seen : list (Z * Z * Z)) (ts : list (Z * Z * Z)) : bool :=
  match ts with
  | [] => true
  | (main, cond, dir) :: r =>
      in_range n main && in_range n cond && mono_is m main 1 &&
      all_b (fun t => match t with (a, b, d) => negb (Z.eqb a main && Z.eqb b cond) || Z.eqb d dir end) seen &&
      trusts_loop n m ((main, cond, dir) :: seen) r
  end.
Definition trusts_ok (n : Z) (m : option (list Z)) (ts : list (Z * Z * Z)) : bool :=
  trusts_loop n m [] ts &&
  all_b (fun t => match t with (main, _, _) =>
           negb (existsb (fun t' => match t' with (_, cond, _) => Z.eqb main cond end) ts) end) ts.

(* _verify_dominances_hyperparameters *)
Fixpoint dominances_loop (n : Z) (m : option (list Z)) (seen : list (Z * Z)) (cs : list (list Z)) : bool :=
  match cs with
  | [] => true
  | [dom; weak] :: r =>
      negb (Z.eqb dom weak) &&
      in_range n dom && in_range n weak && mono_is m dom 1 && mono_is m weak 1 &&
      negb (pair_mem (weak, dom) seen) && dominances_loop n m ((dom, weak) :: seen) r
  | _ :: _ => false
  end.
Definition dominances_ok (n : Z) (m : option (list Z)) (o : option (list (list Z))) : bool :=
  match o with None => true | Some cs => dominances_loop n m [] cs end.

Definition jmono_ok (n : Z) (o : option (list (list Z))) : bool :=
  match o with
  | None => true
  | Some cs => all_b (fun c => match c with [a; b] => in_range n a && in_range n b && negb (Z.eqb a b) | _ => false end) cs
  end.

(* `if monotonicities and monotonicities[dim] != 0` *)
Definition junimod_ok (sizes : list Z) (m : option (list Z)) (o : option (list (list Z * bool))) : bool :=
  match o with
  | None => true
  | Some cs =>
      all_b (fun c => snd c &&
                      all_b (fun d => in_range (zlen sizes) d && (3 <=? znth sizes d) &&
                                      match m with Some ms => Z.eqb (znth ms d) 0 | None => true end) (fst c) &&
                      distinct (fst c)) cs
  end.

Definition bounds_strict_ok (lo hi : option Q) : bool :=
  match lo, hi with Some a, Some b => qlt_b a b | _, _ => true end.

(* every check of verify_hyperparameters except the output bounds (which
   LatticeConstraints does not pass on) *)
Definition accepts_lattice_constraints (c : lattice_cfg) : bool :=
  let n := zlen (l_sizes c) in
  sizes_ok (l_sizes c) &&
  len_matches (l_monos c) n &&
  len_matches (l_unimods c) n && unimod_sizes_ok (l_unimods c) (l_sizes c) &&
  mono_unimod_disjoint (l_monos c) (l_unimods c) &&
  trusts_ok n (l_monos c) (l_edge c ++ l_trap c) &&
  dominances_ok n (l_monos c) (l_mdom c) &&
  dominances_ok n (l_monos c) (l_rdom c) &&
  jmono_ok n (l_jmono c) &&
  junimod_ok (l_sizes c) (l_monos c) (l_junimod c).

Definition accepts_lattice (c : lattice_cfg) : bool :=
  accepts_lattice_constraints c && bounds_strict_ok (l_omin c) (l_omax c) && l_interp_ok c.

(* The Lattice layer with its default kernel initialiser additionally builds a
   LinearInitializer (unless one joint unimodality covers all features), which
   verifies sizes / monotonicities / "all unimodalities" (regular ones plus the
   dimensions of every joint unimodality) and the default init range
   lattice_lib.default_init_params. *)
Definition init_range (lo hi : option Q) : Q * Q :=
  (match lo, hi with
   | Some a, _ => a
   | None, Some b => if Qle_bool 0 b then 0%Q else b
   | None, None => 0%Q
   end,
   match lo, hi with
   | _, Some b => b
   | Some a, None => if Qle_bool a 1 then 1%Q else a
   | None, None => 1%Q
   end).

Definition joint_covers_all (n : Z) (o : option (list (list Z * bool))) : bool :=
  match o with
  | Some [c] => all_b (fun d => zmem d (fst c)) (map Z.of_nat (seq 0 (Z.to_nat n))) &&
                all_b (in_range n) (fst c)
  | _ => false
  end.

Definition all_unimods (c : lattice_cfg) : list Z :=
  let n := Z.to_nat (zlen (l_sizes c)) in
  let base := match l_unimods c with Some us => us | None => repeat 0 n end in
  let joint := match l_junimod c with Some cs => concat (map fst cs) | None => [] end in
  map (fun p => if zmem (Z.of_nat (fst p)) joint then 1 else snd p) (combine (seq 0 n) base).

Definition joint_dims_indexable (c : lattice_cfg) : bool :=
  let n := zlen (l_sizes c) in
  match l_junimod c with
  | Some cs => all_b (fun cst => all_b (fun d => (- n <=? d) && (d <? n)) (fst cst)) cs
  | None => true
  end.

Definition accepts_lattice_layer (c : lattice_cfg) : bool :=
  accepts_lattice c &&
  (joint_covers_all (zlen (l_sizes c)) (l_junimod c) ||
   (let au := Some (all_unimods c) in
    unimod_sizes_ok au (l_sizes c) && mono_unimod_disjoint (l_monos c) au &&
    (let (a, b) := init_range (l_omin c) (l_omax c) in qlt_b a b))).

(* ------------------------------------------------------------------------- *)
(* linear_lib.verify_hyperparameters (as called by LinearConstraints)          *)
(* ------------------------------------------------------------------------- *)
Record linear_cfg := mkLin {
  n_monos : option (list Z);                (* canonical; None when empty / not given *)
  n_num_input_dims : option Z;              (* Linear layer: given; LinearConstraints: None *)
  n_mdom : option (list (list Z));
  n_rdom : option (list (list Z));
  n_imin : option (list (option Q));        (* canonical input bounds *)
  n_imax : option (list (option Q))
}.

Definition onth (l : option (list (option Q))) (d : Z) : option Q :=
  match l with None => None | Some xs => nth (Z.to_nat d) xs None end.

Definition bounds_order_ok (lo hi : option (list (option Q))) : bool :=
  match lo, hi with
  | Some ls, Some hs =>
      all_b (fun p => match p with (Some a, Some b) => Qle_bool a b | _ => true end) (combine ls hs)
  | _, _ => true
  end.

Fixpoint lin_mdom_loop (m : list Z) (seen : list (Z * Z)) (cs : list (list Z)) : bool :=
  match cs with
  | [] => true
  | [dom; weak] :: r =>
      negb (Z.eqb dom weak) &&
      in_range (zlen m) dom && in_range (zlen m) weak &&
      Z.eqb (znth m dom) 1 && Z.eqb (znth m weak) 1 &&
      negb (pair_mem (weak, dom) seen) && lin_mdom_loop m ((dom, weak) :: seen) r
  | _ :: _ => false
  end.

Definition range_set (lo hi : option (list (option Q))) (d : Z) : bool :=
  match onth lo d, onth hi d with
  | Some a, Some b => negb (Qeq_bool a b)
  | _, _ => false
  end.

Fixpoint lin_rdom_loop (m : list Z) (lo hi : option (list (option Q))) (seen : list (Z * Z))
    (cs : list (list Z)) : bool :=
  match cs with
  | [] => true
  | [dom; weak] :: r =>
      negb (Z.eqb dom weak) &&
      in_range (zlen m) dom && in_range (zlen m) weak &&
      Z.eqb (znth m dom) (znth m weak) && negb (Z.eqb (znth m dom) 0) &&
      range_set lo hi dom && range_set lo hi weak &&
      negb (pair_mem (weak, dom) seen) && lin_rdom_loop m lo hi ((dom, weak) :: seen) r
  | _ :: _ => false
  end.

Definition dominance_dims_disjoint (md rd : option (list (list Z))) : bool :=
  match md, rd with
  | Some ms, Some rs => all_b (fun d => negb (zmem d (concat ms))) (concat rs)
  | _, _ => true
  end.

(* dominances given (even as an empty list) while monotonicities is None:
   ValueError *)
Definition accepts_linear (c : linear_cfg) : bool :=
  match n_monos c, n_num_input_dims c with Some m, Some n => Z.eqb (zlen m) n | _, _ => true end &&
  (* the Linear layer (num_input_dims given) checks the lengths of the bounds *)
  match n_num_input_dims c with Some n => len_matches (n_imin c) n && len_matches (n_imax c) n | None => true end &&
  bounds_order_ok (n_imin c) (n_imax c) &&
  match n_mdom c with
  | None => true
  | Some cs => match n_monos c with Some m => lin_mdom_loop m [] cs | None => false end
  end &&
  match n_rdom c with
  | None => true
  | Some cs => match n_monos c with Some m => lin_rdom_loop m (n_imin c) (n_imax c) [] cs | None => false end
  end &&
  dominance_dims_disjoint (n_mdom c) (n_rdom c).

(* ------------------------------------------------------------------------- *)
(* pwl_calibration_lib.verify_hyperparameters + PWLCalibration.__init__        *)
(* ------------------------------------------------------------------------- *)
Record pwl_cfg := mkP {
  p_keypoints : option (list Q);   (* None: not passed (PWLCalibrationConstraints) *)
  p_omin : option Q;
  p_omax : option Q;
  p_mono : option Z;               (* canonical; None = Python None *)
  p_convex : option Z;
  p_cyclic : bool;
  p_kp_type_ok : bool;             (* input_keypoints_type in ('fixed', 'learned_interior') *)
  p_learned : bool;                (* input_keypoints_type == 'learned_interior' *)
  p_convexity_is_none_spelling : bool;  (* convexity in ("none", 0), the layer's own test *)
  p_impute : bool;
  p_missing_in : bool;             (* missing_input_value is not None *)
  p_missing_out : bool;
  p_layer : bool                   (* the PWLCalibration layer's extra __init__ checks apply *)
}.

Fixpoint strictly_increasing (l : list Q) : bool :=
  match l with
  | a :: ((b :: _) as r) => qlt_b a b && strictly_increasing r
  | _ => true
  end.

Definition truthy_oz (o : option Z) : bool := match o with Some z => negb (Z.eqb z 0) | None => false end.

Definition accepts_pwl (c : pwl_cfg) : bool :=
  match p_keypoints c with
  | None => negb (p_layer c)
  | Some ks => (2 <=? zlen ks) && strictly_increasing ks &&
               (* cyclic layers drop the last weight; build() needs >= 2 weights *)
               (negb (p_layer c && p_cyclic c) || (3 <=? zlen ks))
  end &&
  match p_omin c, p_omax c with Some a, Some b => Qle_bool a b | _, _ => true end &&
  negb (p_cyclic c && (truthy_oz (p_mono c) || truthy_oz (p_convex c))) &&
  p_kp_type_ok c &&
  (negb (p_layer c) ||
   (negb (p_missing_in c && negb (p_impute c)) && negb (p_missing_out c && negb (p_impute c)) &&
    match p_mono c with None => false | Some _ => true end &&
    negb (negb (p_convexity_is_none_spelling c) && p_learned c))).

(* ------------------------------------------------------------------------- *)
(* categorical_calibration_lib.verify_hyperparameters                          *)
(* ------------------------------------------------------------------------- *)
Record cat_cfg := mkC {
  c_buckets : option Z;
  c_omin : option Q;
  c_omax : option Q;
  c_pairs_is_list : bool;              (* monotonicities is a Python list (not a tuple) *)
  c_pairs : option (list (list Z))     (* None: not given *)
}.

(* The layer's build() projects the initial kernel, and the projection calls
   internal_utils._topological_sort, whose ONLY cycle test is "no source": it
   raises ValueError iff every index with an outgoing pair also has an
   incoming one.  (As is: a cycle next to an unrelated source, e.g.
   [(0,3),(1,2),(3,0)], is NOT detected; the sort then omits the cycle's
   indices and their pairs are silently not enforced.) *)
Definition has_source (ps : list (list Z)) : bool :=
  let srcs := flat_map (fun p => match p with [i; _] => [i] | _ => [] end) ps in
  let tgts := flat_map (fun p => match p with [_; j] => [j] | _ => [] end) ps in
  existsb (fun i => negb (zmem i tgts)) srcs.

Definition accepts_categorical (c : cat_cfg) : bool :=
  match c_omin c, c_omax c with Some a, Some b => Qle_bool a b | _, _ => true end &&
  match c_pairs c with
  | None | Some [] => true
  | Some ps =>
      c_pairs_is_list c &&
      all_b (fun p => match p with
                      | [i; j] => (0 <=? i) && (0 <=? j) &&
                                  match c_buckets c with Some n => (i <? n) && (j <? n) | None => true end
                      | _ => false
                      end) ps &&
      match c_buckets c with Some _ => has_source ps | None => true end
  end.

(* ------------------------------------------------------------------------- *)
(* kronecker_factored_lattice_lib.verify_hyperparameters                       *)
(* (`if lattice_sizes and lattice_sizes < 2`: 0 passes the test)               *)
(* ------------------------------------------------------------------------- *)
Record kfl_cfg := mkK {
  k_size : Z;
  k_units : Z;
  k_terms : Z;
  k_monos : option (list Z);     (* canonical with allow_decreasing=False; None when empty *)
  k_dims : Z;                    (* last dimension of the input shape *)
  k_omin : option Q;
  k_omax : option Q
}.

Definition accepts_kfl (c : kfl_cfg) : bool :=
  (Z.eqb (k_size c) 0 || (2 <=? k_size c)) &&
  (Z.eqb (k_units c) 0 || (1 <=? k_units c)) &&
  (Z.eqb (k_terms c) 0 || (1 <=? k_terms c)) &&
  match k_monos c with Some m => Z.eqb (zlen m) (k_dims c) | None => true end &&
  bounds_strict_ok (k_omin c) (k_omax c).
