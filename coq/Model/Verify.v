(* Hand-written decision functions: does the library accept this configuration
   (true) or reject it with a ValueError (false)?  They mirror the cores of the
   verify_hyperparameters functions of /repo/tensorflow_lattice/python as they
   are (lattice_lib, linear_lib, pwl_calibration_lib,
   categorical_calibration_lib, kronecker_factored_lattice_lib) plus the few
   extra checks the corresponding layers make in __init__ / build.
   Hyperparameters arrive here already canonicalised to integers (the spelled
   forms go through the GENERATED canonicalisers in Harness/H_C16.v).
   Definitions only.  Tied to the implementation by correspondence only.

   Where the real code raises something other than ValueError the decision is
   "reject"; the harness reports the other exception class by itself. *)
From Coq Require Import ZArith QArith List Bool.
Import ListNotations.
Open Scope Z_scope.

Definition znth (l : list Z) (i : Z) : Z := nth (Z.to_nat i) l 0.
Definition zlen {A} (l : list A) : Z := Z.of_nat (List.length l).
Definition in_range (n i : Z) : bool := (0 <=? i) && (i <? n).
Definition all_b {A} (f : A -> bool) (l : list A) : bool := forallb f l.
Definition zmem (x : Z) (l : list Z) : bool := existsb (Z.eqb x) l.
Definition pair_mem (p : Z * Z) (l : list (Z * Z)) : bool :=
  existsb (fun q => Z.eqb (fst p) (fst q) && Z.eqb (snd p) (snd q)) l.
Fixpoint distinct (l : list Z) : bool :=
  match l with [] => true | x :: r => negb (zmem x r) && distinct r end.
Definition qlt_b (a b : Q) : bool := negb (Qle_bool b a).

(* monotonicities[dim] with monotonicities possibly None *)
Definition mono_at (m : option (list Z)) (d : Z) : option Z :=
  match m with None => None | Some l => Some (znth l d) end.
Definition mono_is (m : option (list Z)) (d : Z) (v : Z) : bool :=
  match mono_at m d with Some x => Z.eqb x v | None => false end.

(* ------------------------------------------------------------------------- *)
(* lattice_lib.verify_hyperparameters                                          *)
(* ------------------------------------------------------------------------- *)
Record lattice_cfg := mkL {
  l_sizes : list Z;
  l_monos : option (list Z);        (* canonical, None when not given / empty *)
  l_unimods : option (list Z);
  l_edge : list (Z * Z * Z);        (* canonical (main, cond, direction) *)
  l_trap : list (Z * Z * Z);
  l_mdom : option (list (list Z));  (* as given: each constraint a list of ints *)
  l_rdom : option (list (list Z));
  l_jmono : option (list (list Z));
  l_junimod : option (list (list Z * bool));  (* (dimensions, direction is 'valley'/'peak' in any case) *)
  l_omin : option Q;
  l_omax : option Q;
  l_interp_ok : bool                (* interpolation in ['hypercube', 'simplex'] *)
}.

Definition sizes_ok (sizes : list Z) : bool := all_b (fun s => 2 <=? s) sizes.

Definition len_matches {A} (o : option (list A)) (n : Z) : bool :=
  match o with None => true | Some l => Z.eqb (zlen l) n end.

Definition unimod_sizes_ok (u : option (list Z)) (sizes : list Z) : bool :=
  match u with
  | None => true
  | Some us => all_b (fun p => Z.eqb (fst p) 0 || (3 <=? snd p)) (combine us sizes)
  end.

Definition mono_unimod_disjoint (m u : option (list Z)) : bool :=
  match m, u with
  | Some ms, Some us => all_b (fun p => Z.eqb (fst p) 0 || Z.eqb (snd p) 0) (combine ms us)
  | _, _ => true
  end.

(* the loop over all trusts: range, main feature monotone, no opposite
   directions on one pair; afterwards main and conditional sets disjoint *)
Fixpoint trusts_loop (n : Z) (m : option (list Z)) (seen : list (Z * Z * Z)) (ts : list (Z * Z * Z)) : bool :=
  match ts with
  | [] => true
  | (main, cond, dir) :: r =>
      in_range n main && in_range n cond && mono_is m main 1 &&
      all_b (fun t => match t with (a, b, d) => negb (Z.eqb a main && Z.eqb b cond) || Z.eqb d dir end) seen &&
      trusts_loop n m ((main, cond, dir) :: seen) r
  end.
Definition trusts_ok (n : Z) (m : option (list Z)) (ts : list (Z * Z * Z)) : bool :=
  trusts_loop n m [] ts &&
  all_b (fun t => match t with (main, _, _) =>
           negb (existsb (fun t' => match t' with (_, cond, _) => Z.eqb main cond end) ts) end) ts.

(* _verify_dominances_hyperparameters *)
Fixpoint dominances_loop (n : Z) (m : option (list Z)) (seen : list (Z * Z)) (cs : list (list Z)) : bool :=
  match cs with
  | [] => true
  | [dom; weak] :: r =>
      negb (Z.eqb dom weak) &&
      in_range n dom && in_range n weak && mono_is m dom 1 && mono_is m weak 1 &&
      negb (pair_mem (weak, dom) seen) && dominances_loop n m ((dom, weak) :: seen) r
  | _ :: _ => false
  end.
Definition dominances_ok (n : Z) (m : option (list Z)) (o : option (list (list Z))) : bool :=
  match o with None => true | Some cs => dominances_loop n m [] cs end.

Definition jmono_ok (n : Z) (o : option (list (list Z))) : bool :=
  match o with
  | None => true
  | Some cs => all_b (fun c => match c with [a; b] => in_range n a && in_range n b && negb (Z.eqb a b) | _ => false end) cs
  end.

(* `if monotonicities and monotonicities[dim] != 0` *)
Definition junimod_ok (sizes : list Z) (m : option (list Z)) (o : option (list (list Z * bool))) : bool :=
  match o with
  | None => true
  | Some cs =>
      all_b (fun c => snd c &&
                      all_b (fun d => in_range (zlen sizes) d && (3 <=? znth sizes d) &&
                                      match m with Some ms => Z.eqb (znth ms d) 0 | None => true end) (fst c) &&
                      distinct (fst c)) cs
  end.

Definition bounds_strict_ok (lo hi : option Q) : bool :=
  match lo, hi with Some a, Some b => qlt_b a b | _, _ => true end.

(* every check of verify_hyperparameters except the output bounds and the
   interpolation *)
Definition accepts_lattice_constraints (c : lattice_cfg) : bool :=
  let n := zlen (l_sizes c) in
  sizes_ok (l_sizes c) &&
  len_matches (l_monos c) n &&
  len_matches (l_unimods c) n && unimod_sizes_ok (l_unimods c) (l_sizes c) &&
  mono_unimod_disjoint (l_monos c) (l_unimods c) &&
  trusts_ok n (l_monos c) (l_edge c ++ l_trap c) &&
  dominances_ok n (l_monos c) (l_mdom c) &&
  dominances_ok n (l_monos c) (l_rdom c) &&
  jmono_ok n (l_jmono c) &&
  junimod_ok (l_sizes c) (l_monos c) (l_junimod c).

Definition accepts_lattice (c : lattice_cfg) : bool :=
  accepts_lattice_constraints c && bounds_strict_ok (l_omin c) (l_omax c) && l_interp_ok c.

(* the LatticeConstraints object: its constructor passes everything except the
   interpolation (which it does not have) to verify_hyperparameters, the output
   bounds included (since /repo commit 4a5c26d) *)
Definition accepts_lattice_constraints_obj (c : lattice_cfg) : bool :=
  accepts_lattice_constraints c && bounds_strict_ok (l_omin c) (l_omax c).

(* The Lattice layer with its default kernel initialiser additionally builds a
   LinearInitializer (unless one joint unimodality covers all features), which
   verifies sizes / monotonicities / "all unimodalities" (regular ones plus the
   dimensions of every joint unimodality) and the default init range
   lattice_lib.default_init_params. *)
Definition init_range (lo hi : option Q) : Q * Q :=
  (match lo, hi with
   | Some a, _ => a
   | None, Some b => if Qle_bool 0 b then 0%Q else b
   | None, None => 0%Q
   end,
   match lo, hi with
   | _, Some b => b
   | Some a, None => if Qle_bool a 1 then 1%Q else a
   | None, None => 1%Q
   end).

Definition joint_covers_all (n : Z) (o : option (list (list Z * bool))) : bool :=
  match o with
  | Some [c] => all_b (fun d => zmem d (fst c)) (map Z.of_nat (seq 0 (Z.to_nat n))) &&
                all_b (in_range n) (fst c)
  | _ => false
  end.

Definition all_unimods (c : lattice_cfg) : list Z :=
  let n := Z.to_nat (zlen (l_sizes c)) in
  let base := match l_unimods c with Some us => us | None => repeat 0 n end in
  let joint := match l_junimod c with Some cs => concat (map fst cs) | None => [] end in
  map (fun p => if zmem (Z.of_nat (fst p)) joint then 1 else snd p) (combine (seq 0 n) base).

(* (joint_dims_indexable - "every joint-unimodality dimension can index a list of
   length n, negative indices included" - was needed while the layer built its
   initialiser BEFORE verify_hyperparameters; since /repo commit de97195 the
   joint unimodalities are verified first (junimod_ok: 0 <= d < n), so the
   definition was removed.) *)

Definition accepts_lattice_layer (c : lattice_cfg) : bool :=
  accepts_lattice c &&
  (joint_covers_all (zlen (l_sizes c)) (l_junimod c) ||
   (let au := Some (all_unimods c) in
    unimod_sizes_ok au (l_sizes c) && mono_unimod_disjoint (l_monos c) au &&
    (let (a, b) := init_range (l_omin c) (l_omax c) in qlt_b a b))).

(* units of the Lattice LAYER: build() calls add_weight(shape=[prod(sizes),
   units]).  TensorFlow raises ValueError ("Dimension -1 must be >= 0") for a
   negative dimension.  With units = 0 the library's LinearInitializer still
   returns a (prod(sizes), 1) value (lattice_lib.linear_initializer tiles its
   one column only `if units > 1`), which does not fit the (prod(sizes), 0) variable:
   ValueError; the Keras random_uniform of the joint-unimodality fall-back
   does produce a (prod(sizes), 0) value, so that configuration is built. *)
Definition accepts_lattice_layer_units (c : lattice_cfg) (units : Z) : bool :=
  accepts_lattice_layer c && (0 <=? units) &&
  (joint_covers_all (zlen (l_sizes c)) (l_junimod c) || (1 <=? units)).

(* ------------------------------------------------------------------------- *)
(* linear_lib.verify_hyperparameters (as called by LinearConstraints)          *)
(* ------------------------------------------------------------------------- *)
Record linear_cfg := mkLin {
  n_monos : option (list Z);                (* canonical; None when empty / not given *)
  n_num_input_dims : option Z;              (* Linear layer: given; LinearConstraints: None *)
  n_mdom : option (list (list Z));
  n_rdom : option (list (list Z));
  n_imin : option (list (option Q));        (* canonical input bounds *)
  n_imax : option (list (option Q))
}.

Definition onth (l : option (list (option Q))) (d : Z) : option Q :=
  match l with None => None | Some xs => nth (Z.to_nat d) xs None end.

Definition bounds_order_ok (lo hi : option (list (option Q))) : bool :=
  match lo, hi with
  | Some ls, Some hs =>
      all_b (fun p => match p with (Some a, Some b) => Qle_bool a b | _ => true end) (combine ls hs)
  | _, _ => true
  end.

Fixpoint lin_mdom_loop (m : list Z) (seen : list (Z * Z)) (cs : list (list Z)) : bool :=
  match cs with
  | [] => true
  | [dom; weak] :: r =>
      negb (Z.eqb dom weak) &&
      in_range (zlen m) dom && in_range (zlen m) weak &&
      Z.eqb (znth m dom) 1 && Z.eqb (znth m weak) 1 &&
      negb (pair_mem (weak, dom) seen) && lin_mdom_loop m ((dom, weak) :: seen) r
  | _ :: _ => false
  end.

Definition range_set (lo hi : option (list (option Q))) (d : Z) : bool :=
  match onth lo d, onth hi d with
  | Some a, Some b => negb (Qeq_bool a b)
  | _, _ => false
  end.

Fixpoint lin_rdom_loop (m : list Z) (lo hi : option (list (option Q))) (seen : list (Z * Z))
    (cs : list (list Z)) : bool :=
  match cs with
  | [] => true
  | [dom; weak] :: r =>
      negb (Z.eqb dom weak) &&
      in_range (zlen m) dom && in_range (zlen m) weak &&
      Z.eqb (znth m dom) (znth m weak) && negb (Z.eqb (znth m dom) 0) &&
      range_set lo hi dom && range_set lo hi weak &&
      negb (pair_mem (weak, dom) seen) && lin_rdom_loop m lo hi ((dom, weak) :: seen) r
  | _ :: _ => false
  end.

Definition dominance_dims_disjoint (md rd : option (list (list Z))) : bool :=
  match md, rd with
  | Some ms, Some rs => all_b (fun d => negb (zmem d (concat ms))) (concat rs)
  | _, _ => true
  end.

(* dominances given (even as an empty list) while monotonicities is None:
   ValueError *)
Definition accepts_linear (c : linear_cfg) : bool :=
  match n_monos c, n_num_input_dims c with Some m, Some n => Z.eqb (zlen m) n | _, _ => true end &&
  (* the Linear layer (num_input_dims given) checks the lengths of the bounds *)
  match n_num_input_dims c with Some n => len_matches (n_imin c) n && len_matches (n_imax c) n | None => true end &&
  bounds_order_ok (n_imin c) (n_imax c) &&
  match n_mdom c with
  | None => true
  | Some cs => match n_monos c with Some m => lin_mdom_loop m [] cs | None => false end
  end &&
  match n_rdom c with
  | None => true
  | Some cs => match n_monos c with Some m => lin_rdom_loop m (n_imin c) (n_imax c) [] cs | None => false end
  end &&
  dominance_dims_disjoint (n_mdom c) (n_rdom c).

(* The Linear LAYER: build() calls add_weight(shape=[num_input_dims, units]);
   a negative dimension is a TensorFlow ValueError, 0 is accepted (an empty
   kernel).  verify_hyperparameters has no test of its own for either. *)
Definition accepts_linear_layer (c : linear_cfg) (units : Z) : bool :=
  accepts_linear c && (0 <=? units) &&
  match n_num_input_dims c with Some n => 0 <=? n | None => true end.

(* ------------------------------------------------------------------------- *)
(* pwl_calibration_lib.verify_hyperparameters + PWLCalibration.__init__        *)
(* ------------------------------------------------------------------------- *)
Record pwl_cfg := mkP {
  p_keypoints : option (list Q);   (* None: not passed (PWLCalibrationConstraints) *)
  p_omin : option Q;
  p_omax : option Q;
  p_mono : option Z;               (* canonical; None = Python None *)
  p_convex : option Z;
  p_cyclic : bool;
  p_kp_type_ok : bool;             (* input_keypoints_type in ('fixed', 'learned_interior') *)
  p_learned : bool;                (* input_keypoints_type == 'learned_interior' *)
  p_convexity_is_none_spelling : bool;  (* convexity in ("none", 0), the layer's own test *)
  p_impute : bool;
  p_missing_in : bool;             (* missing_input_value is not None *)
  p_missing_out : bool;
  p_layer : bool                   (* the PWLCalibration layer's extra __init__ checks apply *)
}.

Fixpoint strictly_increasing (l : list Q) : bool :=
  match l with
  | a :: ((b :: _) as r) => qlt_b a b && strictly_increasing r
  | _ => true
  end.

Definition truthy_oz (o : option Z) : bool := match o with Some z => negb (Z.eqb z 0) | None => false end.

Definition accepts_pwl (c : pwl_cfg) : bool :=
  match p_keypoints c with
  | None => negb (p_layer c)
  | Some ks => (2 <=? zlen ks) && strictly_increasing ks &&
               (* cyclic layers drop the last weight; build() needs >= 2 weights *)
               (negb (p_layer c && p_cyclic c) || (3 <=? zlen ks))
  end &&
  match p_omin c, p_omax c with Some a, Some b => Qle_bool a b | _, _ => true end &&
  negb (p_cyclic c && (truthy_oz (p_mono c) || truthy_oz (p_convex c))) &&
  p_kp_type_ok c &&
  (negb (p_layer c) ||
   (negb (p_missing_in c && negb (p_impute c)) && negb (p_missing_out c && negb (p_impute c)) &&
    match p_mono c with None => false | Some _ => true end &&
    negb (negb (p_convexity_is_none_spelling c) && p_learned c) &&
    (* "'convexity' can't be None" (since /repo commit adb1223; the standalone
       PWLCalibrationConstraints still takes None) *)
    match p_convex c with None => false | Some _ => true end)).

(* units of the PWLCalibration LAYER: add_weight(shape=[num_weights, units]):
   negative: ValueError.  units = 0: build() raises InvalidArgumentError (the
   initialiser concatenates a (1, 1) bias row with (k-1, 0) heights) - not a
   ValueError; the decision is "reject" and the harness reports the exception
   class by itself. *)
Definition accepts_pwl_layer (c : pwl_cfg) (units : Z) : bool :=
  accepts_pwl c && (negb (p_layer c) || (1 <=? units)).

(* ------------------------------------------------------------------------- *)
(* categorical_calibration_lib.verify_hyperparameters                          *)
(* ------------------------------------------------------------------------- *)
Record cat_cfg := mkC {
  c_buckets : option Z;
  c_omin : option Q;
  c_omax : option Q;
  c_pairs_is_list : bool;              (* monotonicities is a Python list (not a tuple) *)
  c_pairs : option (list (list Z))     (* None: not given *)
}.

(* The layer's build() projects the initial kernel, and the projection calls
   internal_utils._topological_sort, whose ONLY cycle test is "no source": it
   raises ValueError iff every index with an outgoing pair also has an
   incoming one.  (As is: a cycle next to an unrelated source, e.g.
   [(0,3),(1,2),(3,0)], is NOT detected; the sort then omits the cycle's
   indices and their pairs are silently not enforced.) *)
Definition has_source (ps : list (list Z)) : bool :=
  let srcs := flat_map (fun p => match p with [i; _] => [i] | _ => [] end) ps in
  let tgts := flat_map (fun p => match p with [_; j] => [j] | _ => [] end) ps in
  existsb (fun i => negb (zmem i tgts)) srcs.

Definition accepts_categorical (c : cat_cfg) : bool :=
  match c_omin c, c_omax c with Some a, Some b => Qle_bool a b | _, _ => true end &&
  match c_pairs c with
  | None | Some [] => true
  | Some ps =>
      c_pairs_is_list c &&
      all_b (fun p => match p with
                      | [i; j] => (0 <=? i) && (0 <=? j) &&
                                  match c_buckets c with Some n => (i <? n) && (j <? n) | None => true end
                      | _ => false
                      end) ps &&
      match c_buckets c with Some _ => has_source ps | None => true end
  end.

(* The CategoricalCalibration LAYER: add_weight(shape=[num_buckets, units]):
   a negative num_buckets or units is a TensorFlow ValueError; 0 is accepted
   (finding D48 for num_buckets = 0). *)
Definition accepts_categorical_layer (c : cat_cfg) (units : Z) : bool :=
  accepts_categorical c && (0 <=? units) &&
  match c_buckets c with Some n => 0 <=? n | None => true end.

(* ------------------------------------------------------------------------- *)
(* kronecker_factored_lattice_lib.verify_hyperparameters                       *)
(* (`if lattice_sizes and lattice_sizes < 2`: 0 passes the test)               *)
(* ------------------------------------------------------------------------- *)
Record kfl_cfg := mkK {
  k_size : Z;
  k_units : Z;
  k_terms : Z;
  k_monos : option (list Z);     (* canonical with allow_decreasing=False; None when empty *)
  k_dims : Z;                    (* last dimension of the input shape *)
  k_omin : option Q;
  k_omax : option Q
}.

Definition accepts_kfl (c : kfl_cfg) : bool :=
  (Z.eqb (k_size c) 0 || (2 <=? k_size c)) &&
  (Z.eqb (k_units c) 0 || (1 <=? k_units c)) &&
  (Z.eqb (k_terms c) 0 || (1 <=? k_terms c)) &&
  match k_monos c with Some m => Z.eqb (zlen m) (k_dims c) | None => true end &&
  bounds_strict_ok (k_omin c) (k_omax c).

(* ========================================================================= *)
(* Second part: RTL, CDF, lattice / PWL regulariser objects, premade          *)
(* verify_config.  Same conventions: true = constructed (+ built), false =    *)
(* ValueError (or, where noted, another exception class which the harness     *)
(* reports by itself).  String-valued options arrive as the outcome of the    *)
(* code's own membership tests (`x in [...]`, `x == '...'`), evaluated by the  *)
(* glue of Harness/H_C16.v with Model/PyVal.v's py_in / py_eq.                 *)
(* ========================================================================= *)

(* ------------------------------------------------------------------------- *)
(* Regularisation amounts: lattice_lib.verify_hyperparameters                  *)
(*   if regularization_amount and isinstance(regularization_amount,            *)
(*                                           (list, tuple)):                   *)
(*     if len(regularization_amount) != len(lattice_sizes): raise ValueError   *)
(* (an empty list is falsy and passes; a scalar of any type passes).           *)
(* ------------------------------------------------------------------------- *)
Inductive amt :=
| AmtFloat                (* a Python float *)
| AmtInt                  (* an int (or bool) *)
| AmtSeq (n : Z)          (* a list / tuple of length n *)
| AmtOther.               (* anything else (None, str ...): not inspected *)

Definition amt_is_float (a : amt) : bool := match a with AmtFloat => true | _ => false end.
Definition amt_len_ok (rank : Z) (a : amt) : bool :=
  match a with AmtSeq n => Z.eqb n 0 || Z.eqb n rank | _ => true end.

(* lattice_layer.LaplacianRegularizer / TorsionRegularizer (lattice_sizes, l1,
   l2): verify_hyperparameters(lattice_sizes, regularization_amount=l1) and
   the same for l2: every size >= 2, per-dimension amounts match the rank.
   Checks modelled:  (1) size >= 2 for every size; (2) l1 list length;
   (3) l2 list length. *)
Record latreg_cfg := mkLRg { g_sizes : list Z; g_l1 : amt; g_l2 : amt }.
Definition accepts_lattice_regularizer (c : latreg_cfg) : bool :=
  sizes_ok (g_sizes c) && amt_len_ok (zlen (g_sizes c)) (g_l1 c) && amt_len_ok (zlen (g_sizes c)) (g_l2 c).

(* pwl_calibration_layer.LaplacianRegularizer / HessianRegularizer /
   WrinkleRegularizer (l1, l2, is_cyclic): __init__ stores its arguments and
   checks nothing. *)
Definition accepts_pwl_regularizer (l1 l2 : amt) (is_cyclic : bool) : bool := true.

(* ------------------------------------------------------------------------- *)
(* rtl_lib.verify_hyperparameters + RTL.__init__ + RTL.build                   *)
(*                                                                             *)
(* RTL.__init__  -> rtl_lib.verify_hyperparameters(lattice_size, output_min,   *)
(*   output_max, interpolation, parameterization, kernel_initializer,          *)
(*   kernel_regularizer):                                                      *)
(*   (C1) lattice_size < 2                                         ValueError  *)
(*   (C2) output_min, output_max both given and output_min >= output_max       *)
(*   (C3) interpolation not in ['hypercube', 'simplex']                        *)
(*   (C4) parameterization == 'kronecker_factored' and                         *)
(*        kernel_initializer == 'linear_initializer'                           *)
(*   (C5) parameterization == 'kronecker_factored' and kernel_regularizer is   *)
(*        not None                                                             *)
(*   (C6) kernel_regularizer truthy AND a list (a single [name, l1, l2] is     *)
(*        wrapped): every entry has len 3, l1 is a float, l2 is a float.       *)
(*        A TUPLE is not inspected here: neither a single (name, l1, l2) nor   *)
(*        a tuple OF regulariser tuples ((name, l1, l2), ...).                 *)
(*   num_lattices, lattice_rank, num_terms, init_min/max, separate_outputs,    *)
(*   average_outputs, avoid_intragroup_interaction, clip_inputs,               *)
(*   monotonic_at_every_step, random_seed: stored, not checked.                *)
(* RTL.build(input_shape):                                                     *)
(*   (B1) lattice_size < 2 again; a dict key other than 'unconstrained' /      *)
(*        'increasing' raises KeyError (not ValueError; decision "reject")     *)
(*   (B2) kernel_regularizer[0] of an EMPTY list: IndexError ("reject")        *)
(*   (B3) num_lattices * lattice_rank < number of inputs          ValueError  *)
(*        (no input at all: ZeroDivisionError, "reject")                       *)
(*   then, for every group of lattices (there is one iff num_lattices >= 1):   *)
(*   'all_vertices':                                                           *)
(*   (B4) exactly one of init_min / init_max given                             *)
(*   (B5) kernel_initializer one of the six lattice initialiser names:         *)
(*        Linear/RandomMonotonicInitializer verify init range lo < hi, where   *)
(*        (lo, hi) = (init_min, init_max) or lattice_lib.default_init_params   *)
(*        (output_min, output_max); any other name goes to                     *)
(*        keras.initializers.get (unknown name: ValueError)                    *)
(*   (B6) Lattice.__init__ on every regulariser tuple: unpacking needs 3       *)
(*        entries, name.lower() in {'torsion','laplacian'}, per-dimension      *)
(*        amounts match lattice_rank.  A tuple whose first element is a str is *)
(*        ONE regulariser; any other tuple is iterated like a list (an empty   *)
(*        tuple is falsy: no regulariser); an element that is not a tuple goes *)
(*        to keras.regularizers.get (a list: ValueError)                       *)
(*   'kronecker_factored':                                                     *)
(*   (B7) exactly one of init_min / init_max given                             *)
(*   (B8) kernel_initializer a KFL initialiser name or a Keras name            *)
(*   (B9) KroneckerFactoredLattice.__init__: `num_terms and num_terms < 1`     *)
(*        (0 passes, finding D48)                                              *)
(*   anything else:                                                            *)
(*   (B10) 'Unknown type of parameterization'                      ValueError  *)
(* As is: with num_lattices < 0 and lattice_rank < 0 the product test (B3)     *)
(* passes, range(num_lattices) is empty and none of B4-B10 is reached.         *)
(* ------------------------------------------------------------------------- *)
Inductive rtl_param := ParamAll | ParamKfl | ParamOther.
Inductive init_id :=
| InitLinearExact       (* == 'linear_initializer' *)
| InitLatticeRanged     (* 'LinearInitializer', 'random_monotonic_initializer', 'RandomMonotonicInitializer',
                           'random_uniform_or_linear_initializer', 'RandomUniformOrLinearInitializer' *)
| InitKfl               (* 'kfl_random_monotonic_initializer', 'KFLRandomMonotonicInitializer' *)
| InitKeras             (* a name keras.initializers.get knows *)
| InitUnknown.

Record reg_entry := mkReg {
  re_len : Z;               (* len(regularizer) *)
  re_name_known : bool;     (* name.lower() in ('torsion', 'laplacian') *)
  re_l1 : amt; re_l2 : amt }.
Inductive rtl_regs :=
| RegNone
| RegTuple (e : reg_entry)             (* one (name, l1, l2) tuple (first element a str) *)
| RegList (es : list reg_entry)        (* the list form (a single [name, l1, l2] already wrapped) *)
| RegTuples (es : list reg_entry).     (* a tuple of regulariser tuples, the empty tuple included *)

Record rtl_cfg := mkRTL {
  t_num : Z; t_rank : Z; t_size : Z;
  t_omin : option Q; t_omax : option Q;
  t_interp_ok : bool;
  t_param : rtl_param;
  t_init : init_id;
  t_regs : rtl_regs;
  t_init_min : option Q; t_init_max : option Q;
  t_terms : Z;
  t_keys_ok : bool;                 (* every key of the input dict is 'unconstrained' or 'increasing' *)
  t_inc : option Z;                 (* number of inputs under 'increasing' (None: key absent) *)
  t_unc : option Z }.               (* ... under 'unconstrained' (a non-dict shape is {unconstrained: shape}) *)

Definition oz0 (o : option Z) : Z := match o with Some z => z | None => 0 end.
Definition rtl_n_inputs (c : rtl_cfg) : Z := oz0 (t_inc c) + oz0 (t_unc c).
Definition is_kfl (p : rtl_param) : bool := match p with ParamKfl => true | _ => false end.
Definition is_linear_exact (i : init_id) : bool := match i with InitLinearExact => true | _ => false end.
Definition regs_given (r : rtl_regs) : bool := match r with RegNone => false | _ => true end.
Definition regs_entries (r : rtl_regs) : list reg_entry :=
  match r with RegNone => [] | RegTuple e => [e] | RegList es => es | RegTuples es => es end.

Definition rtl_lib_reg_ok (e : reg_entry) : bool :=
  Z.eqb (re_len e) 3 && amt_is_float (re_l1 e) && amt_is_float (re_l2 e).
Definition rtl_lib_regs_ok (r : rtl_regs) : bool :=
  match r with RegList es => all_b rtl_lib_reg_ok es | _ => true end.

Definition rtl_construct_ok (c : rtl_cfg) : bool :=
  (2 <=? t_size c) &&
  bounds_strict_ok (t_omin c) (t_omax c) &&
  t_interp_ok c &&
  negb (is_kfl (t_param c) && is_linear_exact (t_init c)) &&
  negb (is_kfl (t_param c) && regs_given (t_regs c)) &&
  rtl_lib_regs_ok (t_regs c).

Definition init_pair_ok (c : rtl_cfg) : bool :=
  match t_init_min c, t_init_max c with Some _, None | None, Some _ => false | _, _ => true end.
Definition rtl_init_range (c : rtl_cfg) : Q * Q :=
  match t_init_min c, t_init_max c with
  | Some a, Some b => (a, b)
  | _, _ => init_range (t_omin c) (t_omax c)
  end.
Definition lattice_reg_ok (rank : Z) (e : reg_entry) : bool :=
  Z.eqb (re_len e) 3 && re_name_known e && amt_len_ok rank (re_l1 e) && amt_len_ok rank (re_l2 e).

Definition rtl_initializer_ok (c : rtl_cfg) : bool :=
  match t_param c, t_init c with
  | ParamAll, (InitLinearExact | InitLatticeRanged) => let (a, b) := rtl_init_range c in qlt_b a b
  | ParamAll, InitKeras => true
  | ParamKfl, (InitKfl | InitKeras) => true
  | _, _ => false
  end.

Definition rtl_sublayers_ok (c : rtl_cfg) : bool :=
  match t_param c with
  | ParamAll => init_pair_ok c && rtl_initializer_ok c && all_b (lattice_reg_ok (t_rank c)) (regs_entries (t_regs c))
  | ParamKfl => init_pair_ok c && rtl_initializer_ok c && (Z.eqb (t_terms c) 0 || (1 <=? t_terms c))
  | ParamOther => false
  end.

Definition regs_not_empty_list (r : rtl_regs) : bool := match r with RegList [] => false | _ => true end.

Definition rtl_build_ok (c : rtl_cfg) : bool :=
  t_keys_ok c &&
  regs_not_empty_list (t_regs c) &&
  (rtl_n_inputs c <=? t_num c * t_rank c) &&
  (0 <? rtl_n_inputs c) &&
  ((t_num c <? 1) || rtl_sublayers_ok c).

Definition accepts_rtl (c : rtl_cfg) : bool := rtl_construct_ok c && rtl_build_ok c.

(* ------------------------------------------------------------------------- *)
(* cdf_layer.CDF.__init__ + build (+ the two options only call() checks)       *)
(* __init__: (I1) utils.canonicalize_monotonicity(input_scaling_monotonicity)  *)
(*           raises ValueError for an unknown spelling ('decreasing' / -1 is   *)
(*           accepted and later treated like 'increasing': `if monotonicity`); *)
(*           (I2) keras.initializers.get(kernel_initializer).                  *)
(*           num_keypoints, units, activation, reduction, input_scaling_type,  *)
(*           sparsity_factor are stored unchecked.                             *)
(* build:    (B1) input_dim % sparsity_factor != 0             ValueError      *)
(*                (sparsity_factor == 0: ZeroDivisionError, D48; "reject")     *)
(*           (B2) units % sparsity_factor != 0                 ValueError      *)
(*           (B3) add_weight(shape=[1, input_dim, num_keypoints,               *)
(*                units // sparsity_factor]): TensorFlow raises ValueError for *)
(*                a negative dimension (0 is accepted, D48)                    *)
(*           (B4) input_scaling_type not in {'fixed', 'learned_shared',        *)
(*                'learned_per_input'}                         ValueError      *)
(* call:     activation not in {'relu6','sigmoid'} / reduction not in          *)
(*           {'mean','geometric_mean','none'} raise ValueError only here       *)
(*           (finding D49): cdf_call_ok, NOT part of accepts_cdf.              *)
(* % and // are Python's (floor; sign of the divisor) = Z.modulo / Z.div.      *)
(* ------------------------------------------------------------------------- *)
Record cdf_cfg := mkCDF {
  d_keypoints : Z; d_units : Z; d_sparsity : Z; d_dims : Z;
  d_mono_ok : bool;          (* canonicalize_monotonicity returned *)
  d_init_ok : bool;          (* kernel_initializer known to Keras *)
  d_scaling_ok : bool;       (* input_scaling_type is one of the three *)
  d_activation_ok : bool;
  d_reduction_ok : bool }.

Definition cdf_construct_ok (c : cdf_cfg) : bool := d_mono_ok c && d_init_ok c.
Definition cdf_build_ok (c : cdf_cfg) : bool :=
  negb (Z.eqb (d_sparsity c) 0) &&
  Z.eqb (d_dims c mod d_sparsity c) 0 &&
  Z.eqb (d_units c mod d_sparsity c) 0 &&
  (0 <=? d_keypoints c) && (0 <=? d_units c / d_sparsity c) &&
  d_scaling_ok c.
Definition accepts_cdf (c : cdf_cfg) : bool := cdf_construct_ok c && cdf_build_ok c.
Definition cdf_call_ok (c : cdf_cfg) : bool := d_activation_ok c && d_reduction_ok c.

(* ------------------------------------------------------------------------- *)
(* premade_lib.verify_config (the pure decision over the config fields)        *)
(*  (V1) feature_configs is None                                               *)
(*  CalibratedLatticeEnsembleConfig (_verify_ensemble_config):                 *)
(*  (E1) lattices == 'rtl_layer': num_lattices None; (E2) num_lattices < 2;    *)
(*  (E3) some feature's lattice_size differs from the first feature's;         *)
(*  (E4) a feature with unimodality other than 'none' / 0; (E5) with           *)
(*  reflects_trust_in; (E6) with dominates; (E7) a per-feature regulariser     *)
(*  whose name does not start with 'calib_';                                   *)
(*  (E8) lattices a list: fewer than 2 lattices; (E9) a lattice that is not    *)
(*  an iterable of str;  (E10) lattices anything else ('random', 'crystals'    *)
(*  not yet expanded, unknown words).                                          *)
(*  parameterization == 'kronecker_factored' (Lattice / Ensemble configs,      *)
(*  _verify_kronecker_factored_config): (K1) a model regulariser not           *)
(*  'calib_*'; (K2) a per-feature one; (K3) lattice sizes differ; (K4)         *)
(*  unimodality; (K5) trust; (K6) dominance.                                   *)
(*  AggregateFunctionConfig: (A1) middle_dimension < 1; (A2)                   *)
(*  middle_monotonicity given without middle_calibration.                      *)
(*  every feature (_verify_feature_config): numeric (`not num_buckets`): (F1)  *)
(*  pwl_calibration_input_keypoints iterable of int/float; categorical with a  *)
(*  truthy monotonicity != 'none': (F2) iterable, (F3) every element           *)
(*  iterable, (F4) every value an int, (F5) 0 <= value < num_buckets.          *)
(*  (V2) output_initialization iterable of int/float.                          *)
(*  NOT checked by verify_config (as is): unique feature names, lattices       *)
(*  naming unknown features (KeyError later, D51), lattice_rank against the    *)
(*  number of features, an empty feature list (IndexError later, D50),         *)
(*  dominance / trust configs naming unknown features (silently skipped).      *)
(* ------------------------------------------------------------------------- *)
Inductive cat_elem := ElemNotIterable | ElemVals (vs : list (option Z)).   (* None: a value that is not an int *)
Inductive cat_mono := CmFalsyOrNone | CmNotIterable | CmElems (es : list cat_elem).

Record feature_cfg := mkF {
  f_buckets : Z;                (* num_buckets, None read as 0 (`not num_buckets`) *)
  f_keypoints_ok : bool;        (* np.iterable(keypoints) and all isinstance(x, (int, float)) *)
  f_cat_mono : cat_mono;
  f_lattice_size : Z;
  f_unimodal : bool;            (* unimodality != 'none' and unimodality != 0 *)
  f_trust : bool;               (* reflects_trust_in is not None *)
  f_dominates : bool;           (* dominates is not None *)
  f_regs_calib : list bool }.   (* per regulariser: name.startswith('calib_') *)

Inductive model_kind := MLattice | MLinear | MEnsemble | MAggregate.
Inductive lattices_spec :=
| LatRtl                          (* == 'rtl_layer' *)
| LatList (ok : list bool)        (* a list; per lattice: iterable and all str *)
| LatOther.

Record premade_cfg := mkPM {
  m_kind : model_kind;
  m_features : option (list feature_cfg);
  m_lattices : lattices_spec;
  m_num_lattices : option Z;
  m_kfl : bool;                     (* parameterization == 'kronecker_factored' *)
  m_regs_calib : list bool;
  m_middle_dim : Z;
  m_middle_mono : bool;             (* middle_monotonicity is not None *)
  m_middle_calib : bool;
  m_output_init_ok : bool }.

Definition same_lattice_size (fs : list feature_cfg) : bool :=
  match fs with
  | [] => true
  | f0 :: _ => all_b (fun f => Z.eqb (f_lattice_size f) (f_lattice_size f0)) fs
  end.
Definition feature_regs_calib (fs : list feature_cfg) : bool := all_b (fun f => all_b (fun b => b) (f_regs_calib f)) fs.
Definition no_shape_constraints (fs : list feature_cfg) : bool :=
  all_b (fun f => negb (f_unimodal f)) fs && all_b (fun f => negb (f_trust f)) fs &&
  all_b (fun f => negb (f_dominates f)) fs.

Definition ensemble_ok (c : premade_cfg) (fs : list feature_cfg) : bool :=
  match m_lattices c with
  | LatRtl =>
      match m_num_lattices c with None => false | Some n => 2 <=? n end &&
      same_lattice_size fs && no_shape_constraints fs && feature_regs_calib fs
  | LatList oks => (2 <=? zlen oks) && all_b (fun b => b) oks
  | LatOther => false
  end.

Definition kfl_config_ok (c : premade_cfg) (fs : list feature_cfg) : bool :=
  all_b (fun b => b) (m_regs_calib c) && feature_regs_calib fs && same_lattice_size fs && no_shape_constraints fs.

Definition aggregate_ok (c : premade_cfg) : bool :=
  (1 <=? m_middle_dim c) && negb (m_middle_mono c && negb (m_middle_calib c)).

Definition cat_elem_ok (n : Z) (e : cat_elem) : bool :=
  match e with
  | ElemNotIterable => false
  | ElemVals vs => all_b (fun v => match v with Some z => (0 <=? z) && (z <? n) | None => false end) vs
  end.
Definition feature_ok (f : feature_cfg) : bool :=
  if Z.eqb (f_buckets f) 0 then f_keypoints_ok f
  else match f_cat_mono f with
       | CmFalsyOrNone => true
       | CmNotIterable => false
       | CmElems es => all_b (cat_elem_ok (f_buckets f)) es
       end.

Definition is_ensemble (k : model_kind) : bool := match k with MEnsemble => true | _ => false end.
Definition is_aggregate (k : model_kind) : bool := match k with MAggregate => true | _ => false end.
Definition kfl_applies (c : premade_cfg) : bool :=
  match m_kind c with MLattice | MEnsemble => m_kfl c | _ => false end.

Definition accepts_verify_config (c : premade_cfg) : bool :=
  match m_features c with
  | None => false
  | Some fs =>
      (negb (is_ensemble (m_kind c)) || ensemble_ok c fs) &&
      (negb (kfl_applies c) || kfl_config_ok c fs) &&
      (negb (is_aggregate (m_kind c)) || aggregate_ok c) &&
      all_b feature_ok fs &&
      m_output_init_ok c
  end.
