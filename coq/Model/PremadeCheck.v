(* Boolean decision procedures for the hypotheses of the C03 composition
   theorems (Props/C03.v: member2_ok, member2_monotone_in, comb_monotone,
   comb_average_like, out_monotone, out_range, member2_in_bounds), evaluated
   by the harness on the structure and weights EXTRACTED from a real
   tfl.premade model.  Every comparison is taken up to a tolerance t (the
   harness uses the float32 tolerance; Proofs/PremadeCheck.v proves soundness
   for t = 0).  Definitions only. *)
From TFL Require Export Model.PremadeKFL.
Open Scope Q_scope.

Section Tol.
Variable t : Q.

Definition le_t (a b : Q) : bool := Qle_bool a (b + t).
Definition in_opt_range (lo hi : option Q) (v : Q) : bool :=
  match lo with Some l => le_t l v | None => true end && match hi with Some h => le_t v h | None => true end.
Fixpoint adjacent (r : Q -> Q -> bool) (l : list Q) : bool :=
  match l with a :: ((b :: _) as tl) => r a b && adjacent r tl | _ => true end.
Definition outs_of (col : list Q) : list Q := cumsum_incl 0 col.

(* the segment tables of a PWL calibrator: positive lengths, every keypoint is
   its predecessor plus the predecessor's length (exact: keypoints are data,
   not trained) *)
Fixpoint seg_ok (kps lens : list Q) : bool :=
  match kps, lens with
  | [], [] => true
  | k :: kps', l :: lens' =>
      negb (Qle_bool l 0) && match kps' with k' :: _ => Qeq_bool k' (k + l) | [] => true end && seg_ok kps' lens'
  | _, _ => false
  end.

(* one calibrator unit against the monotonicity of the FEATURE it calibrates
   and the range [lo, hi] it must stay in *)
Definition calib_ok (lo hi : option Q) (f : fmono) (c : calib) : bool :=
  match c with
  | CPwl kps lens col miss =>
      seg_ok kps lens && (length col =? S (length kps))%nat &&
      forallb (in_opt_range lo hi) (outs_of col) &&
      match miss with Some (_, mo) => in_opt_range lo hi mo | None => true end &&
      match f with
      | MNum m => if (m =? 1)%Z then adjacent le_t (outs_of col)
                  else if (m =? -1)%Z then adjacent (fun a b => le_t b a) (outs_of col) else true
      | MPairs _ => false
      end
  | CCat vals d =>
      forallb (in_opt_range lo hi) vals &&
      match f with
      | MPairs ps => forallb (fun p => (fst p <? length vals)%nat && (snd p <? length vals)%nat &&
                                       le_t (nth (fst p) vals 0) (nth (snd p) vals 0)) ps
      | MNum m => (m =? 0)%Z
      end
  end.

Fixpoint zip3_all {A B C} (f : A -> B -> C -> bool) (a : list A) (b : list B) (c : list C) : bool :=
  match a, b, c with
  | [], [], [] => true
  | x :: a', y :: b', z :: c' => f x y z && zip3_all f a' b' c'
  | _, _, _ => false
  end.

Definition nondecr_along (sizes : list nat) (K : tens) (d : nat) : bool :=
  forallb (fun i => if (S (nth d i 0%nat) <? nth d sizes 0%nat)%nat then le_t (K i) (K (upd i d (S (nth d i 0%nat)))) else true)
          (all_idx sizes).

Definition oc_ok (lo hi : option Q) (oc : out_calib) : bool :=
  match oc with
  | None => true
  | Some (kps, lens, col) =>
      seg_ok kps lens && (length col =? S (length kps))%nat &&
      adjacent le_t (outs_of col) && forallb (in_opt_range lo hi) (outs_of col)
  end.
Definition has_some {A} (o : option A) : bool := match o with Some _ => true | None => false end.

(* ---- one KroneckerFactoredLattice layer: kfl_feasible (Proofs/PremadeKFL.v)
   per (unit, term): the shape, PK.sgood of the scale, PK.kgood of the weights
   relative to the sign of the scale (a scale within t of 0 makes the term
   irrelevant); the fixed bias of a bounded layer ---- *)
Definition qabs_le (a b : Q) : bool := le_t a b && le_t (- b) a.
Definition term_ok (c : MK.config) (dims : nat) (s : Q) (vs : list (list Q)) : bool :=
  let bounded2 := match MK.c_min c, MK.c_max c with Some _, Some _ => true | _, _ => false end in
  let bounded1 := match MK.c_min c, MK.c_max c with Some _, None => true | None, Some _ => true | _, _ => false end in
  let monos := match MK.canon_monos (MK.c_monos c) with Some ms => ms | None => [] end in
  let any_mono := existsb (fun b => b) monos in
  (length vs =? dims)%nat && forallb (fun v => (length v =? MK.c_size c)%nat) vs &&
  match MK.c_min c, MK.c_max c with
  | Some lo, Some hi => qabs_le s ((hi - lo) * (1#2))
  | Some _, None => le_t 0 s
  | None, Some _ => le_t s 0
  | None, None => true
  end &&
  (if any_mono then
     qabs_le s 0 ||
     (forallb (forallb (le_t 0)) vs &&
      forallb (fun mv => if fst mv : bool then adjacent (if Qle_bool 0 s then le_t else fun a b => le_t b a) (snd mv) else true)
              (combine monos vs))
   else true) &&
  (if bounded2 then le_t (MK.qprod (map MK.maxabs vs)) 1 else true) &&
  (if bounded1 then forallb (forallb (le_t 0)) vs else true).

(* all units of the layer; the layer holds the bounds (lo, hi) the builder must
   have handed it, a monotonicity flag per dimension and units consistent tables *)
Definition kfl_layer_ok (lo hi : option Q) (c : MK.config) (p : MK.params) (dims : nat) : bool :=
  match MK.c_min c, lo with Some a, Some b => Qeq_bool a b | None, None => true | _, _ => false end &&
  match MK.c_max c, hi with Some a, Some b => Qeq_bool a b | None, None => true | _, _ => false end &&
  match MK.c_min c, MK.c_max c with Some a, Some b => negb (Qle_bool b a) | _, _ => true end &&
  negb (MK.c_clip c) && (2 <=? MK.c_size c)%nat && (1 <=? dims)%nat &&
  match MK.c_monos c with Some ms => (length ms =? dims)%nat | None => false end &&
  (length (MK.p_scale p) =? length (MK.p_kern p))%nat && (length (MK.p_bias p) =? length (MK.p_scale p))%nat &&
  forallb (fun su_ku => (length (fst su_ku) =? length (snd su_ku))%nat &&
                        forallb (fun s_vs => term_ok c dims (fst s_vs) (snd s_vs)) (combine (fst su_ku) (snd su_ku)))
          (combine (MK.p_scale p) (MK.p_kern p)) &&
  (if MK.has_bounds c
   then forallb (fun b => qabs_le (b - MK.bias_init1 (MK.c_min c) (MK.c_max c)) 0) (MK.p_bias p) else true).
Definition kfl_mono_at (c : MK.config) (q : nat) : bool :=
  match MK.canon_monos (MK.c_monos c) with Some ms => nth q ms false | None => false end.

(* ---- ensembles ---- *)
(* the extracted model: members (with the feature index every lattice dimension
   reads, its calibrator unit, its weights), combiner, optional output
   calibrator; per model feature its configured monotonicity; the model's
   output bounds; multi = the structure may route one feature to several
   dimensions of one lattice (RTL tiles its inputs; explicit / random /
   Crystals lattices read pairwise distinct features) *)
Record ens := mkEns {
  en_ms : list member2; en_comb : combiner; en_oc : out_calib; en_feat : list fmono;
  en_lo : option Q; en_hi : option Q; en_multi : bool }.

Fixpoint nodupb (l : list nat) : bool :=
  match l with [] => true | a :: r => negb (existsb (Nat.eqb a) r) && nodupb r end.
Definition dcal0 : calib := CCat [] None.

(* position q of a member: it reads feature i (an index into the model's
   features) through calibrator unit cal into a lattice dimension of the given
   size; mono_at = that dimension is one along which the member is
   non-decreasing.  Hypotheses of member2_ok / member2_monotone_in: the
   calibrator stays inside [0, size-1] and has the direction of the feature;
   a monotone feature (increasing, decreasing or categorically ordered) is read
   through a monotone dimension. *)
Definition pos_ok (feat : list fmono) (size : nat) (mono_at : bool) (i : nat) (cal : calib) : bool :=
  (i <? length feat)%nat && calib_ok (Some 0) (Some (qn size - 1)) (nth i feat (MNum 0)) cal &&
  (if (lattice_dim_mono (nth i feat (MNum 0)) =? 1)%Z then mono_at else true).

Definition member_ok_b (feat : list fmono) (lo hi : option Q) (multi : bool) (m : member2) : bool :=
  (multi || nodupb (member2_idx m)) &&
  match m with
  | MLat m =>
      let n := length (m_sizes m) in
      let K := of_list (m_sizes m) (column 0 (m_K m)) in
      (1 <=? n)%nat && forallb (fun s => (2 <=? s)%nat) (m_sizes m) &&
      (length (m_K m) =? prodn (m_sizes m))%nat && forallb (fun r => (length r =? 1)%nat) (m_K m) &&
      (length (m_cals m) =? n)%nat && (length (m_idx m) =? n)%nat &&
      forallb (fun q => pos_ok feat (nth q (m_sizes m) 0%nat) (nondecr_along (m_sizes m) K q)
                               (nth q (m_idx m) 0%nat) (nth q (m_cals m) dcal0)) (seq 0 n) &&
      forallb (in_opt_range lo hi) (column 0 (m_K m))
  | MKfl idx cals c p u =>
      let n := length idx in
      (length cals =? n)%nat && kfl_layer_ok lo hi c p n && (u <? length (MK.p_scale p))%nat &&
      forallb (fun q => pos_ok feat (MK.c_size c) (kfl_mono_at c q) (nth q idx 0%nat) (nth q cals dcal0)) (seq 0 n)
  end.

(* Average, or the output Linear layer: weights >= 0 always
   (monotonicities = 'increasing'); under output bounds / output calibration
   (wavg) no bias and weights of sum one.  d32 = accept the all-zero weight
   vector as well (known finding D32, reported by the predicate on the
   implementation when 0 is outside the bounds). *)
Definition comb_ok (d32 wavg : bool) (n : nat) (c : combiner) : bool :=
  match c with
  | Average => (1 <=? n)%nat
  | LinComb w b =>
      (length w =? n)%nat && forallb (le_t 0) w &&
      (if wavg then ((le_t (qsum w) 1 && le_t 1 (qsum w)) || (d32 && le_t (qsum w) 0)) && Qeq_bool b 0 else true)
  end.

Definition ens_ok (d32 : bool) (e : ens) : bool :=
  let wavg := has_some (en_oc e) || has_some (en_lo e) || has_some (en_hi e) in
  let '(lo, hi) := if has_some (en_oc e) then (Some 0, Some 1) else (en_lo e, en_hi e) in
  oc_ok (en_lo e) (en_hi e) (en_oc e) && comb_ok d32 wavg (length (en_ms e)) (en_comb e) &&
  forallb (member_ok_b (en_feat e) lo hi (en_multi e)) (en_ms e).
End Tol.
