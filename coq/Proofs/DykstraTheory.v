(* Abstract theory of Dykstra's alternating projections (DESIGN.md section 6,
   HalfSpace / Dykstra), independent of the lattice model.

   "Vectors" are functions on a finite index list [I]; everything is stated up
   to pointwise equality on [I] ([veq]).  The nearest point of a closed convex
   set is characterised variationally ([is_proj], no square roots needed).

   Contents
   - inner product algebra, [vi_nearest] (variational inequality => nearest in
     squared distance), [vi_unique];
   - [halfspace_is_proj]: w - c * min(<c,w>,0)/<c,c> is the nearest-point map
     onto { w | <c,w> >= 0 };
   - [sum_sym2] / [sum_sym4]: sums over [I] are invariant under involutions of
     [I] (used to lift a local block inequality to the whole index set);
   - [step_fixpoints_nearest], [asweep_fixpoint_nearest]: a fixpoint of one
     Dykstra sweep over nearest-point maps P_g onto C_g, whose increments sum up
     to x - x0, is the nearest point of the intersection of the C_g to x0.

   NOT proved here: convergence of the iterates (Boyle-Dykstra 1986).  Its
   quantitative core (boundedness, summable movement) is in
   Proofs/DykstraBound.v; the existence of the limit is an analytic statement
   and is tested numerically. *)
From TFL Require Export Base.QNum.
From Coq Require Import Permutation.
Open Scope Q_scope.

Section Vec.
Context {A : Type}.
Variable I : list A.
Notation vec := (A -> Q).

Definition veq (f g : vec) : Prop := forall i, In i I -> f i == g i.
Definition vsub (f g : vec) : vec := fun i => f i - g i.
Definition vadd (f g : vec) : vec := fun i => f i + g i.
Definition vzero : vec := fun _ => 0.
Definition vsum (l : list vec) : vec := fun i => qsum (map (fun e : vec => e i) l).
Definition ip (f g : vec) : Q := qsum (map (fun i => f i * g i) I).

Lemma veq_refl f : veq f f.
Proof. intros i _. reflexivity. Qed.
Lemma veq_sym f g : veq f g -> veq g f.
Proof. intros H i Hi. symmetry. apply H; assumption. Qed.
Lemma veq_trans f g h : veq f g -> veq g h -> veq f h.
Proof. intros H1 H2 i Hi. rewrite (H1 i Hi). apply H2; assumption. Qed.
Lemma vsub_veq f f' g g' : veq f f' -> veq g g' -> veq (vsub f g) (vsub f' g').
Proof. intros H1 H2 i Hi. unfold vsub. rewrite (H1 i Hi), (H2 i Hi). reflexivity. Qed.
Lemma vadd_veq f f' g g' : veq f f' -> veq g g' -> veq (vadd f g) (vadd f' g').
Proof. intros H1 H2 i Hi. unfold vadd. rewrite (H1 i Hi), (H2 i Hi). reflexivity. Qed.

(* ---- inner product ---- *)
Lemma ip_ext f f' g g' : veq f f' -> veq g g' -> ip f g == ip f' g'.
Proof. intros Hf Hg. unfold ip. apply qsum_map_ext. intros i Hi. rewrite (Hf i Hi), (Hg i Hi). reflexivity. Qed.
Lemma ip_pointwise f g f' g' : (forall i, In i I -> f i * g i == f' i * g' i) -> ip f g == ip f' g'.
Proof. intros H. unfold ip. apply qsum_map_ext. exact H. Qed.
Lemma ip_comm f g : ip f g == ip g f.
Proof. apply ip_pointwise. intros; ring. Qed.
Lemma ip_add_l f g h : ip (vadd f g) h == ip f h + ip g h.
Proof. unfold ip, vadd. rewrite <- qsum_map_plus. apply qsum_map_ext. intros; ring. Qed.
Lemma ip_sub_l f g h : ip (vsub f g) h == ip f h - ip g h.
Proof. unfold ip, vsub.
  assert (E : qsum (map (fun i => g i * h i) I) + qsum (map (fun i => (f i - g i) * h i) I) == qsum (map (fun i => f i * h i) I)).
  { rewrite <- qsum_map_plus. apply qsum_map_ext. intros; ring. }
  lra. Qed.
Lemma ip_zero_l h : ip vzero h == 0.
Proof. unfold ip, vzero. induction I as [|i l IH]; cbn [map qsum]. reflexivity. rewrite IH. ring. Qed.
Lemma ip_scale_l c f h : ip (fun i => c * f i) h == c * ip f h.
Proof. unfold ip. rewrite <- qsum_map_scale. apply qsum_map_ext. intros; ring. Qed.
Lemma ip_nonneg f : 0 <= ip f f.
Proof. unfold ip. apply qsum_map_nonneg. intros i _. nra. Qed.
Lemma ip_vsum l h : ip (vsum l) h == qsum (map (fun e : vec => ip e h) l).
Proof. induction l as [|e l IH]; cbn [map qsum].
  - apply ip_zero_l.
  - rewrite <- IH, <- ip_add_l. apply ip_pointwise. intros i _. unfold vsum, vadd. cbn [map qsum]. reflexivity. Qed.

Lemma qsum_sq_zero (f : A -> Q) (l : list A) : qsum (map (fun i => f i * f i) l) <= 0 -> forall i, In i l -> f i == 0.
Proof. induction l as [|j l IH]; intros H i Hi. destruct Hi.
  cbn [map qsum] in H.
  assert (H1 : 0 <= f j * f j) by nra.
  assert (H2 : 0 <= qsum (map (fun i => f i * f i) l)) by (apply qsum_map_nonneg; intros; nra).
  destruct Hi as [<-|Hi].
  - assert (E : f j * f j == 0) by lra. nra.
  - apply IH; [lra|assumption]. Qed.
Lemma ip_self_zero f : ip f f <= 0 -> veq f vzero.
Proof. intros H i Hi. unfold vzero. exact (qsum_sq_zero f I H i Hi). Qed.

(* ---- nearest points, variationally ---- *)
(* P is a nearest-point map onto C: P y is in C and  <y - P y, z - P y> <= 0  for
   every z in C (for a closed convex C this characterises the Euclidean-nearest
   point of C to y). *)
Definition is_proj (C : vec -> Prop) (P : vec -> vec) : Prop :=
  forall y, C (P y) /\ forall z, C z -> ip (vsub y (P y)) (vsub z (P y)) <= 0.

(* the variational inequality at x implies that x is at least as near to x0 as z *)
Lemma vi_nearest x0 x z : ip (vsub x0 x) (vsub z x) <= 0 ->
  ip (vsub x0 x) (vsub x0 x) <= ip (vsub x0 z) (vsub x0 z).
Proof. intros H.
  assert (E : ip (vsub x0 z) (vsub x0 z) == ip (vsub x0 x) (vsub x0 x) + (ip (vsub x z) (vsub x z) + (-2) * ip (vsub x0 x) (vsub z x))).
  { unfold ip. rewrite <- qsum_map_scale, <- !qsum_map_plus. apply qsum_map_ext. intros i _. unfold vsub. ring. }
  pose proof (ip_nonneg (vsub x z)). lra. Qed.
(* ... and strictly nearer unless z is x *)
Lemma vi_nearest_dist x0 x z : ip (vsub x0 x) (vsub z x) <= 0 ->
  ip (vsub x0 x) (vsub x0 x) + ip (vsub x z) (vsub x z) <= ip (vsub x0 z) (vsub x0 z).
Proof. intros H.
  assert (E : ip (vsub x0 z) (vsub x0 z) == ip (vsub x0 x) (vsub x0 x) + (ip (vsub x z) (vsub x z) + (-2) * ip (vsub x0 x) (vsub z x))).
  { unfold ip. rewrite <- qsum_map_scale, <- !qsum_map_plus. apply qsum_map_ext. intros i _. unfold vsub. ring. }
  lra. Qed.
(* two points of C that both satisfy the variational inequality coincide *)
Lemma vi_unique (C : vec -> Prop) x0 x x' : C x -> C x' ->
  (forall z, C z -> ip (vsub x0 x) (vsub z x) <= 0) ->
  (forall z, C z -> ip (vsub x0 x') (vsub z x') <= 0) -> veq x x'.
Proof. intros Cx Cx' H H'. specialize (H x' Cx'). specialize (H' x Cx).
  assert (E : ip (vsub x x') (vsub x x') == ip (vsub x0 x) (vsub x' x) + ip (vsub x0 x') (vsub x x')).
  { unfold ip. rewrite <- qsum_map_plus. apply qsum_map_ext. intros i _. unfold vsub. ring. }
  assert (Z : veq (vsub x x') vzero) by (apply ip_self_zero; lra).
  intros i Hi. specialize (Z i Hi). unfold vsub, vzero in Z. lra. Qed.

(* a nearest-point map fixes the points of its set *)
Lemma is_proj_fixes C P y : is_proj C P -> C y -> veq (P y) y.
Proof. intros HP Cy. destruct (HP y) as [_ H]. specialize (H y Cy).
  assert (Z : veq (vsub y (P y)) vzero) by (apply ip_self_zero; exact H).
  intros i Hi. specialize (Z i Hi). unfold vsub, vzero in Z. lra. Qed.

(* ---- a single half-space  <c, w> >= 0 ---- *)
Definition hs_proj (c : vec) (w : vec) : vec := fun i => w i - c i * (qmin (ip c w) 0 / ip c c).
Lemma hs_ip c w : 0 < ip c c -> ip c (hs_proj c w) == qmax (ip c w) 0.
Proof. intros Hc. unfold hs_proj.
  assert (E : ip c (fun i => w i - c i * (qmin (ip c w) 0 / ip c c)) == ip c w - (qmin (ip c w) 0 / ip c c) * ip c c).
  { rewrite (ip_comm c (fun i => w i - c i * (qmin (ip c w) 0 / ip c c))).
    change (fun i => w i - c i * (qmin (ip c w) 0 / ip c c)) with (vsub w (fun i => c i * (qmin (ip c w) 0 / ip c c))).
    rewrite ip_sub_l. rewrite (ip_comm w c).
    assert (E2 : ip (fun i => c i * (qmin (ip c w) 0 / ip c c)) c == (qmin (ip c w) 0 / ip c c) * ip c c).
    { rewrite <- ip_scale_l. apply ip_pointwise. intros; ring. }
    rewrite E2. reflexivity. }
  rewrite E. assert (E3 : qmin (ip c w) 0 / ip c c * ip c c == qmin (ip c w) 0) by (field; lra).
  rewrite E3. qcases; lra. Qed.
Theorem halfspace_is_proj c : 0 < ip c c -> is_proj (fun w => 0 <= ip c w) (hs_proj c).
Proof. intros Hc y. split.
  - rewrite hs_ip by assumption. apply qmax_r.
  - intros z Hz.
    set (t := qmin (ip c y) 0 / ip c c).
    assert (Et : t * ip c c == qmin (ip c y) 0) by (unfold t; field; lra).
    assert (E : ip (vsub y (hs_proj c y)) (vsub z (hs_proj c y)) == t * (ip c z - qmax (ip c y) 0)).
    { rewrite <- (hs_ip c y Hc).
      assert (E1 : ip (vsub y (hs_proj c y)) (vsub z (hs_proj c y)) == ip (fun i => t * c i) (vsub z (hs_proj c y))).
      { apply ip_pointwise. intros i _. unfold vsub, hs_proj. fold t. ring. }
      rewrite E1, ip_scale_l. rewrite (ip_comm c (vsub z (hs_proj c y))), ip_sub_l.
      rewrite (ip_comm z c), (ip_comm (hs_proj c y) c). reflexivity. }
    rewrite E. revert Et. qcases; intros Et.
    + (* <c,y> <= 0 : t <= 0 and <c,z> - 0 >= 0 *) nra.
    + nra.
    + nra.
    + nra. Qed.

(* ---- sums over I are invariant under involutions of I ---- *)
Lemma qsum_perm (l l' : list Q) : Permutation l l' -> qsum l == qsum l'.
Proof. induction 1; cbn [qsum]; lra. Qed.
Lemma NoDup_map_inj_in {B} (f : A -> B) (l : list A) :
  (forall x y, In x l -> In y l -> f x = f y -> x = y) -> NoDup l -> NoDup (map f l).
Proof. induction l as [|a l IH]; intros Hinj Hnd; cbn [map]. constructor.
  inversion Hnd; subst. constructor.
  - intros Hin. apply in_map_iff in Hin. destruct Hin as [b [Hb Hbl]].
    assert (b = a) by (apply Hinj; [right; assumption|left; reflexivity|assumption]). subst. contradiction.
  - apply IH; [|assumption]. intros x y Hx Hy. apply Hinj; right; assumption. Qed.

Section Invol.
Hypothesis I_nodup : NoDup I.
Variable s : A -> A.
Hypothesis s_in : forall i, In i I -> In (s i) I.
Hypothesis s_invol : forall i, In i I -> s (s i) = i.
Lemma invol_perm : Permutation I (map s I).
Proof. apply NoDup_Permutation. assumption.
  - apply NoDup_map_inj_in; [|assumption]. intros x y Hx Hy E.
    rewrite <- (s_invol x Hx), <- (s_invol y Hy), E. reflexivity.
  - intros i. split.
    + intros Hi. apply in_map_iff. exists (s i). split; [apply s_invol|apply s_in]; assumption.
    + intros Hi. apply in_map_iff in Hi. destruct Hi as [j [<- Hj]]. apply s_in; assumption. Qed.
Lemma sum_invol (T : A -> Q) : qsum (map T I) == qsum (map (fun i => T (s i)) I).
Proof. rewrite <- (map_map s T). apply qsum_perm. apply Permutation_map. apply invol_perm. Qed.
Lemma sum_sym2 (T : A -> Q) : qsum (map T I) == (1#2) * qsum (map (fun i => T i + T (s i)) I).
Proof. rewrite qsum_map_plus. rewrite <- (sum_invol T). lra. Qed.
End Invol.

Lemma sum_sym4 (s1 s2 : A -> A) (T : A -> Q) : NoDup I ->
  (forall i, In i I -> In (s1 i) I) -> (forall i, In i I -> s1 (s1 i) = i) ->
  (forall i, In i I -> In (s2 i) I) -> (forall i, In i I -> s2 (s2 i) = i) ->
  qsum (map T I) == (1#4) * qsum (map (fun i => (T i + T (s1 i)) + (T (s2 i) + T (s1 (s2 i)))) I).
Proof. intros Hnd H1 H1' H2 H2'.
  rewrite (sum_sym2 Hnd s1 H1 H1' T).
  rewrite (sum_sym2 Hnd s2 H2 H2' (fun i => T i + T (s1 i))).
  cbv beta. lra. Qed.

(* if every symmetrised local term is <= 0 then so is the whole sum *)
Lemma sum_sym4_nonpos (s1 s2 : A -> A) (T : A -> Q) : NoDup I ->
  (forall i, In i I -> In (s1 i) I) -> (forall i, In i I -> s1 (s1 i) = i) ->
  (forall i, In i I -> In (s2 i) I) -> (forall i, In i I -> s2 (s2 i) = i) ->
  (forall i, In i I -> (T i + T (s1 i)) + (T (s2 i) + T (s1 (s2 i))) <= 0) ->
  qsum (map T I) <= 0.
Proof. intros Hnd H1 H1' H2 H2' Hloc. rewrite (sum_sym4 s1 s2 T Hnd H1 H1' H2 H2').
  assert (qsum (map (fun i => (T i + T (s1 i)) + (T (s2 i) + T (s1 (s2 i)))) I) <= qsum (map (fun _ => 0) I)).
  { apply qsum_map_le. exact Hloc. }
  assert (Z : qsum (map (fun _ : A => 0) I) == 0).
  { clear. induction I as [|i l IH]; cbn [map qsum]. reflexivity. rewrite IH. lra. }
  lra. Qed.
Lemma sum_sym2_nonpos (s1 : A -> A) (T : A -> Q) : NoDup I ->
  (forall i, In i I -> In (s1 i) I) -> (forall i, In i I -> s1 (s1 i) = i) ->
  (forall i, In i I -> T i + T (s1 i) <= 0) ->
  qsum (map T I) <= 0.
Proof. intros Hnd H1 H1' Hloc. rewrite (sum_sym2 Hnd s1 H1 H1' T).
  assert (qsum (map (fun i => T i + T (s1 i)) I) <= qsum (map (fun _ => 0) I)).
  { apply qsum_map_le. exact Hloc. }
  assert (Z : qsum (map (fun _ : A => 0) I) == 0).
  { clear. induction I as [|i l IH]; cbn [map qsum]. reflexivity. rewrite IH. lra. }
  lra. Qed.

(* ---- fixpoints of a Dykstra sweep ---- *)
(* one slot of the scheme: constraint set, its map, the stored increment *)
Record slot := mkSlot { s_C : vec -> Prop; s_P : vec -> vec; s_e : vec }.

(* Core: x is fixed by every roll-back/project step and the increments add up
   to x - x0; then x is in every set and satisfies the variational inequality
   of the intersection w.r.t. x0. *)
Theorem step_fixpoints_nearest (sl : list slot) (x0 x : vec) :
  (forall s, In s sl -> is_proj (s_C s) (s_P s)) ->
  (forall s, In s sl -> forall f g, veq f g -> s_C s f -> s_C s g) ->
  (forall s, In s sl -> veq (s_P s (vsub x (s_e s))) x) ->
  veq x (vadd x0 (vsum (map s_e sl))) ->
  (forall s, In s sl -> s_C s x) /\
  (forall z, (forall s, In s sl -> s_C s z) -> ip (vsub x0 x) (vsub z x) <= 0).
Proof. intros Hproj Hclosed Hfix Hsum. split.
  - intros s Hs. apply (Hclosed s Hs (s_P s (vsub x (s_e s)))). apply Hfix; assumption.
    apply (Hproj s Hs).
  - intros z Hz.
    assert (Hs : forall s, In s sl -> 0 <= ip (s_e s) (vsub z x)).
    { intros s Hin. destruct (Hproj s Hin (vsub x (s_e s))) as [_ H]. specialize (H z (Hz s Hin)).
      assert (E : ip (vsub (vsub x (s_e s)) (s_P s (vsub x (s_e s)))) (vsub z (s_P s (vsub x (s_e s)))) ==
                  - ip (s_e s) (vsub z x)).
      { rewrite (ip_ext _ (fun i => (-1) * s_e s i) _ (vsub z x)).
        - rewrite ip_scale_l. ring.
        - intros i Hi. unfold vsub. rewrite (Hfix s Hin i Hi). ring.
        - apply vsub_veq. apply veq_refl. apply Hfix; assumption. }
      lra. }
    assert (E : ip (vsub x0 x) (vsub z x) == - ip (vsum (map s_e sl)) (vsub z x)).
    { rewrite (ip_ext _ (fun i => (-1) * vsum (map s_e sl) i) _ (vsub z x)).
      - rewrite ip_scale_l. ring.
      - intros i Hi. unfold vsub. rewrite (Hsum i Hi). unfold vadd. ring.
      - apply veq_refl. }
    rewrite E, ip_vsum.
    assert (0 <= qsum (map (fun e : vec => ip e (vsub z x)) (map s_e sl))).
    { rewrite map_map. apply qsum_map_nonneg. exact Hs. }
    lra. Qed.

(* The abstract sweep: for every slot in turn, roll back its increment, apply
   its map, store the new increment. *)
Fixpoint asweep (sl : list slot) (x : vec) : vec * list slot :=
  match sl with
  | [] => (x, [])
  | s :: r =>
      let rolled := vsub x (s_e s) in
      let x' := s_P s rolled in
      let '(xf, r') := asweep r x' in
      (xf, mkSlot (s_C s) (s_P s) (vsub x' rolled) :: r')
  end.

(* increment-sum invariant of the abstract sweep *)
Lemma asweep_increment_sum sl : forall x x0,
  veq x (vadd x0 (vsum (map s_e sl))) ->
  veq (fst (asweep sl x)) (vadd x0 (vsum (map s_e (snd (asweep sl x))))).
Proof. induction sl as [|s r IH]; intros x x0 H; cbn [asweep]. exact H.
  destruct (asweep r (s_P s (vsub x (s_e s)))) as [xf r'] eqn:E. cbn [fst snd map s_e].
  specialize (IH (s_P s (vsub x (s_e s))) (vadd x0 (vsub (s_P s (vsub x (s_e s))) (vsub x (s_e s))))).
  rewrite E in IH. cbn [fst snd] in IH.
  assert (Hpre : veq (s_P s (vsub x (s_e s)))
                     (vadd (vadd x0 (vsub (s_P s (vsub x (s_e s))) (vsub x (s_e s)))) (vsum (map s_e r)))).
  { intros i Hi. specialize (H i Hi). unfold vadd, vsub, vsum in *. cbn [map qsum] in H. lra. }
  specialize (IH Hpre). intros i Hi. specialize (IH i Hi). unfold vadd, vsub, vsum in *. cbn [map qsum]. lra. Qed.

(* a sweep that leaves every stored increment unchanged leaves x unchanged and
   every single step is a fixpoint step *)
Lemma asweep_fix_steps sl : forall xc x,
  (forall s, In s sl -> forall f g, veq f g -> veq (s_P s f) (s_P s g)) ->
  veq xc x ->
  Forall2 (fun s s' => veq (s_e s') (s_e s)) sl (snd (asweep sl xc)) ->
  (forall s, In s sl -> veq (s_P s (vsub x (s_e s))) x) /\ veq (fst (asweep sl xc)) x.
Proof. induction sl as [|s r IH]; intros xc x Hprop Hx HF; cbn [asweep] in *.
  - split. intros s []. exact Hx.
  - destruct (asweep r (s_P s (vsub xc (s_e s)))) as [xf r'] eqn:E. cbn [fst snd] in *.
    inversion HF as [|a b l l' He HF']; subst. cbn [s_e] in He.
    assert (Hx' : veq (s_P s (vsub xc (s_e s))) x).
    { intros i Hi. specialize (He i Hi). specialize (Hx i Hi). unfold vsub in *. lra. }
    specialize (IH (s_P s (vsub xc (s_e s))) x (fun s0 H0 => Hprop s0 (or_intror H0)) Hx').
    rewrite E in IH. cbn [fst snd] in IH. destruct (IH HF') as [IH1 IH2]. split; [|exact IH2].
    intros s0 [<-|H0]; [|apply IH1; assumption].
    apply veq_trans with (s_P s (vsub xc (s_e s))); [|exact Hx'].
    apply (Hprop s (or_introl eq_refl)). apply vsub_veq. apply veq_sym; exact Hx. apply veq_refl. Qed.

Theorem asweep_fixpoint_nearest (sl : list slot) (x0 x : vec) :
  (forall s, In s sl -> is_proj (s_C s) (s_P s)) ->
  (forall s, In s sl -> forall f g, veq f g -> s_C s f -> s_C s g) ->
  (forall s, In s sl -> forall f g, veq f g -> veq (s_P s f) (s_P s g)) ->
  veq x (vadd x0 (vsum (map s_e sl))) ->
  Forall2 (fun s s' => veq (s_e s') (s_e s)) sl (snd (asweep sl x)) ->
  veq (fst (asweep sl x)) x /\
  (forall s, In s sl -> s_C s x) /\
  (forall z, (forall s, In s sl -> s_C s z) ->
     ip (vsub x0 x) (vsub z x) <= 0 /\ ip (vsub x0 x) (vsub x0 x) <= ip (vsub x0 z) (vsub x0 z)).
Proof. intros Hproj Hclosed Hprop Hsum HF.
  destruct (asweep_fix_steps sl x x Hprop (veq_refl x) HF) as [Hsteps Hx].
  destruct (step_fixpoints_nearest sl x0 x Hproj Hclosed Hsteps Hsum) as [HC Hvi].
  split; [exact Hx|]. split; [exact HC|]. intros z Hz. split. apply Hvi; assumption.
  apply vi_nearest. apply Hvi; assumption. Qed.

End Vec.

(* ---- the hypotheses of asweep_fixpoint_nearest are satisfiable ----
   two coordinates, one half-space  w 1 >= w 0, start x0 = (1, 0): the state
   x = (1/2, 1/2) with increment (-1/2, 1/2) is reproduced by a sweep. *)
Lemma hs_proj_proper {A} (I : list A) (c f g : A -> Q) : veq I f g -> veq I (hs_proj I c f) (hs_proj I c g).
Proof. intros E i Hi. unfold hs_proj. rewrite (E i Hi). rewrite (ip_ext I c c f g (veq_refl I c) E). reflexivity. Qed.

Definition ex_I : list nat := [0%nat; 1%nat].
Definition ex_c : nat -> Q := fun i => if (i =? 0)%nat then -1 else 1.
Definition ex_x0 : nat -> Q := fun i => if (i =? 0)%nat then 1 else 0.
Definition ex_x : nat -> Q := fun _ => 1#2.
Definition ex_e : nat -> Q := fun i => if (i =? 0)%nat then -(1#2) else 1#2.
Definition ex_sl : list (slot (A:=nat)) := [mkSlot (fun w => 0 <= ip ex_I ex_c w) (hs_proj ex_I ex_c) ex_e].
Example asweep_fixpoint_hyps :
  (forall s, In s ex_sl -> is_proj ex_I (s_C s) (s_P s)) /\
  (forall s, In s ex_sl -> forall f g, veq ex_I f g -> s_C s f -> s_C s g) /\
  (forall s, In s ex_sl -> forall f g, veq ex_I f g -> veq ex_I (s_P s f) (s_P s g)) /\
  veq ex_I ex_x (vadd ex_x0 (vsum (map s_e ex_sl))) /\
  Forall2 (fun s s' => veq ex_I (s_e s') (s_e s)) ex_sl (snd (asweep ex_sl ex_x)) /\
  ~ veq ex_I ex_x ex_x0.
Proof. split; [|split; [|split; [|split; [|split]]]].
  - intros s [<-|[]]. cbn [s_C s_P]. apply halfspace_is_proj. vm_compute. reflexivity.
  - intros s [<-|[]] f g E. cbn [s_C]. rewrite (ip_ext ex_I ex_c ex_c f g (veq_refl _ _) E). auto.
  - intros s [<-|[]] f g E. cbn [s_P]. apply hs_proj_proper. exact E.
  - intros i [<-|[<-|[]]]; vm_compute; reflexivity.
  - cbn [asweep ex_sl snd s_e s_P s_C]. constructor; [|constructor]. cbn [s_e].
    intros i [<-|[<-|[]]]; vm_compute; reflexivity.
  - intros H. specialize (H 0%nat (or_introl eq_refl)). vm_compute in H. discriminate H. Qed.
