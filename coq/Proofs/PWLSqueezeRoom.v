(* Exact characterisation of finding D2 (C04): monotonicity AND convexity with
   bounds.  _finalize_constraints then ends with _squeeze_by_scaling, which
   never moves the bias and rescales the heights only when
       delta = output_max - bias > 0.001        (increasing)
       delta = bias - output_min > 0.001        (decreasing, mirrored call).
   The bias that reaches the squeeze is the bias of the Dykstra state (the
   approximate monotonicity / convexity projections of _finalize_constraints
   only touch the heights).  If that bias lies within the near bound and has
   room > 0.001 to the bound the function runs towards, every keypoint output of
   the result is within the bounds; hence a bounds failure of a monotone +
   convex configuration implies that the squeeze had no room. *)
From TFL Require Import Model.PWLProject Proofs.PWLProject.
Open Scope Q_scope.

(* the state that enters _finalize_constraints and its bias *)
Definition pwl_loop_state (c : pwl_cfg) (bias : Q) (hs : list Q) : dyk :=
  dyk_iter c (p_iters c) (dyk_init bias hs).
Definition pwl_loop_bias (c : pwl_cfg) (bias : Q) (hs : list Q) : Q := d_bias (pwl_loop_state c bias hs).

(* the bias is inside the near bound and the squeeze's own test succeeds *)
Definition squeeze_bias_has_room (c : pwl_cfg) (b : Q) : Prop :=
  (p_mono c = 1%Z ->
     (p_cmin c <> BNone -> p_min c <= b) /\ (p_cmax c <> BNone -> qlt (1 # 1000) (p_max c - b) = true)) /\
  (p_mono c = (-1)%Z ->
     (p_cmax c <> BNone -> b <= p_max c) /\ (p_cmin c <> BNone -> qlt (1 # 1000) (- p_min c - - b) = true)).

(* the same in plain inequalities *)
Lemma squeeze_bias_has_room_iff c b : squeeze_bias_has_room c b <->
  (p_mono c = 1%Z ->
     (p_cmin c <> BNone -> p_min c <= b) /\ (p_cmax c <> BNone -> 1 # 1000 < p_max c - b)) /\
  (p_mono c = (-1)%Z ->
     (p_cmax c <> BNone -> b <= p_max c) /\ (p_cmin c <> BNone -> 1 # 1000 < b - p_min c)).
Proof.
  unfold squeeze_bias_has_room. split; intros [H1 H2]; split; intros Hm.
  - destruct (H1 Hm) as [A B]. split; [exact A|]. intros G. apply qlt_true. apply B; exact G.
  - destruct (H2 Hm) as [A B]. split; [exact A|]. intros G. specialize (B G). apply qlt_true in B. lra.
  - destruct (H1 Hm) as [A B]. split; [exact A|]. intros G. apply qlt_true. apply B; exact G.
  - destruct (H2 Hm) as [A B]. split; [exact A|]. intros G. specialize (B G). apply qlt_true. lra.
Qed.

(* explicit negation: outside the near bound, or no room towards the far bound *)
Definition squeeze_bias_no_room (c : pwl_cfg) (b : Q) : Prop :=
  (p_mono c = 1%Z /\ ((p_cmin c <> BNone /\ b < p_min c) \/ (p_cmax c <> BNone /\ p_max c - b <= 1 # 1000))) \/
  (p_mono c = (-1)%Z /\ ((p_cmax c <> BNone /\ p_max c < b) \/ (p_cmin c <> BNone /\ b - p_min c <= 1 # 1000))).

Lemma no_room_not_has_room c b : squeeze_bias_no_room c b -> ~ squeeze_bias_has_room c b.
Proof.
  intros N H. apply squeeze_bias_has_room_iff in H. destruct H as [H1 H2].
  destruct N as [[Hm [[G L]|[G L]]]|[Hm [[G L]|[G L]]]].
  - destruct (H1 Hm) as [A _]. specialize (A G). lra.
  - destruct (H1 Hm) as [_ B]. specialize (B G). lra.
  - destruct (H2 Hm) as [A _]. specialize (A G). lra.
  - destruct (H2 Hm) as [_ B]. specialize (B G). lra.
Qed.

(* ---------------- sums of scaled heights ---------------- *)
Lemma qsum_map_div d l : ~ d == 0 -> qsum (map (fun h => Qred (h / d)) l) == qsum l / d.
Proof. intros Hd. induction l as [|x l IH]; cbn [map qsum]. field; exact Hd.
  rewrite IH, Qred_correct. field; exact Hd. Qed.

Lemma squeeze_inc_bias b h omax cmax : fst (squeeze_inc b h omax cmax) = b.
Proof. unfold squeeze_inc. destruct cmax; reflexivity. Qed.

(* with room, the squeezed heights fit under the upper bound *)
Lemma squeeze_inc_fits b h omax cmax : cmax <> BNone -> qlt (1 # 1000) (omax - b) = true ->
  b + qsum (snd (squeeze_inc b h omax cmax)) <= omax.
Proof.
  intros Hc Hr. apply qlt_true in Hr as Hlt.
  assert (G : forall d, d = qmax (qsum h / (omax - b)) 1 ->
              b + qsum (map (fun x => Qred (x / d)) h) <= omax).
  { intros d ->. set (delta := omax - b) in *. set (S := qsum h).
    pose proof (squeeze_d_pos (S / delta)) as Hd. set (d := qmax (S / delta) 1) in *.
    rewrite qsum_map_div by lra. fold S.
    assert (Hdel : 0 < delta) by lra.
    assert (Hsf : S / delta <= d) by (unfold d; apply qmax_l).
    pose proof (qdiv_mul delta S Hdel) as E1.
    pose proof (qdiv_mul d S Hd) as E2.
    assert (Hprod : 0 <= (d - S / delta) * delta) by (apply qmul_nonneg; lra).
    assert (Hle : d * (S / d) <= d * delta) by lra.
    apply (qmul_cancel_le d) in Hle; [|exact Hd]. unfold delta in Hle. lra. }
  unfold squeeze_inc. rewrite Hr. destruct cmax; [congruence| |]; cbn [snd]; apply G; reflexivity.
Qed.

(* ---------------- cumulative sums of signed heights ---------------- *)
Lemma cumsum_from_nonneg_lo lo : forall h acc, Forall (fun x => 0 <= x) h -> lo <= acc ->
  Forall (fun s => lo <= s) (cumsum_from acc h).
Proof. induction h as [|x h IH]; intros acc H Ha; cbn [cumsum_from]; constructor; inversion H; subst.
  lra. apply IH; [assumption|lra]. Qed.
Lemma cumsum_from_nonneg_hi hi : forall h acc, Forall (fun x => 0 <= x) h -> acc + qsum h <= hi ->
  Forall (fun s => s <= hi) (cumsum_from acc h).
Proof. induction h as [|x h IH]; intros acc H Ha; cbn [cumsum_from]; constructor; inversion H; subst; cbn [qsum] in Ha.
  - assert (0 <= qsum h).
    { clear - H3. induction H3; cbn [qsum]; lra. }
    lra.
  - apply IH; [assumption|lra]. Qed.
Lemma cumsum_from_nonpos_hi hi : forall h acc, Forall (fun x => x <= 0) h -> acc <= hi ->
  Forall (fun s => s <= hi) (cumsum_from acc h).
Proof. induction h as [|x h IH]; intros acc H Ha; cbn [cumsum_from]; constructor; inversion H; subst.
  lra. apply IH; [assumption|lra]. Qed.
Lemma cumsum_from_nonpos_lo lo : forall h acc, Forall (fun x => x <= 0) h -> lo <= acc + qsum h ->
  Forall (fun s => lo <= s) (cumsum_from acc h).
Proof. induction h as [|x h IH]; intros acc H Ha; cbn [cumsum_from]; constructor; inversion H; subst; cbn [qsum] in Ha.
  - assert (qsum h <= 0).
    { clear - H3. induction H3; cbn [qsum]; lra. }
    lra.
  - apply IH; [assumption|lra]. Qed.

Lemma outputs_nonneg_lo lo b h : Forall (fun x => 0 <= x) h -> lo <= b -> Forall (fun s => lo <= s) (cumsum (b :: h)).
Proof. intros H Hb. unfold cumsum. cbn [cumsum_from]. constructor; [lra|]. apply cumsum_from_nonneg_lo; [assumption|lra]. Qed.
Lemma outputs_nonneg_hi hi b h : Forall (fun x => 0 <= x) h -> b + qsum h <= hi -> Forall (fun s => s <= hi) (cumsum (b :: h)).
Proof. intros H Hb. unfold cumsum. cbn [cumsum_from].
  assert (0 <= qsum h) by (clear - H; induction H; cbn [qsum]; lra).
  constructor; [lra|]. apply cumsum_from_nonneg_hi; [assumption|lra]. Qed.
Lemma outputs_nonpos_hi hi b h : Forall (fun x => x <= 0) h -> b <= hi -> Forall (fun s => s <= hi) (cumsum (b :: h)).
Proof. intros H Hb. unfold cumsum. cbn [cumsum_from]. constructor; [lra|]. apply cumsum_from_nonpos_hi; [assumption|lra]. Qed.
Lemma outputs_nonpos_lo lo b h : Forall (fun x => x <= 0) h -> lo <= b + qsum h -> Forall (fun s => lo <= s) (cumsum (b :: h)).
Proof. intros H Hb. unfold cumsum. cbn [cumsum_from].
  assert (qsum h <= 0) by (clear - H; induction H; cbn [qsum]; lra).
  constructor; [lra|]. apply cumsum_from_nonpos_lo; [assumption|lra]. Qed.

(* ---------------- the squeeze, both directions ---------------- *)
Lemma squeeze_dec_facts b h omin omax cmin cmax :
  fst (squeeze (-1) b h omin omax cmin cmax) == b /\
  (cmin <> BNone -> qlt (1 # 1000) (- omin - - b) = true ->
     omin <= b + qsum (snd (squeeze (-1) b h omin omax cmin cmax))).
Proof.
  unfold squeeze. cbn [Z.eqb Z.opp Pos.eqb].
  destruct cmin eqn:Ec.
  - cbn [fst]. split; [reflexivity|congruence].
  - pose proof (squeeze_inc_bias (- b) (qneg_list h) (- omin) BBound) as E1.
    pose proof (squeeze_inc_fits (- b) (qneg_list h) (- omin) BBound ltac:(discriminate)) as E2.
    destruct (squeeze_inc (- b) (qneg_list h) (- omin) BBound) as [b' h']. cbn [fst snd] in *. subst b'.
    split; [lra|]. intros _ Hr. specialize (E2 Hr). rewrite qsum_qneg. lra.
  - pose proof (squeeze_inc_bias (- b) (qneg_list h) (- omin) BClamped) as E1.
    pose proof (squeeze_inc_fits (- b) (qneg_list h) (- omin) BClamped ltac:(discriminate)) as E2.
    destruct (squeeze_inc (- b) (qneg_list h) (- omin) BClamped) as [b' h']. cbn [fst snd] in *. subst b'.
    split; [lra|]. intros _ Hr. specialize (E2 Hr). rewrite qsum_qneg. lra.
Qed.

Lemma fin_h2_nonneg c n h : pwl_valid c n -> p_mono c = 1%Z -> Forall (fun x => 0 <= x) (fin_h2 c h).
Proof. intros (_ & _ & HL & _) Hm. unfold fin_h2, fin_h1. rewrite Hm. cbn [Z.eqb].
  pose proof (project_monotonicity_inc h). destruct (p_conv c =? 0)%Z; [assumption|].
  apply approx_convexity_nonneg; assumption. Qed.
Lemma fin_h2_nonpos c n h : pwl_valid c n -> p_mono c = (-1)%Z -> Forall (fun x => x <= 0) (fin_h2 c h).
Proof. intros (_ & _ & HL & _) Hm. unfold fin_h2, fin_h1. rewrite Hm. cbn [Z.eqb].
  pose proof (project_monotonicity_dec h). destruct (p_conv c =? 0)%Z; [assumption|].
  apply approx_convexity_nonpos; assumption. Qed.

(* ---------------- the result of project_all_constraints ---------------- *)
Section Room.
Variables (c : pwl_cfg) (n : nat) (bias : Q) (hs : list Q).
Hypothesis V : pwl_valid c n.
Hypothesis HL : length hs = n.
Hypothesis Hconv : p_conv c <> 0%Z.
Let b := pwl_loop_bias c bias hs.
Let R := pwl_project_col c (bias :: hs).

Lemma room_result_eq : has_bounds c = true -> p_mono c <> 0%Z ->
  let st := pwl_loop_state c bias hs in
  R = fst (squeeze (p_mono c) b (fin_h2 c (d_h st)) (p_min c) (p_max c) (p_cmin c) (p_cmax c)) ::
      snd (squeeze (p_mono c) b (fin_h2 c (d_h st)) (p_min c) (p_max c) (p_cmin c) (p_cmax c)).
Proof.
  intros Hb Hm st. unfold R. rewrite (pwl_project_col_loop c bias hs Hb Hm). cbv zeta.
  rewrite pwl_finalize_eq, Hb.
  replace (negb (p_mono c =? 0)%Z && negb (p_conv c =? 0)%Z)%bool with true.
  2:{ destruct (Z.eqb_spec (p_mono c) 0); [contradiction|]. destruct (Z.eqb_spec (p_conv c) 0); [contradiction|]. reflexivity. }
  reflexivity.
Qed.

(* increasing: the lower bound needs only  output_min <= bias *)
Lemma room_inc_lower : p_mono c = 1%Z -> p_cmin c <> BNone -> p_min c <= b ->
  Forall (fun s => p_min c <= s) (keypoint_outputs R).
Proof.
  intros Hm Hc Hlo. unfold keypoint_outputs.
  rewrite (room_result_eq (has_bounds_true c (or_introl Hc)) ltac:(rewrite Hm; discriminate)). cbv zeta.
  rewrite Hm. unfold squeeze. cbn [Z.eqb]. apply outputs_nonneg_lo.
  - apply squeeze_inc_nonneg. eapply fin_h2_nonneg; eassumption.
  - rewrite squeeze_inc_bias. exact Hlo.
Qed.

(* increasing: the upper bound needs room for the squeeze *)
Lemma room_inc_upper : p_mono c = 1%Z -> p_cmax c <> BNone -> qlt (1 # 1000) (p_max c - b) = true ->
  Forall (fun s => s <= p_max c) (keypoint_outputs R).
Proof.
  intros Hm Hc Hr. unfold keypoint_outputs.
  rewrite (room_result_eq (has_bounds_true c (or_intror Hc)) ltac:(rewrite Hm; discriminate)). cbv zeta.
  rewrite Hm. unfold squeeze. cbn [Z.eqb]. apply outputs_nonneg_hi.
  - apply squeeze_inc_nonneg. eapply fin_h2_nonneg; eassumption.
  - rewrite squeeze_inc_bias. apply squeeze_inc_fits; assumption.
Qed.

(* decreasing: the upper bound needs only  bias <= output_max *)
Lemma room_dec_upper : p_mono c = (-1)%Z -> p_cmax c <> BNone -> b <= p_max c ->
  Forall (fun s => s <= p_max c) (keypoint_outputs R).
Proof.
  intros Hm Hc Hhi. unfold keypoint_outputs.
  rewrite (room_result_eq (has_bounds_true c (or_intror Hc)) ltac:(rewrite Hm; discriminate)). cbv zeta.
  rewrite Hm. apply outputs_nonpos_hi.
  - apply squeeze_nonpos. eapply fin_h2_nonpos; eassumption.
  - match goal with |- fst (squeeze _ ?bb ?hh ?a1 ?a2 ?a3 ?a4) <= _ =>
      destruct (squeeze_dec_facts bb hh a1 a2 a3 a4) as [E _] end. rewrite E. exact Hhi.
Qed.

(* decreasing: the lower bound needs room for the (mirrored) squeeze *)
Lemma room_dec_lower : p_mono c = (-1)%Z -> p_cmin c <> BNone -> qlt (1 # 1000) (- p_min c - - b) = true ->
  Forall (fun s => p_min c <= s) (keypoint_outputs R).
Proof.
  intros Hm Hc Hr. unfold keypoint_outputs.
  rewrite (room_result_eq (has_bounds_true c (or_introl Hc)) ltac:(rewrite Hm; discriminate)). cbv zeta.
  rewrite Hm. apply outputs_nonpos_lo.
  - apply squeeze_nonpos. eapply fin_h2_nonpos; eassumption.
  - match goal with |- _ <= fst (squeeze _ ?bb ?hh ?a1 ?a2 ?a3 ?a4) + _ =>
      destruct (squeeze_dec_facts bb hh a1 a2 a3 a4) as [E F] end. rewrite E. apply F; assumption.
Qed.

Theorem pwl_bounds_room : p_mono c <> 0%Z -> squeeze_bias_has_room c b ->
  (p_cmin c <> BNone -> Forall (fun s => p_min c <= s) (keypoint_outputs R)) /\
  (p_cmax c <> BNone -> Forall (fun s => s <= p_max c) (keypoint_outputs R)).
Proof.
  intros Hm0 [H1 H2]. destruct V as (_ & _ & _ & Hm & _).
  destruct Hm as [Hm|[Hm|Hm]]; [|contradiction|].
  - destruct (H2 Hm) as [A B]. split; intros G.
    + apply room_dec_lower; auto.
    + apply room_dec_upper; auto.
  - destruct (H1 Hm) as [A B]. split; intros G.
    + apply room_inc_lower; auto.
    + apply room_inc_upper; auto.
Qed.

Definition out_of_bounds (w : list Q) : Prop :=
  exists s, In s (keypoint_outputs w) /\ ((p_cmin c <> BNone /\ s < p_min c) \/ (p_cmax c <> BNone /\ p_max c < s)).

Theorem pwl_bounds_failure_no_room : p_mono c <> 0%Z -> out_of_bounds R -> ~ squeeze_bias_has_room c b.
Proof.
  intros Hm0 (s & Hin & Hs) Hroom. destruct (pwl_bounds_room Hm0 Hroom) as [Hlo Hhi].
  destruct Hs as [[G L]|[G L]].
  - specialize (Hlo G). rewrite Forall_forall in Hlo. specialize (Hlo s Hin). lra.
  - specialize (Hhi G). rewrite Forall_forall in Hhi. specialize (Hhi s Hin). lra.
Qed.

Lemma bct_none_dec (x : bct) : {x = BNone} + {x <> BNone}.
Proof. destruct x; [left; reflexivity|right; discriminate|right; discriminate]. Qed.

(* the explicit form: WHICH side had no room *)
Theorem pwl_bounds_failure_no_room_explicit : p_mono c <> 0%Z -> out_of_bounds R -> squeeze_bias_no_room c b.
Proof.
  intros Hm0 (s & Hin & Hs). pose proof V as (_ & _ & _ & Hm & _).
  unfold squeeze_bias_no_room.
  destruct Hm as [Hm|[Hm|Hm]]; [right|contradiction|left]; (split; [exact Hm|]).
  - (* decreasing *)
    destruct Hs as [[G L]|[G L]].
    + right. split; [exact G|]. destruct (Qlt_le_dec (1 # 1000) (b - p_min c)) as [Hlt|Hle]; [exfalso|exact Hle].
      assert (Hr : qlt (1 # 1000) (- p_min c - - b) = true) by (apply qlt_true; lra).
      pose proof (room_dec_lower Hm G Hr) as F. rewrite Forall_forall in F. specialize (F s Hin). lra.
    + left. split; [exact G|]. destruct (Qlt_le_dec (p_max c) b) as [Hlt|Hle]; [exact Hlt|exfalso].
      pose proof (room_dec_upper Hm G Hle) as F. rewrite Forall_forall in F. specialize (F s Hin). lra.
  - (* increasing *)
    destruct Hs as [[G L]|[G L]].
    + left. split; [exact G|]. destruct (Qlt_le_dec b (p_min c)) as [Hlt|Hle]; [exact Hlt|exfalso].
      pose proof (room_inc_lower Hm G Hle) as F. rewrite Forall_forall in F. specialize (F s Hin). lra.
    + right. split; [exact G|]. destruct (Qlt_le_dec (1 # 1000) (p_max c - b)) as [Hlt|Hle]; [exfalso|exact Hle].
      assert (Hr : qlt (1 # 1000) (p_max c - b) = true) by (apply qlt_true; exact Hlt).
      pose proof (room_inc_upper Hm G Hr) as F. rewrite Forall_forall in F. specialize (F s Hin). lra.
Qed.
End Room.

Print Assumptions pwl_bounds_room.
Print Assumptions pwl_bounds_failure_no_room.
Print Assumptions pwl_bounds_failure_no_room_explicit.

(* ---------------- the near bound is automatic after one iteration ---------------- *)
(* the bounds step of the Dykstra body puts the bias inside the near bound:
   with at least one iteration only the room towards the far bound matters *)
Lemma bmi_bias_ge_min b h omin omax cmin cmax : cmin <> BNone ->
  omin <= fst (bounds_mono_inc b h omin omax cmin cmax).
Proof.
  intros Hc. unfold bounds_mono_inc. destruct cmax, cmin; try congruence; cbn [fst bct_eqb]; rewrite ?Qred_correct;
    try apply Qle_refl; try apply qmax_r.
Qed.

Lemma bounds_mono_bias_near m b h omin omax cmin cmax :
  (m = 1%Z -> cmin <> BNone -> omin <= fst (bounds_mono m b h omin omax cmin cmax)) /\
  (m = (-1)%Z -> cmax <> BNone -> fst (bounds_mono m b h omin omax cmin cmax) <= omax).
Proof.
  unfold bounds_mono. split; intros -> Hc; cbn [Z.eqb Z.opp Pos.eqb].
  - apply bmi_bias_ge_min; exact Hc.
  - pose proof (bmi_bias_ge_min (- b) (qneg_list h) (- omax) (- omin) cmax cmin Hc) as H.
    destruct (bounds_mono_inc (- b) (qneg_list h) (- omax) (- omin) cmax cmin) as [b' h']. cbn [fst] in *. lra.
Qed.

Lemma loop_bias_near c bias hs : (1 <= p_iters c)%nat ->
  (p_mono c = 1%Z -> p_cmin c <> BNone -> p_min c <= pwl_loop_bias c bias hs) /\
  (p_mono c = (-1)%Z -> p_cmax c <> BNone -> pwl_loop_bias c bias hs <= p_max c).
Proof.
  intros Hk. unfold pwl_loop_bias, pwl_loop_state. destruct (p_iters c) as [|k]; [lia|].
  rewrite dyk_iter_S_last, body_state. cbn [d_bias]. set (st := dyk_iter c k (dyk_init bias hs)).
  unfold s1_bias, bnd_res. split; intros Hm Hc.
  - rewrite (has_bounds_true c (or_introl Hc)), Hm. cbn [Z.eqb]. apply bounds_mono_bias_near; auto.
  - rewrite (has_bounds_true c (or_intror Hc)), Hm. cbn [Z.eqb]. apply bounds_mono_bias_near; auto.
Qed.

(* room towards the far bound only *)
Definition squeeze_far_room (c : pwl_cfg) (b : Q) : Prop :=
  (p_mono c = 1%Z -> p_cmax c <> BNone -> 1 # 1000 < p_max c - b) /\
  (p_mono c = (-1)%Z -> p_cmin c <> BNone -> 1 # 1000 < b - p_min c).

Lemma far_room_has_room c bias hs : (1 <= p_iters c)%nat ->
  squeeze_far_room c (pwl_loop_bias c bias hs) -> squeeze_bias_has_room c (pwl_loop_bias c bias hs).
Proof.
  intros Hk [F1 F2]. apply squeeze_bias_has_room_iff. destruct (loop_bias_near c bias hs Hk) as [N1 N2].
  split; intros Hm; split; intros G; auto.
Qed.

Theorem pwl_bounds_far_room c n bias hs : pwl_valid c n -> length hs = n ->
  p_mono c <> 0%Z -> p_conv c <> 0%Z -> (1 <= p_iters c)%nat ->
  squeeze_far_room c (pwl_loop_bias c bias hs) ->
  (p_cmin c <> BNone -> Forall (fun s => p_min c <= s) (keypoint_outputs (pwl_project_col c (bias :: hs)))) /\
  (p_cmax c <> BNone -> Forall (fun s => s <= p_max c) (keypoint_outputs (pwl_project_col c (bias :: hs)))).
Proof.
  intros V HL Hm Hc Hk Hr. apply (pwl_bounds_room c n bias hs V Hc Hm). apply far_room_has_room; assumption.
Qed.

(* C04_bounds and the room theorem in one statement: the bounds hold for EVERY
   accepted configuration unless (monotone and convex and) the squeeze has no room *)
Theorem pwl_bounds_unless_no_room c n bias hs : pwl_valid c n -> length hs = n ->
  (p_mono c <> 0%Z -> p_conv c <> 0%Z -> squeeze_bias_has_room c (pwl_loop_bias c bias hs)) ->
  (p_cmin c <> BNone -> Forall (fun s => p_min c <= s) (keypoint_outputs (pwl_project_col c (bias :: hs)))) /\
  (p_cmax c <> BNone -> Forall (fun s => s <= p_max c) (keypoint_outputs (pwl_project_col c (bias :: hs)))).
Proof.
  intros V HL Hr. destruct (Z.eq_dec (p_mono c) 0) as [Em|Em].
  - apply (pwl_bounds c n); auto. intros [H _]; auto.
  - destruct (Z.eq_dec (p_conv c) 0) as [Ec|Ec].
    + apply (pwl_bounds c n); auto. intros [_ H]; auto.
    + apply (pwl_bounds_room c n bias hs V Ec Em). apply Hr; assumption.
Qed.

(* ---------------- examples ---------------- *)
(* increasing + convex in [0, 4]: the Dykstra bias is 1/3, room 11/3 > 0.001 *)
Definition room_cfg : pwl_cfg := mkPwl 1 1 0 4 BBound BBound [1; 1] 2.
Example room_example :
  pwl_valid room_cfg 2 /\ p_mono room_cfg <> 0%Z /\ p_conv room_cfg <> 0%Z /\
  squeeze_bias_has_room room_cfg (pwl_loop_bias room_cfg 1 [2; 3]).
Proof.
  split. { unfold pwl_valid, room_cfg; cbn. split; [lia|]. split; [reflexivity|]. split; [repeat constructor|].
           split; [auto|]. split; [auto|]. split. intros _ _; discriminate. intros [H|H]; discriminate. }
  split; [discriminate|]. split; [discriminate|].
  split; intros Hm; [|discriminate Hm]. split; intros _.
  - apply Qle_bool_iff. vm_compute. reflexivity.
  - vm_compute. reflexivity.
Qed.

(* the D2 witness of pwl_bounds_refuted_monotone_convex is out of bounds, so
   (theorem pwl_bounds_failure_no_room_explicit) its squeeze had no room *)
Definition d2_cfg : pwl_cfg := mkPwl (-1) 1 (-3) (-3) BBound BNone [1; 1] 1.
Example no_room_example :
  pwl_valid d2_cfg 2 /\ p_mono d2_cfg <> 0%Z /\ p_conv d2_cfg <> 0%Z /\
  out_of_bounds d2_cfg (pwl_project_col d2_cfg [-129#4; -10; 55#4]) /\
  squeeze_bias_no_room d2_cfg (pwl_loop_bias d2_cfg (-129#4) [-10; 55#4]).
Proof.
  assert (V : pwl_valid d2_cfg 2).
  { unfold pwl_valid, d2_cfg; cbn. split; [lia|]. split; [reflexivity|]. split; [repeat constructor|].
    split; [auto|]. split; [auto|]. split. intros _ H; exfalso; apply H; reflexivity. intros [H|H]; discriminate. }
  assert (O : out_of_bounds d2_cfg (pwl_project_col d2_cfg [-129#4; -10; 55#4])).
  { exists (-95#4). split. vm_compute. left; reflexivity. left. split; [discriminate|reflexivity]. }
  split; [exact V|]. split; [discriminate|]. split; [discriminate|]. split; [exact O|].
  apply (pwl_bounds_failure_no_room_explicit d2_cfg 2 (-129#4) [-10; 55#4] V); [discriminate|discriminate|exact O].
Qed.

Print Assumptions pwl_bounds_far_room.
Print Assumptions pwl_bounds_unless_no_room.

(* ---------------- the statements used by Props/C04.v ---------------- *)
Lemma pwl_bounds_monotone_convex_room c n bias hs : pwl_valid c n -> length hs = n ->
  p_mono c <> 0%Z -> p_conv c <> 0%Z ->
  squeeze_bias_has_room c (pwl_loop_bias c bias hs) ->
  (p_cmin c <> BNone -> Forall (fun s => p_min c <= s) (keypoint_outputs (pwl_project_col c (bias :: hs)))) /\
  (p_cmax c <> BNone -> Forall (fun s => s <= p_max c) (keypoint_outputs (pwl_project_col c (bias :: hs)))).
Proof. intros V _ Hm Hc. apply (pwl_bounds_room c n bias hs V Hc Hm). Qed.

Lemma pwl_bounds_monotone_convex_failure c n bias hs : pwl_valid c n -> length hs = n ->
  p_mono c <> 0%Z -> p_conv c <> 0%Z ->
  (exists s, In s (keypoint_outputs (pwl_project_col c (bias :: hs))) /\
             ((p_cmin c <> BNone /\ s < p_min c) \/ (p_cmax c <> BNone /\ p_max c < s))) ->
  ~ squeeze_bias_has_room c (pwl_loop_bias c bias hs) /\ squeeze_bias_no_room c (pwl_loop_bias c bias hs).
Proof. intros V _ Hm Hc O. split.
  - apply (pwl_bounds_failure_no_room c n bias hs V Hc Hm O).
  - apply (pwl_bounds_failure_no_room_explicit c n bias hs V Hc Hm O). Qed.
