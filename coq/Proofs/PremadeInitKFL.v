(* C03 x C10, part 5: the parameters with which a KroneckerFactoredLattice layer
   is built by the premade builders (build_lattice_layer / build_rtl_layer with
   parameterization='kronecker_factored') satisfy kfl_feasible, the invariant of
   C03_reachable_feasible_kfl:
     scale   ScaleInitializer(output_min, output_max)            (MK.scale_init, C07's model)
     bias    BiasInitializer(output_min, output_max)             (MK.bias_init)
     kernel  kfl_random_monotonic_initializer(monotonicities, init range, scale = the
             initial scale)  per column: KFLInit.kfl_init_col (C10's model), for EVERY
             tf.random.uniform draw inside the init range
   init range = kfl_lib.default_init_params(output_min, output_max) (premade_lib._output_range)
   or [0, 1] under an output calibrator. *)
From TFL Require Import Model.Premade Proofs.Premade Model.PremadeKFL Proofs.PremadeKFL Proofs.PremadeInit.
From TFL Require Import Model.KFLInit Proofs.KFLInit Proofs.C10Pack.
Open Scope Q_scope.

Definition kfl_monos_list (c : MK.config) : list bool := match MK.c_monos c with Some l => l | None => [] end.

(* samples u t d = the raw tf.random.uniform column of (unit u, term t, input dimension d) *)
Definition premade_kfl_init (c : MK.config) (dims units terms : nat) (samples : nat -> nat -> nat -> list Q) : MK.params :=
  let ms := kfl_monos_list c in
  let any := (0 <? MK.count_true ms)%nat in
  MK.mkPar
    (map (fun u => map (fun t => map (fun d =>
        kfl_init_col any (nth d ms false) (MK.scale_init1 (MK.c_min c) (MK.c_max c) t) (samples u t d))
      (seq 0 dims)) (seq 0 terms)) (seq 0 units))
    (MK.scale_init c units terms) (MK.bias_init c units).

Definition kfl_samples_ok (c : MK.config) (dims units terms : nat) (imin imax : Q)
           (samples : nat -> nat -> nat -> list Q) : Prop :=
  forall u t d, (u < units)%nat -> (t < terms)%nat -> (d < dims)%nat ->
    length (samples u t d) = MK.c_size c /\ forall x, In x (samples u t d) -> imin <= x /\ x <= imax.

(* ---- list helpers ---- *)
Lemma Forall2_repeat_map_seq {A B} (P : A -> B -> Prop) x (F : nat -> B) : forall n a,
  (forall u, (a <= u < a + n)%nat -> P x (F u)) -> Forall2 P (repeat x n) (map F (seq a n)).
Proof. induction n as [|n IH]; intros a H; cbn. constructor. constructor. apply H; lia. apply IH. intros u Hu. apply H; lia. Qed.
Lemma Forall2_map_seq {A B} (P : A -> B -> Prop) (G : nat -> A) (F : nat -> B) : forall n a,
  (forall u, (a <= u < a + n)%nat -> P (G u) (F u)) -> Forall2 P (map G (seq a n)) (map F (seq a n)).
Proof. induction n as [|n IH]; intros a H; cbn. constructor. constructor. apply H; lia. apply IH. intros u Hu. apply H; lia. Qed.
Lemma Forall2_nth_map_seq {A B} (R : A -> B -> Prop) (F : nat -> B) da : forall l a,
  (forall d, (d < length l)%nat -> R (nth d l da) (F (a + d)%nat)) -> Forall2 R l (map F (seq a (length l))).
Proof. induction l as [|x l IH]; intros a H; cbn. constructor. constructor.
  - specialize (H 0%nat ltac:(cbn; lia)). rewrite Nat.add_0_r in H. exact H.
  - apply IH. intros d Hd. specialize (H (S d) ltac:(cbn; lia)). cbn in H. replace (S a + d)%nat with (a + S d)%nat by lia. exact H. Qed.

Lemma sorted_of_nth : forall v, (forall i, (S i < length v)%nat -> nth i v 0 <= nth (S i) v 0) -> PK.sorted v.
Proof. induction v as [|a r IH]; intros H. exact I. destruct r as [|b r']. exact I. split.
  - exact (H 0%nat ltac:(cbn; lia)).
  - apply IH. intros i Hi. apply (H (S i)). cbn in *. lia. Qed.
Lemma rsorted_of_nth : forall v, (forall i, (S i < length v)%nat -> nth (S i) v 0 <= nth i v 0) -> PK.rsorted v.
Proof. induction v as [|a r IH]; intros H. exact I. destruct r as [|b r']. exact I. split.
  - exact (H 0%nat ltac:(cbn; lia)).
  - apply IH. intros i Hi. apply (H (S i)). cbn in *. lia. Qed.

Lemma mk_qprod_le1 l : Forall (fun x => 0 <= x /\ x <= 1) l -> 0 <= MK.qprod l /\ MK.qprod l <= 1.
Proof. induction 1 as [|x l [H0 H1] _ IH]; cbn [MK.qprod]. lra. destruct IH as [I0 I1].
  split. apply qmul_nonneg; assumption. pose proof (qmul_le_l x (MK.qprod l) 1 H0 I1). lra. Qed.
Lemma maxabs_unit v : (forall x, In x v -> 0 <= x /\ x <= 1) -> 0 <= MK.maxabs v /\ MK.maxabs v <= 1.
Proof. intros H. split. apply PK.maxabs_nonneg. unfold MK.maxabs. destruct v as [|a v]. cbn; lra.
  apply qmaxl_lub. cbn; congruence. intros y Hy. apply in_map_iff in Hy. destruct Hy as [x [<- Hx]].
  destruct (H x Hx). qcases; lra. Qed.

Lemma canon_some c ms : MK.canon_monos (MK.c_monos c) = Some ms -> kfl_monos_list c = ms.
Proof. unfold MK.canon_monos, kfl_monos_list. destruct (MK.c_monos c) as [[|b l]|]; intros H; inversion H; reflexivity. Qed.

Lemma scale_init1_nonzero lo hi t : PK.bounds_ok lo hi -> ~ MK.scale_init1 lo hi t == 0.
Proof. intros Hb. unfold MK.scale_init1. destruct lo as [a|], hi as [b|]; try (destruct (Nat.even t)); try lra.
  all: specialize (Hb a b eq_refl eq_refl); lra. Qed.
Lemma scale_init1_sgood c t : PK.bounds_ok (MK.c_min c) (MK.c_max c) -> PK.sgood c (MK.scale_init1 (MK.c_min c) (MK.c_max c) t).
Proof. intros Hb. unfold PK.sgood, MK.scale_init1. destruct (MK.c_min c) as [a|], (MK.c_max c) as [b|]; try lra; try exact I.
  specialize (Hb a b eq_refl eq_refl). destruct (Nat.even t); split; lra. Qed.

(* ---- one (unit, term) ---- *)
Lemma kfl_init_term c dims imin imax s (smp : nat -> list Q) :
  PK.cfg_ok c dims -> 0 <= imin -> (MK.has_bounds c = true -> imax <= 1) -> ~ s == 0 ->
  (forall d, (d < dims)%nat -> length (smp d) = MK.c_size c /\ forall x, In x (smp d) -> imin <= x /\ x <= imax) ->
  let ms := kfl_monos_list c in
  let vs := map (fun d => kfl_init_col (0 <? MK.count_true ms)%nat (nth d ms false) s (smp d)) (seq 0 dims) in
  PK.tshape (MK.c_size c) dims vs /\ PK.kgood c s vs.
Proof. intros (HL & Hd & Hb & Hms) Hi0 Hi1 Hs Hsmp ms vs.
  set (any := (0 <? MK.count_true ms)%nat) in *.
  assert (Hcol : forall d, (d < dims)%nat ->
            let col := kfl_init_col any (nth d ms false) s (smp d) in
            length col = MK.c_size c /\ (forall x, In x col -> imin <= x /\ x <= imax) /\
            (any = true -> nth d ms false = true -> forall i, (S i < length col)%nat ->
               qsign s * nth i col 0 <= qsign s * nth (S i) col 0)).
  { intros d Hdd col. destruct (Hsmp d Hdd) as [Hlen Hr].
    destruct (pack_C10_kfl_init_kernel any (nth d ms false) s (smp d) imin imax Hs Hr) as (A & B & C).
    split. unfold col. rewrite A. exact Hlen. split. exact B. exact C. }
  assert (Hin : forall v, In v vs -> exists d, (d < dims)%nat /\ v = kfl_init_col any (nth d ms false) s (smp d)).
  { intros v Hv. unfold vs in Hv. apply in_map_iff in Hv. destruct Hv as [d [<- Hdd]]. apply in_seq in Hdd.
    exists d. split. lia. reflexivity. }
  assert (Hnn : PK.tnonneg vs).
  { apply Forall_forall. intros v Hv. destruct (Hin v Hv) as [d [Hdd ->]]. apply Forall_forall. intros x Hx.
    destruct (Hcol d Hdd) as (_ & B & _). destruct (B x Hx). lra. }
  split; [|split; [|split]].
  - split. unfold vs. rewrite map_length, seq_length. reflexivity.
    apply Forall_forall. intros v Hv. destruct (Hin v Hv) as [d [Hdd ->]]. apply (Hcol d Hdd).
  - intros ms' E Hc. pose proof (canon_some c ms' E) as Ems. fold ms in Ems.
    assert (Hany : any = true) by (unfold any; rewrite Ems; apply Nat.ltb_lt; exact Hc).
    assert (Hlen : length ms' = dims) by (apply Hms; exact E).
    destruct (KFLInit.qsign_cases s) as [[Hpos Eq]|[[Hneg Eq]|[Hz _]]]; [right; left|right; right|contradiction].
    + split. exact Hpos. split. exact Hnn. unfold vs. rewrite <- Hlen. rewrite <- Ems.
      apply (Forall2_nth_map_seq _ _ false). intros d Hdd Hm. cbn [Nat.add].
      assert (Hd' : (d < dims)%nat) by (rewrite <- Hlen, <- Ems; exact Hdd).
      destruct (Hcol d Hd') as (_ & _ & C). apply sorted_of_nth. intros i Hi.
      specialize (C Hany Hm i Hi). rewrite Eq in C. lra.
    + split. exact Hneg. split. exact Hnn. unfold vs. rewrite <- Hlen. rewrite <- Ems.
      apply (Forall2_nth_map_seq _ _ false). intros d Hdd Hm. cbn [Nat.add].
      assert (Hd' : (d < dims)%nat) by (rewrite <- Hlen, <- Ems; exact Hdd).
      destruct (Hcol d Hd') as (_ & _ & C). apply rsorted_of_nth. intros i Hi.
      specialize (C Hany Hm i Hi). rewrite Eq in C. lra.
  - intros H1 H2. assert (Hhb : MK.has_bounds c = true) by (unfold MK.has_bounds; rewrite H1; reflexivity).
    specialize (Hi1 Hhb). unfold PK.prodmax. apply mk_qprod_le1. apply Forall_forall. intros y Hy.
    apply in_map_iff in Hy. destruct Hy as [v [<- Hv]]. destruct (Hin v Hv) as [d [Hdd ->]].
    apply maxabs_unit. intros x Hx. destruct (Hcol d Hdd) as (_ & B & _). destruct (B x Hx). lra.
  - intros _. exact Hnn. Qed.

(* ---- the layer ---- *)
Theorem kfl_init_feasible c dims units terms imin imax samples :
  PK.cfg_ok c dims -> 0 <= imin -> (MK.has_bounds c = true -> imax <= 1) ->
  kfl_samples_ok c dims units terms imin imax samples ->
  kfl_feasible c dims (premade_kfl_init c dims units terms samples).
Proof. intros Hc Hi0 Hi1 Hsm. pose proof Hc as (_ & _ & Hb & _). split.
  - cbn [premade_kfl_init MK.p_scale MK.p_kern]. unfold MK.scale_init.
    apply Forall2_repeat_map_seq. intros u Hu. apply Forall2_map_seq. intros t Ht.
    destruct (kfl_init_term c dims imin imax (MK.scale_init1 (MK.c_min c) (MK.c_max c) t) (samples u t) Hc Hi0 Hi1
                (scale_init1_nonzero _ _ t Hb)) as [A B].
    { intros d Hd. apply Hsm; lia. }
    split. exact A. split. exact B. apply scale_init1_sgood. exact Hb.
  - intros _. cbn [premade_kfl_init MK.p_bias]. unfold MK.bias_init. apply Forall_forall. intros b Hin.
    apply repeat_spec in Hin. subst b. reflexivity. Qed.

(* ---- the premade KFL layers ---- *)
Record kfl_spec := mkKflS {
  ks_root : nat -> Q -> Q; ks_cfg : MK.config; ks_dims : nat; ks_steps : list MK.step;
  ks_units : nat; ks_terms : nat; ks_range : layer_range; ks_samples : nat -> nat -> nat -> list Q }.
Definition kfl_spec_init (s : kfl_spec) : MK.params :=
  premade_kfl_init (ks_cfg s) (ks_dims s) (ks_units s) (ks_terms s) (ks_samples s).
Definition kfl_spec_desc (s : kfl_spec) : kfl_desc :=
  mkKflD (ks_root s) (ks_cfg s) (ks_dims s) (ks_steps s) (kfl_spec_init s).
(* validity of the configuration and of the random oracle; NO statement about the
   initial parameters.  The layer is the model output or feeds the output calibrator. *)
Definition kfl_spec_ok (s : kfl_spec) : Prop :=
  PK.root_ok (ks_root s) /\ PK.cfg_ok (ks_cfg s) (ks_dims s) /\
  PK.hasK (ks_steps s) = true /\ PK.hasS (ks_steps s) = true /\
  (forall z, ks_range s <> InputToLattice z) /\
  MK.c_min (ks_cfg s) = fst (output_range (ks_range s)) /\ MK.c_max (ks_cfg s) = snd (output_range (ks_range s)) /\
  kfl_samples_ok (ks_cfg s) (ks_dims s) (ks_units s) (ks_terms s)
    (fst (premade_init_range (ks_range s) true [])) (snd (premade_init_range (ks_range s) true [])) (ks_samples s).

Lemma kfl_init_range_ok c r : (forall z, r <> InputToLattice z) ->
  MK.c_min c = fst (output_range r) -> MK.c_max c = snd (output_range r) ->
  0 <= fst (premade_init_range r true []) /\ (MK.has_bounds c = true -> snd (premade_init_range r true []) <= 1).
Proof. intros Hn E1 E2. destruct r as [z|lo hi|]; cbn [premade_init_range output_range fst snd] in *.
  - destruct (Hn z eq_refl).
  - unfold MK.has_bounds. rewrite E1, E2. unfold kfl_default_init_params.
    destruct lo, hi; cbn [fst snd MK.is_some orb]; split; try lra; intros; try lra; discriminate.
  - split; intros; lra. Qed.

Theorem init_feasible_kfl s : kfl_spec_ok s -> kfl_inv (kfl_spec_desc s) (kfl_spec_init s).
Proof. intros (_ & Hc & _ & _ & Hn & E1 & E2 & Hsm). destruct (kfl_init_range_ok _ _ Hn E1 E2) as [H0 H1].
  unfold kfl_inv, kfl_spec_desc, kfl_spec_init; cbn [kd_cfg kd_dims].
  exact (kfl_init_feasible _ _ _ _ _ _ _ Hc H0 H1 Hsm). Qed.

Lemma kfl_spec_desc_ok s : kfl_spec_ok s -> kfl_desc_ok (kfl_spec_desc s).
Proof. intros H. pose proof (init_feasible_kfl s H) as Hi. destruct H as (Hr & Hc & HK & HS & _).
  split. exact Hr. split. exact Hc. split. exact HK. split. exact HS. exact Hi. Qed.

Theorem reachable_feasible_kfl_from_init ss ops : (forall s, In s ss -> kfl_spec_ok s) ->
  ops_shaped MK.params kfl_desc kfl_shape (map kfl_spec_desc ss) ops ->
  forall st, In st (run (map kfl_var (map kfl_spec_desc ss)) ops) -> Forall2 kfl_inv (map kfl_spec_desc ss) st.
Proof. intros H. apply reachable_feasible_kfl.
  exact (in_map_desc kfl_spec_desc kfl_desc_ok kfl_spec_ok ss kfl_spec_desc_ok H). Qed.

(* ---- the hypotheses are satisfiable: one unit, two terms (scales +1 and -1),
   one monotone input, bounds [-1, 1]; the same unsorted draw for both terms ---- *)
Definition ex_kfl (steps : list MK.step) : kfl_spec :=
  mkKflS (fun _ x => x) lk_cfg 1 steps 1 2 (ModelOutput (Some (-(1))) (Some 1)) (fun _ _ _ => [3#4; 1#4]).
Example ex_kfl_ok : kfl_spec_ok (ex_kfl [MK.StepS; MK.StepK]) /\ kfl_spec_ok (ex_kfl [MK.StepK; MK.StepS]).
Proof. split; (split; [exact PK.root_ok_id|split; [exact lk_cfg_ok|split; [reflexivity|split; [reflexivity|]]]]);
  (split; [intros z; discriminate|split; [reflexivity|split; [reflexivity|]]]);
  intros u t d _ _ _; (split; [reflexivity|]); intros x Hx; cbn in Hx |- *;
  destruct Hx as [<-|[<-|[]]]; lra. Qed.
Example ex_kfl_value : forall steps,
  MK.p_kern (kfl_spec_init (ex_kfl steps)) = [[ [[1#4; 3#4]]; [[3#4; 1#4]] ]] /\
  Forall2 (Forall2 Qeq) (MK.p_scale (kfl_spec_init (ex_kfl steps))) [[1; -(1)]].
Proof. intros steps. split. vm_compute. reflexivity. repeat constructor; vm_compute; reflexivity. Qed.
