(* Simplex interpolation: theory of Model/LatticeInterp.v's simplex_unit.
   The computation is a walk over the descending-sorted (residual, dimension)
   pairs:  out = sum_j (r_(j) - r_(j+1)) * K[corner + e_s1 + ... + e_sj].
   Part 1 (this half): properties of the walk and of the sort, independent of
   how the kernel is stored. *)
From Coq Require Import Permutation Qround.
From TFL Require Export Model.LatticeInterp Proofs.Interp1D.
Open Scope Q_scope.

Definition bump (v : idx) (d : nat) : idx := upd v d (S (nth d v 0%nat)).

Fixpoint walk (K : tens) (prev : Q) (v : idx) (l : list (Q * nat)) : Q :=
  match l with
  | [] => prev * K v
  | (r, d) :: l' => (prev - r) * K v + walk K r (bump v d) l'
  end.

Lemma bump_comm v a b : bump (bump v a) b = bump (bump v b) a.
Proof. destruct (Nat.eq_dec a b) as [->|H]. reflexivity. unfold bump.
  rewrite (nth_upd_other v a b) by exact H. rewrite (nth_upd_other v b a) by auto. apply upd_comm. exact H. Qed.

Lemma walk_prev_eq K p p' v l : p == p' -> walk K p v l == walk K p' v l.
Proof. intros H. destruct l as [|[r d] l]; cbn [walk]; rewrite H; reflexivity. Qed.

(* ---------- equivalence of orderings that differ only in the order of ties ---------- *)
Inductive tie_eq : list (Q * nat) -> list (Q * nat) -> Prop :=
| te_refl l : tie_eq l l
| te_cons a l l' : tie_eq l l' -> tie_eq (a :: l) (a :: l')
| te_swap a b l : fst a == fst b -> tie_eq (a :: b :: l) (b :: a :: l)
| te_trans l1 l2 l3 : tie_eq l1 l2 -> tie_eq l2 l3 -> tie_eq l1 l3.

Lemma tie_eq_sym l l' : tie_eq l l' -> tie_eq l' l.
Proof. induction 1. apply te_refl. apply te_cons; assumption. apply te_swap; symmetry; assumption.
  eapply te_trans; eassumption. Qed.

Lemma tie_eq_perm l l' : tie_eq l l' -> Permutation l l'.
Proof. induction 1. apply Permutation_refl. apply perm_skip; assumption. apply perm_swap.
  eapply Permutation_trans; eassumption. Qed.

Lemma qle_eq_l a b c : a == b -> qle a c = qle b c.
Proof. intros H. destruct (qle a c) eqn:E1, (qle b c) eqn:E2; try reflexivity.
  apply qle_true in E1. apply qle_false in E2. lra. apply qle_false in E1. apply qle_true in E2. lra. Qed.

(* the walk does not see the order of ties *)
Lemma walk_tie K l l' : tie_eq l l' -> forall prev v, walk K prev v l == walk K prev v l'.
Proof. induction 1 as [l|[r d] l l' H IH|[ra da] [rb db] l H|l1 l2 l3 H1 IH1 H2 IH2]; intros prev v.
  - reflexivity.
  - cbn [walk]. rewrite IH. reflexivity.
  - cbn [walk fst] in *. rewrite (bump_comm v db da). rewrite (walk_prev_eq K ra rb _ l H). rewrite H. ring.
  - rewrite IH1. apply IH2. Qed.

Lemma insert_tie x l l' : tie_eq l l' -> tie_eq (insert_desc x l) (insert_desc x l').
Proof. induction 1 as [l|a l l' H IH|a b l H|l1 l2 l3 H1 IH1 H2 IH2].
  - apply te_refl.
  - cbn [insert_desc]. destruct (qle (fst a) (fst x)). apply te_cons, te_cons; exact H. apply te_cons; exact IH.
  - cbn [insert_desc]. rewrite (qle_eq_l _ _ (fst x) H). destruct (qle (fst b) (fst x)).
    apply te_cons, te_swap; exact H. apply te_swap; exact H.
  - eapply te_trans; eassumption. Qed.

Lemma insert_comm a b : forall s, tie_eq (insert_desc a (insert_desc b s)) (insert_desc b (insert_desc a s)).
Proof. induction s as [|c s IH].
  - cbn [insert_desc]. destruct (qle (fst b) (fst a)) eqn:E1, (qle (fst a) (fst b)) eqn:E2; try apply te_refl.
    + apply qle_true in E1, E2. apply te_swap. lra.
    + apply qle_false in E1, E2. lra.
  - cbn [insert_desc]. destruct (qle (fst c) (fst b)) eqn:Ecb, (qle (fst c) (fst a)) eqn:Eca; cbn [insert_desc]; rewrite ?Ecb, ?Eca.
    + destruct (qle (fst b) (fst a)) eqn:E1, (qle (fst a) (fst b)) eqn:E2; try apply te_refl.
      * apply qle_true in E1, E2. apply te_swap. lra.
      * apply qle_false in E1, E2. lra.
    + apply qle_true in Ecb. apply qle_false in Eca. destruct (qle (fst b) (fst a)) eqn:E1.
      apply qle_true in E1. lra. apply te_refl.
    + apply qle_false in Ecb. apply qle_true in Eca. destruct (qle (fst a) (fst b)) eqn:E1.
      apply qle_true in E1. lra. apply te_refl.
    + apply te_cons. exact IH. Qed.

(* the sorted order depends on the order of the input only through ties *)
Lemma sort_perm l l' : Permutation l l' -> tie_eq (sort_desc l) (sort_desc l').
Proof. induction 1; cbn [sort_desc fold_right].
  - apply te_refl.
  - apply insert_tie. assumption.
  - apply insert_comm.
  - eapply te_trans; eassumption. Qed.

Lemma insert_perm a s : Permutation (insert_desc a s) (a :: s).
Proof. induction s as [|c s IH]; cbn [insert_desc]. apply Permutation_refl.
  destruct (qle (fst c) (fst a)). apply Permutation_refl.
  eapply Permutation_trans. apply perm_skip; exact IH. apply perm_swap. Qed.
Lemma sort_is_perm l : Permutation (sort_desc l) l.
Proof. induction l as [|a l IH]; cbn [sort_desc fold_right]. apply Permutation_refl.
  eapply Permutation_trans. apply insert_perm. apply perm_skip; exact IH. Qed.

(* ---------- descending chains below prev, ending above 0 ---------- *)
Fixpoint chain (prev : Q) (l : list (Q * nat)) : Prop :=
  match l with [] => 0 <= prev | (r, _) :: l' => r <= prev /\ chain r l' end.

Lemma chain_nonneg : forall l prev, chain prev l -> 0 <= prev.
Proof. induction l as [|[r d] l IH]; intros prev H; cbn in H. exact H. destruct H as [H1 H2]. pose proof (IH r H2). lra. Qed.

Lemma insert_chain : forall s prev a, chain prev s -> 0 <= fst a -> fst a <= prev -> chain prev (insert_desc a s).
Proof. induction s as [|[c dc] s IH]; intros prev [r d] H H0 H1; cbn [fst] in *; cbn [insert_desc fst].
  - cbn. split; assumption.
  - destruct H as [Hc Hs]. destruct (qle c r) eqn:E.
    + apply qle_true in E. cbn. tauto.
    + apply qle_false in E. cbn [chain]. split. exact Hc. apply IH; cbn [fst]; try assumption. lra. Qed.

Lemma sort_chain l : Forall (fun p => 0 <= fst p /\ fst p <= 1) l -> chain 1 (sort_desc l).
Proof. induction 1 as [|a l Ha H IH]; cbn [sort_desc fold_right]. cbn; lra. apply insert_chain; tauto. Qed.

(* any descending arrangement is its own sort, up to ties *)
Lemma chain_sort_id : forall l prev, chain prev l -> tie_eq (sort_desc l) l.
Proof. induction l as [|[r d] l IH]; intros prev H. apply te_refl.
  cbn [sort_desc fold_right]. destruct H as [H1 H2].
  eapply te_trans. apply insert_tie. apply (IH r H2).
  destruct l as [|[c dc] l]; cbn [insert_desc fst]. apply te_refl.
  destruct H2 as [H2 _]. apply qle_true in H2. rewrite H2. apply te_refl. Qed.

(* ---------- special insertions ---------- *)
(* an element tied with prev goes first and has weight zero *)
Lemma insert_top K : forall s prev v r d, chain prev s -> r == prev ->
  walk K prev v (insert_desc (r, d) s) == walk K prev (bump v d) s.
Proof. intros s prev v r d H E.
  assert (I : insert_desc (r, d) s = (r, d) :: s).
  { destruct s as [|[c dc] s]; cbn [insert_desc fst]. reflexivity.
    destruct H as [H _]. assert (Hc : c <= r) by lra. apply qle_true in Hc. rewrite Hc. reflexivity. }
  rewrite I. cbn [walk]. rewrite (walk_prev_eq K r prev _ s E). rewrite E. ring. Qed.

Lemma walk_zero K : forall l prev v, chain prev l -> prev <= 0 -> walk K prev v l == 0.
Proof. induction l as [|[r d] l IH]; intros prev v H Hp; cbn [walk].
  - cbn in H. assert (E : prev == 0) by lra. rewrite E. ring.
  - destruct H as [H1 H2]. pose proof (chain_nonneg l r H2).
    rewrite (IH r _ H2) by lra. assert (E : prev == 0) by lra. assert (E' : r == 0) by lra. rewrite E, E'. ring. Qed.

(* an element with residual zero does not change the value *)
Lemma insert_zero K : forall s prev v r d, chain prev s -> r == 0 ->
  walk K prev v (insert_desc (r, d) s) == walk K prev v s.
Proof. induction s as [|[c dc] s IH]; intros prev v r d H E; cbn [insert_desc fst].
  - cbn [walk]. rewrite E. ring.
  - destruct H as [Hc Hs]. destruct (qle c r) eqn:Q.
    + apply qle_true in Q. pose proof (chain_nonneg s c Hs).
      cbn [walk].
      assert (Z : walk K c (bump (bump v d) dc) s == 0) by (apply walk_zero; [exact Hs|lra]).
      assert (Z' : walk K c (bump v dc) s == 0) by (apply walk_zero; [exact Hs|lra]).
      rewrite Z, Z'. assert (Ec : c == 0) by lra. rewrite E, Ec. ring.
    + cbn [walk]. rewrite (IH c (bump v dc) r d Hs E). reflexivity. Qed.

(* ---------- vertices reached by the walk stay inside the lattice ---------- *)
Definition wok (sizes : list nat) (v : idx) (l : list (Q * nat)) : Prop :=
  valid sizes v /\ NoDup (map snd l) /\ forall d, In d (map snd l) -> (S (nth d v 0%nat) < nth d sizes 0%nat)%nat.

Lemma wok_perm sizes v l l' : Permutation l l' -> wok sizes v l -> wok sizes v l'.
Proof. intros P [Hv [Hn Hd]]. pose proof (Permutation_map snd P) as P'. split; [exact Hv|split].
  eapply Permutation_NoDup; eassumption. intros d Hin. apply Hd. eapply Permutation_in. apply Permutation_sym; exact P'. exact Hin. Qed.

Lemma bump_valid sizes v d : valid sizes v -> (S (nth d v 0%nat) < nth d sizes 0%nat)%nat -> valid sizes (bump v d).
Proof. intros. apply upd_valid; assumption. Qed.

Lemma wok_step sizes v r d l : wok sizes v ((r, d) :: l) ->
  valid sizes v /\ (S (nth d v 0%nat) < nth d sizes 0%nat)%nat /\ wok sizes (bump v d) l.
Proof. intros [Hv [Hn Hd]]. cbn [map snd] in *. inversion Hn; subst.
  assert (Hb : (S (nth d v 0%nat) < nth d sizes 0%nat)%nat) by (apply Hd; left; reflexivity).
  split; [exact Hv|split; [exact Hb|]]. split; [apply bump_valid; assumption|split; [assumption|]].
  intros d' Hin. unfold bump. rewrite nth_upd_other. apply Hd; right; exact Hin. intros ->. contradiction. Qed.

Lemma wok_tail sizes v a l : wok sizes v (a :: l) -> wok sizes v l.
Proof. intros [Hv [Hn Hd]]. cbn [map] in *. inversion Hn; subst. split; [exact Hv|split; [assumption|]].
  intros d Hin. apply Hd. right; exact Hin. Qed.

(* ---------- convex combination ---------- *)
Lemma walk_bounds sizes K lo hi : (forall i, valid sizes i -> lo <= K i /\ K i <= hi) ->
  forall l prev v, chain prev l -> wok sizes v l -> lo * prev <= walk K prev v l /\ walk K prev v l <= hi * prev.
Proof. intros HK. induction l as [|[r d] l IH]; intros prev v Hc Hw; cbn [walk].
  - destruct Hw as [Hv _]. destruct (HK v Hv). cbn in Hc. split; nra.
  - destruct Hc as [H1 H2]. destruct (wok_step _ _ _ _ _ Hw) as [Hv [_ Hw']]. destruct (HK v Hv).
    destruct (IH r (bump v d) H2 Hw'). split; nra. Qed.

(* ---------- monotone in the residual of one dimension ---------- *)
Definition kmono (sizes : list nat) (K : tens) (d : nat) : Prop :=
  forall i, valid sizes i -> (S (nth d i 0%nat) < nth d sizes 0%nat)%nat -> K i <= K (bump i d).

Lemma insert_mono sizes K d : kmono sizes K d ->
  forall s prev v t t', chain prev s -> wok sizes v ((t, d) :: s) -> 0 <= t -> t <= t' -> t' <= prev ->
  walk K prev v (insert_desc (t, d) s) <= walk K prev v (insert_desc (t', d) s).
Proof. intros HK. induction s as [|[c dc] s IH]; intros prev v t t' Hc Hw H0 Htt Hp; cbn [insert_desc fst].
  - cbn [walk]. destruct (wok_step _ _ _ _ _ Hw) as [Hv [Hb _]]. pose proof (HK v Hv Hb). nra.
  - destruct Hc as [Hc Hs].
    assert (Hw' : wok sizes v ((c, dc) :: (t, d) :: s)) by (eapply wok_perm; [apply perm_swap|exact Hw]).
    destruct (wok_step _ _ _ _ _ Hw) as [Hv [Hb _]]. pose proof (HK v Hv Hb) as Kv.
    destruct (wok_step _ _ _ _ _ Hw') as [_ [_ Hw1]].
    destruct (qle c t) eqn:Q1, (qle c t') eqn:Q2.
    + cbn [walk]. nra.
    + apply qle_true in Q1. apply qle_false in Q2. lra.
    + apply qle_false in Q1. apply qle_true in Q2. cbn [walk].
      pose proof (IH c (bump v dc) t c Hs Hw1 H0 ltac:(lra) ltac:(lra)) as M.
      rewrite (insert_top K s c (bump v dc) c d Hs ltac:(reflexivity)) in M.
      rewrite (bump_comm v dc d) in M. nra.
    + apply qle_false in Q1. apply qle_false in Q2. cbn [walk].
      pose proof (IH c (bump v dc) t t' Hs Hw1 H0 Htt ltac:(lra)). lra. Qed.

(* ================= Part 2: the model's computation is such a walk ================= *)
(* the walk as the code performs it: over flat indices, by cumulative strides *)
Fixpoint walk_flat (g : Z -> Q) (f : Q * nat -> Z) (prev : Q) (ix : Z) (l : list (Q * nat)) : Q :=
  match l with
  | [] => prev * g ix
  | a :: l' => (prev - fst a) * g ix + walk_flat g f (fst a) (ix + f a) l'
  end.

(* pad-left-1 / pad-right-0 / subtract, cumsum, gather, multiply, reduce_sum *)
Lemma literal_walk g f : forall sorted p acc o,
  qsum (map2 Qmult (map g (cumsumZ acc (o :: map f sorted)))
                   (map2 Qminus (p :: map fst sorted) (map fst sorted ++ [0])))
  == walk_flat g f p (acc + o) sorted.
Proof. induction sorted as [|a l IH]; intros p acc o.
  - cbn. ring.
  - cbn [map app cumsumZ map2 qsum walk_flat]. cbn [map cumsumZ] in IH. rewrite (IH (fst a) (acc + o)%Z (f a)). ring. Qed.

Definition stf (sizes : list nat) : Q * nat -> Z := fun p => Z.of_nat (nth (snd p) (strides sizes) 0%nat).
Definition moffset (sizes : list nat) (z : list Q) : Z :=
  if all2 sizes then 0%Z else zdot (lower_corner sizes z) (strides sizes).
Definition mres (sizes : list nat) (z : list Q) : list Q :=
  if all2 sizes then z else map2 (fun xd c => xd - inject_Z c) z (lower_corner sizes z).
Definition mcorner (sizes : list nat) (z : list Q) : idx :=
  if all2 sizes then map (fun _ => 0%nat) z else map Z.to_nat (lower_corner sizes z).
Definition mpairs (sizes : list nat) (z : list Q) : list (Q * nat) :=
  combine (mres sizes z) (seq 0 (length (mres sizes z))).

Lemma simplex_unit_clip clip sizes g x :
  simplex_unit clip sizes g x = simplex_unit false sizes g (if clip then clip_onto sizes x else x).
Proof. destruct clip; reflexivity. Qed.

Lemma simplex_unit_walk_flat sizes g z :
  simplex_unit false sizes g z == walk_flat g (stf sizes) 1 (moffset sizes z) (sort_desc (mpairs sizes z)).
Proof. unfold simplex_unit. rewrite rsum_qsum.
  change (map (fun p : Q * nat => Z.of_nat (nth (snd p) (strides sizes) 0%nat))) with (map (stf sizes)).
  rewrite literal_walk. rewrite Z.add_0_l. reflexivity. Qed.

(* flat index of a bumped vertex *)
Lemma flat_bump : forall sizes v d, valid sizes v -> (S (nth d v 0%nat) < nth d sizes 0%nat)%nat ->
  flat sizes (bump v d) = (flat sizes v + nth d (strides sizes) 0%nat)%nat.
Proof. intros sizes v d H. revert d. induction H as [|s sh k r Hk Hr IH]; intros d Hd.
  - destruct d; cbn in Hd; lia.
  - destruct d as [|d]; unfold bump; cbn [nth upd flat strides].
    + fold (prodn sh). lia.
    + fold (prodn sh). cbn [nth] in Hd. specialize (IH d Hd). unfold bump in IH. rewrite IH. lia. Qed.

Lemma walk_flat_walk sizes g K : (forall i, valid sizes i -> g (Z.of_nat (flat sizes i)) == K i) ->
  forall l prev v, wok sizes v l -> walk_flat g (stf sizes) prev (Z.of_nat (flat sizes v)) l == walk K prev v l.
Proof. intros Hg. induction l as [|[r d] l IH]; intros prev v Hw.
  - cbn. destruct Hw as [Hv _]. rewrite (Hg v Hv). reflexivity.
  - destruct (wok_step _ _ _ _ _ Hw) as [Hv [Hb Hw']]. cbn [walk_flat walk fst]. rewrite (Hg v Hv).
    change (stf sizes (r, d)) with (Z.of_nat (nth d (strides sizes) 0%nat)). rewrite <- Nat2Z.inj_add, <- (flat_bump sizes v d Hv Hb). rewrite (IH r _ Hw'). reflexivity. Qed.

(* ---------- cell decomposition of a point ---------- *)
(* z_d = c_d + r_d with 0 <= r_d <= 1 and c_d, c_d + 1 both lattice indices *)
Inductive dec : list nat -> idx -> list Q -> list Q -> Prop :=
| dec_nil : dec [] [] [] []
| dec_cons s ss c cs r rs z zs : (S c < s)%nat -> 0 <= r -> r <= 1 -> z == qn c + r -> dec ss cs rs zs ->
    dec (s :: ss) (c :: cs) (r :: rs) (z :: zs).

Lemma dec_valid sizes c rs z : dec sizes c rs z -> valid sizes c.
Proof. induction 1; constructor; auto. lia. Qed.
Lemma dec_length sizes c rs z : dec sizes c rs z -> length rs = length sizes.
Proof. induction 1; cbn; congruence. Qed.
Lemma dec_nth sizes c rs z : dec sizes c rs z -> forall d, (d < length sizes)%nat ->
  (S (nth d c 0%nat) < nth d sizes 0%nat)%nat /\ 0 <= nth d rs 0 /\ nth d rs 0 <= 1 /\ nth d z 0 == qn (nth d c 0%nat) + nth d rs 0.
Proof. induction 1; intros d Hd; cbn in Hd. lia. destruct d; cbn [nth]. tauto. apply IHdec. lia. Qed.

Lemma map_snd_combine_seq : forall (rs : list Q) k, map snd (combine rs (seq k (length rs))) = seq k (length rs).
Proof. induction rs as [|r rs IH]; intros k; cbn. reflexivity. f_equal. apply IH. Qed.

Lemma combine_range : forall (rs : list Q) k, Forall (fun r => 0 <= r /\ r <= 1) rs ->
  Forall (fun p : Q * nat => 0 <= fst p /\ fst p <= 1) (combine rs (seq k (length rs))).
Proof. induction rs as [|r rs IH]; intros k H; cbn. constructor. inversion H; subst. constructor; auto. Qed.

Lemma dec_res_range sizes c rs z : dec sizes c rs z -> Forall (fun r => 0 <= r /\ r <= 1) rs.
Proof. induction 1; constructor; auto. Qed.

Lemma dec_wok sizes c rs z : dec sizes c rs z -> wok sizes c (combine rs (seq 0 (length rs))).
Proof. intros H. split; [eapply dec_valid; eassumption|]. rewrite map_snd_combine_seq. split. apply seq_NoDup.
  intros d Hd. apply in_seq in Hd. rewrite (dec_length _ _ _ _ H) in Hd. apply (dec_nth _ _ _ _ H d). lia. Qed.

(* the simplex formula of the cell with lower corner c at residuals rs *)
Definition scell (K : tens) (c : idx) (rs : list Q) : Q :=
  walk K 1 c (sort_desc (combine rs (seq 0 (length rs)))).

(* ---------- the decomposition the code computes ---------- *)
Lemma qtrunc_floor x : 0 <= x -> (0 <= qtrunc x)%Z /\ inject_Z (qtrunc x) <= x /\ x < inject_Z (qtrunc x) + 1.
Proof. intros H. assert (E : qtrunc x = Qfloor x).
  { destruct x as [n d]. unfold qtrunc, Qfloor. cbn [Qnum Qden]. apply Z.quot_div_nonneg.
    unfold Qle in H; cbn in H. lia. lia. }
  rewrite E. split; [|split].
  - destruct x as [n d]. unfold Qfloor. apply Z.div_pos. unfold Qle in H; cbn in H; lia. lia.
  - apply Qfloor_le.
  - pose proof (Qlt_floor x) as L. rewrite inject_Z_plus in L. exact L. Qed.

Lemma corner_1d s z : (2 <= s)%nat -> 0 <= z -> z <= qn s - 1 ->
  let cz := Z.min (qtrunc z) (Z.of_nat s - 2) in
  (0 <= cz)%Z /\ (S (Z.to_nat cz) < s)%nat /\ 0 <= z - inject_Z cz /\ z - inject_Z cz <= 1 /\
  z == qn (Z.to_nat cz) + (z - inject_Z cz).
Proof. intros Hs H0 H1 cz. destruct (qtrunc_floor z H0) as [T0 [T1 T2]].
  assert (C0 : (0 <= cz)%Z) by (unfold cz; lia).
  assert (Eq : qn (Z.to_nat cz) == inject_Z cz) by (unfold qn; rewrite Z2Nat.id by exact C0; reflexivity).
  assert (Es : inject_Z (Z.of_nat s - 2) == qn s - 2).
  { unfold qn, Zminus. rewrite inject_Z_plus. reflexivity. }
  split; [exact C0|split; [unfold cz; lia|]].
  destruct (Z.min_spec (qtrunc z) (Z.of_nat s - 2)) as [[Hlt E]|[Hge E]]; fold cz in E; rewrite E in *.
  - repeat split; try lra.
  - assert (Hq : inject_Z (Z.of_nat s - 2) <= inject_Z (qtrunc z)) by (rewrite <- Zle_Qle; exact Hge).
    (* trunc z <= s - 1 *)
    assert (Hle : (qtrunc z <= Z.of_nat s - 1)%Z).
    { rewrite Zle_Qle. unfold Zminus. rewrite inject_Z_plus. fold (qn s). change (inject_Z (- (1))) with (-(1)). lra. }
    destruct (Z.eq_dec (qtrunc z) (Z.of_nat s - 2)) as [Et|Ne].
    + rewrite Et in *. repeat split; lra.
    + assert (Et : qtrunc z = (Z.of_nat s - 1)%Z) by lia.
      assert (Eq1 : inject_Z (qtrunc z) == qn s - 1).
      { rewrite Et. unfold Zminus. rewrite inject_Z_plus. reflexivity. }
      repeat split; lra. Qed.

Lemma model_dec : forall sizes z, Forall (fun s => (2 <= s)%nat) sizes ->
  Forall2 (fun s zd => 0 <= zd /\ zd <= qn s - 1) sizes z ->
  dec sizes (map Z.to_nat (lower_corner sizes z)) (map2 (fun xd c => xd - inject_Z c) z (lower_corner sizes z)) z /\
  zdot (lower_corner sizes z) (strides sizes) = Z.of_nat (flat sizes (map Z.to_nat (lower_corner sizes z))).
Proof. intros sizes z Hs Hr. induction Hr as [|s zd ss zs [H0 H1] Hr IH].
  - split. constructor. reflexivity.
  - inversion Hs; subst. destruct (IH H4) as [D E].
    destruct (corner_1d s zd H3 H0 H1) as [C0 [C1 [C2 [C3 C4]]]].
    unfold lower_corner in *. cbn [map2 map strides zdot flat]. split.
    + constructor; assumption.
    + rewrite E. fold (prodn ss). rewrite Nat2Z.inj_add, Nat2Z.inj_mul, Z2Nat.id by exact C0. reflexivity. Qed.

Lemma all2_dec : forall sizes z, all2 sizes = true -> Forall2 (fun s zd => 0 <= zd /\ zd <= qn s - 1) sizes z ->
  dec sizes (map (fun _ => 0%nat) z) z z /\ flat sizes (map (fun _ => 0%nat) z) = 0%nat.
Proof. intros sizes z Ha Hr. induction Hr as [|s zd ss zs [H0 H1] Hr IH].
  - split. constructor. reflexivity.
  - cbn [all2 forallb] in Ha. apply andb_true_iff in Ha. destruct Ha as [E Ha]. apply Nat.eqb_eq in E. subst s.
    destruct (IH Ha) as [D F]. cbn [map flat]. split.
    + constructor; try assumption. lia. rewrite qn_0. ring.
    + rewrite F. lia. Qed.

(* The model's output on an in-range point is the simplex formula of the cell
   it selects, and that cell contains the point. *)
Lemma simplex_unit_scell sizes g K z : Forall (fun s => (2 <= s)%nat) sizes ->
  Forall2 (fun s zd => 0 <= zd /\ zd <= qn s - 1) sizes z ->
  (forall i, valid sizes i -> g (Z.of_nat (flat sizes i)) == K i) ->
  dec sizes (mcorner sizes z) (mres sizes z) z /\
  simplex_unit false sizes g z == scell K (mcorner sizes z) (mres sizes z).
Proof. intros Hs Hr Hg. rewrite simplex_unit_walk_flat. unfold scell, mpairs, moffset, mcorner, mres.
  destruct (all2 sizes) eqn:Ha.
  - destruct (all2_dec sizes z Ha Hr) as [D F]. split. exact D.
    assert (W := wok_perm _ _ _ _ (Permutation_sym (sort_is_perm _)) (dec_wok _ _ _ _ D)).
    rewrite <- (walk_flat_walk sizes g K Hg _ 1 _ W). rewrite F. reflexivity.
  - destruct (model_dec sizes z Hs Hr) as [D F]. split. exact D.
    assert (W := wok_perm _ _ _ _ (Permutation_sym (sort_is_perm _)) (dec_wok _ _ _ _ D)).
    rewrite <- (walk_flat_walk sizes g K Hg _ 1 _ W). rewrite F. reflexivity. Qed.

(* ================= Part 3: theorems about the cell formula ================= *)
Definition rng (l : list (Q * nat)) : Prop := Forall (fun p : Q * nat => 0 <= fst p /\ fst p <= 1) l.

Lemma dec_rng sizes c rs z : dec sizes c rs z -> rng (combine rs (seq 0 (length rs))).
Proof. intros H. apply combine_range. eapply dec_res_range; eassumption. Qed.

Lemma S_perm K v l l' : Permutation l l' -> walk K 1 v (sort_desc l) == walk K 1 v (sort_desc l').
Proof. intros P. apply walk_tie. apply sort_perm. exact P. Qed.
Lemma S_one K v r d l : rng l -> r == 1 -> walk K 1 v (sort_desc ((r, d) :: l)) == walk K 1 (bump v d) (sort_desc l).
Proof. intros Hl E. cbn [sort_desc fold_right]. apply insert_top. apply sort_chain; exact Hl. exact E. Qed.
Lemma S_zero K v r d l : rng l -> r == 0 -> walk K 1 v (sort_desc ((r, d) :: l)) == walk K 1 v (sort_desc l).
Proof. intros Hl E. cbn [sort_desc fold_right]. apply insert_zero. apply sort_chain; exact Hl. exact E. Qed.

(* ---------- convex combination of kernel values ---------- *)
Theorem scell_bounds sizes K c rs z lo hi : dec sizes c rs z -> (forall i, valid sizes i -> lo <= K i /\ K i <= hi) ->
  lo <= scell K c rs /\ scell K c rs <= hi.
Proof. intros D HK. unfold scell.
  pose proof (walk_bounds sizes K lo hi HK _ 1 c (sort_chain _ (dec_rng _ _ _ _ D))
                (wok_perm _ _ _ _ (Permutation_sym (sort_is_perm _)) (dec_wok _ _ _ _ D))) as B. lra. Qed.

(* ---------- any tie-breaking of the sort gives the same value ---------- *)
Theorem scell_tie_invariant K c rs s' : Permutation s' (combine rs (seq 0 (length rs))) -> chain 1 s' ->
  walk K 1 c s' == scell K c rs.
Proof. intros P C. unfold scell. rewrite <- (walk_tie K _ _ (chain_sort_id s' 1 C) 1 c). apply S_perm. exact P. Qed.

(* ---------- integer residuals: the walk just moves the corner ---------- *)
Definition isint (p : Q * nat) : Prop := fst p == 0 \/ fst p == 1.
Definition bumps (v : idx) (l : list (Q * nat)) : idx :=
  fold_left (fun v p => if qle 1 (fst p) then bump v (snd p) else v) l v.

Lemma isint_rng l : Forall isint l -> rng l.
Proof. intros H. eapply Forall_impl; [|exact H]. intros p [E|E]; rewrite E; lra. Qed.

Lemma S_int_prefix K : forall pre l v, Forall isint pre -> rng l ->
  walk K 1 v (sort_desc (pre ++ l)) == walk K 1 (bumps v pre) (sort_desc l).
Proof. induction pre as [|[r d] pre IH]; intros l v Hp Hl. reflexivity.
  inversion Hp as [|? ? Hi Hp']; subst. cbn [app].
  assert (R : rng (pre ++ l)) by (apply Forall_app; split; [apply isint_rng; exact Hp'|exact Hl]).
  unfold bumps. cbn [fold_left fst snd]. fold (bumps (if qle 1 r then bump v d else v) pre).
  destruct Hi as [E|E]; cbn [fst] in E.
  - rewrite (S_zero K v r d _ R E). assert (Q1 : qle 1 r = false) by (apply qle_false; lra). rewrite Q1. apply IH; assumption.
  - rewrite (S_one K v r d _ R E). assert (Q1 : qle 1 r = true) by (apply qle_true; lra). rewrite Q1. apply IH; assumption. Qed.

(* c, rs, t related position-wise by t = c + r, r in {0,1} *)
Inductive ir : idx -> list Q -> idx -> Prop :=
| ir_nil : ir [] [] []
| ir_zero c cs r rs ts : r == 0 -> ir cs rs ts -> ir (c :: cs) (r :: rs) (c :: ts)
| ir_one c cs r rs ts : r == 1 -> ir cs rs ts -> ir (c :: cs) (r :: rs) (S c :: ts).

Lemma upd_app_here : forall (pre : idx) c cs x, upd (pre ++ c :: cs) (length pre) x = pre ++ x :: cs.
Proof. induction pre as [|p pre IH]; intros; cbn. reflexivity. f_equal. apply IH. Qed.
Lemma nth_app_here : forall (pre : idx) c cs, nth (length pre) (pre ++ c :: cs) 0%nat = c.
Proof. induction pre as [|p pre IH]; intros; cbn. reflexivity. apply IH. Qed.

Lemma bumps_combine : forall cs rs ts, ir cs rs ts -> forall pre,
  bumps (pre ++ cs) (combine rs (seq (length pre) (length rs))) = pre ++ ts.
Proof. induction 1 as [|c cs r rs ts E H IH|c cs r rs ts E H IH]; intros pre.
  - reflexivity.
  - cbn [length seq combine]. unfold bumps. cbn [fold_left fst snd].
    assert (Q1 : qle 1 r = false) by (apply qle_false; lra). rewrite Q1.
    specialize (IH (pre ++ [c])). rewrite app_length in IH. cbn [length] in IH. rewrite Nat.add_1_r in IH.
    rewrite <- !app_assoc in IH. exact IH.
  - cbn [length seq combine]. unfold bumps. cbn [fold_left fst snd].
    assert (Q1 : qle 1 r = true) by (apply qle_true; lra). rewrite Q1.
    unfold bump. rewrite nth_app_here, upd_app_here.
    specialize (IH (pre ++ [S c])). rewrite app_length in IH. cbn [length] in IH. rewrite Nat.add_1_r in IH.
    rewrite <- !app_assoc in IH. exact IH. Qed.

Lemma ir_isint : forall cs rs ts, ir cs rs ts -> forall k, Forall isint (combine rs (seq k (length rs))).
Proof. induction 1; intros k; cbn [length seq combine]; constructor; auto. left; assumption. right; assumption. Qed.

Lemma qn_inj a b : qn a == qn b -> a = b.
Proof. intros H. destruct (Nat.lt_trichotomy a b) as [L|[E|L]]; [|exact E|].
  pose proof (qn_lt a b L); lra. pose proof (qn_lt b a L); lra. Qed.

Lemma dec_vertex_ir : forall sizes c rs t, dec sizes c rs (map qn t) -> ir c rs t.
Proof. intros sizes c rs t. revert sizes c rs. induction t as [|t0 t IH]; intros sizes c rs D; inversion D; subst.
  constructor.
  match goal with H : qn t0 == qn ?c0 + ?r |- _ => rename H into E; rename c0 into cc; rename r into rr end.
  destruct (Nat.le_gt_cases t0 cc) as [L|L].
  - pose proof (qn_le t0 cc L). assert (Er : rr == 0) by lra. assert (t0 = cc) by (apply qn_inj; lra). subst.
    apply ir_zero. exact Er. eapply IH; eassumption.
  - pose proof (qn_lt cc t0 L). assert (Er : rr == 1) by lra.
    assert (t0 = S cc) by (apply qn_inj; rewrite qn_S; lra). subst.
    apply ir_one. exact Er. eapply IH; eassumption. Qed.

(* ---------- exact reproduction of a vertex ---------- *)
Theorem scell_vertex K sizes c rs t : dec sizes c rs (map qn t) -> scell K c rs == K t.
Proof. intros D. pose proof (dec_vertex_ir _ _ _ _ D) as I. unfold scell.
  rewrite <- (app_nil_r (combine rs (seq 0 (length rs)))).
  rewrite (S_int_prefix K _ [] c (ir_isint _ _ _ I 0%nat) (Forall_nil _)).
  pose proof (bumps_combine c rs t I []) as B. cbn [app length] in B. rewrite B. cbn. ring. Qed.

(* ================= Part 4: one coordinate moves, the others are fixed ================= *)
Section OneDim.
  Variables (sizes : list nat) (K : tens) (d : nat) (c : idx) (s : list (Q * nat)).
  Hypothesis Hc : valid sizes c.
  Hypothesis Hd : (d < length sizes)%nat.
  Hypothesis Hs : chain 1 s.
  Hypothesis Hnd : NoDup (map snd s).
  Hypothesis Hnotin : ~ In d (map snd s).
  Hypothesis Hbump : forall j, In j (map snd s) -> (S (nth j c 0%nat) < nth j sizes 0%nat)%nat.

  (* value when dimension d is decomposed as cell index cd, residual t *)
  Definition F (cd : nat) (t : Q) : Q := walk K 1 (upd c d cd) (insert_desc (t, d) s).

  Lemma wokF cd t : (S cd < nth d sizes 0%nat)%nat -> wok sizes (upd c d cd) ((t, d) :: s).
  Proof. intros Hcd. pose proof (valid_length _ _ Hc) as Lc. split; [|split].
    - apply upd_valid. exact Hc. lia.
    - cbn [map snd]. constructor; assumption.
    - cbn [map snd]. intros j [<-|Hj].
      + rewrite nth_upd_same by lia. exact Hcd.
      + rewrite nth_upd_other. apply Hbump; exact Hj. intros ->. contradiction. Qed.

  Lemma F_face cd : (S (S cd) < nth d sizes 0%nat)%nat -> F cd 1 == F (S cd) 0.
  Proof. intros Hcd. unfold F. pose proof (valid_length _ _ Hc) as Lc.
    rewrite (insert_top K s 1 (upd c d cd) 1 d Hs ltac:(reflexivity)).
    rewrite (insert_zero K s 1 (upd c d (S cd)) 0 d Hs ltac:(reflexivity)).
    unfold bump. rewrite nth_upd_same by lia. rewrite upd_upd. reflexivity. Qed.

  Hypothesis HK : kmono sizes K d.

  Lemma F_mono cd t t' : (S cd < nth d sizes 0%nat)%nat -> 0 <= t -> t <= t' -> t' <= 1 -> F cd t <= F cd t'.
  Proof. intros Hcd H0 Htt H1. unfold F. apply (insert_mono sizes K d HK s 1 (upd c d cd) t t' Hs (wokF cd t Hcd) H0 Htt H1). Qed.

  Lemma F_le : forall n cd t t', (S (cd + n) < nth d sizes 0%nat)%nat -> 0 <= t -> t <= 1 -> 0 <= t' -> t' <= 1 ->
    (n = 0%nat -> t <= t') -> F cd t <= F (cd + n) t'.
  Proof. induction n as [|n IH]; intros cd t t' Hcd H0 H1 H0' H1' Hn.
    - rewrite Nat.add_0_r in *. apply F_mono; auto.
    - assert (A : F cd t <= F cd 1) by (apply F_mono; [lia|lra|lra|lra]).
      assert (B : F cd 1 == F (S cd) 0) by (apply F_face; lia).
      assert (C : F (S cd) 0 <= F (S cd + n) t') by (apply IH; [lia|lra|lra|lra|lra|intros; lra]).
      replace (cd + S n)%nat with (S cd + n)%nat by lia. lra. Qed.

  Theorem F_all cd cd' t t' : (S cd < nth d sizes 0%nat)%nat -> (S cd' < nth d sizes 0%nat)%nat ->
    0 <= t -> t <= 1 -> 0 <= t' -> t' <= 1 -> qn cd + t <= qn cd' + t' -> F cd t <= F cd' t'.
  Proof. intros Hcd Hcd' H0 H1 H0' H1' Hle. destruct (Nat.le_gt_cases cd cd') as [L|L].
    - replace cd' with (cd + (cd' - cd))%nat by lia. apply F_le; try assumption. replace (cd + (cd' - cd))%nat with cd' by lia. exact Hcd'.
      intros E. assert (cd = cd') by lia. subst. lra.
    - pose proof (qn_lt cd' cd L) as Q1.
      assert (cd = S cd').
      { destruct (Nat.eq_dec cd (S cd')) as [E|NE]. exact E. assert (L2 : (S cd' < cd)%nat) by lia.
        pose proof (qn_lt (S cd') cd L2) as Q2. rewrite qn_S in Q2. lra. }
      subst cd. rewrite qn_S in Hle.
      assert (A : F (S cd') t <= F (S cd') 0) by (apply F_mono; [assumption|lra|lra|lra]).
      assert (B : F cd' 1 == F (S cd') 0) by (apply F_face; assumption).
      assert (C : F cd' 1 <= F cd' t') by (apply F_mono; [assumption|lra|lra|lra]).
      lra. Qed.
End OneDim.

(* ---------- list surgery: pull dimension d out of the pair list ---------- *)
Fixpoint drop_nth {A} (d : nat) (l : list A) : list A :=
  match l, d with
  | [], _ => []
  | _ :: r, O => r
  | x :: r, S d' => x :: drop_nth d' r
  end.

Lemma perm_drop_nth {A} : forall (l : list A) d dflt, (d < length l)%nat -> Permutation l (nth d l dflt :: drop_nth d l).
Proof. induction l as [|x l IH]; intros d dflt H; cbn in H. lia.
  destruct d as [|d]; cbn [nth drop_nth]. apply Permutation_refl.
  eapply Permutation_trans. apply perm_skip. apply (IH d dflt). lia. apply perm_swap. Qed.

Lemma nth_combine_seq : forall (rs : list Q) k d, (d < length rs)%nat ->
  nth d (combine rs (seq k (length rs))) (0, 0%nat) = (nth d rs 0, (k + d)%nat).
Proof. induction rs as [|r rs IH]; intros k d H; cbn in H. lia.
  destruct d as [|d]; cbn [length seq combine nth]. f_equal. lia.
  rewrite IH by lia. f_equal. lia. Qed.

Lemma drop_combine_set : forall (rs : list Q) k d r',
  drop_nth d (combine (set_nth d r' rs) (seq k (length (set_nth d r' rs)))) = drop_nth d (combine rs (seq k (length rs))).
Proof. induction rs as [|r rs IH]; intros k d r'; destruct d as [|d]; cbn [set_nth length seq combine drop_nth]; try reflexivity.
  f_equal. apply IH. Qed.

Lemma set_nth_ext : forall (rs rs' : list Q) d, length rs = length rs' ->
  (forall j, j <> d -> nth j rs 0 = nth j rs' 0) -> rs' = set_nth d (nth d rs' 0) rs.
Proof. induction rs as [|r rs IH]; intros rs' d Hl H; destruct rs' as [|r' rs']; try discriminate. destruct d; reflexivity.
  destruct d as [|d]; cbn [set_nth nth].
  - f_equal. cbn in Hl. apply nth_ext with (d := 0) (d' := 0). lia. intros n _. symmetry. apply (H (S n)). lia.
  - f_equal. symmetry. apply (H 0%nat). lia. apply IH. cbn in Hl; lia. intros j Hj. apply (H (S j)). lia. Qed.

Lemma upd_ext : forall (c c' : idx) d, length c = length c' ->
  (forall j, j <> d -> nth j c 0%nat = nth j c' 0%nat) -> c' = upd c d (nth d c' 0%nat).
Proof. induction c as [|x c IH]; intros c' d Hl H; destruct c' as [|x' c']; try discriminate. destruct d; reflexivity.
  destruct d as [|d]; cbn [upd nth].
  - f_equal. cbn in Hl. apply nth_ext with (d := 0%nat) (d' := 0%nat). lia. intros n _. symmetry. apply (H (S n)). lia.
  - f_equal. symmetry. apply (H 0%nat). lia. apply IH. cbn in Hl; lia. intros j Hj. apply (H (S j)). lia. Qed.

Lemma drop_nth_Forall {A} (P : A -> Prop) : forall l d, Forall P l -> Forall P (drop_nth d l).
Proof. induction l as [|x l IH]; intros d H; destruct d; cbn [drop_nth]; auto; inversion H; subst; auto. Qed.

(* the cell formula with dimension d pulled to the front *)
Lemma scell_pull K sizes c rs z d : dec sizes c rs z -> (d < length sizes)%nat ->
  let rest := drop_nth d (combine rs (seq 0 (length rs))) in
  scell K c rs == F K d c (sort_desc rest) (nth d c 0%nat) (nth d rs 0) /\
  chain 1 (sort_desc rest) /\ NoDup (map snd (sort_desc rest)) /\ ~ In d (map snd (sort_desc rest)) /\
  (forall j, In j (map snd (sort_desc rest)) -> (S (nth j c 0%nat) < nth j sizes 0%nat)%nat).
Proof. intros D Hd rest. pose proof (dec_length _ _ _ _ D) as Lr.
  assert (P : Permutation (combine rs (seq 0 (length rs))) ((nth d rs 0, d) :: rest)).
  { pose proof (nth_combine_seq rs 0 d ltac:(lia)) as N. cbn [Nat.add] in N. rewrite <- N. apply perm_drop_nth. rewrite combine_length, seq_length. lia. }
  pose proof (Permutation_map snd P) as Pm. rewrite map_snd_combine_seq in Pm. cbn [map snd] in Pm.
  assert (ND : NoDup (d :: map snd rest)) by (eapply Permutation_NoDup; [exact Pm|apply seq_NoDup]).
  pose proof (Permutation_map snd (sort_is_perm rest)) as Ps.
  assert (R : rng rest) by (apply drop_nth_Forall; eapply dec_rng; eassumption).
  split; [|split; [|split; [|split]]].
  - unfold scell, F. rewrite upd_self. rewrite (S_perm K c _ _ P). reflexivity.
  - apply sort_chain. exact R.
  - eapply Permutation_NoDup. apply Permutation_sym; exact Ps. inversion ND; assumption.
  - intros Hin. inversion ND; subst. apply H1. eapply Permutation_in; eassumption.
  - intros j Hj. assert (Hj' : In j (map snd rest)) by (eapply Permutation_in; eassumption).
    assert (Hj'' : In j (seq 0 (length rs))) by (eapply Permutation_in; [apply Permutation_sym; exact Pm|right; exact Hj']).
    apply in_seq in Hj''. apply (dec_nth _ _ _ _ D j). lia. Qed.

(* ---------- monotone for every pair of points that differ in dimension d ---------- *)
Theorem scell_monotone K sizes d c rs z c' rs' z' :
  dec sizes c rs z -> dec sizes c' rs' z' -> (d < length sizes)%nat ->
  (forall j, j <> d -> nth j c 0%nat = nth j c' 0%nat /\ nth j rs 0 = nth j rs' 0) ->
  nth d z 0 <= nth d z' 0 -> kmono sizes K d -> scell K c rs <= scell K c' rs'.
Proof. intros D D' Hd Hoth Hle HK.
  pose proof (dec_length _ _ _ _ D) as Lr. pose proof (dec_length _ _ _ _ D') as Lr'.
  pose proof (valid_length _ _ (dec_valid _ _ _ _ D)) as Lc. pose proof (valid_length _ _ (dec_valid _ _ _ _ D')) as Lc'.
  assert (Er : rs' = set_nth d (nth d rs' 0) rs) by (apply set_nth_ext; [congruence|intros j Hj; apply Hoth; exact Hj]).
  assert (Ec : c' = upd c d (nth d c' 0%nat)) by (apply upd_ext; [congruence|intros j Hj; apply Hoth; exact Hj]).
  destruct (scell_pull K sizes c rs z d D Hd) as [E [S1 [S2 [S3 S4]]]].
  destruct (scell_pull K sizes c' rs' z' d D' Hd) as [E' _].
  assert (Erest : drop_nth d (combine rs' (seq 0 (length rs'))) = drop_nth d (combine rs (seq 0 (length rs))))
    by (rewrite Er; apply drop_combine_set).
  assert (EU : forall k, upd c' d k = upd c d k) by (intros k; rewrite Ec; apply upd_upd).
  rewrite E, E', Erest.
  set (s := sort_desc (drop_nth d (combine rs (seq 0 (length rs))))) in *.
  assert (EF : F K d c' s (nth d c' 0%nat) (nth d rs' 0) = F K d c s (nth d c' 0%nat) (nth d rs' 0))
    by (unfold F; rewrite EU; reflexivity).
  rewrite EF.
  destruct (dec_nth _ _ _ _ D d Hd) as [B1 [B2 [B3 B4]]]. destruct (dec_nth _ _ _ _ D' d Hd) as [B1' [B2' [B3' B4']]].
  apply (F_all sizes K d c s (dec_valid _ _ _ _ D) Hd S1 S2 S3 S4 HK); try assumption. lra. Qed.

(* ---------- continuity across a cell face ---------- *)
(* the point with z_d = c_d + 1 may be decomposed from either side of the face *)
Theorem scell_face K sizes d c rs z : dec sizes c rs z -> (d < length sizes)%nat ->
  (S (S (nth d c 0%nat)) < nth d sizes 0%nat)%nat ->
  scell K c (set_nth d 1 rs) == scell K (bump c d) (set_nth d 0 rs).
Proof. intros D Hd Hb. pose proof (dec_length _ _ _ _ D) as Lr.
  destruct (dec_nth _ _ _ _ D d Hd) as [B1 [B2 [B3 B4]]].
  pose proof (valid_length _ _ (dec_valid _ _ _ _ D)) as Lc.
  (* both sides are valid decompositions (of the same point) *)
  assert (D1 : exists z1, dec sizes c (set_nth d 1 rs) z1).
  { clear B1 B2 B3 B4 Hb Lr Lc. revert d Hd. induction D; intros d Hd; cbn in Hd. lia.
    destruct d as [|d]; cbn [set_nth].
    - exists ((qn c + 1) :: zs). constructor; try assumption; try lra; try reflexivity.
    - destruct (IHD d ltac:(lia)) as [z1 Hz1]. exists (z :: z1). constructor; assumption. }
  assert (D0 : exists z0, dec sizes (bump c d) (set_nth d 0 rs) z0).
  { clear B1 B2 B3 B4 Lr Lc D1. revert d Hd Hb. induction D; intros d Hd Hb; cbn in Hd. lia.
    destruct d as [|d]; unfold bump; cbn [set_nth nth upd] in *.
    - exists ((qn (S c) + 0) :: zs). constructor; try assumption; try lra; try reflexivity.
    - destruct (IHD d ltac:(lia) Hb) as [z0 Hz0]. exists (z :: z0). constructor; assumption. }
  destruct D1 as [z1 D1]. destruct D0 as [z0 D0].
  destruct (scell_pull K sizes c _ z1 d D1 Hd) as [E [S1 [S2 [S3 S4]]]].
  destruct (scell_pull K sizes (bump c d) _ z0 d D0 Hd) as [E' _].
  rewrite drop_combine_set in E, S1, S2, S3, S4. rewrite drop_combine_set in E'.
  rewrite E, E'. rewrite !nth_set_nth_same by lia.
  unfold bump at 2. rewrite nth_upd_same by lia.
  set (s := sort_desc (drop_nth d (combine rs (seq 0 (length rs))))) in *.
  assert (EF : F K d (bump c d) s (S (nth d c 0%nat)) 0 = F K d c s (S (nth d c 0%nat)) 0)
    by (unfold F, bump; rewrite upd_upd; reflexivity).
  rewrite EF. apply (F_face sizes K d c s (dec_valid _ _ _ _ D1) Hd S1); assumption. Qed.
