(* Lemmas about Model/Keypoints.v (property C18). *)
From Coq Require Import Permutation.
From TFL Require Import Model.Keypoints.
Open Scope Q_scope.

(* ------------------------------------------------------------------ *)
(* chains: consecutive elements related                                *)
(* ------------------------------------------------------------------ *)
Fixpoint chain {A} (R : A -> A -> Prop) (l : list A) : Prop :=
  match l with
  | x :: ((y :: _) as r) => R x y /\ chain R r
  | _ => True
  end.

Lemma chain_tl {A} (R : A -> A -> Prop) x l : chain R (x :: l) -> chain R l.
Proof. destruct l; cbn; tauto. Qed.

Lemma chain_nth {A} (R : A -> A -> Prop) (d : A) l :
  (forall j, (S j < length l)%nat -> R (nth j l d) (nth (S j) l d)) -> chain R l.
Proof.
  induction l as [|x l IH]; intros H; [exact I|].
  destruct l as [|y l]; [exact I|]. split.
  - apply (H 0%nat). cbn; lia.
  - apply IH. intros j Hj. apply (H (S j)). cbn in *; lia.
Qed.

Lemma chain_nth_inv {A} (R : A -> A -> Prop) (d : A) l :
  chain R l -> forall j, (S j < length l)%nat -> R (nth j l d) (nth (S j) l d).
Proof.
  induction l as [|x l IH]; intros H j Hj; [cbn in Hj; lia|].
  destruct l as [|y l]; [cbn in Hj; lia|]. destruct H as [H1 H2].
  destruct j; [exact H1|]. apply (IH H2 j). cbn in *; lia.
Qed.

Lemma chain_map {A B} (R : A -> A -> Prop) (R' : B -> B -> Prop) (f : A -> B) l :
  (forall x y, In x l -> In y l -> R x y -> R' (f x) (f y)) -> chain R l -> chain R' (map f l).
Proof.
  induction l as [|x l IH]; intros H Hc; [exact I|].
  destruct l as [|y l]; [exact I|]. destruct Hc as [H1 H2]. split.
  - apply H; cbn; auto.
  - apply IH; [|exact H2]. intros a b Ha Hb. apply H; right; assumption.
Qed.

(* strictly increasing lists of rationals *)
Definition increasing (l : list Q) : Prop := chain Qlt l.

Lemma increasing_head_lt x l : increasing (x :: l) -> forall y, In y l -> x < y.
Proof.
  revert x; induction l as [|z l IH]; intros x H y Hy; [destruct Hy|].
  destruct H as [H1 H2]. destruct Hy as [<-|Hy]; [exact H1|].
  apply Qlt_trans with z; [exact H1|]. apply IH; assumption.
Qed.

Lemma increasing_nth l : increasing l -> forall i j, (i < j)%nat -> (j < length l)%nat -> nth i l 0 < nth j l 0.
Proof.
  induction l as [|x l IH]; intros H i j Hij Hj; [cbn in Hj; lia|].
  destruct j; [lia|]. destruct i.
  - cbn [nth]. apply (increasing_head_lt x l H). apply nth_In. cbn in Hj; lia.
  - cbn [nth]. apply IH; [exact (chain_tl _ _ _ H)| lia | cbn in Hj; lia].
Qed.

Lemma increasing_nth_le l : increasing l -> forall i j, (i <= j)%nat -> (j < length l)%nat -> nth i l 0 <= nth j l 0.
Proof.
  intros H i j Hij Hj. destruct (Nat.eq_dec i j) as [->|Hne]; [apply Qle_refl|].
  apply Qlt_le_weak. apply increasing_nth; [assumption|lia|assumption].
Qed.

Lemma strictly_inc_b_true l : strictly_inc_b l = true <-> increasing l.
Proof.
  induction l as [|x l IH]; [cbn; tauto|]. destruct l as [|y l]; [cbn; tauto|].
  change (strictly_inc_b (x :: y :: l)) with (qlt x y && strictly_inc_b (y :: l)).
  change (increasing (x :: y :: l)) with (x < y /\ increasing (y :: l)).
  rewrite andb_true_iff, qlt_true, IH. tauto.
Qed.

(* strictly increasing integer indices *)
Definition zincreasing (l : list Z) : Prop := chain Z.lt l.

Lemma zincreasing_head_lt x l : zincreasing (x :: l) -> forall y, In y l -> (x < y)%Z.
Proof.
  revert x; induction l as [|z l IH]; intros x H y Hy; [destruct Hy|].
  destruct H as [H1 H2]. destruct Hy as [<-|Hy]; [exact H1|].
  apply Z.lt_trans with z; [exact H1|]. apply IH; assumption.
Qed.

(* ------------------------------------------------------------------ *)
(* take: strictly increasing indices into a strictly increasing array  *)
(* ------------------------------------------------------------------ *)
Definition in_range (n : nat) (i : Z) : Prop := (0 <= i < Z.of_nat n)%Z.

Lemma take_length sv idx : length (take sv idx) = length idx.
Proof. apply map_length. Qed.

Lemma take_increasing sv idx :
  increasing sv -> zincreasing idx -> (forall i, In i idx -> in_range (length sv) i) ->
  increasing (take sv idx).
Proof.
  intros Hsv Hidx Hr. unfold take, increasing.
  apply (chain_map Z.lt Qlt); [|exact Hidx].
  intros a b Ha Hb Hab. destruct (Hr a Ha), (Hr b Hb).
  apply increasing_nth; [exact Hsv|lia|lia].
Qed.

Lemma take_in_bounds sv idx x :
  increasing sv -> (forall i, In i idx -> in_range (length sv) i) -> In x (take sv idx) ->
  nth 0 sv 0 <= x /\ x <= nth (length sv - 1) sv 0.
Proof.
  intros Hsv Hr Hx. unfold take in Hx. apply in_map_iff in Hx. destruct Hx as [i [<- Hi]].
  destruct (Hr i Hi). split; apply increasing_nth_le; try assumption; lia.
Qed.

(* ------------------------------------------------------------------ *)
(* rounding to a nearest integer                                       *)
(* ------------------------------------------------------------------ *)
Definition nearest (rnd : nat -> Q -> Z) : Prop :=
  forall j x, qabs (inject_Z (rnd j x) - x) <= 1#2.

Lemma inject_Z_lt_inv a b : inject_Z a < inject_Z b -> (a < b)%Z.
Proof. intro H. rewrite Zlt_Qlt. exact H. Qed.
Lemma inject_Z_lt a b : (a < b)%Z -> inject_Z a < inject_Z b.
Proof. intro H. rewrite <- Zlt_Qlt. exact H. Qed.
Lemma inject_Z_le_inv a b : inject_Z a <= inject_Z b -> (a <= b)%Z.
Proof. intro H. rewrite Zle_Qle. exact H. Qed.
Lemma inject_Z_le a b : (a <= b)%Z -> inject_Z a <= inject_Z b.
Proof. intro H. rewrite <- Zle_Qle. exact H. Qed.
Lemma inject_Z_plus1 a : inject_Z (a + 1) == inject_Z a + 1.
Proof. rewrite inject_Z_plus. reflexivity. Qed.
Lemma inject_Z_minus1 a : inject_Z (a - 1) == inject_Z a - 1.
Proof. unfold Z.sub. rewrite inject_Z_plus. reflexivity. Qed.

Lemma round_tie_nearest up x : qabs (inject_Z (round_tie up x) - x) <= 1#2.
Proof.
  unfold round_tie. pose proof (Qfloor_le x) as Hlo. pose proof (Qlt_floor x) as Hhi.
  rewrite inject_Z_plus1 in Hhi.
  destruct (qlt (x - inject_Z (Qfloor x)) (1#2)) eqn:E1.
  - apply qlt_true in E1. qcases; lra.
  - apply qlt_false in E1. destruct (qlt (1#2) (x - inject_Z (Qfloor x))) eqn:E2.
    + apply qlt_true in E2. rewrite inject_Z_plus1. qcases; lra.
    + apply qlt_false in E2. destruct up; [rewrite inject_Z_plus1|]; qcases; lra.
Qed.

Lemma rnd_he_nearest : nearest rnd_he.
Proof. intros j x. apply round_tie_nearest. Qed.

Lemma half_bounds r x a b : qabs (inject_Z r - x) <= 1#2 -> inject_Z a <= x -> x <= inject_Z b -> (a <= r <= b)%Z.
Proof.
  intros H Ha Hb. split.
  - assert (A : inject_Z (a - 1) < inject_Z r) by (rewrite inject_Z_minus1; qcases; lra).
    apply inject_Z_lt_inv in A. lia.
  - assert (B : inject_Z r < inject_Z (b + 1)) by (rewrite inject_Z_plus1; qcases; lra).
    apply inject_Z_lt_inv in B. lia.
Qed.

(* an integer within 1/2 of an integer-valued rational is that integer *)
Lemma nearest_of_int rnd j x z : nearest rnd -> x == inject_Z z -> rnd j x = z.
Proof.
  intros Hn Hx. pose proof (half_bounds (rnd j x) x z z (Hn j x)) as H.
  assert (z <= rnd j x <= z)%Z by (apply H; lra). lia.
Qed.

Lemma nearest_bounds rnd j x a b : nearest rnd -> inject_Z a <= x -> x <= inject_Z b -> (a <= rnd j x <= b)%Z.
Proof. intros Hn Ha Hb. exact (half_bounds (rnd j x) x a b (Hn j x) Ha Hb). Qed.

Lemma nearest_strict rnd i j x y : nearest rnd -> x + 1 < y -> (rnd i x < rnd j y)%Z.
Proof.
  intros Hn Hxy. pose proof (Hn i x) as H1. pose proof (Hn j y) as H2.
  apply inject_Z_lt_inv. qcases; lra.
Qed.

(* round_all *)
Lemma combine_seq_nth {A} (l : list A) (d : A) : forall s j, (j < length l)%nat ->
  nth j (combine (seq s (length l)) l) (0%nat, d) = ((s + j)%nat, nth j l d).
Proof.
  induction l as [|x l IH]; intros s j Hj; [cbn in Hj; lia|].
  cbn [length seq combine]. destruct j; cbn [nth]. f_equal; lia.
  rewrite IH by (cbn in Hj; lia). f_equal; lia.
Qed.

Lemma map_nth_lt {A B} (f : A -> B) l j d d' : (j < length l)%nat -> nth j (map f l) d = f (nth j l d').
Proof. revert j; induction l as [|x l IH]; intros j Hj; [cbn in Hj; lia|]. destruct j; cbn; [reflexivity|]. apply IH. cbn in Hj; lia. Qed.

Lemma round_all_length rnd raws : length (round_all rnd raws) = length raws.
Proof. unfold round_all. rewrite map_length, combine_length, seq_length. lia. Qed.

Lemma round_all_nth rnd raws j : (j < length raws)%nat ->
  nth j (round_all rnd raws) 0%Z = rnd j (nth j raws 0).
Proof.
  intros Hj. unfold round_all.
  rewrite map_nth_lt with (d' := (0%nat, 0)) by (rewrite combine_length, seq_length; lia).
  rewrite combine_seq_nth by exact Hj. reflexivity.
Qed.

(* ------------------------------------------------------------------ *)
(* quantiles = linspace(0, 1, k)                                       *)
(* ------------------------------------------------------------------ *)
Lemma nq_S n : nq (S n) == nq n + 1.
Proof. unfold nq. rewrite Nat2Z.inj_succ. unfold Z.succ. rewrite inject_Z_plus. reflexivity. Qed.
Lemma nq_0 : nq 0 == 0. Proof. reflexivity. Qed.
Lemma nq_nonneg n : 0 <= nq n.
Proof. induction n as [|n IH]. rewrite nq_0; lra. rewrite nq_S; lra. Qed.
Lemma nq_pos n : (0 < n)%nat -> 0 < nq n.
Proof. destruct n; [lia|]. intros _. rewrite nq_S. pose proof (nq_nonneg n). lra. Qed.
Lemma nq_le a b : (a <= b)%nat -> nq a <= nq b.
Proof. intros H. unfold nq. apply inject_Z_le. lia. Qed.
Lemma nq_lt a b : (a < b)%nat -> nq a < nq b.
Proof. intros H. unfold nq. apply inject_Z_lt. lia. Qed.

Lemma quantiles_length k : length (quantiles k) = k.
Proof. unfold quantiles. rewrite map_length, seq_length. reflexivity. Qed.

Lemma quantiles_nth k j : (j < k)%nat -> nth j (quantiles k) 0 == nq j / nq (k - 1).
Proof.
  intros H. unfold quantiles. rewrite map_nth_lt with (d' := 0%nat) by (rewrite seq_length; exact H).
  rewrite seq_nth by exact H. rewrite Qred_correct. reflexivity.
Qed.

Lemma quantile_first k : (0 < k)%nat -> nth 0 (quantiles k) 0 == 0.
Proof. intros H. rewrite quantiles_nth by exact H. unfold Qdiv. rewrite nq_0. lra. Qed.

Lemma quantile_last k : (2 <= k)%nat -> nth (k - 1) (quantiles k) 0 == 1.
Proof.
  intros H. rewrite quantiles_nth by lia. pose proof (nq_pos (k - 1) ltac:(lia)).
  field. lra.
Qed.

Lemma quantile_range k j : (j < k)%nat -> 0 <= nth j (quantiles k) 0 /\ nth j (quantiles k) 0 <= 1.
Proof.
  intros H. rewrite quantiles_nth by exact H.
  destruct (Nat.eq_dec k 1) as [->|Hk].
  - assert (j = 0%nat) by lia. subst. unfold Qdiv. rewrite nq_0. lra.
  - pose proof (nq_pos (k - 1) ltac:(lia)) as Hp. pose proof (nq_nonneg j) as Hj.
    pose proof (nq_le j (k - 1) ltac:(lia)) as Hle. split.
    + apply Qle_shift_div_l; [exact Hp|lra].
    + apply Qle_shift_div_r; [exact Hp|lra].
Qed.

(* ------------------------------------------------------------------ *)
(* unweighted nearest-rank indices                                     *)
(* ------------------------------------------------------------------ *)
Definition uidx (rnd : nat -> Q -> Z) (n k : nat) : list Z := round_all rnd (nq_raw n k).

Lemma nq_raw_length n k : length (nq_raw n k) = k.
Proof. unfold nq_raw. rewrite map_length. apply quantiles_length. Qed.

Lemma nq_raw_nth n k j : (j < k)%nat -> nth j (nq_raw n k) 0 == nq (n - 1) * (nq j / nq (k - 1)).
Proof.
  intros H. unfold nq_raw. rewrite map_nth_lt with (d' := 0) by (rewrite quantiles_length; exact H).
  rewrite Qred_correct. rewrite quantiles_nth by exact H. reflexivity.
Qed.

Lemma uidx_length rnd n k : length (uidx rnd n k) = k.
Proof. unfold uidx. rewrite round_all_length. apply nq_raw_length. Qed.

Lemma uidx_nth rnd n k j : (j < k)%nat -> nth j (uidx rnd n k) 0%Z = rnd j (nth j (nq_raw n k) 0).
Proof. intros H. unfold uidx. apply round_all_nth. rewrite nq_raw_length. exact H. Qed.

Lemma uidx_range rnd n k i : nearest rnd -> (1 <= n)%nat -> In i (uidx rnd n k) -> in_range n i.
Proof.
  intros Hn Hn1 Hi. apply (In_nth _ _ 0%Z) in Hi. destruct Hi as [j [Hj <-]].
  rewrite uidx_length in Hj. rewrite uidx_nth by exact Hj.
  pose proof (nq_raw_nth n k j Hj) as E. pose proof (quantiles_nth k j Hj) as Eq.
  destruct (quantile_range k j Hj) as [Q0 Q1]. rewrite Eq in Q0, Q1.
  pose proof (nq_nonneg (n - 1)) as Hp.
  pose proof (qmul_nonneg _ _ Hp Q0) as A. pose proof (qmul_le_l _ _ _ Hp Q1) as B.
  set (x := nth j (nq_raw n k) 0) in *.
  assert (R : (0 <= rnd j x <= Z.of_nat (n - 1))%Z).
  { apply nearest_bounds; [exact Hn| |]; fold (nq (n - 1)); change (inject_Z 0) with 0; lra. }
  unfold in_range. lia.
Qed.

Lemma uidx_first rnd n k : nearest rnd -> (1 <= k)%nat -> nth 0 (uidx rnd n k) 0%Z = 0%Z.
Proof.
  intros Hn Hk. rewrite uidx_nth by lia. apply nearest_of_int; [exact Hn|].
  rewrite nq_raw_nth by lia. unfold Qdiv. rewrite nq_0. change (inject_Z 0) with 0. lra.
Qed.

Lemma uidx_last rnd n k : nearest rnd -> (2 <= k)%nat -> nth (k - 1) (uidx rnd n k) 0%Z = Z.of_nat (n - 1).
Proof.
  intros Hn Hk. rewrite uidx_nth by lia. apply nearest_of_int; [exact Hn|].
  rewrite nq_raw_nth by lia. fold (nq (n - 1)). pose proof (nq_pos (k - 1) ltac:(lia)). field. lra.
Qed.

Lemma uidx_increasing rnd n k : nearest rnd -> (k <= n)%nat -> zincreasing (uidx rnd n k).
Proof.
  intros Hn Hkn. apply (chain_nth Z.lt 0%Z). intros j Hj. rewrite uidx_length in Hj.
  rewrite !uidx_nth by lia.
  pose proof (nq_raw_nth n k j ltac:(lia)) as E1. pose proof (nq_raw_nth n k (S j) ltac:(lia)) as E2.
  pose proof (nq_pos (k - 1) ltac:(lia)) as Hp.
  destruct (Nat.eq_dec n k) as [->|Hne].
  - (* step exactly 1: the raw indices are the integers j *)
    rewrite (nearest_of_int rnd j _ (Z.of_nat j) Hn), (nearest_of_int rnd (S j) _ (Z.of_nat (S j)) Hn). lia.
    + rewrite E2. fold (nq (S j)). field. lra.
    + rewrite E1. fold (nq j). field. lra.
  - (* step > 1 *)
    apply nearest_strict; [exact Hn|].
    assert (D : 1 < nq (n - 1) / nq (k - 1)).
    { apply Qlt_shift_div_l; [exact Hp|]. pose proof (nq_lt (k - 1) (n - 1) ltac:(lia)). lra. }
    assert (E : nth (S j) (nq_raw n k) 0 == nth j (nq_raw n k) 0 + nq (n - 1) / nq (k - 1)).
    { rewrite E1, E2, nq_S. field. lra. }
    lra.
Qed.

(* ------------------------------------------------------------------ *)
(* np.interp index lies within [0, n-1]                                *)
(* ------------------------------------------------------------------ *)
Lemma count_le_props strict x l :
  (count_le strict x l <= length l)%nat /\
  (forall i, (i < count_le strict x l)%nat -> nth i l 0 <= x) /\
  ((count_le strict x l < length l)%nat -> x <= nth (count_le strict x l) l 0).
Proof.
  induction l as [|y l IH]; cbn [count_le length].
  - split; [lia|]. split; intros; lia.
  - destruct IH as [I1 [I2 I3]].
    destruct (if strict then qlt y x else qle y x) eqn:E.
    + assert (Hy : y <= x).
      { destruct strict. apply qlt_true in E; lra. apply qle_true in E; exact E. }
      split; [lia|]. split.
      * intros i Hi. destruct i; cbn [nth]; [exact Hy|]. apply I2; lia.
      * intros H. cbn [nth]. apply I3; lia.
    + assert (Hy : x <= y).
      { destruct strict. apply qlt_false in E; exact E. apply qle_false in E; lra. }
      split; [lia|]. split; [intros; lia|]. intros _. cbn [nth]. exact Hy.
Qed.

Lemma interp_idx_range strict x xp : xp <> [] ->
  0 <= interp_idx strict x xp /\ interp_idx strict x xp <= nq (length xp - 1).
Proof.
  destruct xp as [|x0 rest]; [congruence|]. intros _. unfold interp_idx.
  set (n := length (x0 :: rest)). assert (Hn : (n - 1)%nat = length rest) by (subst n; cbn; lia).
  pose proof (nq_nonneg (n - 1)) as Hnn.
  destruct (qlt x x0) eqn:E0; [lra|]. apply qlt_false in E0.
  destruct (qlt (last (x0 :: rest) 0) x) eqn:E1; [lra|].
  destruct (count_le_props strict x rest) as [C1 [C2 C3]].
  set (j := count_le strict x rest) in *.
  destruct (j =? n - 1)%nat eqn:Ej.
  { apply Nat.eqb_eq in Ej. rewrite Ej. lra. }
  apply Nat.eqb_neq in Ej. assert (Hj : (j < length rest)%nat) by lia.
  pose proof (nq_nonneg j) as Hj0. pose proof (nq_le (S j) (n - 1) ltac:(lia)) as Hj1. rewrite nq_S in Hj1.
  destruct (Qeq_bool (nth j (x0 :: rest) 0) x) eqn:Eh; [lra|].
  apply Qeq_bool_neq in Eh. rewrite Qred_correct.
  assert (Hlo : nth j (x0 :: rest) 0 <= x).
  { destruct j as [|j']; cbn [nth]; [exact E0|]. apply C2. lia. }
  assert (Hhi : x <= nth (S j) (x0 :: rest) 0) by (cbn [nth]; apply C3; exact Hj).
  set (a := nth j (x0 :: rest) 0) in *. set (b := nth (S j) (x0 :: rest) 0) in *.
  assert (Ha : a < x) by (destruct (Qlt_le_dec a x) as [L|L]; [exact L|exfalso; apply Eh; lra]).
  assert (Hd : 0 < b - a) by lra.
  assert (R0 : 0 <= (x - a) / (b - a)) by (apply Qle_shift_div_l; [exact Hd|lra]).
  assert (R1 : (x - a) / (b - a) <= 1) by (apply Qle_shift_div_r; [exact Hd|lra]).
  lra.
Qed.

Lemma wq_from_length acc S ws : length (wq_from acc S ws) = length ws.
Proof. revert acc; induction ws as [|w r IH]; intros acc; cbn; [reflexivity|]. rewrite IH. reflexivity. Qed.
Lemma wquantiles_length ws : length (wquantiles ws) = length ws.
Proof. apply wq_from_length. Qed.

Lemma wq_raw_length strict ws k : length (wq_raw strict ws k) = k.
Proof. unfold wq_raw. rewrite map_length. apply quantiles_length. Qed.

Lemma wq_raw_range strict ws k x : ws <> [] -> In x (wq_raw strict ws k) ->
  0 <= x /\ x <= nq (length ws - 1).
Proof.
  intros Hws Hx. unfold wq_raw in Hx. apply in_map_iff in Hx. destruct Hx as [q [<- _]].
  rewrite <- (wquantiles_length ws). apply interp_idx_range.
  intro E. apply (f_equal (@length Q)) in E. rewrite wquantiles_length in E. destruct ws; [congruence|discriminate].
Qed.

Lemma round_all_in rnd raws i : In i (round_all rnd raws) -> exists j x, In x raws /\ i = rnd j x.
Proof.
  unfold round_all. intros H. apply in_map_iff in H. destruct H as [[j x] [<- Hp]].
  apply in_combine_r in Hp. exists j, x. split; [exact Hp|reflexivity].
Qed.

(* ------------------------------------------------------------------ *)
(* pinning of the 0 and 1 quantiles                                    *)
(* ------------------------------------------------------------------ *)
Lemma map2_in {A B C} (f : A -> B -> C) a b z : In z (map2 f a b) -> exists x y, In x a /\ In y b /\ z = f x y.
Proof.
  revert b; induction a as [|x a IH]; intros [|y b] H; cbn in H; try contradiction.
  destruct H as [<-|H]. exists x, y; cbn; auto.
  destruct (IH b H) as [x' [y' [H1 [H2 H3]]]]. exists x', y'; cbn; auto.
Qed.

Lemma pin_range n q i : (1 <= n)%nat -> in_range n i -> in_range n (pin n q i).
Proof. intros Hn Hi. unfold pin, in_range in *. destruct (qle 1 q); [lia|]. destruct (qle q 0); lia. Qed.

Lemma pin_all_length n k idx : length idx = k -> length (pin_all n k idx) = k.
Proof. intros H. unfold pin_all. rewrite map2_length, quantiles_length. lia. Qed.

Lemma pin_all_range n k idx i : (1 <= n)%nat -> (forall x, In x idx -> in_range n x) ->
  In i (pin_all n k idx) -> in_range n i.
Proof.
  intros Hn Hr Hi. unfold pin_all in Hi. destruct (map2_in _ _ _ _ Hi) as [q [x [_ [Hx ->]]]].
  apply pin_range; [exact Hn|apply Hr; exact Hx].
Qed.

Lemma pin_all_nth n k idx j : length idx = k -> (j < k)%nat ->
  nth j (pin_all n k idx) 0%Z = pin n (nth j (quantiles k) 0) (nth j idx 0%Z).
Proof.
  intros Hl Hj. unfold pin_all. apply nth_map2; [rewrite quantiles_length; exact Hj|lia].
Qed.

Lemma pin_all_first n k idx : length idx = k -> (1 <= k)%nat -> nth 0 (pin_all n k idx) 0%Z = 0%Z.
Proof.
  intros Hl Hk. rewrite pin_all_nth by lia. unfold pin.
  pose proof (quantile_first k ltac:(lia)) as E.
  destruct (qle 1 (nth 0 (quantiles k) 0)) eqn:E1; [apply qle_true in E1; lra|].
  destruct (qle (nth 0 (quantiles k) 0) 0) eqn:E2; [reflexivity|apply qle_false in E2; lra].
Qed.

Lemma pin_all_last n k idx : length idx = k -> (2 <= k)%nat ->
  nth (k - 1) (pin_all n k idx) 0%Z = (Z.of_nat n - 1)%Z.
Proof.
  intros Hl Hk. rewrite pin_all_nth by lia. unfold pin.
  pose proof (quantile_last k Hk) as E.
  destruct (qle 1 (nth (k - 1) (quantiles k) 0)) eqn:E1; [reflexivity|apply qle_false in E1; lra].
Qed.

(* ------------------------------------------------------------------ *)
(* repeated-index repair                                               *)
(* ------------------------------------------------------------------ *)
Lemma zmem_true z l : zmem z l = true <-> In z l.
Proof.
  unfold zmem. rewrite existsb_exists. split.
  - intros [x [H E]]. apply Z.eqb_eq in E. subst. exact H.
  - intros H. exists z. split; [exact H|apply Z.eqb_refl].
Qed.
Lemma zmem_false z l : zmem z l = false <-> ~ In z l.
Proof. rewrite <- zmem_true. destruct (zmem z l); split; congruence. Qed.

Lemma cand_ok_true n used c : cand_ok n used c = true <-> in_range n c /\ ~ In c used.
Proof.
  unfold cand_ok, in_range. rewrite !andb_true_iff, negb_true_iff, zmem_false, Z.leb_le, Z.ltb_lt. tauto.
Qed.

(* the search examines every delta in [delta0, delta0 + fuel) in both directions *)
Lemma find_cand_some fuel : forall delta n v used c,
  find_cand fuel delta n v used = Some c -> in_range n c /\ ~ In c used.
Proof.
  induction fuel as [|f IH]; intros delta n v used c H; cbn in H; [discriminate|].
  destruct (cand_ok n used (v - delta)) eqn:E1; [inversion H; subst; apply cand_ok_true; exact E1|].
  destruct (cand_ok n used (v + delta)) eqn:E2; [inversion H; subst; apply cand_ok_true; exact E2|].
  exact (IH _ _ _ _ _ H).
Qed.

Lemma find_cand_none fuel : forall delta n v used,
  find_cand fuel delta n v used = None ->
  forall d, (delta <= d < delta + Z.of_nat fuel)%Z ->
  cand_ok n used (v - d) = false /\ cand_ok n used (v + d) = false.
Proof.
  induction fuel as [|f IH]; intros delta n v used H d Hd; [lia|]. cbn in H.
  destruct (cand_ok n used (v - delta)) eqn:E1; [discriminate|].
  destruct (cand_ok n used (v + delta)) eqn:E2; [discriminate|].
  destruct (Z.eq_dec d delta) as [->|Hne]; [split; assumption|].
  apply (IH _ _ _ _ H). lia.
Qed.

(* pigeonhole: fewer used indices than positions leaves a free position *)
Lemma free_index n used : (length used < n)%nat -> exists c, in_range n c /\ ~ In c used.
Proof.
  intros Hlen. set (range := map Z.of_nat (seq 0 n)).
  destruct (find (fun c => negb (zmem c used)) range) as [c|] eqn:E.
  - apply find_some in E. destruct E as [Hin Hc]. apply negb_true_iff, zmem_false in Hc.
    exists c. split; [|exact Hc]. subst range. apply in_map_iff in Hin. destruct Hin as [i [<- Hi]].
    apply in_seq in Hi. unfold in_range. lia.
  - exfalso. assert (Hincl : incl range used).
    { intros c Hc. pose proof (find_none _ _ E c Hc) as Hn. apply negb_false_iff, zmem_true in Hn. exact Hn. }
    assert (Hnd : NoDup range).
    { subst range. apply FinFun.Injective_map_NoDup; [intros a b; apply Nat2Z.inj|apply seq_NoDup]. }
    pose proof (NoDup_incl_length Hnd Hincl) as Hl. subst range. rewrite map_length, seq_length in Hl. lia.
Qed.

Lemma find_cand_succeeds n v used : in_range n v -> In v used -> (length used < n)%nat ->
  exists c, find_cand (n - 1) 1 n v used = Some c.
Proof.
  intros Hv Hin Hlen. destruct (free_index n used Hlen) as [c [Hc Hfree]].
  destruct (find_cand (n - 1) 1 n v used) as [c'|] eqn:E; [exists c'; reflexivity|exfalso].
  assert (Hne : c <> v) by (intro; subst; contradiction).
  unfold in_range in *.
  assert (Hok : cand_ok n used c = true) by (apply cand_ok_true; split; assumption).
  destruct (Z_lt_le_dec c v) as [Hlt|Hge].
  - destruct (find_cand_none _ _ _ _ _ E (v - c)%Z ltac:(lia)) as [H1 _].
    replace (v - (v - c))%Z with c in H1 by lia. congruence.
  - destruct (find_cand_none _ _ _ _ _ E (c - v)%Z ltac:(lia)) as [_ H2].
    replace (v + (c - v))%Z with c in H2 by lia. congruence.
Qed.

Fixpoint nonfirst (seen l : list Z) : nat :=
  match l with
  | [] => 0
  | v :: r => if zmem v seen then S (nonfirst seen r) else nonfirst (v :: seen) r
  end.

Lemma first_uses_count seen l : (length (first_uses seen l) + nonfirst seen l = length l)%nat.
Proof.
  revert seen; induction l as [|v r IH]; intros seen; cbn; [reflexivity|].
  destruct (zmem v seen); cbn; [pose proof (IH seen)|pose proof (IH (v :: seen))]; lia.
Qed.

Lemma first_uses_in seen l v : In v l -> In v seen \/ In v (first_uses seen l).
Proof.
  revert seen; induction l as [|x r IH]; intros seen H; [destruct H|]. cbn.
  destruct (zmem x seen) eqn:E.
  - destruct H as [<-|H]; [left; apply zmem_true; exact E|apply IH; exact H].
  - destruct H as [<-|H]; [right; left; reflexivity|].
    destruct (IH (x :: seen) H) as [[<-|Hs]|Hf]; [right; left; reflexivity|left; exact Hs|right; right; exact Hf].
Qed.

Lemma repair_go_ok n : forall rest seen used,
  incl seen used -> incl rest used -> (forall v, In v rest -> in_range n v) ->
  (length used + nonfirst seen rest <= n)%nat ->
  let out := repair_go n seen rest used in
  NoDup out /\ length out = length rest /\
  (forall x, In x out -> in_range n x) /\
  (forall x, In x out -> (In x rest /\ ~ In x seen) \/ ~ In x used) /\
  (forall v, In v rest -> In v seen \/ In v out).
Proof.
  induction rest as [|v r IH]; intros seen used Hseen Hrest Hrange Hcap; cbn [repair_go].
  - cbn. split; [constructor|]. split; [reflexivity|]. split; [intros x []|]. split; intros x [].
  - cbn [nonfirst] in Hcap.
    assert (Hr' : incl r used) by (intros x Hx; apply Hrest; right; exact Hx).
    assert (Hrg' : forall x, In x r -> in_range n x) by (intros x Hx; apply Hrange; right; exact Hx).
    destruct (zmem v seen) eqn:Ev.
    + (* repeated value: a free neighbour is found *)
      assert (Hvu : In v used) by (apply Hrest; left; reflexivity).
      destruct (find_cand_succeeds n v used (Hrange v (or_introl eq_refl)) Hvu ltac:(lia)) as [c Hc].
      rewrite Hc. destruct (find_cand_some _ _ _ _ _ _ Hc) as [Hcr Hcu].
      destruct (IH seen (c :: used)) as [I1 [I2 [I3 [I4 I5]]]].
      * intros x Hx; right; apply Hseen; exact Hx.
      * intros x Hx; right; apply Hr'; exact Hx.
      * exact Hrg'.
      * cbn [length]. lia.
      * cbn zeta. split; [|split; [|split; [|split]]].
        -- constructor; [|exact I1]. intros Hin. destruct (I4 c Hin) as [[Hcr' _]|Hn].
           ++ apply Hcu. apply Hr'. exact Hcr'.
           ++ apply Hn. left; reflexivity.
        -- cbn [length]. rewrite I2. reflexivity.
        -- intros x [<-|Hx]; [exact Hcr|apply I3; exact Hx].
        -- intros x [<-|Hx]; [right; exact Hcu|].
           destruct (I4 x Hx) as [[Hxr Hxs]|Hn]; [left; split; [right; exact Hxr|exact Hxs]|].
           right. intro Hu. apply Hn. right; exact Hu.
        -- intros x [<-|Hx]; [left; apply zmem_true; exact Ev|].
           destruct (I5 x Hx) as [Hs|Ho]; [left; exact Hs|right; right; exact Ho].
    + (* first use: kept *)
      apply zmem_false in Ev.
      destruct (IH (v :: seen) used) as [I1 [I2 [I3 [I4 I5]]]].
      * intros x [<-|Hx]; [apply Hrest; left; reflexivity|apply Hseen; exact Hx].
      * exact Hr'.
      * exact Hrg'.
      * exact Hcap.
      * cbn zeta. split; [|split; [|split; [|split]]].
        -- constructor; [|exact I1]. intros Hin. destruct (I4 v Hin) as [[_ Hns]|Hn].
           ++ apply Hns. left; reflexivity.
           ++ apply Hn. apply Hrest. left; reflexivity.
        -- cbn [length]. rewrite I2. reflexivity.
        -- intros x [<-|Hx]; [apply Hrange; left; reflexivity|apply I3; exact Hx].
        -- intros x [<-|Hx]; [left; split; [left; reflexivity|exact Ev]|].
           destruct (I4 x Hx) as [[Hxr Hxs]|Hn]; [|right; exact Hn].
           left. split; [right; exact Hxr|]. intro Hs. apply Hxs. right; exact Hs.
        -- intros x [<-|Hx]; [right; left; reflexivity|].
           destruct (I5 x Hx) as [[<-|Hs]|Ho]; [right; left; reflexivity|left; exact Hs|right; right; exact Ho].
Qed.

(* the repair loop always ends with pairwise distinct in-range indices that
   still contain every original index, provided there are at least as many
   positions as quantiles *)
Theorem repair_distinct n idx :
  (length idx <= n)%nat -> (forall v, In v idx -> in_range n v) ->
  NoDup (repair n idx) /\ length (repair n idx) = length idx /\
  (forall x, In x (repair n idx) -> in_range n x) /\
  (forall v, In v idx -> In v (repair n idx)).
Proof.
  intros Hlen Hrange. unfold repair.
  destruct (repair_go_ok n idx [] (first_uses [] idx)) as [I1 [I2 [I3 [_ I5]]]].
  - intros x [].
  - intros x Hx. destruct (first_uses_in [] idx x Hx) as [[]|H]; exact H.
  - exact Hrange.
  - pose proof (first_uses_count [] idx). lia.
  - split; [exact I1|]. split; [exact I2|]. split; [exact I3|]. intros v Hv. destruct (I5 v Hv) as [[]|H]; exact H.
Qed.

(* ------------------------------------------------------------------ *)
(* np.sort on the indices                                              *)
(* ------------------------------------------------------------------ *)
Lemma zinsert_in x l y : In y (zinsert x l) <-> y = x \/ In y l.
Proof.
  induction l as [|z l IH]; cbn; [intuition|].
  destruct (x <=? z)%Z; cbn; [intuition|]. rewrite IH. intuition.
Qed.
Lemma zinsert_length x l : length (zinsert x l) = S (length l).
Proof. induction l as [|z l IH]; cbn; [reflexivity|]. destruct (x <=? z)%Z; cbn; [reflexivity|]. rewrite IH; reflexivity. Qed.

Lemma zinsert_increasing x l : zincreasing l -> ~ In x l -> zincreasing (zinsert x l).
Proof.
  induction l as [|z l IH]; intros Hc Hn; cbn; [exact I|].
  destruct (x <=? z)%Z eqn:E.
  - apply Z.leb_le in E. split; [|exact Hc]. assert (x <> z) by (intro; subst; apply Hn; left; reflexivity). lia.
  - apply Z.leb_gt in E.
    assert (Hi : zincreasing (zinsert x l)).
    { apply IH; [exact (chain_tl _ _ _ Hc)|intro; apply Hn; right; assumption]. }
    destruct l as [|w l]; cbn.
    + split; [exact E|exact I].
    + cbn in Hi. destruct Hc as [Hzw Hc]. destruct (x <=? w)%Z eqn:E2; cbn in Hi |- *.
      * split; [exact E|exact Hi].
      * split; [exact Hzw|exact Hi].
Qed.

Lemma zsort_cons x l : zsort (x :: l) = zinsert x (zsort l).
Proof. reflexivity. Qed.
Lemma zsort_in l y : In y (zsort l) <-> In y l.
Proof. induction l as [|x l IH]; [cbn; tauto|]. rewrite zsort_cons, zinsert_in, IH. cbn. intuition. Qed.
Lemma zsort_length l : length (zsort l) = length l.
Proof. induction l as [|x l IH]; [reflexivity|]. rewrite zsort_cons, zinsert_length, IH. reflexivity. Qed.
Lemma zsort_increasing l : NoDup l -> zincreasing (zsort l).
Proof.
  induction 1 as [|x l Hn Hnd IH]; [exact I|]. rewrite zsort_cons.
  apply zinsert_increasing; [exact IH|]. rewrite zsort_in. exact Hn.
Qed.

(* head / last of a strictly increasing list are its minimum / maximum *)
Lemma zincreasing_hd l m : zincreasing l -> In m l -> (forall x, In x l -> (m <= x)%Z) -> hd 0%Z l = m.
Proof.
  destruct l as [|h t]; intros Hc Hin Hmin; [destruct Hin|]. cbn.
  destruct Hin as [E|Hin]; [exact E|].
  pose proof (zincreasing_head_lt h t Hc m Hin). pose proof (Hmin h (or_introl eq_refl)). lia.
Qed.

Lemma zincreasing_last l m : zincreasing l -> In m l -> (forall x, In x l -> (x <= m)%Z) -> last l 0%Z = m.
Proof.
  induction l as [|h t IH]; intros Hc Hin Hmax; [destruct Hin|].
  destruct t as [|h2 t].
  - cbn. destruct Hin as [E|[]]. exact E.
  - change (last (h :: h2 :: t) 0%Z) with (last (h2 :: t) 0%Z). apply IH.
    + exact (chain_tl _ _ _ Hc).
    + destruct Hin as [<-|Hin]; [|exact Hin]. exfalso.
      pose proof (zincreasing_head_lt h (h2 :: t) Hc h2 (or_introl eq_refl)).
      pose proof (Hmax h2 (or_intror (or_introl eq_refl))). lia.
    + intros x Hx. apply Hmax. right; exact Hx.
Qed.

(* ------------------------------------------------------------------ *)
(* the weighted index vector                                           *)
(* ------------------------------------------------------------------ *)
Lemma weighted_idx_props rnd strict ws k :
  nearest rnd -> (1 <= length ws)%nat -> (k <= length ws)%nat ->
  let n := length ws in
  let idx := weighted_idx rnd strict n ws k in
  zincreasing idx /\ length idx = k /\ (forall i, In i idx -> in_range n i) /\
  ((1 <= k)%nat -> hd 0%Z idx = 0%Z) /\ ((2 <= k)%nat -> last idx 0%Z = (Z.of_nat n - 1)%Z).
Proof.
  intros Hn Hn1 Hkn n idx. subst idx. unfold weighted_idx.
  set (raws := wq_raw strict ws k). set (r := round_all rnd raws). set (p := pin_all n k r).
  assert (Hws : ws <> []) by (destruct ws; [cbn in Hn1; lia|congruence]).
  assert (Lr : length r = k) by (subst r raws; rewrite round_all_length; apply wq_raw_length).
  assert (Rr : forall x, In x r -> in_range n x).
  { intros x Hx. destruct (round_all_in _ _ _ Hx) as [j [q [Hq ->]]].
    destruct (wq_raw_range strict ws k q Hws Hq) as [Q0 Q1].
    assert (R : (0 <= rnd j q <= Z.of_nat (n - 1))%Z).
    { apply nearest_bounds; [exact Hn| |]; fold (nq (n - 1)); change (inject_Z 0) with 0; subst n; lra. }
    unfold in_range. subst n. lia. }
  assert (Lp : length p = k) by (subst p; apply pin_all_length; exact Lr).
  assert (Rp : forall x, In x p -> in_range n x).
  { intros x Hx. subst p. apply (pin_all_range n k r x); [subst n; lia|exact Rr|exact Hx]. }
  destruct (repair_distinct n p) as [D1 [D2 [D3 D4]]]; [subst n; lia|exact Rp|].
  split; [apply zsort_increasing; exact D1|].
  split; [rewrite zsort_length, D2; exact Lp|].
  split; [intros i Hi; apply D3; apply (proj1 (zsort_in _ _)); exact Hi|].
  split.
  - intros Hk. apply zincreasing_hd.
    + apply zsort_increasing; exact D1.
    + apply (proj2 (zsort_in _ _)), D4. rewrite <- (pin_all_first n k r Lr Hk). apply nth_In. lia.
    + intros x Hx. apply (proj1 (zsort_in _ _)) in Hx. destruct (D3 x Hx). lia.
  - intros Hk. apply zincreasing_last.
    + apply zsort_increasing; exact D1.
    + apply (proj2 (zsort_in _ _)), D4. rewrite <- (pin_all_last n k r Lr Hk). apply nth_In. lia.
    + intros x Hx. apply (proj1 (zsort_in _ _)) in Hx. destruct (D3 x Hx). lia.
Qed.

(* ------------------------------------------------------------------ *)
(* sort + de-duplication                                               *)
(* ------------------------------------------------------------------ *)
Definition veq_in (x : Q) (l : list Q) : Prop := exists y, In y l /\ y == x.

Lemma ins_increasing v w l : increasing (map gv l) -> increasing (map gv (ins v w l)).
Proof.
  induction l as [|g r IH]; intros Hc; [exact I|]. cbn [ins].
  destruct (qlt v (gv g)) eqn:E1.
  - apply qlt_true in E1. cbn [map gv]. split; [exact E1|exact Hc].
  - apply qlt_false in E1. destruct (Qeq_bool v (gv g)) eqn:E2.
    + exact Hc.
    + apply Qeq_bool_neq in E2. assert (Hlt : gv g < v) by (destruct (Qlt_le_dec (gv g) v); [assumption|exfalso; apply E2; lra]).
      assert (Hi : increasing (map gv (ins v w r))) by (apply IH; exact (chain_tl _ _ _ Hc)).
      destruct r as [|g2 r2]; [cbn; split; [exact Hlt|exact I]|].
      cbn [map] in Hc. destruct Hc as [H12 Hc]. cbn [ins] in Hi |- *.
      destruct (qlt v (gv g2)); [cbn [map gv] in *; split; [exact Hlt|exact Hi]|].
      destruct (Qeq_bool v (gv g2)); cbn [map gv] in *; (split; [exact H12|exact Hi]).
Qed.

Lemma sort_unique_increasing ps : increasing (map gv (sort_unique ps)).
Proof. induction ps as [|p ps IH]; [exact I|]. cbn. apply ins_increasing. exact IH. Qed.

Lemma ins_values v w l x : veq_in x (map gv (ins v w l)) <-> (v == x \/ veq_in x (map gv l)).
Proof.
  induction l as [|g r IH]; cbn [ins].
  - cbn. unfold veq_in. split.
    + intros [y [[<-|[]] Hy]]. left; exact Hy.
    + intros [H|[y [[] _]]]. exists v. split; [left; reflexivity|exact H].
  - destruct (qlt v (gv g)) eqn:E1.
    + cbn [map gv]. unfold veq_in. split.
      * intros [y [[<-|Hy] Hyx]]; [left; exact Hyx|right; exists y; split; assumption].
      * intros [H|[y [Hy Hyx]]]; [exists v; split; [left; reflexivity|exact H]|exists y; split; [right; exact Hy|exact Hyx]].
    + destruct (Qeq_bool v (gv g)) eqn:E2.
      * apply Qeq_bool_eq in E2. cbn [map gv]. unfold veq_in. split.
        -- intros [y [Hy Hyx]]. right. exists y. split; assumption.
        -- intros [H|[y [Hy Hyx]]]; [|exists y; split; assumption].
           exists (gv g). split; [left; reflexivity|rewrite <- E2; exact H].
      * cbn [map]. unfold veq_in in *. split.
        -- intros [y [[<-|Hy] Hyx]]; [right; exists (gv g); split; [left; reflexivity|exact Hyx]|].
           destruct (proj1 IH (ex_intro _ y (conj Hy Hyx))) as [H|[z [Hz Hzx]]]; [left; exact H|].
           right. exists z. split; [right; exact Hz|exact Hzx].
        -- intros [H|[y [[<-|Hy] Hyx]]].
           ++ destruct (proj2 IH (or_introl H)) as [z [Hz Hzx]]. exists z. split; [right; exact Hz|exact Hzx].
           ++ exists (gv g). split; [left; reflexivity|exact Hyx].
           ++ destruct (proj2 IH (or_intror (ex_intro _ y (conj Hy Hyx)))) as [z [Hz Hzx]].
              exists z. split; [right; exact Hz|exact Hzx].
Qed.

Lemma sort_unique_values ps x : veq_in x (map gv (sort_unique ps)) <-> veq_in x (map fst ps).
Proof.
  induction ps as [|p ps IH].
  - cbn. unfold veq_in. split; intros [y [[] _]].
  - cbn [sort_unique fold_right]. fold (sort_unique ps). rewrite ins_values, IH. cbn [map]. unfold veq_in. split.
    + intros [H|[y [Hy Hyx]]]; [exists (fst p); split; [left; reflexivity|exact H]|exists y; split; [right; exact Hy|exact Hyx]].
    + intros [y [[<-|Hy] Hyx]]; [left; exact Hyx|right; exists y; split; assumption].
Qed.

(* values of prep = clipped, when the weight vector has the length of the data *)
Definition wlen_ok (vs : list Q) (ws : option (list Q)) : Prop :=
  match ws with Some w => length w = length vs | None => True end.

Lemma map_fst_combine {A B} (a : list A) (b : list B) : length b = length a -> map fst (combine a b) = a.
Proof. revert b; induction a as [|x a IH]; intros [|y b] H; cbn in *; try congruence. f_equal. apply IH. lia. Qed.

Lemma map_fst_filter (f : Q -> bool) (ps : list (Q * Q)) :
  map fst (filter (fun p => f (fst p)) ps) = filter f (map fst ps).
Proof. induction ps as [|p ps IH]; cbn; [reflexivity|]. destruct (f (fst p)); cbn; rewrite IH; reflexivity. Qed.

Lemma prep_values vs ws cmin cmax dv : wlen_ok vs ws -> map fst (prep vs ws cmin cmax dv) = clipped vs cmin cmax dv.
Proof.
  intros Hl. unfold prep, clipped.
  assert (E0 : map fst (pairs vs ws) = vs).
  { unfold pairs. apply map_fst_combine. destruct ws; [exact Hl|apply map_length]. }
  assert (E1 : map fst (remove_default dv (pairs vs ws)) =
               match dv with None => vs | Some d => filter (fun v => negb (Qeq_bool v d)) vs end).
  { unfold remove_default. destruct dv as [d|]; [|exact E0].
    rewrite (map_fst_filter (fun v => negb (Qeq_bool v d))). rewrite E0. reflexivity. }
  set (p0 := remove_default dv (pairs vs ws)) in *.
  set (v0 := match dv with None => vs | Some d => filter (fun v => negb (Qeq_bool v d)) vs end) in *.
  assert (E2 : map fst (clip_lo_step cmin p0) =
               match cmin with None => v0 | Some lo => map (fun v => qmax v lo) v0 ++ [lo] end).
  { unfold clip_lo_step. destruct cmin as [lo|]; [|exact E1].
    rewrite map_app, map_map. cbn [map fst]. rewrite <- E1, map_map. reflexivity. }
  set (p1 := clip_lo_step cmin p0) in *.
  set (v1 := match cmin with None => v0 | Some lo => map (fun v => qmax v lo) v0 ++ [lo] end) in *.
  unfold clip_hi_step. destruct cmax as [hi|]; [|exact E2].
  rewrite map_app, map_map. cbn [map fst]. rewrite <- E2, map_map. reflexivity.
Qed.

(* first / last sorted value = minimum / maximum of the clipped data *)
Lemma sorted_first_is_min sv cl : increasing sv -> cl <> [] -> (forall x, veq_in x sv <-> veq_in x cl) ->
  nth 0 sv 0 == qminl cl /\ nth (length sv - 1) sv 0 == qmaxl cl.
Proof.
  intros Hinc Hne Hv.
  assert (Hsv : (0 < length sv)%nat).
  { destruct cl as [|c cl]; [congruence|]. destruct (proj2 (Hv c)) as [y [Hy _]].
    exists c; split; [left; reflexivity|reflexivity]. destruct sv; [destruct Hy|cbn; lia]. }
  assert (Hall : forall x, In x cl -> nth 0 sv 0 <= x /\ x <= nth (length sv - 1) sv 0).
  { intros x Hx. destruct (proj2 (Hv x)) as [y [Hy Hyx]]. exists x; split; [exact Hx|reflexivity].
    apply (In_nth _ _ 0) in Hy. destruct Hy as [i [Hi <-]]. rewrite <- Hyx.
    split; apply increasing_nth_le; try assumption; lia. }
  split.
  - apply Qle_antisym.
    + apply qminl_glb; [exact Hne|]. intros x Hx. apply Hall; exact Hx.
    + destruct (proj1 (Hv (nth 0 sv 0))) as [y [Hy Hyx]].
      exists (nth 0 sv 0); split; [apply nth_In; exact Hsv|reflexivity].
      rewrite <- Hyx. apply qminl_le; exact Hy.
  - apply Qle_antisym.
    + destruct (proj1 (Hv (nth (length sv - 1) sv 0))) as [y [Hy Hyx]].
      exists (nth (length sv - 1) sv 0); split; [apply nth_In; lia|reflexivity].
      rewrite <- Hyx. apply qmaxl_ge; exact Hy.
    + apply qmaxl_lub; [exact Hne|]. intros x Hx. apply Hall; exact Hx.
Qed.

Lemma two_distinct_values sv cl a b : increasing sv -> (forall x, veq_in x sv <-> veq_in x cl) ->
  In a cl -> In b cl -> a < b -> (2 <= length sv)%nat.
Proof.
  intros _ Hv Ha Hb Hab.
  destruct (proj2 (Hv a)) as [ya [Hya Ea]]; [exists a; split; [exact Ha|reflexivity]|].
  destruct (proj2 (Hv b)) as [yb [Hyb Eb]]; [exists b; split; [exact Hb|reflexivity]|].
  destruct sv as [|s1 [|s2 sv]]; [destruct Hya| |cbn; lia].
  destruct Hya as [<-|[]]. destruct Hyb as [<-|[]]. lra.
Qed.

(* ------------------------------------------------------------------ *)
(* uniform keypoints                                                   *)
(* ------------------------------------------------------------------ *)
Lemma linspace_length a b k : length (linspace a b k) = k.
Proof. unfold linspace. rewrite map_length, seq_length. reflexivity. Qed.

Lemma linspace_nth a b k j : (j < k)%nat -> nth j (linspace a b k) 0 == a + nq j * ((b - a) / nq (k - 1)).
Proof.
  intros H. unfold linspace. rewrite map_nth_lt with (d' := 0%nat) by (rewrite seq_length; exact H).
  rewrite seq_nth by exact H. rewrite Qred_correct. reflexivity.
Qed.

Lemma linspace_first a b k : (1 <= k)%nat -> nth 0 (linspace a b k) 0 == a.
Proof. intros H. rewrite linspace_nth by lia. rewrite nq_0. lra. Qed.

Lemma linspace_last a b k : (2 <= k)%nat -> nth (k - 1) (linspace a b k) 0 == b.
Proof. intros H. rewrite linspace_nth by lia. pose proof (nq_pos (k - 1) ltac:(lia)). field. lra. Qed.

Lemma linspace_step a b k j : (S j < k)%nat ->
  nth (S j) (linspace a b k) 0 - nth j (linspace a b k) 0 == (b - a) / nq (k - 1).
Proof. intros H. rewrite !linspace_nth by lia. rewrite nq_S. ring. Qed.

Lemma linspace_increasing a b k : a < b -> increasing (linspace a b k).
Proof.
  intros Hab. apply (chain_nth Qlt 0). intros j Hj. rewrite linspace_length in Hj.
  pose proof (linspace_step a b k j Hj) as E.
  assert (0 < (b - a) / nq (k - 1)).
  { apply Qlt_shift_div_l; [apply nq_pos; lia|lra]. }
  lra.
Qed.

Lemma linspace_range a b k x : a <= b -> In x (linspace a b k) -> a <= x /\ x <= b.
Proof.
  intros Hab Hx. apply (In_nth _ _ 0) in Hx. destruct Hx as [j [Hj <-]]. rewrite linspace_length in Hj.
  rewrite linspace_nth by exact Hj.
  destruct (Nat.eq_dec k 1) as [->|Hk].
  - assert (j = 0%nat) by lia. subst. rewrite nq_0. lra.
  - pose proof (nq_pos (k - 1) ltac:(lia)) as Hp.
    assert (E : nq j * ((b - a) / nq (k - 1)) == (nq j / nq (k - 1)) * (b - a)) by (field; lra).
    assert (R0 : 0 <= nq j / nq (k - 1)) by (apply Qle_shift_div_l; [exact Hp|pose proof (nq_nonneg j); lra]).
    assert (R1 : nq j / nq (k - 1) <= 1) by (apply Qle_shift_div_r; [exact Hp|pose proof (nq_le j (k - 1) ltac:(lia)); lra]).
    set (r := nq j / nq (k - 1)) in *.
    pose proof (qmul_nonneg r (b - a) R0 ltac:(lra)).
    pose proof (qmul_nonneg (1 - r) (b - a) ltac:(lra) ltac:(lra)).
    lra.
Qed.

Lemma last_default {A} (l : list A) d d' : l <> [] -> last l d = last l d'.
Proof.
  induction l as [|x l IH]; [congruence|]. intros _. destruct l as [|y l]; [reflexivity|].
  change (last (x :: y :: l) d) with (last (y :: l) d). change (last (x :: y :: l) d') with (last (y :: l) d').
  apply IH. discriminate.
Qed.

(* hd / last in terms of nth *)
Lemma hd_nth0 (l : list Q) : hd 0 l = nth 0 l 0.
Proof. destruct l; reflexivity. Qed.
Lemma last_nth (l : list Q) : last l 0 = nth (length l - 1) l 0.
Proof.
  induction l as [|x l IH]; [reflexivity|]. destruct l as [|y l]; [reflexivity|].
  change (last (x :: y :: l) 0) with (last (y :: l) 0). rewrite IH. cbn [length].
  replace (S (S (length l)) - 1)%nat with (S (S (length l) - 1))%nat by lia. reflexivity.
Qed.
Lemma zhd_nth0 (l : list Z) : hd 0%Z l = nth 0 l 0%Z.
Proof. destruct l; reflexivity. Qed.
Lemma zlast_nth (l : list Z) : last l 0%Z = nth (length l - 1) l 0%Z.
Proof.
  induction l as [|x l IH]; [reflexivity|]. destruct l as [|y l]; [reflexivity|].
  change (last (x :: y :: l) 0%Z) with (last (y :: l) 0%Z). rewrite IH. cbn [length].
  replace (S (S (length l)) - 1)%nat with (S (S (length l) - 1))%nat by lia. reflexivity.
Qed.

Lemma take_nth sv idx j : (j < length idx)%nat -> nth j (take sv idx) 0 = nth (Z.to_nat (nth j idx 0%Z)) sv 0.
Proof. intros H. unfold take. rewrite map_nth_lt with (d' := 0%Z) by exact H. reflexivity. Qed.

(* ------------------------------------------------------------------ *)
(* finish: all clauses, given the strictly sorted distinct values      *)
(* ------------------------------------------------------------------ *)
Record kp_valid (sv : list Q) (k : nat) (mode : kmode) (kps : list Q) : Prop := {
  kv_increasing : (2 <= length sv)%nat -> increasing kps;
  kv_range : forall x, In x kps -> nth 0 sv 0 <= x /\ x <= nth (length sv - 1) sv 0;
  kv_first : (2 <= k)%nat -> hd 0 kps == nth 0 sv 0;
  kv_last : (2 <= k)%nat -> last kps 0 == nth (length sv - 1) sv 0;
  kv_count_enough : (k <= length sv)%nat -> length kps = k;
  kv_count_few : (length sv < k)%nat -> mode = Quantiles -> kps = sv;
  kv_count_uniform : mode = Uniform -> length kps = k;
  kv_nonempty : kps <> [] -> sv <> [];
  kv_mode : mode <> MOther }.

Lemma take_valid sv k mode idx :
  increasing sv -> (1 <= length sv)%nat -> (k <= length sv)%nat -> mode = Quantiles ->
  zincreasing idx -> length idx = k -> (forall i, In i idx -> in_range (length sv) i) ->
  ((1 <= k)%nat -> hd 0%Z idx = 0%Z) -> ((2 <= k)%nat -> last idx 0%Z = (Z.of_nat (length sv) - 1)%Z) ->
  kp_valid sv k mode (take sv idx).
Proof.
  intros Hsv Hn1 Hkn Hm Hinc Hlen Hr Hhd Hlast. constructor.
  - intros _. apply take_increasing; assumption.
  - intros x Hx. apply (take_in_bounds sv idx); assumption.
  - intros Hk. rewrite hd_nth0, take_nth by lia. rewrite <- zhd_nth0, Hhd by lia. reflexivity.
  - intros Hk. rewrite last_nth, take_length, take_nth by lia. rewrite <- zlast_nth, Hlast by lia.
    replace (Z.to_nat (Z.of_nat (length sv) - 1)) with (length sv - 1)%nat by lia. reflexivity.
  - intros _. rewrite take_length. exact Hlen.
  - intros H. lia.
  - intros H. congruence.
  - intros Hne E. rewrite E in Hn1. cbn in Hn1. lia.
  - congruence.
Qed.

Lemma uniform_valid sv k : increasing sv -> sv <> [] ->
  kp_valid sv k Uniform (linspace (hd 0 sv) (last sv (hd 0 sv)) k).
Proof.
  intros Hsv Hne.
  assert (Ea : hd 0 sv = nth 0 sv 0) by apply hd_nth0.
  assert (Eb : last sv (hd 0 sv) = nth (length sv - 1) sv 0).
  { rewrite <- last_nth. apply last_default. exact Hne. }
  rewrite Eb, Ea.
  assert (Hn1 : (1 <= length sv)%nat) by (destruct sv; [congruence|cbn; lia]).
  assert (Hab : nth 0 sv 0 <= nth (length sv - 1) sv 0) by (apply increasing_nth_le; [exact Hsv|lia|lia]).
  constructor.
  + intros H2. apply linspace_increasing. apply increasing_nth; [exact Hsv|lia|lia].
  + intros x Hx. apply (linspace_range _ _ k); assumption.
  + intros Hk. rewrite hd_nth0. apply linspace_first. lia.
  + intros Hk. rewrite last_nth, linspace_length. apply linspace_last. exact Hk.
  + intros _. apply linspace_length.
  + discriminate.
  + intros _. apply linspace_length.
  + intros _. exact Hne.
  + discriminate.
Qed.

Lemma finish_valid rnd strict gs k mode weighted red kps :
  nearest rnd -> increasing (map gv gs) ->
  finish rnd strict gs k mode weighted red = Some kps ->
  kp_valid (map gv gs) k mode kps.
Proof.
  intros Hn Hsv. unfold finish. set (sv := map gv gs) in *.
  assert (Hmain :
    match mode with
    | Quantiles =>
      if (length sv <? k)%nat then Some sv
      else if weighted then
             let rw := map (reduce red) gs in
             if Qeq_bool (qsum rw) 0 && (2 <? k)%nat then None else weighted_quantile rnd strict sv rw k
           else Some (nearest_quantile rnd sv k)
    | Uniform => match sv with [] => None | a :: _ => Some (linspace a (last sv a) k) end
    | MOther => None
    end = Some kps -> kp_valid sv k mode kps).
  2:{ destruct weighted; [destruct red|]; try exact Hmain; discriminate. }
  destruct mode; [| |discriminate].
  - (* quantiles *)
    destruct (length sv <? k)%nat eqn:Ek.
    + apply Nat.ltb_lt in Ek. intros E; inversion E; subst kps. constructor.
      * intros _. exact Hsv.
      * intros x Hx. apply (In_nth _ _ 0) in Hx. destruct Hx as [i [Hi <-]].
        split; apply increasing_nth_le; try assumption; lia.
      * intros _. rewrite hd_nth0. reflexivity.
      * intros _. rewrite last_nth. reflexivity.
      * intros H; lia.
      * reflexivity.
      * discriminate.
      * tauto.
      * discriminate.
    + apply Nat.ltb_ge in Ek. destruct weighted.
      * cbn zeta. destruct (Qeq_bool (qsum (map (reduce red) gs)) 0 && (2 <? k)%nat); [discriminate|].
        unfold weighted_quantile. destruct (length sv <? k)%nat; [discriminate|].
        intros E; inversion E; subst kps.
        destruct (Nat.eq_dec (length sv) 0) as [E0|E0].
        { (* no data at all and k = 0 *)
          assert (k = 0%nat) by lia. subst k. destruct sv; [|discriminate]. cbn.
          constructor; cbn; intros; try lia; try reflexivity; try contradiction; try exact I; congruence. }
        assert (Lw : length (map (reduce red) gs) = length sv) by (subst sv; rewrite !map_length; reflexivity).
        destruct (weighted_idx_props rnd strict (map (reduce red) gs) k Hn ltac:(lia) ltac:(lia))
          as [W1 [W2 [W3 [W4 W5]]]].
        rewrite Lw in *. apply take_valid; try assumption; try lia. reflexivity.
      * intros E; inversion E; subst kps. unfold nearest_quantile. fold (uidx rnd (length sv) k).
        destruct (Nat.eq_dec (length sv) 0) as [E0|E0].
        { assert (k = 0%nat) by lia. subst k. destruct sv; [|discriminate]. cbn.
          constructor; cbn; intros; try lia; try reflexivity; try contradiction; try exact I; congruence. }
        apply take_valid; try assumption; try lia; try reflexivity.
        -- apply uidx_increasing; assumption.
        -- apply uidx_length.
        -- intros i Hi. apply (uidx_range rnd (length sv) k); [exact Hn|lia|exact Hi].
        -- intros Hk. rewrite zhd_nth0. apply uidx_first; assumption.
        -- intros Hk. rewrite zlast_nth, uidx_length. rewrite uidx_last by assumption. lia.
  - (* uniform *)
    clearbody sv. destruct sv as [|a sv']; [discriminate|]. intros E; inversion E; subst kps.
    exact (uniform_valid (a :: sv') k Hsv ltac:(discriminate)).
Qed.

(* ------------------------------------------------------------------ *)
(* compute_keypoints                                                   *)
(* ------------------------------------------------------------------ *)
Lemma distinct_values_spec vs ws cmin cmax dv : wlen_ok vs ws ->
  increasing (distinct_values vs ws cmin cmax dv) /\
  forall x, veq_in x (distinct_values vs ws cmin cmax dv) <-> veq_in x (clipped vs cmin cmax dv).
Proof.
  intros Hl. unfold distinct_values. split; [apply sort_unique_increasing|].
  intros x. rewrite sort_unique_values, prep_values by exact Hl. tauto.
Qed.

Lemma ck_valid rnd strict vs k mode cmin cmax dv ws red kps :
  nearest rnd -> compute_keypoints rnd strict vs k mode cmin cmax dv ws red = Some kps ->
  kp_valid (distinct_values vs ws cmin cmax dv) k mode kps.
Proof.
  intros Hn H. unfold compute_keypoints in H. unfold distinct_values.
  apply (finish_valid rnd strict _ k mode (is_some ws) red kps Hn); [apply sort_unique_increasing|exact H].
Qed.

Definition two_distinct (cl : list Q) : Prop := exists a b, In a cl /\ In b cl /\ a < b.

Lemma distinct_values_two vs ws cmin cmax dv : wlen_ok vs ws -> two_distinct (clipped vs cmin cmax dv) ->
  (2 <= length (distinct_values vs ws cmin cmax dv))%nat.
Proof.
  intros Hl [a [b [Ha [Hb Hab]]]]. destruct (distinct_values_spec vs ws cmin cmax dv Hl) as [Hi Hv].
  exact (two_distinct_values _ _ a b Hi Hv Ha Hb Hab).
Qed.

Lemma distinct_values_nonempty vs ws cmin cmax dv : wlen_ok vs ws ->
  distinct_values vs ws cmin cmax dv <> [] -> clipped vs cmin cmax dv <> [].
Proof.
  intros Hl Hne E. destruct (distinct_values_spec vs ws cmin cmax dv Hl) as [_ Hv].
  destruct (distinct_values vs ws cmin cmax dv) as [|s sv]; [congruence|].
  destruct (proj1 (Hv s)) as [y [Hy _]]; [exists s; split; [left; reflexivity|reflexivity]|].
  rewrite E in Hy. destruct Hy.
Qed.

Lemma distinct_values_extremes vs ws cmin cmax dv : wlen_ok vs ws -> clipped vs cmin cmax dv <> [] ->
  let sv := distinct_values vs ws cmin cmax dv in
  nth 0 sv 0 == qminl (clipped vs cmin cmax dv) /\ nth (length sv - 1) sv 0 == qmaxl (clipped vs cmin cmax dv).
Proof.
  intros Hl Hne sv. destruct (distinct_values_spec vs ws cmin cmax dv Hl) as [Hi Hv].
  exact (sorted_first_is_min sv _ Hi Hne Hv).
Qed.

Theorem ck_strictly_increasing rnd strict vs k mode cmin cmax dv ws red kps :
  nearest rnd -> wlen_ok vs ws ->
  compute_keypoints rnd strict vs k mode cmin cmax dv ws red = Some kps ->
  two_distinct (clipped vs cmin cmax dv) -> increasing kps.
Proof.
  intros Hn Hl H H2. apply (kv_increasing _ _ _ _ (ck_valid _ _ _ _ _ _ _ _ _ _ _ Hn H)).
  apply distinct_values_two; assumption.
Qed.

Theorem ck_within_range rnd strict vs k mode cmin cmax dv ws red kps :
  nearest rnd -> wlen_ok vs ws ->
  compute_keypoints rnd strict vs k mode cmin cmax dv ws red = Some kps ->
  forall x, In x kps -> qminl (clipped vs cmin cmax dv) <= x /\ x <= qmaxl (clipped vs cmin cmax dv).
Proof.
  intros Hn Hl H x Hx. pose proof (ck_valid _ _ _ _ _ _ _ _ _ _ _ Hn H) as V.
  assert (Hne : clipped vs cmin cmax dv <> []).
  { apply (distinct_values_nonempty vs ws); [exact Hl|]. apply (kv_nonempty _ _ _ _ V). intro E; rewrite E in Hx; destruct Hx. }
  destruct (distinct_values_extremes vs ws cmin cmax dv Hl Hne) as [E1 E2]. cbn zeta in E1, E2.
  destruct (kv_range _ _ _ _ V x Hx) as [R1 R2]. lra.
Qed.

Theorem ck_endpoints rnd strict vs k mode cmin cmax dv ws red kps :
  nearest rnd -> wlen_ok vs ws -> (2 <= k)%nat -> clipped vs cmin cmax dv <> [] ->
  compute_keypoints rnd strict vs k mode cmin cmax dv ws red = Some kps ->
  hd 0 kps == qminl (clipped vs cmin cmax dv) /\ last kps 0 == qmaxl (clipped vs cmin cmax dv).
Proof.
  intros Hn Hl Hk Hne H. pose proof (ck_valid _ _ _ _ _ _ _ _ _ _ _ Hn H) as V.
  destruct (distinct_values_extremes vs ws cmin cmax dv Hl Hne) as [E1 E2]. cbn zeta in E1, E2.
  rewrite (kv_first _ _ _ _ V Hk), (kv_last _ _ _ _ V Hk). split; assumption.
Qed.

(* what the extremes of the clipped data are when clip bounds are given *)
Lemma qminl_char l m : In m l -> (forall x, In x l -> m <= x) -> qminl l == m.
Proof.
  intros Hin Hall. apply Qle_antisym; [apply qminl_le; exact Hin|].
  apply qminl_glb; [intro E; rewrite E in Hin; destruct Hin|exact Hall].
Qed.
Lemma qmaxl_char l m : In m l -> (forall x, In x l -> x <= m) -> qmaxl l == m.
Proof.
  intros Hin Hall. apply Qle_antisym; [|apply qmaxl_ge; exact Hin].
  apply qmaxl_lub; [intro E; rewrite E in Hin; destruct Hin|exact Hall].
Qed.

Theorem clipped_max_is_clip_max vs cmin dv hi : qmaxl (clipped vs cmin (Some hi) dv) == hi.
Proof.
  unfold clipped. apply qmaxl_char.
  - apply in_or_app. right. left. reflexivity.
  - intros x Hx. apply in_app_or in Hx. destruct Hx as [Hx|[<-|[]]]; [|lra].
    apply in_map_iff in Hx. destruct Hx as [y [<- _]]. apply qmin_r.
Qed.

Theorem clipped_min_is_clip_min vs cmax dv lo :
  qminl (clipped vs (Some lo) cmax dv) == match cmax with Some hi => qmin lo hi | None => lo end.
Proof.
  unfold clipped.
  set (v0 := match dv with None => vs | Some d => filter (fun v => negb (Qeq_bool v d)) vs end).
  assert (H1 : forall x, In x (map (fun v => qmax v lo) v0 ++ [lo]) -> lo <= x).
  { intros x Hx. apply in_app_or in Hx. destruct Hx as [Hx|[<-|[]]]; [|lra].
    apply in_map_iff in Hx. destruct Hx as [y [<- _]]. apply qmax_r. }
  destruct cmax as [hi|].
  - apply qminl_char.
    + apply in_or_app. left. apply in_map_iff. exists lo. split; [reflexivity|].
      apply in_or_app. right. left. reflexivity.
    + intros x Hx. apply in_app_or in Hx. destruct Hx as [Hx|[<-|[]]]; [|apply qmin_r].
      apply in_map_iff in Hx. destruct Hx as [y [<- Hy]]. pose proof (H1 y Hy). qcases; lra.
  - apply qminl_char; [apply in_or_app; right; left; reflexivity|exact H1].
Qed.

Theorem ck_count rnd strict vs k mode cmin cmax dv ws red kps :
  nearest rnd ->
  compute_keypoints rnd strict vs k mode cmin cmax dv ws red = Some kps ->
  let sv := distinct_values vs ws cmin cmax dv in
  ((k <= length sv)%nat -> length kps = k) /\
  ((length sv < k)%nat -> mode = Quantiles -> kps = sv) /\
  (mode = Uniform -> length kps = k).
Proof.
  intros Hn H sv. pose proof (ck_valid _ _ _ _ _ _ _ _ _ _ _ Hn H) as V.
  split; [apply (kv_count_enough _ _ _ _ V)|]. split; [apply (kv_count_few _ _ _ _ V)|apply (kv_count_uniform _ _ _ _ V)].
Qed.

Theorem ck_accepted_by_pwl rnd strict vs k mode cmin cmax dv ws red kps :
  nearest rnd -> wlen_ok vs ws -> (2 <= k)%nat ->
  compute_keypoints rnd strict vs k mode cmin cmax dv ws red = Some kps ->
  two_distinct (clipped vs cmin cmax dv) -> pwl_keypoints_ok kps = true.
Proof.
  intros Hn Hl Hk H H2. pose proof (ck_valid _ _ _ _ _ _ _ _ _ _ _ Hn H) as V.
  pose proof (distinct_values_two vs ws cmin cmax dv Hl H2) as Hd.
  unfold pwl_keypoints_ok. apply andb_true_iff. split.
  - apply Nat.leb_le. destruct (le_lt_dec k (length (distinct_values vs ws cmin cmax dv))) as [Hle|Hlt].
    + rewrite (kv_count_enough _ _ _ _ V Hle). exact Hk.
    + destruct mode.
      * rewrite (kv_count_few _ _ _ _ V Hlt eq_refl). exact Hd.
      * rewrite (kv_count_uniform _ _ _ _ V eq_refl). exact Hk.
      * exfalso. exact (kv_mode _ _ _ _ V eq_refl).
  - apply strictly_inc_b_true. apply (kv_increasing _ _ _ _ V Hd).
Qed.

(* uniform mode: exactly the equally spaced points between the extremes *)
Theorem ck_uniform_formula rnd strict vs k cmin cmax dv ws red kps :
  wlen_ok vs ws ->
  compute_keypoints rnd strict vs k Uniform cmin cmax dv ws red = Some kps ->
  let a := qminl (clipped vs cmin cmax dv) in let b := qmaxl (clipped vs cmin cmax dv) in
  length kps = k /\ forall j, (j < k)%nat -> nth j kps 0 == a + nq j * ((b - a) / nq (k - 1)).
Proof.
  intros Hl H a b. unfold compute_keypoints, finish in H.
  assert (H' : match distinct_values vs ws cmin cmax dv with
               | [] => None
               | a0 :: _ => Some (linspace a0 (last (distinct_values vs ws cmin cmax dv) a0) k)
               end = Some kps).
  { unfold distinct_values. destruct (is_some ws); [destruct red|]; try exact H; discriminate. }
  clear H. destruct (distinct_values vs ws cmin cmax dv) as [|a0 sv'] eqn:Esv; [discriminate|].
  inversion H'; subst kps. clear H'.
  assert (Hne : clipped vs cmin cmax dv <> []).
  { apply (distinct_values_nonempty vs ws); [exact Hl|rewrite Esv; discriminate]. }
  destruct (distinct_values_extremes vs ws cmin cmax dv Hl Hne) as [E1 E2]. cbn zeta in E1, E2.
  rewrite <- last_nth in E2. rewrite Esv in E1, E2. cbn [nth] in E1.
  rewrite (last_default _ 0 a0) in E2 by discriminate.
  split; [apply linspace_length|]. intros j Hj. rewrite linspace_nth by exact Hj.
  subst a b. rewrite E1, E2. reflexivity.
Qed.

(* ------------------------------------------------------------------ *)
(* no error for non-negative weights with positive sum                 *)
(* ------------------------------------------------------------------ *)
Definition groups_ok (l : list grp) : Prop := forall g, In g l -> 0 <= gw g /\ (1 <= gc g)%nat.
Definition groups_pos (l : list grp) : Prop := exists g, In g l /\ 0 < gw g.

Lemma ins_ok v w l : 0 <= w -> groups_ok l -> groups_ok (ins v w l).
Proof.
  intros Hw. induction l as [|g r IH]; intros Hok; cbn [ins].
  - intros g [<-|[]]. cbn [gw gc]. split; [exact Hw|lia].
  - assert (Hr : groups_ok r) by (intros x Hx; apply Hok; right; exact Hx).
    destruct (Hok g (or_introl eq_refl)) as [G1 G2].
    destruct (qlt v (gv g)).
    + intros x [<-|Hx]; [cbn [gw gc]; split; [exact Hw|lia]|apply Hok; exact Hx].
    + destruct (Qeq_bool v (gv g)).
      * intros x [<-|Hx]; [cbn [gw gc]; rewrite Qred_correct; split; [lra|lia]|apply Hr; exact Hx].
      * intros x [<-|Hx]; [split; assumption|apply (IH Hr); exact Hx].
Qed.

Lemma ins_pos_new v w l : 0 < w -> groups_ok l -> groups_pos (ins v w l).
Proof.
  intros Hw. induction l as [|g r IH]; intros Hok; cbn [ins].
  - exists (mkg v w 1). split; [left; reflexivity|exact Hw].
  - assert (Hr : groups_ok r) by (intros x Hx; apply Hok; right; exact Hx).
    destruct (Hok g (or_introl eq_refl)) as [G1 G2].
    destruct (qlt v (gv g)).
    + exists (mkg v w 1). split; [left; reflexivity|exact Hw].
    + destruct (Qeq_bool v (gv g)).
      * eexists. split; [left; reflexivity|]. cbn [gw]. rewrite Qred_correct. lra.
      * destruct (IH Hr) as [x [Hx Hp]]. exists x. split; [right; exact Hx|exact Hp].
Qed.

Lemma ins_pos_old v w l : 0 <= w -> groups_pos l -> groups_pos (ins v w l).
Proof.
  intros Hw. induction l as [|g r IH]; intros [x [Hx Hp]]; [destruct Hx|]. cbn [ins].
  destruct (qlt v (gv g)).
  - exists x. split; [right; exact Hx|exact Hp].
  - destruct (Qeq_bool v (gv g)).
    + destruct Hx as [<-|Hx].
      * eexists. split; [left; reflexivity|]. cbn [gw]. rewrite Qred_correct. lra.
      * exists x. split; [right; exact Hx|exact Hp].
    + destruct Hx as [<-|Hx].
      * exists g. split; [left; reflexivity|exact Hp].
      * destruct (IH (ex_intro _ x (conj Hx Hp))) as [y [Hy Hyp]]. exists y. split; [right; exact Hy|exact Hyp].
Qed.

Lemma sort_unique_ok ps : (forall p, In p ps -> 0 <= snd p) -> groups_ok (sort_unique ps).
Proof.
  induction ps as [|p ps IH]; intros H; [intros g []|]. cbn. apply ins_ok.
  - apply H; left; reflexivity.
  - apply IH. intros q Hq. apply H; right; exact Hq.
Qed.

Lemma sort_unique_pos ps : (forall p, In p ps -> 0 <= snd p) -> (exists p, In p ps /\ 0 < snd p) ->
  groups_pos (sort_unique ps).
Proof.
  induction ps as [|p ps IH]; intros H [q [Hq Hpos]]; [destruct Hq|]. cbn.
  assert (Hps : forall x, In x ps -> 0 <= snd x) by (intros x Hx; apply H; right; exact Hx).
  destruct Hq as [<-|Hq].
  - apply ins_pos_new; [exact Hpos|apply sort_unique_ok; exact Hps].
  - apply ins_pos_old; [apply H; left; reflexivity|]. apply IH; [exact Hps|]. exists q. split; assumption.
Qed.

Lemma qsum_pos l : (forall x, In x l -> 0 <= x) -> (exists x, In x l /\ 0 < x) -> 0 < qsum l.
Proof.
  induction l as [|y l IH]; intros Hall [x [Hx Hp]]; [destruct Hx|]. cbn [qsum].
  assert (Hl : 0 <= qsum l).
  { clear IH Hx. induction l as [|z l IHl]; cbn [qsum]; [lra|].
    pose proof (Hall z (or_intror (or_introl eq_refl))).
    assert (0 <= qsum l) by (apply IHl; intros a [<-|Ha]; apply Hall; [left; reflexivity|right; right; exact Ha]). lra. }
  pose proof (Hall y (or_introl eq_refl)).
  destruct Hx as [<-|Hx]; [lra|].
  assert (0 < qsum l) by (apply IH; [intros a Ha; apply Hall; right; exact Ha|exists x; split; assumption]). lra.
Qed.

Lemma reduced_sum_pos red gs : red <> ROther -> groups_ok gs -> groups_pos gs ->
  0 < qsum (map (reduce red) gs).
Proof.
  intros Hred Hok [g [Hg Hp]].
  assert (R0 : forall x, In x gs -> 0 <= reduce red x).
  { intros x Hx. destruct (Hok x Hx) as [G1 G2]. destruct red; cbn [reduce]; try exact G1.
    rewrite Qred_correct. apply Qle_shift_div_l; [apply nq_pos; lia|lra]. }
  apply qsum_pos.
  - intros y Hy. apply in_map_iff in Hy. destruct Hy as [x [<- Hx]]. apply R0; exact Hx.
  - exists (reduce red g). split; [apply in_map; exact Hg|].
    destruct (Hok g Hg) as [G1 G2]. destruct red; cbn [reduce]; try exact Hp.
    rewrite Qred_correct. apply Qlt_shift_div_l; [apply nq_pos; lia|lra].
Qed.

Definition weights_ok (vs : list Q) (ws : option (list Q)) (dv : option Q) : Prop :=
  match ws with
  | None => True
  | Some w => (forall x, In x w -> 0 <= x) /\
              exists p, In p (remove_default dv (pairs vs ws)) /\ 0 < snd p
  end.

Lemma prep_weights vs w cmin cmax dv : weights_ok vs (Some w) dv ->
  (forall p, In p (prep vs (Some w) cmin cmax dv) -> 0 <= snd p) /\
  (exists p, In p (prep vs (Some w) cmin cmax dv) /\ 0 < snd p).
Proof.
  intros [Hnn [p0 [Hp0 Hpos]]]. unfold prep.
  set (ps0 := remove_default dv (pairs vs (Some w))) in *.
  assert (A0 : forall p, In p ps0 -> 0 <= snd p).
  { intros p Hp. subst ps0. unfold remove_default in Hp.
    assert (Hin : In p (pairs vs (Some w))) by (destruct dv; [apply filter_In in Hp; tauto|exact Hp]).
    unfold pairs in Hin. destruct p as [a b]. apply in_combine_r in Hin. apply Hnn; exact Hin. }
  assert (A1 : (forall p, In p (clip_lo_step cmin ps0) -> 0 <= snd p) /\
               exists p, In p (clip_lo_step cmin ps0) /\ 0 < snd p).
  { unfold clip_lo_step. destruct cmin as [lo|]; [|split; [exact A0|exists p0; split; assumption]]. split.
    - intros p Hp. apply in_app_or in Hp. destruct Hp as [Hp|[<-|[]]]; [|cbn; lra].
      apply in_map_iff in Hp. destruct Hp as [q [<- Hq]]. cbn. apply A0; exact Hq.
    - exists (qmax (fst p0) lo, snd p0). split; [|exact Hpos]. apply in_or_app. left.
      apply in_map_iff. exists p0. split; [reflexivity|exact Hp0]. }
  destruct A1 as [B0 [p1 [Hp1 Hpos1]]]. set (ps1 := clip_lo_step cmin ps0) in *.
  unfold clip_hi_step. destruct cmax as [hi|]; [|split; [exact B0|exists p1; split; assumption]]. split.
  - intros p Hp. apply in_app_or in Hp. destruct Hp as [Hp|[<-|[]]]; [|cbn; lra].
    apply in_map_iff in Hp. destruct Hp as [q [<- Hq]]. cbn. apply B0; exact Hq.
  - exists (qmin (fst p1) hi, snd p1). split; [|exact Hpos1]. apply in_or_app. left.
    apply in_map_iff. exists p1. split; [reflexivity|exact Hp1].
Qed.

Theorem ck_no_error rnd strict vs k mode cmin cmax dv ws red :
  wlen_ok vs ws -> mode <> MOther -> (ws <> None -> red <> ROther) ->
  clipped vs cmin cmax dv <> [] -> weights_ok vs ws dv ->
  exists kps, compute_keypoints rnd strict vs k mode cmin cmax dv ws red = Some kps.
Proof.
  intros Hl Hm Hr Hne Hw. unfold compute_keypoints, finish.
  assert (Hsv : map gv (sort_unique (prep vs ws cmin cmax dv)) <> []).
  { fold (distinct_values vs ws cmin cmax dv). intro E.
    destruct (distinct_values_spec vs ws cmin cmax dv Hl) as [_ Hv]. rewrite E in Hv.
    destruct (clipped vs cmin cmax dv) as [|c cl]; [congruence|].
    destruct (proj2 (Hv c)) as [y [[] _]]. exists c. split; [left; reflexivity|reflexivity]. }
  set (gs := sort_unique (prep vs ws cmin cmax dv)) in *.
  destruct ws as [w|]; cbn [is_some].
  - assert (Hred : red <> ROther) by (apply Hr; discriminate).
    destruct (prep_weights vs w cmin cmax dv Hw) as [P0 P1].
    assert (Hpos : 0 < qsum (map (reduce red) gs)).
    { apply reduced_sum_pos; [exact Hred|apply sort_unique_ok; exact P0|apply sort_unique_pos; assumption]. }
    assert (Hz : Qeq_bool (qsum (map (reduce red) gs)) 0 = false).
    { destruct (Qeq_bool (qsum (map (reduce red) gs)) 0) eqn:E; [apply Qeq_bool_eq in E; lra|reflexivity]. }
    destruct red; [| |congruence]; (destruct mode; [| |congruence]).
    all: try (destruct (map gv gs) as [|a sv'] eqn:Esv; [congruence|eexists; reflexivity]).
    all: destruct (length (map gv gs) <? k)%nat eqn:Ek; [eexists; reflexivity|].
    all: cbn zeta; rewrite Hz; cbn [andb]; unfold weighted_quantile; rewrite Ek; eexists; reflexivity.
  - assert (E : forall (X : option (list Q)), match red with RMean | _ => X end = X) by (intros; destruct red; reflexivity).
    destruct mode; [| |congruence].
    + destruct red; (destruct (length (map gv gs) <? k)%nat; eexists; reflexivity).
    + destruct red; (destruct (map gv gs) as [|a sv'] eqn:Esv; [congruence|eexists; reflexivity]).
Qed.

(* ------------------------------------------------------------------ *)
(* np.interp's precondition: xp is non-decreasing                      *)
(* ------------------------------------------------------------------ *)
Lemma wq_from_nondecreasing S : 0 < S -> forall ws acc, (forall w, In w ws -> 0 <= w) ->
  chain Qle (wq_from acc S ws).
Proof.
  intros HS. induction ws as [|w r IH]; intros acc Hnn; [exact I|].
  destruct r as [|w2 r2]; [exact I|].
  change (wq_from acc S (w :: w2 :: r2)) with
    (Qred ((Qred (acc + w) - (1#2) * w) / S) :: wq_from (Qred (acc + w)) S (w2 :: r2)).
  assert (Hr : forall x, In x (w2 :: r2) -> 0 <= x) by (intros x Hx; apply Hnn; right; exact Hx).
  pose proof (IH (Qred (acc + w)) Hr) as Hc.
  change (wq_from (Qred (acc + w)) S (w2 :: r2)) with
    (Qred ((Qred (Qred (acc + w) + w2) - (1#2) * w2) / S) :: wq_from (Qred (Qred (acc + w) + w2)) S r2) in *.
  split; [|exact Hc].
  rewrite !Qred_correct. pose proof (Hnn w (or_introl eq_refl)). pose proof (Hr w2 (or_introl eq_refl)).
  unfold Qdiv. apply Qmult_le_compat_r; [lra|]. apply Qinv_le_0_compat. lra.
Qed.

Theorem wquantiles_nondecreasing ws : (forall w, In w ws -> 0 <= w) -> 0 < qsum ws -> chain Qle (wquantiles ws).
Proof. intros Hnn HS. unfold wquantiles. apply wq_from_nondecreasing; assumption. Qed.

(* ------------------------------------------------------------------ *)
(* feature / label helpers                                             *)
(* ------------------------------------------------------------------ *)
Theorem cfk_entry rnd strict fcs features ws red name r :
  In (name, r) (compute_feature_keypoints rnd strict fcs features ws red) ->
  exists vs, In (name, vs) features /\ r = feature_keypoints_one rnd strict (fc_by_name fcs name) vs ws red.
Proof.
  unfold compute_feature_keypoints. intros H. apply in_map_iff in H. destruct H as [[n vs] [E Hin]].
  cbn [fst snd] in E. inversion E; subst. exists vs. split; [exact Hin|reflexivity].
Qed.

Theorem fk_one_cases rnd strict fc vs ws red :
  (fc_num_buckets fc <> 0%nat -> feature_keypoints_one rnd strict fc vs ws red = FSkip) /\
  (fc_num_buckets fc = 0%nat -> forall g, fc_spec fc = KGiven g ->
     feature_keypoints_one rnd strict fc vs ws red = FKeypoints g) /\
  (fc_num_buckets fc = 0%nat -> forall m, fc_spec fc = KMode m ->
     feature_keypoints_one rnd strict fc vs ws red =
     match compute_keypoints rnd strict vs (fc_num_keypoints fc) m (fc_clip_min fc) (fc_clip_max fc)
                             (fc_default fc) ws red with
     | Some kps => FKeypoints kps | None => FError end).
Proof.
  unfold feature_keypoints_one. split; [|split].
  - intros H. apply Nat.eqb_neq in H. rewrite H. reflexivity.
  - intros H g Hg. rewrite H, Hg. reflexivity.
  - intros H m Hm. rewrite H, Hm. reflexivity.
Qed.

(* a computed entry of a numeric feature is compute_keypoints on that
   feature's data with the fields of its (or the default) config *)
Theorem cfk_numeric rnd strict fcs features ws red name kps m :
  In (name, FKeypoints kps) (compute_feature_keypoints rnd strict fcs features ws red) ->
  fc_spec (fc_by_name fcs name) = KMode m ->
  let fc := fc_by_name fcs name in
  exists vs, In (name, vs) features /\
    compute_keypoints rnd strict vs (fc_num_keypoints fc) m (fc_clip_min fc) (fc_clip_max fc)
                      (fc_default fc) ws red = Some kps.
Proof.
  intros H Hm fc. destruct (cfk_entry _ _ _ _ _ _ _ _ H) as [vs [Hin E]]. exists vs. split; [exact Hin|].
  unfold feature_keypoints_one in E. fold fc in E, Hm. rewrite Hm in E.
  destruct (fc_num_buckets fc =? 0)%nat; [|discriminate].
  destruct (compute_keypoints rnd strict vs (fc_num_keypoints fc) m (fc_clip_min fc) (fc_clip_max fc)
                              (fc_default fc) ws red); [inversion E; reflexivity|discriminate].
Qed.

Lemma fc_by_name_set_first fcs name kps : has_fc fcs name = true ->
  fc_by_name (set_first fcs name kps) name = set_spec (fc_by_name fcs name) kps.
Proof.
  induction fcs as [|fc r IH]; cbn; [discriminate|]. intros H.
  destruct (fc_name fc =? name)%nat eqn:E; cbn.
  - change (fc_name (set_spec fc kps)) with (fc_name fc). rewrite E. reflexivity.
  - rewrite E. apply IH. exact H.
Qed.

Lemma fc_by_name_app_missing fcs fc' name : has_fc fcs name = false -> fc_name fc' = name ->
  fc_by_name (fcs ++ [fc']) name = fc'.
Proof.
  induction fcs as [|fc r IH]; cbn; intros H E.
  - rewrite E, Nat.eqb_refl. reflexivity.
  - destruct (fc_name fc =? name)%nat; [discriminate|]. apply IH; assumption.
Qed.

(* after set_feature_keypoints the named config carries the keypoints *)
Theorem set_feature_keypoints_one_spec add fcs name kps :
  has_fc fcs name = true \/ add = true ->
  fc_spec (fc_by_name (set_feature_keypoints_one add fcs name kps) name) = KGiven kps.
Proof.
  intros H. unfold set_feature_keypoints_one. destruct (has_fc fcs name) eqn:E.
  - rewrite fc_by_name_set_first by exact E. reflexivity.
  - destruct H as [H|H]; [discriminate|]. rewrite H.
    rewrite fc_by_name_app_missing; [reflexivity|exact E|reflexivity].
Qed.

Lemma fc_by_name_set_first_other fcs name kps name' : name' <> name ->
  fc_by_name (set_first fcs name kps) name' = fc_by_name fcs name'.
Proof.
  intros Hne. induction fcs as [|fc r IH]; cbn; [reflexivity|].
  destruct (fc_name fc =? name)%nat eqn:E; cbn.
  - change (fc_name (set_spec fc kps)) with (fc_name fc). apply Nat.eqb_eq in E.
    destruct (fc_name fc =? name')%nat eqn:E'; [apply Nat.eqb_eq in E'; congruence|reflexivity].
  - destruct (fc_name fc =? name')%nat; [reflexivity|exact IH].
Qed.

Lemma fc_by_name_app_other fcs fc' name' : fc_name fc' <> name' ->
  fc_by_name (fcs ++ [fc']) name' = fc_by_name fcs name'.
Proof.
  intros Hne. induction fcs as [|fc r IH]; cbn.
  - apply Nat.eqb_neq in Hne. rewrite Hne. reflexivity.
  - destruct (fc_name fc =? name')%nat; [reflexivity|exact IH].
Qed.

Theorem set_feature_keypoints_one_other add fcs name kps name' : name' <> name ->
  fc_by_name (set_feature_keypoints_one add fcs name kps) name' = fc_by_name fcs name'.
Proof.
  intros Hne. unfold set_feature_keypoints_one. destruct (has_fc fcs name).
  - apply fc_by_name_set_first_other; exact Hne.
  - destruct add; [|reflexivity]. apply fc_by_name_app_other. cbn. congruence.
Qed.

Theorem label_keypoints_cases rnd strict lc labels logits ws red :
  (forall g, lc_spec lc = KGiven g -> compute_label_keypoints rnd strict lc labels logits ws red = FKeypoints g) /\
  (forall m, lc_spec lc = KMode m -> logits = true ->
     compute_label_keypoints rnd strict lc labels logits ws red =
     FKeypoints (linspace (-2#1) (2#1) (lc_num_keypoints lc))) /\
  (forall m, lc_spec lc = KMode m -> logits = false ->
     compute_label_keypoints rnd strict lc labels logits ws red =
     match compute_keypoints rnd strict (label_values labels) (lc_num_keypoints lc) m (lc_output_min lc)
                             (lc_output_max lc) None (label_weights labels ws) red with
     | Some kps => FKeypoints kps | None => FError end).
Proof.
  unfold compute_label_keypoints. split; [|split].
  - intros g Hg. rewrite Hg. reflexivity.
  - intros m Hm Hl. rewrite Hm, Hl. reflexivity.
  - intros m Hm Hl. rewrite Hm, Hl. reflexivity.
Qed.

Theorem logits_keypoints_valid k : (2 <= k)%nat ->
  pwl_keypoints_ok (linspace (-2#1) (2#1) k) = true /\ length (linspace (-2#1) (2#1) k) = k.
Proof.
  intros Hk. split; [|apply linspace_length]. unfold pwl_keypoints_ok. apply andb_true_iff. split.
  - apply Nat.leb_le. rewrite linspace_length. exact Hk.
  - apply strictly_inc_b_true. apply linspace_increasing. reflexivity.
Qed.
