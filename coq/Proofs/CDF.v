(* Lemmas about Model/CDF.v *)
From TFL Require Import Model.CDF Proofs.CondPWL.
Open Scope Q_scope.

(* ---- oracle hypotheses ---------------------------------------------------- *)
Definition sigmoid_mono_ok (sg : Q -> Q) : Prop :=
  (forall z, 0 <= sg z /\ sg z <= 1) /\ (forall a b, a <= b -> sg a <= sg b).
Definition explog_ok (ex lg : Q -> Q) : Prop :=
  (forall a b, a <= b -> ex a <= ex b) /\ (forall a b, 0 < a -> a <= b -> lg a <= lg b)
  /\ (forall a, 0 < a -> ex (lg a) == a).
Definition exp_pos (ex : Q -> Q) : Prop := forall z, 0 < ex z.

(* ---- pointwise order on vectors / matrices -------------------------------- *)
Definition vle (a b : list Q) : Prop := Forall2 Qle a b.
Definition mle (a b : list (list Q)) : Prop := Forall2 vle a b.
Definition all_in (lo hi : Q) (m : list (list Q)) : Prop :=
  forall row, In row m -> forall v, In v row -> lo <= v <= hi.

Lemma Forall2_map_seq {A} (R : A -> A -> Prop) (f g : nat -> A) n : forall s,
  (forall i, (s <= i < s + n)%nat -> R (f i) (g i)) -> Forall2 R (map f (seq s n)) (map g (seq s n)).
Proof. induction n as [|n IH]; intros s H; cbn [seq map]. constructor.
  constructor. apply H; lia. apply IH. intros i Hi. apply H. lia. Qed.
Lemma vle_nth a b i : vle a b -> nth i a 0 <= nth i b 0.
Proof. intros H. revert i. induction H as [|x y a b Hxy H IH]; intros [|i]; cbn [nth]; try lra. apply IH. Qed.
Lemma vle_app a b c d : vle a b -> vle c d -> vle (a ++ c) (b ++ d).
Proof. intros H1 H2. induction H1; cbn [app]. exact H2. constructor; assumption. Qed.
Lemma mle_concat a b : mle a b -> vle (concat a) (concat b).
Proof. intros H. induction H; cbn [concat]. constructor. apply vle_app; assumption. Qed.
Lemma mle_nth_row a b i : mle a b -> vle (nth i a []) (nth i b []).
Proof. intros H. revert i. induction H as [|x y a b Hxy H IH]; intros [|i]; cbn [nth]. constructor. constructor. exact Hxy. apply IH. Qed.
Lemma mle_column u a b : mle a b -> vle (column u a) (column u b).
Proof. intros H. unfold column. induction H; cbn [map]. constructor. constructor. apply vle_nth; assumption. assumption. Qed.
Lemma vle_length a b : vle a b -> length a = length b.
Proof. intros H. induction H; cbn [length]; congruence. Qed.
Lemma vle_qsum a b : vle a b -> qsum a <= qsum b.
Proof. intros H. induction H; cbn [qsum]; lra. Qed.
Lemma vle_map (f g : Q -> Q) a b : (forall x y, x <= y -> f x <= g y) -> vle a b -> vle (map f a) (map g b).
Proof. intros Hf H. induction H; cbn [map]; constructor; auto. Qed.

(* ---- mean ------------------------------------------------------------------- *)
Lemma inv_nat_nonneg n : 0 <= / inject_Z (Z.of_nat n).
Proof. apply Qinv_le_0_compat. change 0 with (inject_Z 0). rewrite <- Zle_Qle. lia. Qed.
Lemma qmean_mono a b : vle a b -> qmean a <= qmean b.
Proof. intros H. unfold qmean. rewrite (vle_length a b H). unfold Qdiv.
  apply Qmult_le_compat_r. apply vle_qsum; exact H. apply inv_nat_nonneg. Qed.
Lemma qsum_bounds lo hi l : (forall v, In v l -> lo <= v <= hi) ->
  inject_Z (Z.of_nat (length l)) * lo <= qsum l <= inject_Z (Z.of_nat (length l)) * hi.
Proof. induction l as [|a l IH]; intros H. cbn [length qsum]. change (inject_Z (Z.of_nat 0)) with 0. lra.
  destruct (IH (fun v Hv => H v (or_intror Hv))) as [A B]. pose proof (H a (or_introl eq_refl)) as [C D].
  cbn [length qsum]. rewrite Nat2Z.inj_succ. unfold Z.succ. rewrite inject_Z_plus. change (inject_Z 1) with 1. lra. Qed.
Lemma qmean_range lo hi l : l <> [] -> (forall v, In v l -> lo <= v <= hi) -> lo <= qmean l <= hi.
Proof. intros Hne H. destruct (qsum_bounds lo hi l H) as [A B]. unfold qmean.
  assert (Hn : 0 < inject_Z (Z.of_nat (length l))).
  { change 0 with (inject_Z 0). rewrite <- Zlt_Qlt. destruct l; [congruence|cbn [length]; lia]. }
  split. apply Qle_shift_div_l. exact Hn. lra. apply Qle_shift_div_r. exact Hn. lra. Qed.
(* with 0 inside the interval the empty mean (0 in the model) is covered too *)
Lemma qmean_range0 hi l : 0 <= hi -> (forall v, In v l -> 0 <= v <= hi) -> 0 <= qmean l <= hi.
Proof. intros Hhi H. destruct l as [|a l]. unfold qmean; cbn. unfold Qdiv. rewrite Qmult_0_l. lra.
  apply qmean_range. discriminate. exact H. Qed.

(* ---- basis functions ---------------------------------------------------------- *)
Lemma relu6_range z : 0 <= relu6 z <= 6.
Proof. unfold relu6. qcases; lra. Qed.
Lemma relu6_mono a b : a <= b -> relu6 a <= relu6 b.
Proof. intros H. unfold relu6. qcases; lra. Qed.

Section Oracles.
Variable sg ex lg : Q -> Q.
Hypothesis Hsg : sigmoid_mono_ok sg.

Lemma basis_range a zs : 0 <= basis sg a zs <= 1.
Proof. unfold basis. destruct a.
  - assert (H : 0 <= qmean (map relu6 zs) <= 6).
    { apply qmean_range0. lra. intros v Hv. apply in_map_iff in Hv. destruct Hv as [z [<- _]]. apply relu6_range. } lra.
  - apply qmean_range0. lra. intros v Hv. apply in_map_iff in Hv. destruct Hv as [z [<- _]]. apply (proj1 Hsg).
  - assert (H : 0 <= qmean (map relu6 zs) <= 6).
    { apply qmean_range0. lra. intros v Hv. apply in_map_iff in Hv. destruct Hv as [z [<- _]]. apply relu6_range. } lra.
Qed.
Lemma basis_mono a zs zs' : vle zs zs' -> basis sg a zs <= basis sg a zs'.
Proof. intros H. unfold basis. destruct a.
  - assert (qmean (map relu6 zs) <= qmean (map relu6 zs')) by (apply qmean_mono, vle_map; [intros; apply relu6_mono; assumption|exact H]). lra.
  - apply qmean_mono, vle_map; [intros; apply (proj2 Hsg); assumption|exact H].
  - assert (qmean (map relu6 zs) <= qmean (map relu6 zs')) by (apply qmean_mono, vle_map; [intros; apply relu6_mono; assumption|exact H]). lra.
Qed.

(* ---- reshape and reductions ------------------------------------------------- *)
Lemma all_in_nth lo hi m i u : lo <= 0 <= hi -> all_in lo hi m -> lo <= nth u (nth i m []) 0 <= hi.
Proof. intros H0 H. destruct (Nat.lt_ge_cases i (length m)) as [Hi|Hi].
  - pose proof (nth_In m [] Hi) as Hr. destruct (Nat.lt_ge_cases u (length (nth i m []))) as [Hu|Hu].
    + apply (H _ Hr). apply nth_In. exact Hu.
    + rewrite (nth_overflow _ 0 Hu). exact H0.
  - rewrite (nth_overflow m [] Hi). destruct u; exact H0. Qed.
Lemma all_in_concat_nth lo hi m k : lo <= 0 <= hi -> all_in lo hi m -> lo <= nth k (concat m) 0 <= hi.
Proof. intros H0 H. destruct (Nat.lt_ge_cases k (length (concat m))) as [Hk|Hk].
  - pose proof (nth_In (concat m) 0 Hk) as Hin. apply in_concat in Hin. destruct Hin as [row [Hr Hv]]. apply (H row Hr). exact Hv.
  - rewrite (nth_overflow _ 0 Hk). exact H0. Qed.
Lemma reshape2_all_in lo hi rows cols m : lo <= 0 <= hi -> all_in lo hi m -> all_in lo hi (reshape2 rows cols m).
Proof. intros H0 H row Hr v Hv. unfold reshape2 in Hr. apply in_map_iff in Hr. destruct Hr as [i [<- _]].
  apply in_map_iff in Hv. destruct Hv as [u [<- _]]. apply all_in_concat_nth; assumption. Qed.
Lemma reshape2_mle rows cols a b : mle a b -> mle (reshape2 rows cols a) (reshape2 rows cols b).
Proof. intros H. unfold reshape2, mle. apply Forall2_map_seq. intros i _. apply Forall2_map_seq. intros u _.
  apply vle_nth. apply mle_concat. exact H. Qed.

Lemma column_all_in lo hi u m : lo <= 0 <= hi -> all_in lo hi m -> forall v, In v (column u m) -> lo <= v <= hi.
Proof. intros H0 H v Hv. unfold column in Hv. apply in_map_iff in Hv. destruct Hv as [row [<- Hr]].
  destruct (Nat.lt_ge_cases u (length row)) as [Hu|Hu]. apply (H row Hr). apply nth_In; exact Hu.
  rewrite (nth_overflow _ 0 Hu). exact H0. Qed.

Hypothesis Hel : explog_ok ex lg.

Lemma geo_range eps col : 0 < eps -> col <> [] -> (forall v, In v col -> 0 <= v <= 1) ->
  eps <= geo ex lg eps (length col) col <= 1 + eps.
Proof. intros He Hne H. destruct Hel as [Hex [Hlg Hxl]]. unfold geo.
  assert (R : lg eps <= qmean (map (fun v => lg (v + eps)) col) <= lg (1 + eps)).
  { apply qmean_range. destruct col; [congruence|discriminate].
    intros w Hw. apply in_map_iff in Hw. destruct Hw as [v [<- Hv]]. destruct (H v Hv). split; apply Hlg; lra. }
  unfold qmean in R. rewrite map_length in R.
  pose proof (Hxl eps He) as E1. pose proof (Hxl (1 + eps) ltac:(lra)) as E2.
  pose proof (Hex _ _ (proj1 R)) as A. pose proof (Hex _ _ (proj2 R)) as B. lra. Qed.
Lemma geo_mono eps n a b : 0 < eps -> (forall v, In v a -> 0 <= v) -> vle a b ->
  geo ex lg eps n a <= geo ex lg eps n b.
Proof. intros He Ha H. destruct Hel as [Hex [Hlg Hxl]]. unfold geo. apply Hex. unfold Qdiv.
  apply Qmult_le_compat_r; [|apply inv_nat_nonneg]. apply vle_qsum.
  clear -He Ha H Hlg. induction H as [|x y a b Hxy H IH]; cbn [map]; constructor.
  - apply Hlg. pose proof (Ha x (or_introl eq_refl)). lra. lra.
  - apply IH. intros v Hv. apply Ha. right. exact Hv. Qed.

Definition red_plain (r : red) : Prop := r = RMean \/ r = RNone.

Lemma reduce_range_plain r eps n units m : red_plain r -> all_in 0 1 m -> all_in 0 1 (reduce ex lg r eps n units m).
Proof. intros [-> | ->] H; cbn [reduce]; [|exact H].
  intros row [<-|[]] v Hv. apply in_map_iff in Hv. destruct Hv as [u [<- _]].
  apply qmean_range0. lra. apply column_all_in. lra. exact H. Qed.
Lemma reduce_range_geo eps units m : 0 < eps -> m <> [] -> all_in 0 1 m ->
  all_in eps (1 + eps) (reduce ex lg RGeo eps (length m) units m).
Proof. intros He Hne H. cbn [reduce]. intros row [<-|[]] v Hv. apply in_map_iff in Hv. destruct Hv as [u [<- _]].
  assert (L : length (column u m) = length m) by (unfold column; apply map_length).
  rewrite <- L. apply geo_range. exact He. destruct m; [congruence|discriminate].
  apply column_all_in. lra. exact H. Qed.
Lemma reduce_mle r eps n units a b : 0 < eps -> all_in 0 1 a -> mle a b ->
  mle (reduce ex lg r eps n units a) (reduce ex lg r eps n units b).
Proof. intros He Ha H. destruct r; cbn [reduce]; try exact H.
  - constructor; [|constructor]. apply Forall2_map_seq. intros u _. apply qmean_mono, mle_column, H.
  - constructor; [|constructor]. apply Forall2_map_seq. intros u _. apply geo_mono. exact He.
    intros v Hv. apply (column_all_in 0 1 u a ltac:(lra) Ha v Hv). apply mle_column, H. Qed.

(* ---- cdf_fn ----------------------------------------------------------------- *)
Lemma cdf_cells_all_in a expm x loc scal uf : all_in 0 1 (cdf_cells sg ex a expm x loc scal uf).
Proof. intros row Hr v Hv. unfold cdf_cells in Hr. apply in_map_iff in Hr. destruct Hr as [i [<- _]].
  apply in_map_iff in Hv. destruct Hv as [u [<- _]]. apply basis_range. Qed.

(* every effective scale is non-negative *)
Definition scal_nonneg (expm : option Q) (scal : option (list (list (list Q)))) : Prop :=
  match scal, expm with
  | None, _ => True
  | Some s, None => forall m, In m s -> forall r, In r m -> forall v, In v r -> 0 <= v
  | Some _, Some _ => exp_pos ex
  end.

Lemma bsel_In {A} (d : A) i (l : list A) : bsel d i l = d \/ In (bsel d i l) l.
Proof. unfold bsel. destruct (length l =? 1)%nat.
  - destruct (Nat.lt_ge_cases 0 (length l)). right; apply nth_In; assumption. left; apply nth_overflow; assumption.
  - destruct (Nat.lt_ge_cases i (length l)). right; apply nth_In; assumption. left; apply nth_overflow; assumption. Qed.

Lemma scale_nonneg expm s i k v : scal_nonneg expm (Some s) ->
  0 <= scale_of ex expm (bsel 0 v (bsel [] k (bsel [] i s))).
Proof. unfold scal_nonneg, scale_of. destruct expm as [m|]; intros H. apply Qlt_le_weak, H.
  destruct (bsel_In [] i s) as [E|Hm]. { rewrite E. unfold bsel at 2. cbn. unfold bsel. cbn. destruct k, v; cbn; lra. }
  destruct (bsel_In [] k (bsel [] i s)) as [E|Hr]. { rewrite E. unfold bsel. cbn. destruct v; lra. }
  destruct (bsel_In 0 v (bsel [] k (bsel [] i s))) as [E|Hv]. { rewrite E. lra. }
  exact (H _ Hm _ Hr _ Hv). Qed.

Lemma cdf_cells_mle a expm x x' loc scal uf : scal_nonneg expm scal -> vle x x' ->
  mle (cdf_cells sg ex a expm x loc scal uf) (cdf_cells sg ex a expm x' loc scal uf).
Proof. intros Hs Hx. unfold cdf_cells. rewrite <- (vle_length x x' Hx). apply Forall2_map_seq. intros i _.
  apply Forall2_map_seq. intros v _. apply basis_mono. apply Forall2_map_seq. intros k _.
  pose proof (vle_nth x x' i Hx) as Hi. destruct scal as [s|]. 2: lra.
  pose proof (scale_nonneg expm s i k v Hs) as Hn.
  set (sc := scale_of ex expm _) in *. set (l := nth v _ 0).
  pose proof (qmul_nonneg sc (nth i x' 0 - nth i x 0) Hn ltac:(lra)). lra. Qed.

Lemma cdf_fn_range_plain a r units sf expm x loc scal out : red_plain r ->
  cdf_fn sg ex lg a r units sf expm x loc scal = Some out -> all_in 0 1 out.
Proof. intros Hr. unfold cdf_fn. destruct (negb _); [discriminate|]. intros E. injection E as <-.
  apply reduce_range_plain. exact Hr. destruct (sf =? 1)%nat. apply cdf_cells_all_in.
  apply reshape2_all_in. lra. apply cdf_cells_all_in. Qed.

Lemma cdf_fn_range_geo a units sf expm x loc scal out : x <> [] ->
  cdf_fn sg ex lg a RGeo units sf expm x loc scal = Some out -> all_in eps_fn (1 + eps_fn) out.
Proof. intros Hx. unfold cdf_fn. destruct (verify_cdf _ _ _ _ _ _) eqn:V; cbn [negb]; [|discriminate]. intros E. injection E as <-.
  unfold verify_cdf in V. repeat (apply andb_true_iff in V; destruct V as [V ?]).
  apply Nat.ltb_lt in H3. apply Nat.eqb_eq in H1.
  apply reduce_range_geo. unfold eps_fn; lra.
  - destruct (sf =? 1)%nat.
    + unfold cdf_cells. destruct x; [congruence|]. cbn [length seq map]. discriminate.
    + unfold reshape2. assert (0 < length x / sf)%nat.
      { apply Nat.div_str_pos. split. exact H3. apply Nat.div_exact in H1; [|lia].
        destruct (length x / sf)%nat eqn:Eq. destruct x; [congruence|]. cbn [length] in *. lia. nia. }
      destruct (length x / sf)%nat; [lia|]. cbn [seq map]. discriminate.
  - destruct (sf =? 1)%nat. apply cdf_cells_all_in. apply reshape2_all_in. lra. apply cdf_cells_all_in. Qed.

Lemma cdf_fn_monotone a r units sf expm x x' loc scal out out' : scal_nonneg expm scal -> vle x x' ->
  cdf_fn sg ex lg a r units sf expm x loc scal = Some out ->
  cdf_fn sg ex lg a r units sf expm x' loc scal = Some out' -> mle out out'.
Proof. intros Hs Hx. unfold cdf_fn. rewrite <- (vle_length x x' Hx). destruct (negb _); [discriminate|].
  intros E E'. injection E as <-. injection E' as <-.
  pose proof (cdf_cells_mle a expm x x' loc scal (units / sf) Hs Hx) as M.
  pose proof (cdf_cells_all_in a expm x loc scal (units / sf)) as A.
  destruct (sf =? 1)%nat.
  - assert (L : length (cdf_cells sg ex a expm x loc scal (units / sf)) = length (cdf_cells sg ex a expm x' loc scal (units / sf))).
    { unfold cdf_cells. rewrite !map_length, !seq_length. apply (vle_length x x' Hx). }
    rewrite <- L. apply reduce_mle. unfold eps_fn; lra. exact A. exact M.
  - assert (L : length (reshape2 (length x / sf) units (cdf_cells sg ex a expm x loc scal (units / sf))) =
                length (reshape2 (length x / sf) units (cdf_cells sg ex a expm x' loc scal (units / sf)))).
    { unfold reshape2. rewrite !map_length. reflexivity. }
    rewrite <- L. apply reduce_mle. unfold eps_fn; lra. apply reshape2_all_in. lra. exact A. apply reshape2_mle. exact M. Qed.

End Oracles.

(* ---- tfl.layers.CDF ----------------------------------------------------------- *)
Section Layer.
Variable sg ex lg : Q -> Q.
Hypothesis Hsg : sigmoid_mono_ok sg.
Hypothesis Hel : explog_ok ex lg.

Lemma nonneg_all w : forall v, In v (nonneg w) -> 0 <= v.
Proof. intros v Hv. unfold nonneg in Hv. apply in_map_iff in Hv. destruct Hv as [a [<- _]].
  destruct (qle 0 a) eqn:E. apply qle_true in E; exact E. lra. Qed.

Lemma layer_cells_all_in a kernel scaling x uf : all_in 0 1 (layer_cells sg a kernel scaling x uf).
Proof. intros row Hr v Hv. unfold layer_cells in Hr. apply in_map_iff in Hr. destruct Hr as [i [<- _]].
  apply in_map_iff in Hv. destruct Hv as [u [<- _]]. apply basis_range. exact Hsg. Qed.

Lemma vle_bsel x x' i : vle x x' -> bsel 0 i x <= bsel 0 i x'.
Proof. intros H. unfold bsel. rewrite <- (vle_length x x' H). destruct (length x =? 1)%nat; apply vle_nth; exact H. Qed.

Lemma layer_cells_mle a kernel scaling x x' uf : (forall v, In v scaling -> 0 <= v) -> vle x x' ->
  mle (layer_cells sg a kernel scaling x uf) (layer_cells sg a kernel scaling x' uf).
Proof. intros Hs Hx. unfold layer_cells. apply Forall2_map_seq. intros i _.
  apply Forall2_map_seq. intros v _. apply basis_mono. exact Hsg. apply Forall2_map_seq. intros k _.
  pose proof (vle_bsel x x' i Hx) as Hi.
  assert (Hn : 0 <= bsel 0 i scaling) by (destruct (bsel_In 0 i scaling) as [-> | H]; [lra|apply Hs, H]).
  set (sc := bsel 0 i scaling) in *. set (l := nth v _ 0).
  pose proof (qmul_nonneg sc (bsel 0 i x' - bsel 0 i x) Hn ltac:(lra)). lra. Qed.

Lemma cdf_layer_range_plain a r units sf kernel scaling x out : red_plain r ->
  cdf_layer sg ex lg a r units sf kernel scaling x = Some out -> all_in 0 1 out.
Proof. intros Hr. unfold cdf_layer. destruct (negb _); [discriminate|].
  destruct (sf =? 1)%nat.
  - intros E. injection E as <-. apply reduce_range_plain. exact Hr. apply layer_cells_all_in.
  - destruct (length x =? length kernel)%nat; [|discriminate]. intros E. injection E as <-.
    apply reduce_range_plain. exact Hr. apply reshape2_all_in. lra. apply layer_cells_all_in. Qed.

Lemma cdf_layer_range_geo a units sf kernel scaling x out : length x = length kernel -> x <> [] ->
  cdf_layer sg ex lg a RGeo units sf kernel scaling x = Some out -> all_in eps_layer (1 + eps_layer) out.
Proof. intros HW Hx. unfold cdf_layer.
  destruct (act_ok a && red_ok RGeo && (0 <? sf)%nat && (length kernel mod sf =? 0)%nat && (units mod sf =? 0)%nat
            && ((length x =? length kernel) || (length x =? 1))%nat) eqn:V; cbn [negb]; [|discriminate].
  repeat (apply andb_true_iff in V; destruct V as [V ?]). apply Nat.ltb_lt in H2. apply Nat.eqb_eq in H1.
  assert (L : length (layer_cells sg a kernel scaling x (units / sf)) = length x).
  { unfold layer_cells. rewrite map_length, seq_length. symmetry; exact HW. }
  destruct (sf =? 1)%nat.
  - intros E. injection E as <-. rewrite <- L. apply reduce_range_geo. exact Hel. unfold eps_layer; lra.
    destruct (layer_cells sg a kernel scaling x (units / sf)); [destruct x; [congruence|discriminate]|discriminate].
    apply layer_cells_all_in.
  - rewrite HW, Nat.eqb_refl. intros E. injection E as <-.
    assert (Hpos : (0 < length kernel / sf)%nat).
    { apply Nat.div_exact in H1; [|lia]. destruct (length kernel / sf)%nat eqn:Eq; [|lia].
      destruct x; [congruence|]. cbn [length] in HW. lia. }
    assert (L2 : length (reshape2 (length kernel / sf) units (layer_cells sg a kernel scaling x (units / sf))) = (length kernel / sf)%nat).
    { unfold reshape2. rewrite map_length, seq_length. reflexivity. }
    set (m := reshape2 (length kernel / sf) units _) in *. rewrite <- L2. apply reduce_range_geo. exact Hel. unfold eps_layer; lra.
    + intros E. rewrite E in L2. cbn [length] in L2. lia.
    + apply reshape2_all_in. lra. apply layer_cells_all_in. Qed.

Lemma cdf_layer_monotone a r units sf kernel scaling x x' out out' :
  (forall v, In v scaling -> 0 <= v) -> vle x x' ->
  cdf_layer sg ex lg a r units sf kernel scaling x = Some out ->
  cdf_layer sg ex lg a r units sf kernel scaling x' = Some out' -> mle out out'.
Proof. intros Hs Hx. unfold cdf_layer. rewrite <- (vle_length x x' Hx). destruct (negb _); [discriminate|].
  pose proof (layer_cells_mle a kernel scaling x x' (units / sf) Hs Hx) as M.
  pose proof (layer_cells_all_in a kernel scaling x (units / sf)) as A.
  destruct (sf =? 1)%nat.
  - intros E E'. injection E as <-. injection E' as <-. apply reduce_mle. exact Hel. unfold eps_layer; lra. exact A. exact M.
  - destruct (length x =? length kernel)%nat; [|discriminate]. intros E E'. injection E as <-. injection E' as <-.
    apply reduce_mle. exact Hel. unfold eps_layer; lra. apply reshape2_all_in. lra. exact A. apply reshape2_mle. exact M. Qed.

End Layer.

(* ---- statements in the form used by Props/C15.v ---------------------------------- *)
Lemma T_cdf_range : forall sg ex lg a r units sf expm x loc scal out,
  sigmoid_mono_ok sg -> red_plain r ->
  cdf_fn sg ex lg a r units sf expm x loc scal = Some out -> all_in 0 1 out.
Proof. intros. eapply cdf_fn_range_plain; eassumption. Qed.
Lemma T_cdf_range_geometric : forall sg ex lg a units sf expm x loc scal out,
  sigmoid_mono_ok sg -> explog_ok ex lg -> x <> [] ->
  cdf_fn sg ex lg a RGeo units sf expm x loc scal = Some out -> all_in eps_fn (1 + eps_fn) out.
Proof. intros. eapply cdf_fn_range_geo; eassumption. Qed.
Lemma T_cdf_monotone : forall sg ex lg a r units sf expm x x' loc scal out out',
  sigmoid_mono_ok sg -> explog_ok ex lg -> scal_nonneg ex expm scal -> vle x x' ->
  cdf_fn sg ex lg a r units sf expm x loc scal = Some out ->
  cdf_fn sg ex lg a r units sf expm x' loc scal = Some out' -> mle out out'.
Proof. intros. eapply cdf_fn_monotone; eassumption. Qed.
Lemma T_cdf_layer_range : forall sg ex lg a r units sf kernel scaling x out,
  sigmoid_mono_ok sg -> red_plain r ->
  cdf_layer sg ex lg a r units sf kernel scaling x = Some out -> all_in 0 1 out.
Proof. intros. eapply cdf_layer_range_plain; eassumption. Qed.
Lemma T_cdf_layer_range_geometric : forall sg ex lg a units sf kernel scaling x out,
  sigmoid_mono_ok sg -> explog_ok ex lg -> length x = length kernel -> x <> [] ->
  cdf_layer sg ex lg a RGeo units sf kernel scaling x = Some out -> all_in eps_layer (1 + eps_layer) out.
Proof. intros. eapply cdf_layer_range_geo; eassumption. Qed.
Lemma T_cdf_layer_monotone : forall sg ex lg a r units sf kernel scaling x x' out out',
  sigmoid_mono_ok sg -> explog_ok ex lg -> (forall v, In v scaling -> 0 <= v) -> vle x x' ->
  cdf_layer sg ex lg a r units sf kernel scaling x = Some out ->
  cdf_layer sg ex lg a r units sf kernel scaling x' = Some out' -> mle out out'.
Proof. intros. eapply cdf_layer_monotone; eassumption. Qed.
Lemma T_ex_sigmoid : sigmoid_ok (fun _ => 1 # 2) /\ sigmoid_mono_ok (fun _ => 1 # 2).
Proof. unfold sigmoid_ok, sigmoid_mono_ok. split; [intros z|split; [intros z|intros a b _]]; lra. Qed.
Lemma T_ex_explog : explog_ok (fun z => z) (fun z => z) /\ exp_pos (fun _ => 1).
Proof. unfold explog_ok, exp_pos. split; [split; [|split]|]; intros; try lra; reflexivity. Qed.
(* a concrete relu6 cdf_fn call: two inputs, two keypoints, scaling 2: every cell is 1/6 *)
Lemma T_ex_cdf : cdf_fn (fun _ => 1 # 2) (fun z => z) (fun z => z) Relu6 RMean 1 1 None [1; 1 # 2]
    [[[0]; [1]]; [[0]; [0]]] (Some [[[2]]; [[2]]]) = Some [[192 # 1152]].
Proof. vm_compute. reflexivity. Qed.
