(* Specification vocabulary for the Lattice kernel constraints (shared by the
   C01 / C08 / C10 / C12 proofs): the inequalities themselves, stated on
   function-tensors over the shape  sizes ++ [units]. *)
From TFL Require Export Model.LatticeFinalize.
Open Scope Q_scope.

(* pointwise equality on valid indices *)
Definition teq (sh : list nat) (f g : tens) : Prop := forall i, valid sh i -> f i == g i.

(* non-decreasing along dimension d *)
Definition mono_along (sh : list nat) (d : nat) (f : tens) : Prop :=
  forall i, valid sh i -> (S (nth d i 0%nat) < nth d sh 0%nat)%nat -> f i <= f (upd i d (S (nth d i 0%nat))).

(* Edgeworth trust (main m, conditional c, direction dir): the slope along m is
   non-decreasing (dir > 0) / non-increasing (dir < 0) in c, on every 2x2 square
   at every behind position.  Same inequality as lattice_lib.assert_constraints. *)
Definition edgeworth_holds (sh : list nat) (t : trust) (f : tens) : Prop :=
  let '(m, c, dir) := t in
  forall b i j, valid sh b -> (S i < nth m sh 0%nat)%nat -> (S j < nth c sh 0%nat)%nat ->
    if (0 <? dir)%Z then esq f m c i j b <= 0 else 0 <= esq f m c i j b.

(* Trapezoid trust: at the lowest main index the kernel is non-increasing in the
   conditional index (dir > 0), at the highest main index non-decreasing;
   mirrored for dir < 0. *)
Definition trapezoid_holds (sh : list nat) (t : trust) (f : tens) : Prop :=
  let '(m, c, dir) := t in
  let mx := (nth m sh 0%nat - 1)%nat in
  forall b j, valid sh b -> (S j < nth c sh 0%nat)%nat ->
    if (0 <? dir)%Z
    then f (at2 b m c 0%nat (S j)) <= f (at2 b m c 0%nat j) /\ f (at2 b m c mx j) <= f (at2 b m c mx (S j))
    else f (at2 b m c 0%nat j) <= f (at2 b m c 0%nat (S j)) /\ f (at2 b m c mx (S j)) <= f (at2 b m c mx j).

Definition lower_ok (sh : list nat) (omin : option Q) (f : tens) : Prop :=
  match omin with Some lo => forall i, valid sh i -> lo <= f i | None => True end.
Definition upper_ok (sh : list nat) (omax : option Q) (f : tens) : Prop :=
  match omax with Some hi => forall i, valid sh i -> f i <= hi | None => True end.

(* what verify_hyperparameters guarantees about an accepted configuration *)
Definition trust_ok (c : lat_cfg) (t : trust) : Prop :=
  let '(m, cd, dir) := t in
  (m < length (l_sizes c))%nat /\ (cd < length (l_sizes c))%nat /\ nth m (l_monos c) 0%Z = 1%Z /\ (dir = 1%Z \/ dir = (-1)%Z).
Definition all_trusts (c : lat_cfg) : list trust := l_edge c ++ l_trap c.
Definition cfg_valid (c : lat_cfg) : Prop :=
  (forall s, In s (l_sizes c) -> (2 <= s)%nat) /\ (1 <= l_units c)%nat /\
  length (l_monos c) = length (l_sizes c) /\ (forall m, In m (l_monos c) -> m = 0%Z \/ m = 1%Z) /\
  (forall t, In t (all_trusts c) -> trust_ok c t) /\
  (* no feature is both a main and a conditional feature *)
  (forall t1 t2, In t1 (all_trusts c) -> In t2 (all_trusts c) -> fst (fst t1) <> snd (fst t2)) /\
  (* one direction per (main, conditional) pair *)
  (forall t1 t2, In t1 (all_trusts c) -> In t2 (all_trusts c) -> fst t1 = fst t2 -> snd t1 = snd t2) /\
  match l_min c, l_max c with Some lo, Some hi => lo < hi | _, _ => True end.

(* the documented exception: several trapezoid trusts share a conditional
   feature while Edgeworth trusts are present *)
Definition documented_exception (c : lat_cfg) : Prop :=
  l_edge c <> [] /\ exists t1 t2 l1 l2 l3, l_trap c = l1 ++ t1 :: l2 ++ t2 :: l3 /\ snd (fst t1) = snd (fst t2).
(* known finding D1: a trapezoid trust with a monotone conditional feature while
   Edgeworth trusts are present *)
Definition trap_mono_cond_with_edgeworth (c : lat_cfg) : Prop :=
  l_edge c <> [] /\ exists t, In t (l_trap c) /\ nth (snd (fst t)) (l_monos c) 0%Z = 1%Z.

Definition monotone_kernel (c : lat_cfg) (f : tens) : Prop :=
  forall d, In d (mono_dims (l_monos c)) -> mono_along (l_shape c) d f.
Definition feasible_kernel (c : lat_cfg) (f : tens) : Prop :=
  monotone_kernel c f /\ (forall t, In t (l_edge c) -> edgeworth_holds (l_shape c) t f) /\
  (forall t, In t (l_trap c) -> trapezoid_holds (l_shape c) t f) /\
  lower_ok (l_shape c) (l_min c) f /\ upper_ok (l_shape c) (l_max c) f.
