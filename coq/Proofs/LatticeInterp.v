(* Lattice forward pass: the theorems of Proofs/LatticeHyper.v and
   Proofs/LatticeSimplex.v restated for the layer-level function unit_fn of
   Model/LatticeInterp.v (kernel matrix with a units axis, clipping, gather
   with units), and the agreement of the two schemes. *)
From Coq Require Import Permutation.
From TFL Require Export Proofs.LatticeHyper Proofs.LatticeOuter Proofs.LatticeSimplex.
Open Scope Q_scope.

(* the kernel of unit u as a tensor over index vectors (row-major) *)
Definition kern (sizes : list nat) (Kmat : list (list Q)) (u : nat) : tens := of_list sizes (column u Kmat).
(* kernel matrix well formed for unit u: every row has one entry per unit *)
Definition wfK (units : nat) (Kmat : list (list Q)) (u : nat) : Prop :=
  (u < units)%nat /\ Forall (fun r => length r = units) Kmat.

(* ---------- gather with units ---------- *)
Lemma nth_map_lt {A B} (g : A -> B) l j da db : (j < length l)%nat -> nth j (map g l) db = g (nth j l da).
Proof. intros H. rewrite nth_indep with (d' := g da) by (rewrite map_length; exact H). apply map_nth. Qed.

Lemma nth_concat m u : (u < m)%nat -> forall (Kmat : list (list Q)) n, Forall (fun r => length r = m) Kmat ->
  nth (n * m + u) (concat Kmat) 0 = nth u (nth n Kmat []) 0.
Proof. intros Hu. induction Kmat as [|r Kmat IH]; intros n HF.
  - cbn. destruct (n * m + u)%nat; destruct n; destruct u; reflexivity.
  - inversion HF; subst. cbn [concat]. destruct n as [|n]; cbn [nth].
    + rewrite app_nth1 by lia. reflexivity.
    + rewrite app_nth2 by lia. replace (S n * length r + u - length r)%nat with (n * length r + u)%nat by lia.
      apply IH; assumption. Qed.

Lemma nth_column u (Kmat : list (list Q)) n : nth n (column u Kmat) 0 = nth u (nth n Kmat []) 0.
Proof. unfold column. destruct (Nat.lt_ge_cases n (length Kmat)) as [H|H].
  - exact (nth_map_lt (fun r : list Q => nth u r 0) Kmat n [] 0 H).
  - rewrite (nth_overflow (map (fun r : list Q => nth u r 0) Kmat)) by (rewrite map_length; lia).
    rewrite (nth_overflow Kmat) by lia. destruct u; reflexivity. Qed.

Lemma nthZ_nat n l : nthZ (Z.of_nat n) l = nth n l 0.
Proof. unfold nthZ. destruct (Z.ltb_spec (Z.of_nat n) 0). lia. rewrite Nat2Z.id. reflexivity. Qed.

Definition gather_of (units : nat) (Kmat : list (list Q)) (u : nat) : Z -> Q :=
  if (units =? 1)%nat then fun i => nthZ i (concat Kmat)
  else fun i => nthZ (i * Z.of_nat units + Z.of_nat u) (concat Kmat).

Lemma unit_fn_simplex tensor clip units sizes Kmat u x :
  unit_fn Simplex tensor clip units sizes Kmat u x = simplex_unit clip sizes (gather_of units Kmat u) x.
Proof. unfold unit_fn, gather_of. destruct (units =? 1)%nat; reflexivity. Qed.
(* the literal outer-product computation is the recursion on the kernel tensor *)
Lemma unit_fn_hyper tensor clip units sizes Kmat u x : length x = length sizes -> sizes <> [] ->
  unit_fn Hypercube tensor clip units sizes Kmat u x == hyper_unit tensor clip sizes (kern sizes Kmat u) x.
Proof. intros Hl Hne. unfold unit_fn, kern. apply hyper_lit_eq; assumption. Qed.

(* what the gather reads at the flat index of a vertex is the kernel tensor's value there *)
Lemma gather_kern units sizes Kmat u : wfK units Kmat u ->
  forall i, valid sizes i -> gather_of units Kmat u (Z.of_nat (flat sizes i)) == kern sizes Kmat u i.
Proof. intros [Hu HF] i Hi. unfold kern, of_list. rewrite memo_ok by exact Hi. rewrite nth_column.
  unfold gather_of. destruct (Nat.eqb_spec units 1) as [E|NE].
  - subst units. assert (u = 0%nat) by lia. subst u. rewrite nthZ_nat.
    rewrite <- (nth_concat 1 0 ltac:(lia) Kmat (flat sizes i) HF). rewrite Nat.mul_1_r, Nat.add_0_r. reflexivity.
  - rewrite <- Nat2Z.inj_mul, <- Nat2Z.inj_add, nthZ_nat. rewrite (nth_concat units u Hu Kmat _ HF). reflexivity. Qed.

(* ---------- simplex at the level of simplex_unit ---------- *)
Definition gk (sizes : list nat) (g : Z -> Q) (K : tens) : Prop :=
  forall i, valid sizes i -> g (Z.of_nat (flat sizes i)) == K i.

Lemma dec_ext : forall sizes c rs z z', dec sizes c rs z -> Forall2 Qeq z z' -> dec sizes c rs z'.
Proof. intros sizes c rs z z' D. revert z'. induction D; intros z' H'; inversion H'; subst; constructor; auto.
  match goal with E : _ == ?y |- ?y == _ => rewrite <- E end. assumption. Qed.

(* the model's value on an admissible input is the cell formula of a cell that contains the (clipped) point *)
Lemma simplex_cell clip sizes g K x : sizes_ok sizes -> ok_input clip sizes x -> gk sizes g K ->
  let z := eff clip sizes x in
  dec sizes (mcorner sizes z) (mres sizes z) z /\
  simplex_unit clip sizes g x == scell K (mcorner sizes z) (mres sizes z).
Proof. intros Hs Hok Hg z. rewrite simplex_unit_clip. fold (eff clip sizes x). fold z.
  apply simplex_unit_scell; try assumption. apply eff_inr; assumption. Qed.

Theorem simplex_vertex clip sizes g K v : sizes_ok sizes -> gk sizes g K -> valid sizes v ->
  simplex_unit clip sizes g (map qn v) == K v.
Proof. intros Hs Hg Hv. pose proof (vertex_inr sizes v Hv) as Hr.
  assert (Hok : ok_input clip sizes (map qn v)) by (split; [rewrite map_length; apply valid_length; exact Hv|right; exact Hr]).
  destruct (simplex_cell clip sizes g K _ Hs Hok Hg) as [D E]. rewrite E.
  apply (scell_vertex K sizes). eapply dec_ext. exact D. apply eff_proper_in. exact Hr. Qed.

Theorem simplex_bounds clip sizes g K x lo hi : sizes_ok sizes -> gk sizes g K -> ok_input clip sizes x ->
  (forall i, valid sizes i -> lo <= K i /\ K i <= hi) ->
  lo <= simplex_unit clip sizes g x /\ simplex_unit clip sizes g x <= hi.
Proof. intros Hs Hg Hok HK. destruct (simplex_cell clip sizes g K _ Hs Hok Hg) as [D E]. rewrite E.
  eapply scell_bounds; eassumption. Qed.

(* any descending arrangement of the (residual, dimension) pairs, i.e. any tie-breaking, gives the output *)
Theorem simplex_tie_invariant clip sizes g K x s' : sizes_ok sizes -> gk sizes g K -> ok_input clip sizes x ->
  let z := eff clip sizes x in
  Permutation s' (mpairs sizes z) -> chain 1 s' -> walk K 1 (mcorner sizes z) s' == simplex_unit clip sizes g x.
Proof. intros Hs Hg Hok z P C. destruct (simplex_cell clip sizes g K _ Hs Hok Hg) as [D E]. rewrite E.
  apply scell_tie_invariant; assumption. Qed.

Lemma mcorner_other sizes z d v j : length z = length sizes -> (j < length sizes)%nat -> j <> d ->
  nth j (mcorner sizes (set_nth d v z)) 0%nat = nth j (mcorner sizes z) 0%nat /\
  nth j (mres sizes (set_nth d v z)) 0 = nth j (mres sizes z) 0.
Proof. intros Hl Hj Hne. pose proof (set_nth_length d v z) as Hl'.
  assert (En : nth j (set_nth d v z) 0 = nth j z 0) by (apply nth_set_nth_other; auto).
  assert (Ec : nth j (lower_corner sizes (set_nth d v z)) 0%Z = nth j (lower_corner sizes z) 0%Z).
  { unfold lower_corner.
    rewrite (nth_map2 (fun s xd => Z.min (qtrunc xd) (Z.of_nat s - 2)) sizes (set_nth d v z) j 0%nat 0 0%Z) by lia.
    rewrite (nth_map2 (fun s xd => Z.min (qtrunc xd) (Z.of_nat s - 2)) sizes z j 0%nat 0 0%Z) by lia.
    rewrite En. reflexivity. }
  assert (Lc : forall y, length y = length sizes -> length (lower_corner sizes y) = length sizes)
    by (intros y Hy; unfold lower_corner; rewrite map2_length; lia).
  unfold mcorner, mres. destruct (all2 sizes).
  - split. rewrite !(nth_map_lt _ _ j 0 0%nat) by lia. reflexivity. exact En.
  - split.
    + rewrite !(nth_map_lt _ _ j 0%Z 0%nat) by (rewrite Lc; lia). rewrite Ec. reflexivity.
    + rewrite (nth_map2 (fun xd c => xd - inject_Z c) (set_nth d v z) _ j 0 0%Z 0) by (rewrite ?Lc; lia).
      rewrite (nth_map2 (fun xd c => xd - inject_Z c) z _ j 0 0%Z 0) by (rewrite ?Lc; lia).
      rewrite En, Ec. reflexivity. Qed.

(* non-decreasing kernel along d => non-decreasing output in x_d, for every pair of points *)
Theorem simplex_monotone clip sizes g K x d yd : sizes_ok sizes -> gk sizes g K -> (d < length sizes)%nat ->
  ok_input clip sizes x -> ok_input clip sizes (set_nth d yd x) -> nth d x 0 <= yd -> knondecr sizes K d ->
  simplex_unit clip sizes g x <= simplex_unit clip sizes g (set_nth d yd x).
Proof. intros Hs Hg Hd Hx Hy Hle HK.
  destruct (simplex_cell clip sizes g K _ Hs Hx Hg) as [D E].
  destruct (simplex_cell clip sizes g K _ Hs Hy Hg) as [D' E']. rewrite E, E'.
  pose proof (eff_inr clip sizes x Hs Hx) as Rx. pose proof (eff_inr clip sizes _ Hs Hy) as Ry.
  pose proof (inr_length _ _ Rx) as Lz.
  assert (Ez : exists w, eff clip sizes (set_nth d yd x) = set_nth d w (eff clip sizes x) /\ nth d (eff clip sizes x) 0 <= w).
  { destruct Hx as [Lx _]. destruct clip; cbn [eff].
    - eexists. split. apply clip_onto_set_nth. rewrite nth_clip_onto by assumption. apply qclip_mono. exact Hle.
    - exists yd. split. reflexivity. exact Hle. }
  destruct Ez as [w [Ew Lw]]. rewrite Ew in *.
  apply (scell_monotone K sizes d _ _ _ _ _ _ D D' Hd).
  - intros j Hj. destruct (Nat.lt_ge_cases j (length sizes)) as [Hlt|Hge].
    + destruct (mcorner_other sizes (eff clip sizes x) d w j Lz Hlt Hj) as [A B]. split; symmetry; assumption.
    + pose proof (valid_length _ _ (dec_valid _ _ _ _ D)). pose proof (valid_length _ _ (dec_valid _ _ _ _ D')).
      pose proof (dec_length _ _ _ _ D). pose proof (dec_length _ _ _ _ D').
      rewrite !nth_overflow by lia. split; reflexivity.
  - rewrite nth_set_nth_same by lia. exact Lw.
  - exact HK. Qed.

(* ---------- the two schemes agree on vertices ---------- *)
Theorem schemes_agree_vertex tensor clip sizes g K v : sizes_ok sizes -> gk sizes g K -> valid sizes v ->
  simplex_unit clip sizes g (map qn v) == hyper_unit tensor clip sizes K (map qn v).
Proof. intros Hs Hg Hv. rewrite (simplex_vertex clip sizes g K v Hs Hg Hv), (hyper_vertex tensor clip sizes K v Hv). reflexivity. Qed.

(* ---------- the two schemes agree on axis-parallel edges ---------- *)
(* hypercube on the edge from vertex v in direction e *)
Lemma G_edge : forall sizes v, valid sizes v -> forall K e t, (S (nth e v 0%nat) < nth e sizes 0%nat)%nat ->
  0 <= t -> t <= 1 ->
  G sizes K (set_nth e (qn (nth e v 0%nat) + t) (map qn v)) == (1 - t) * K v + t * K (bump v e).
Proof. induction 1 as [|s sh k r Hk Hr IH]; intros K e t He H0 H1.
  - destruct e; cbn in He; lia.
  - destruct e as [|e]; cbn [map set_nth nth] in *.
    + rewrite G_cons. rewrite (interp1_cell s _ k) by (try lra; exact He).
      rewrite !G_vertex by exact Hr. unfold bump. cbn [nth upd].
      assert (E : qn k + t - qn k == t) by ring. rewrite E. reflexivity.
    + rewrite G_cons, interp1_at_int by exact Hk. rewrite (IH (fun i => K (k :: i)) e t He H0 H1). reflexivity. Qed.

(* integer residuals everywhere except (possibly) at dimension e *)
Definition int_except (e : nat) (rs : list Q) : Prop := forall j, j <> e -> (j < length rs)%nat -> nth j rs 0 == 0 \/ nth j rs 0 == 1.

Lemma dec_ir_all : forall sizes c rs z, dec sizes c rs z -> (forall j, (j < length rs)%nat -> nth j rs 0 == 0 \/ nth j rs 0 == 1) ->
  exists t, ir c rs t /\ valid sizes t /\ Forall2 Qeq z (map qn t).
Proof. induction 1 as [|s ss c cs r rs z zs Hc H0 H1 Hz D IH]; intros Hi.
  - exists []. repeat split; constructor.
  - destruct IH as [t [I [V E]]]. intros j Hj. apply (Hi (S j)). cbn; lia.
    destruct (Hi 0%nat ltac:(cbn; lia)) as [Er|Er]; cbn [nth] in Er.
    + exists (c :: t). split; [apply ir_zero; assumption|split; [constructor; [lia|assumption]|]].
      cbn [map]. constructor. rewrite Hz, Er. ring. exact E.
    + exists (S c :: t). split; [apply ir_one; assumption|split; [constructor; [lia|assumption]|]].
      cbn [map]. constructor. rewrite Hz, Er, qn_S. ring. exact E. Qed.

Lemma dec_ir_except : forall sizes c rs z, dec sizes c rs z -> forall e, (e < length sizes)%nat -> int_except e rs ->
  exists t, ir c (set_nth e 0 rs) t /\ valid sizes t /\ nth e t 0%nat = nth e c 0%nat /\
            Forall2 Qeq z (set_nth e (qn (nth e t 0%nat) + nth e rs 0) (map qn t)).
Proof. induction 1 as [|s ss c cs r rs z zs Hc H0 H1 Hz D IH]; intros e He Hi; cbn in He. lia.
  destruct e as [|e]; cbn [set_nth nth].
  - destruct (dec_ir_all _ _ _ _ D) as [t [I [V E]]].
    { intros j Hj. apply (Hi (S j)). lia. cbn; lia. }
    exists (c :: t). split; [apply ir_zero; [reflexivity|assumption]|split; [constructor; [lia|assumption]|split; [reflexivity|]]].
    cbn [map set_nth nth]. constructor. exact Hz. exact E.
  - destruct (IH e ltac:(lia)) as [t [I [V [Ee E]]]].
    { intros j Hj Hl. apply (Hi (S j)). lia. cbn; lia. }
    destruct (Hi 0%nat ltac:(lia) ltac:(cbn; lia)) as [Er|Er]; cbn [nth] in Er.
    + exists (c :: t). split; [apply ir_zero; assumption|split; [constructor; [lia|assumption]|split; [exact Ee|]]].
      cbn [map set_nth nth]. constructor. rewrite Hz, Er. ring. exact E.
    + exists (S c :: t). split; [apply ir_one; assumption|split; [constructor; [lia|assumption]|split; [exact Ee|]]].
      cbn [map set_nth nth]. constructor. rewrite Hz, Er, qn_S. ring. exact E. Qed.

(* a pair with residual 0 does not move the corner *)
Lemma bumps_drop_zero : forall (l : list (Q * nat)) e v, qle 1 (fst (nth e l (0, 0%nat))) = false ->
  bumps v (drop_nth e l) = bumps v l.
Proof. induction l as [|a l IH]; intros e v H; destruct e as [|e]; cbn [drop_nth]; try reflexivity.
  - cbn [nth] in H. unfold bumps. cbn [fold_left]. rewrite H. reflexivity.
  - cbn [nth] in H. unfold bumps. cbn [fold_left]. apply (IH e _ H). Qed.

Lemma ir_length cs rs ts : ir cs rs ts -> length rs = length cs.
Proof. induction 1; cbn; congruence. Qed.

(* simplex on an edge: only the two end vertices of the edge have weight *)
Lemma scell_edge K sizes c rs z e t : dec sizes c rs z -> (e < length sizes)%nat ->
  ir c (set_nth e 0 rs) t -> scell K c rs == (1 - nth e rs 0) * K t + nth e rs 0 * K (bump t e).
Proof. intros D He I. pose proof (dec_length _ _ _ _ D) as Lr.
  set (pairs := combine rs (seq 0 (length rs))).
  assert (P : Permutation pairs (drop_nth e pairs ++ [(nth e rs 0, e)])).
  { eapply Permutation_trans; [|apply Permutation_cons_append].
    pose proof (nth_combine_seq rs 0 e ltac:(lia)) as N. cbn [Nat.add] in N. rewrite <- N.
    apply perm_drop_nth. unfold pairs. rewrite combine_length, seq_length. lia. }
  unfold scell. fold pairs. rewrite (S_perm K c _ _ P).
  (* the other pairs are those of the all-integer residual vector *)
  assert (Ed : drop_nth e pairs = drop_nth e (combine (set_nth e 0 rs) (seq 0 (length (set_nth e 0 rs)))))
    by (symmetry; apply drop_combine_set).
  destruct (dec_nth _ _ _ _ D e He) as [_ [R0 [R1 _]]].
  assert (Ii : Forall isint (drop_nth e pairs)) by (rewrite Ed; apply drop_nth_Forall; apply (ir_isint _ _ _ I 0%nat)).
  rewrite (S_int_prefix K _ [(nth e rs 0, e)] c Ii).
  2:{ constructor; [cbn [fst]; split; assumption|constructor]. }
  assert (Eb : bumps c (drop_nth e pairs) = t).
  { rewrite Ed. rewrite bumps_drop_zero.
    - pose proof (bumps_combine c _ t I []) as B. cbn [app length] in B. exact B.
    - rewrite nth_combine_seq by (rewrite set_nth_length; lia). cbn [fst].
      rewrite nth_set_nth_same by lia. apply qle_false. lra. }
  rewrite Eb. cbn. ring. Qed.

Theorem schemes_agree_edge tensor clip sizes g K x e : sizes_ok sizes -> gk sizes g K -> ok_input clip sizes x ->
  (e < length sizes)%nat ->
  (forall j, j <> e -> (j < length sizes)%nat -> exists k, nth j (eff clip sizes x) 0 == qn k) ->
  simplex_unit clip sizes g x == hyper_unit tensor clip sizes K x.
Proof. intros Hs Hg Hok He Hint.
  destruct (simplex_cell clip sizes g K _ Hs Hok Hg) as [D E]. rewrite E. rewrite hyper_unit_G by exact Hok.
  set (z := eff clip sizes x) in *. set (c := mcorner sizes z) in *. set (rs := mres sizes z) in *.
  pose proof (dec_length _ _ _ _ D) as Lr.
  assert (Ie : int_except e rs).
  { intros j Hj Hl. destruct (Hint j Hj ltac:(lia)) as [k Ek].
    destruct (dec_nth _ _ _ _ D j ltac:(lia)) as [_ [R0 [R1 Rz]]]. rewrite Ek in Rz.
    destruct (Nat.le_gt_cases k (nth j c 0%nat)) as [L|L].
    - pose proof (qn_le _ _ L). left. lra.
    - pose proof (qn_lt _ _ L). right. lra. }
  destruct (dec_ir_except _ _ _ _ D e He Ie) as [t [I [V [Et Ez]]]].
  rewrite (scell_edge K sizes c rs z e t D He I).
  rewrite (G_ext_z sizes K _ _ Ez).
  destruct (dec_nth _ _ _ _ D e He) as [B [R0 [R1 _]]].
  rewrite G_edge; try assumption. reflexivity. rewrite Et. exact B. Qed.

(* ---------- layer level ---------- *)
Lemma lattice_eval_unit sc tensor clip units sizes Kmat pts p u : (p < length pts)%nat -> (u < units)%nat ->
  (u < length (nth p pts []))%nat ->
  nth u (nth p (lattice_eval sc tensor clip units sizes Kmat pts) []) 0 =
  unit_fn sc tensor clip units sizes Kmat u (nth u (nth p pts []) []).
Proof. intros Hp Hu Hl. unfold lattice_eval.
  rewrite (nth_map_lt _ pts p [] []) by exact Hp.
  rewrite (nth_map2 (fun (f : list Q -> Q) x => f x) _ _ u (fun _ => 0) [] 0)
    by (rewrite ?map_length, ?seq_length; assumption).
  rewrite (nth_map_lt _ (seq 0 units) u 0%nat) by (rewrite seq_length; exact Hu).
  rewrite seq_nth by exact Hu. reflexivity. Qed.

(* ---------- [min kernel, max kernel] ---------- *)
Lemma flat_lt : forall sizes i, valid sizes i -> (flat sizes i < prodn sizes)%nat.
Proof. induction 1 as [|s sh k r Hk Hr IH]; cbn [flat prodn fold_right]. lia. fold (prodn sh) in *. nia. Qed.

Lemma kern_in_column sizes Kmat u i : length Kmat = prodn sizes -> valid sizes i ->
  In (kern sizes Kmat u i) (column u Kmat).
Proof. intros Hl Hi. unfold kern, of_list. rewrite memo_ok by exact Hi. apply nth_In.
  unfold column. rewrite map_length, Hl. apply flat_lt; exact Hi. Qed.

Lemma kern_minmax sizes Kmat u : length Kmat = prodn sizes ->
  forall i, valid sizes i -> qminl (column u Kmat) <= kern sizes Kmat u i /\ kern sizes Kmat u i <= qmaxl (column u Kmat).
Proof. intros Hl i Hi. pose proof (kern_in_column sizes Kmat u i Hl Hi). split. apply qminl_le; assumption. apply qmaxl_ge; assumption. Qed.

(* ---------- non-vacuity: a concrete 2 x 3 lattice with two units ---------- *)
Definition ex_sizes : list nat := [2; 3]%nat.
Definition ex_K : list (list Q) := [[0; 5]; [1; 4]; [3; 4]; [1; 6]; [2; 2]; [9#2; 9]].

Ltac all_valid i Hi := apply all_idx_valid in Hi; cbn in Hi;
  repeat (destruct Hi as [<-|Hi]; [|]); try contradiction.

Example ex_sizes_ok : sizes_ok ex_sizes.
Proof. repeat constructor. Qed.
Example ex_wfK : wfK 2 ex_K 0.
Proof. split. lia. repeat constructor. Qed.
Example ex_ok_input : ok_input false ex_sizes [1#2; 3#2] /\ ok_input true ex_sizes [5; -(1)].
Proof. split; split; try reflexivity.
  right. constructor; [unfold qn, inject_Z; cbn; lra|constructor; [unfold qn, inject_Z; cbn; lra|constructor]]. left; reflexivity. Qed.
(* unit 0 of ex_K is non-decreasing along both dimensions *)
Example ex_knondecr : knondecr ex_sizes (kern ex_sizes ex_K 0) 0 /\ knondecr ex_sizes (kern ex_sizes ex_K 0) 1.
Proof. split; intros i Hi Hb; all_valid i Hi; cbn in Hb; try lia; apply Qle_bool_iff; vm_compute; reflexivity. Qed.
(* and satisfies the Edgeworth condition with main 1, conditional 0 *)
Example ex_kedge : kedge ex_sizes (kern ex_sizes ex_K 0) 1 0.
Proof. intros i Hi Hm Hc; all_valid i Hi; cbn in Hm, Hc; try lia; apply Qle_bool_iff; vm_compute; reflexivity. Qed.
Example ex_in_cell : in_cell ex_sizes [0; 1]%nat (eff false ex_sizes [1#2; 3#2]).
Proof. cbn. constructor; [lia|unfold qn, inject_Z; cbn; lra|unfold qn, inject_Z; cbn; lra|]. constructor; [lia|unfold qn, inject_Z; cbn; lra|unfold qn, inject_Z; cbn; lra|constructor]. Qed.
(* both schemes evaluated on it *)
Example ex_values :
  unit_fn Hypercube true false 2 ex_sizes ex_K 0 [1#2; 3#2] == 21#8 /\
  unit_fn Simplex true false 2 ex_sizes ex_K 0 [1#2; 3#2] == 11#4 /\
  unit_fn Simplex true false 2 ex_sizes ex_K 1 [1#2; 1#4] == 9#2 /\
  unit_fn Hypercube true false 2 ex_sizes ex_K 1 [1#2; 1#4] == 39#8.
Proof. repeat split; vm_compute; reflexivity. Qed.
Example ex_dec : dec ex_sizes [0; 1]%nat [1#2; 1#2] [1#2; 3#2].
Proof. repeat constructor; try lra; try lia; vm_compute; reflexivity. Qed.
Example ex_tie_orders : chain 1 [(1#2, 0%nat); (1#2, 1%nat)] /\ chain 1 [(1#2, 1%nat); (1#2, 0%nat)] /\
  Permutation [(1#2, 1%nat); (1#2, 0%nat)] (mpairs ex_sizes [1#2; 3#2]).
Proof. repeat split; cbn; try lra. vm_compute. apply perm_swap. Qed.

(* ================= layer-level statements (used verbatim by Props/C02.v) ================= *)
Lemma gather_gk units sizes Kmat u : wfK units Kmat u -> gk sizes (gather_of units Kmat u) (kern sizes Kmat u).
Proof. intros H i Hi. apply gather_kern; assumption. Qed.

Lemma L_hyper_vertex tensor clip units sizes Kmat u v : sizes <> [] -> valid sizes v ->
  unit_fn Hypercube tensor clip units sizes Kmat u (map qn v) == kern sizes Kmat u v.
Proof. intros Hne Hv. rewrite unit_fn_hyper by (try assumption; rewrite map_length; apply valid_length; exact Hv).
  apply hyper_vertex. assumption. Qed.

Lemma L_hyper_convex tensor clip units sizes Kmat u x : sizes <> [] ->
  sizes_ok sizes -> ok_input clip sizes x -> length Kmat = prodn sizes ->
  qminl (column u Kmat) <= unit_fn Hypercube tensor clip units sizes Kmat u x /\
  unit_fn Hypercube tensor clip units sizes Kmat u x <= qmaxl (column u Kmat).
Proof. intros Hne Hs Hx Hl. rewrite unit_fn_hyper by (try assumption; apply Hx).
  apply hyper_bounds; try assumption. apply kern_minmax; assumption. Qed.

Lemma L_hyper_is_multilinear tensor clip units sizes Kmat u x c : sizes <> [] ->
  ok_input clip sizes x -> in_cell sizes c (eff clip sizes x) ->
  unit_fn Hypercube tensor clip units sizes Kmat u x == multilin (kern sizes Kmat u) c (eff clip sizes x).
Proof. intros Hne Hx Hc. rewrite unit_fn_hyper by (try assumption; apply Hx). apply hyper_multilinear; assumption. Qed.

Lemma L_hyper_monotone tensor clip units sizes Kmat u x d yd :
  sizes_ok sizes -> (d < length sizes)%nat ->
  ok_input clip sizes x -> ok_input clip sizes (set_nth d yd x) -> nth d x 0 <= yd ->
  knondecr sizes (kern sizes Kmat u) d ->
  unit_fn Hypercube tensor clip units sizes Kmat u x <= unit_fn Hypercube tensor clip units sizes Kmat u (set_nth d yd x).
Proof. intros Hs Hd Hx Hy Hle HK. assert (Hne : sizes <> []) by (destruct sizes; [cbn in Hd; lia|discriminate]).
  rewrite !unit_fn_hyper by (try assumption; try apply Hx; apply Hy). apply hyper_monotone; assumption. Qed.

Lemma L_hyper_edgeworth tensor clip units sizes Kmat u x m c ym yc :
  sizes_ok sizes -> (m < length sizes)%nat -> (c < length sizes)%nat -> m <> c ->
  ok_input clip sizes x -> ok_input clip sizes (set_nth m ym x) ->
  ok_input clip sizes (set_nth c yc x) -> ok_input clip sizes (set_nth m ym (set_nth c yc x)) ->
  nth m x 0 <= ym -> nth c x 0 <= yc -> kedge sizes (kern sizes Kmat u) m c ->
  unit_fn Hypercube tensor clip units sizes Kmat u (set_nth m ym x) - unit_fn Hypercube tensor clip units sizes Kmat u x <=
  unit_fn Hypercube tensor clip units sizes Kmat u (set_nth m ym (set_nth c yc x)) -
  unit_fn Hypercube tensor clip units sizes Kmat u (set_nth c yc x).
Proof. intros Hs Hm Hc Hmc Hx Hxm Hxc Hxmc Lm Lc HK.
  assert (Hne : sizes <> []) by (destruct sizes; [cbn in Hm; lia|discriminate]).
  rewrite !unit_fn_hyper by (try assumption; try apply Hx; try apply Hxm; try apply Hxc; apply Hxmc).
  apply hyper_edgeworth; assumption. Qed.

Lemma L_simplex_vertex tensor clip units sizes Kmat u v :
  sizes_ok sizes -> wfK units Kmat u -> valid sizes v ->
  unit_fn Simplex tensor clip units sizes Kmat u (map qn v) == kern sizes Kmat u v.
Proof. intros Hs Hw Hv. rewrite unit_fn_simplex. exact (simplex_vertex clip sizes _ _ v Hs (gather_gk units sizes Kmat u Hw) Hv). Qed.

Lemma L_simplex_convex tensor clip units sizes Kmat u x :
  sizes_ok sizes -> wfK units Kmat u -> ok_input clip sizes x -> length Kmat = prodn sizes ->
  qminl (column u Kmat) <= unit_fn Simplex tensor clip units sizes Kmat u x /\
  unit_fn Simplex tensor clip units sizes Kmat u x <= qmaxl (column u Kmat).
Proof. intros Hs Hw Hx Hl. rewrite unit_fn_simplex.
  exact (simplex_bounds clip sizes _ _ x _ _ Hs (gather_gk units sizes Kmat u Hw) Hx (kern_minmax sizes Kmat u Hl)). Qed.

Lemma L_simplex_cell_formula tensor clip units sizes Kmat u x :
  sizes_ok sizes -> wfK units Kmat u -> ok_input clip sizes x ->
  let z := eff clip sizes x in
  dec sizes (mcorner sizes z) (mres sizes z) z /\
  unit_fn Simplex tensor clip units sizes Kmat u x == scell (kern sizes Kmat u) (mcorner sizes z) (mres sizes z).
Proof. intros Hs Hw Hx. rewrite unit_fn_simplex. exact (simplex_cell clip sizes _ _ x Hs Hx (gather_gk units sizes Kmat u Hw)). Qed.

Lemma L_simplex_tie_invariant tensor clip units sizes Kmat u x s' :
  sizes_ok sizes -> wfK units Kmat u -> ok_input clip sizes x ->
  let z := eff clip sizes x in
  Permutation s' (mpairs sizes z) -> chain 1 s' ->
  walk (kern sizes Kmat u) 1 (mcorner sizes z) s' == unit_fn Simplex tensor clip units sizes Kmat u x.
Proof. intros Hs Hw Hx. rewrite unit_fn_simplex.
  exact (simplex_tie_invariant clip sizes _ _ x s' Hs (gather_gk units sizes Kmat u Hw) Hx). Qed.

Lemma L_simplex_monotone tensor clip units sizes Kmat u x d yd :
  sizes_ok sizes -> wfK units Kmat u -> (d < length sizes)%nat ->
  ok_input clip sizes x -> ok_input clip sizes (set_nth d yd x) -> nth d x 0 <= yd ->
  knondecr sizes (kern sizes Kmat u) d ->
  unit_fn Simplex tensor clip units sizes Kmat u x <= unit_fn Simplex tensor clip units sizes Kmat u (set_nth d yd x).
Proof. intros Hs Hw Hd Hx Hy Hle HK. rewrite !unit_fn_simplex.
  exact (simplex_monotone clip sizes _ _ x d yd Hs (gather_gk units sizes Kmat u Hw) Hd Hx Hy Hle HK). Qed.

Lemma L_schemes_agree_edges tensor tensor' clip units sizes Kmat u x e :
  sizes_ok sizes -> wfK units Kmat u -> ok_input clip sizes x -> (e < length sizes)%nat ->
  (forall j, j <> e -> (j < length sizes)%nat -> exists k, nth j (eff clip sizes x) 0 == qn k) ->
  unit_fn Simplex tensor clip units sizes Kmat u x == unit_fn Hypercube tensor' clip units sizes Kmat u x.
Proof. intros Hs Hw Hx He Hint. assert (Hne : sizes <> []) by (destruct sizes; [cbn in He; lia|discriminate]).
  rewrite unit_fn_simplex, unit_fn_hyper by (try assumption; apply Hx).
  exact (schemes_agree_edge tensor' clip sizes _ _ x e Hs (gather_gk units sizes Kmat u Hw) Hx He Hint). Qed.

Lemma L_schemes_agree_vertices tensor tensor' clip units sizes Kmat u v : sizes <> [] ->
  sizes_ok sizes -> wfK units Kmat u -> valid sizes v ->
  unit_fn Simplex tensor clip units sizes Kmat u (map qn v) == unit_fn Hypercube tensor' clip units sizes Kmat u (map qn v).
Proof. intros Hne Hs Hw Hv. rewrite unit_fn_simplex, unit_fn_hyper by (try assumption; rewrite map_length; apply valid_length; exact Hv).
  exact (schemes_agree_vertex tensor' clip sizes _ _ v Hs (gather_gk units sizes Kmat u Hw) Hv). Qed.

(* more non-vacuity examples (hypotheses of C02_schemes_agree, C02_simplex_continuous, C02_hyper_continuous) *)
Example ex_edge_point : forall j, j <> 1%nat -> (j < length ex_sizes)%nat ->
  exists k, nth j (eff true ex_sizes [1; 1#2]) 0 == qn k.
Proof. intros j Hj Hl. destruct j as [|[|j]]; cbn in Hl; try lia. exists 1%nat. vm_compute. reflexivity. Qed.
Example ex_face : dec ex_sizes [0; 0]%nat [1#4; 1#2] [1#4; 1#2] /\ (S (S (nth 1 [0; 0]%nat 0%nat)) < nth 1 ex_sizes 0%nat)%nat.
Proof. split. repeat constructor; try lra; try lia; vm_compute; reflexivity. cbn. lia. Qed.
Example ex_two_cells : in_cell ex_sizes [0; 0]%nat [1#2; 1] /\ in_cell ex_sizes [0; 1]%nat [1#2; 1].
Proof. split; (constructor; [cbn; lia|unfold qn, inject_Z; cbn; lra|unfold qn, inject_Z; cbn; lra|]);
  (constructor; [cbn; lia|unfold qn, inject_Z; cbn; lra|unfold qn, inject_Z; cbn; lra|constructor]). Qed.
