(* Facts about the hand-written accept/reject decision functions of
   Model/Verify.v (property C16):
   1. every conjunct of every accepts_* function read back as the user-level
      condition it stands for ("accepted => condition"), and from it one
      rejection lemma per invalid class ("condition violated => rejected");
   2. bridges: an accepted configuration satisfies the "valid configuration"
      premises of the other properties (LatticeSpec.cfg_valid, KFL.cfg_ok,
      PWLProject.pwl_valid, LinearProject.lin_valid, pairs_in_range).
   Property theorems are restated in Props/C16.v. *)
From Coq Require Import ZArith QArith List Bool Lia Lqa.
From TFL Require Proofs.LatticeSpec Proofs.KFL Proofs.PWLProject Proofs.LinearProject
  Proofs.PartialOrder Proofs.TopoSort.
From TFL Require Import Model.Verify.
Import ListNotations.
Open Scope Z_scope.

(* ------------------------------------------------------------------------- *)
(* 0. generic helpers                                                          *)
(* ------------------------------------------------------------------------- *)
Lemma all_b_spec {A} (f : A -> bool) l : all_b f l = true <-> forall x, In x l -> f x = true.
Proof. unfold all_b. apply forallb_forall. Qed.

Lemma in_range_spec n i : in_range n i = true <-> 0 <= i < n.
Proof. unfold in_range. rewrite andb_true_iff, Z.leb_le, Z.ltb_lt. tauto. Qed.

Lemma zmem_spec x l : zmem x l = true <-> In x l.
Proof.
  unfold zmem. rewrite existsb_exists. split.
  - intros (y & Hy & E). apply Z.eqb_eq in E. subst y. exact Hy.
  - intros H. exists x. split; [exact H|apply Z.eqb_refl].
Qed.

Lemma pair_mem_spec a b l : pair_mem (a, b) l = true <-> In (a, b) l.
Proof.
  unfold pair_mem. rewrite existsb_exists. cbn [fst snd]. split.
  - intros ([x y] & Hq & E). cbn [fst snd] in E. apply andb_true_iff in E. destruct E as [E1 E2].
    apply Z.eqb_eq in E1, E2. subst x y. exact Hq.
  - intros H. exists (a, b). cbn [fst snd]. rewrite !Z.eqb_refl. split; [exact H|reflexivity].
Qed.

Lemma distinct_spec l : distinct l = true <-> NoDup l.
Proof.
  induction l as [|x r IH]; cbn [distinct].
  - split; [constructor|reflexivity].
  - rewrite andb_true_iff, negb_true_iff, IH. split.
    + intros [Hx Hr]. constructor; [|exact Hr]. intros Hin. apply zmem_spec in Hin. congruence.
    + intros Hn. inversion Hn as [|? ? Hx Hr]; subst. split; [|exact Hr].
      destruct (zmem x r) eqn:E; [|reflexivity]. apply zmem_spec in E. contradiction.
Qed.

Lemma qlt_b_spec a b : qlt_b a b = true <-> (a < b)%Q.
Proof.
  unfold qlt_b. rewrite negb_true_iff. split.
  - intros H. apply Qnot_le_lt. intros Hle. apply Qle_bool_iff in Hle. congruence.
  - intros H. destruct (Qle_bool b a) eqn:E; [|reflexivity].
    apply Qle_bool_iff in E. exfalso. apply (Qlt_not_le _ _ H E).
Qed.

Lemma In_combine_nth {A B} (a : A) (b : B) : forall (l : list A) (l' : list B) i,
  (i < length l)%nat -> (i < length l')%nat -> In (nth i l a, nth i l' b) (combine l l').
Proof.
  induction l as [|x l IH]; intros [|y l'] [|i] H1 H2; cbn in *; try lia.
  - left. reflexivity.
  - right. apply IH; lia.
Qed.

Lemma zlen_nat {A} (l : list A) : Z.to_nat (zlen l) = length l.
Proof. unfold zlen. apply Nat2Z.id. Qed.

Lemma znth_nth l i : znth l i = nth (Z.to_nat i) l 0.
Proof. reflexivity. Qed.

Lemma to_nat_lt_len {A} (l : list A) i : 0 <= i < zlen l -> (Z.to_nat i < length l)%nat.
Proof. unfold zlen. lia. Qed.

(* the user-level reading of "dimension d is monotonic (increasing)" *)
Lemma mono_is_spec m d : mono_is m d 1 = true <-> mono_at m d = Some 1.
Proof.
  unfold mono_is. destruct (mono_at m d) as [x|].
  - rewrite Z.eqb_eq. split; [intros ->; reflexivity|intros E; injection E; auto].
  - split; discriminate.
Qed.

Ltac reject_with L :=
  match goal with |- ?f ?c = false =>
    destruct (f c) eqn:Eacc; [exfalso; pose proof (L c Eacc) as Hacc|reflexivity] end.

(* ------------------------------------------------------------------------- *)
(* 1. Lattice                                                                  *)
(* ------------------------------------------------------------------------- *)
Definition lat_n (c : lattice_cfg) : Z := zlen (l_sizes c).
Definition lat_trusts (c : lattice_cfg) : list (Z * Z * Z) := l_edge c ++ l_trap c.

(* ---- trusts ---- *)
Lemma trusts_loop_spec n m : forall ts seen, trusts_loop n m seen ts = true ->
  (forall a b d, In (a, b, d) ts -> 0 <= a < n /\ 0 <= b < n /\ mono_at m a = Some 1) /\
  (forall a b d d', In (a, b, d) ts -> In (a, b, d') seen -> d' = d) /\
  (forall a b d d', In (a, b, d) ts -> In (a, b, d') ts -> d = d').
Proof.
  induction ts as [|[[main cond] dir] r IH]; intros seen H.
  - repeat split; intros; contradiction.
  - cbn [trusts_loop] in H. rewrite !andb_true_iff in H.
    destruct H as [[[[Hm Hc] Hmono] Hseen] Hrest].
    apply in_range_spec in Hm, Hc. apply mono_is_spec in Hmono.
    destruct (IH _ Hrest) as (I1 & I2 & I3).
    assert (Hhead : forall d', In (main, cond, d') seen -> d' = dir).
    { intros d' Hin. pose proof (proj1 (all_b_spec _ _) Hseen _ Hin) as E. cbn in E.
      rewrite !Z.eqb_refl in E. cbn in E. apply Z.eqb_eq in E. exact E. }
    split; [|split].
    + intros a b d [E|Hin]; [injection E as <- <- <-; auto|eapply I1; exact Hin].
    + intros a b d d' [E|Hin] Hs.
      * injection E as <- <- <-. apply Hhead, Hs.
      * apply (I2 a b d d' Hin). right. exact Hs.
    + intros a b d d' [E|Hin] [E'|Hin'].
      * injection E as <- <- <-. injection E' as <-. reflexivity.
      * injection E as <- <- <-. apply (I2 main cond d' dir Hin'). left. reflexivity.
      * injection E' as <- <- <-. symmetry. apply (I2 main cond d dir Hin). left. reflexivity.
      * eapply I3; eassumption.
Qed.

Lemma trusts_ok_spec n m ts : trusts_ok n m ts = true ->
  (forall a b d, In (a, b, d) ts -> 0 <= a < n /\ 0 <= b < n /\ mono_at m a = Some 1) /\
  (forall a b d d', In (a, b, d) ts -> In (a, b, d') ts -> d = d') /\
  (forall a b d a' d', In (a, b, d) ts -> In (a', a, d') ts -> False).
Proof.
  unfold trusts_ok. rewrite andb_true_iff. intros [Hl Hd].
  destruct (trusts_loop_spec n m ts [] Hl) as (I1 & _ & I3).
  split; [exact I1|]. split; [exact I3|].
  intros a b d a' d' H1 H2.
  pose proof (proj1 (all_b_spec _ _) Hd _ H1) as E. cbn beta iota in E.
  apply negb_true_iff in E.
  assert (X : existsb (fun t' : Z * Z * Z => let '(_, cond, _) := t' in a =? cond) ts = true).
  { apply existsb_exists. exists (a', a, d'). split; [exact H2|apply Z.eqb_refl]. }
  congruence.
Qed.

(* ---- dominances ---- *)
Lemma dominances_loop_spec n m : forall cs seen, dominances_loop n m seen cs = true ->
  (forall cst, In cst cs -> exists a b, cst = [a; b] /\ a <> b /\ 0 <= a < n /\ 0 <= b < n /\
      mono_at m a = Some 1 /\ mono_at m b = Some 1) /\
  (forall a b, In [a; b] cs -> ~ In (b, a) seen) /\
  (forall a b, In [a; b] cs -> In [b; a] cs -> False).
Proof.
  induction cs as [|cst r IH]; intros seen H.
  - repeat split; intros; contradiction.
  - destruct cst as [|dom [|weak [|x y]]]; cbn [dominances_loop] in H; try discriminate.
    rewrite !andb_true_iff in H. destruct H as [[[[[[Hne Hd] Hw] Hmd] Hmw] Hseen] Hrest].
    apply negb_true_iff, Z.eqb_neq in Hne. apply in_range_spec in Hd, Hw.
    apply mono_is_spec in Hmd, Hmw. apply negb_true_iff in Hseen.
    destruct (IH _ Hrest) as (I1 & I2 & I3).
    split; [|split].
    + intros c [<-|Hin]; [exists dom, weak; auto 10|apply I1, Hin].
    + intros a b [E|Hin] Hs.
      * injection E as <- <-. apply pair_mem_spec in Hs. congruence.
      * apply (I2 a b Hin). right. exact Hs.
    + intros a b [E|Hin] [E'|Hin'].
      * injection E as <- <-. injection E' as E1 E2. congruence.
      * injection E as <- <-. apply (I2 weak dom Hin'). left. reflexivity.
      * injection E' as <- <-. apply (I2 weak dom Hin). left. reflexivity.
      * eapply I3; eassumption.
Qed.

Definition dominances_spec (n : Z) (m : option (list Z)) (o : option (list (list Z))) : Prop :=
  forall cs, o = Some cs ->
  (forall cst, In cst cs -> exists a b, cst = [a; b] /\ a <> b /\ 0 <= a < n /\ 0 <= b < n /\
      mono_at m a = Some 1 /\ mono_at m b = Some 1) /\
  (forall a b, In [a; b] cs -> In [b; a] cs -> False).

Lemma dominances_ok_spec n m o : dominances_ok n m o = true -> dominances_spec n m o.
Proof.
  intros H cs ->. cbn in H. destruct (dominances_loop_spec n m cs [] H) as (I1 & _ & I3). split; assumption.
Qed.

(* ---- everything accepts_lattice_constraints guarantees, in user terms ---- *)
Record lattice_constraints_accepted (c : lattice_cfg) : Prop := {
  la_sizes : forall s, In s (l_sizes c) -> 2 <= s;
  la_monos_len : forall ms, l_monos c = Some ms -> zlen ms = lat_n c;
  la_unimods_len : forall us, l_unimods c = Some us -> zlen us = lat_n c;
  la_unimod_size : forall us i, l_unimods c = Some us -> (i < length us)%nat -> (i < length (l_sizes c))%nat ->
      nth i us 0 <> 0 -> 3 <= nth i (l_sizes c) 0;
  la_mono_unimod : forall ms us i, l_monos c = Some ms -> l_unimods c = Some us ->
      (i < length ms)%nat -> (i < length us)%nat -> nth i ms 0 = 0 \/ nth i us 0 = 0;
  la_trust : forall a b d, In (a, b, d) (lat_trusts c) ->
      0 <= a < lat_n c /\ 0 <= b < lat_n c /\ mono_at (l_monos c) a = Some 1;
  la_trust_dir : forall a b d d', In (a, b, d) (lat_trusts c) -> In (a, b, d') (lat_trusts c) -> d = d';
  la_trust_main_cond : forall a b d a' d', In (a, b, d) (lat_trusts c) -> In (a', a, d') (lat_trusts c) -> False;
  la_mdom : dominances_spec (lat_n c) (l_monos c) (l_mdom c);
  la_rdom : dominances_spec (lat_n c) (l_monos c) (l_rdom c);
  la_jmono : forall cs cst, l_jmono c = Some cs -> In cst cs ->
      exists a b, cst = [a; b] /\ 0 <= a < lat_n c /\ 0 <= b < lat_n c /\ a <> b;
  la_junimod : forall cs dims dir_ok, l_junimod c = Some cs -> In (dims, dir_ok) cs ->
      dir_ok = true /\ NoDup dims /\
      forall d, In d dims -> 0 <= d < lat_n c /\ 3 <= znth (l_sizes c) d /\
                             forall ms, l_monos c = Some ms -> znth ms d = 0
}.

Lemma accepts_lattice_constraints_sound c :
  accepts_lattice_constraints c = true -> lattice_constraints_accepted c.
Proof.
  unfold accepts_lattice_constraints. cbv zeta. rewrite !andb_true_iff.
  intros [[[[[[[[[Hs Hml] Hul] Hus] Hmu] Ht] Hmd] Hrd] Hjm] Hju].
  fold (lat_n c) in *. fold (lat_trusts c) in Ht.
  destruct (trusts_ok_spec _ _ _ Ht) as (T1 & T2 & T3).
  constructor.
  - intros s Hin. pose proof (proj1 (all_b_spec _ _) Hs s Hin) as E. apply Z.leb_le in E. exact E.
  - intros ms E. rewrite E in Hml. cbn in Hml. apply Z.eqb_eq in Hml. exact Hml.
  - intros us E. rewrite E in Hul. cbn in Hul. apply Z.eqb_eq in Hul. exact Hul.
  - intros us i E H1 H2 Hnz. rewrite E in Hus. cbn in Hus.
    pose proof (proj1 (all_b_spec _ _) Hus _ (In_combine_nth 0 0 us (l_sizes c) i H1 H2)) as X.
    cbn [fst snd] in X. apply orb_true_iff in X. destruct X as [X|X].
    + apply Z.eqb_eq in X. contradiction.
    + apply Z.leb_le in X. exact X.
  - intros ms us i E1 E2 H1 H2. rewrite E1, E2 in Hmu. cbn in Hmu.
    pose proof (proj1 (all_b_spec _ _) Hmu _ (In_combine_nth 0 0 ms us i H1 H2)) as X.
    cbn [fst snd] in X. apply orb_true_iff in X. rewrite !Z.eqb_eq in X. exact X.
  - exact T1.
  - exact T2.
  - exact T3.
  - apply dominances_ok_spec, Hmd.
  - apply dominances_ok_spec, Hrd.
  - intros cs cst E Hin. rewrite E in Hjm. cbn in Hjm.
    pose proof (proj1 (all_b_spec _ _) Hjm _ Hin) as X. cbn beta in X.
    destruct cst as [|a [|b [|x y]]]; try discriminate.
    rewrite !andb_true_iff in X. destruct X as [[Xa Xb] Xne]. apply in_range_spec in Xa, Xb.
    apply negb_true_iff, Z.eqb_neq in Xne. exists a, b. auto.
  - intros cs dims dok E Hin. rewrite E in Hju. cbn in Hju.
    pose proof (proj1 (all_b_spec _ _) Hju _ Hin) as X. cbn [fst snd] in X.
    rewrite !andb_true_iff in X. destruct X as [[X1 X2] X3].
    split; [exact X1|]. split; [apply distinct_spec, X3|].
    intros d Hd. pose proof (proj1 (all_b_spec _ _) X2 _ Hd) as Y. cbn beta in Y.
    rewrite !andb_true_iff in Y. destruct Y as [[Y1 Y2] Y3].
    apply in_range_spec in Y1. apply Z.leb_le in Y2. split; [exact Y1|]. split; [exact Y2|].
    intros ms Em. rewrite Em in Y3. apply Z.eqb_eq in Y3. exact Y3.
Qed.

(* ---- rejection lemmas, one per invalid class ---- *)
Lemma reject_lattice_size_below_2 c s :
  In s (l_sizes c) -> s < 2 -> accepts_lattice_constraints c = false.
Proof. intros Hin Hs. reject_with accepts_lattice_constraints_sound. pose proof (la_sizes c Hacc s Hin). lia. Qed.

Lemma reject_lattice_monotonicities_length c ms :
  l_monos c = Some ms -> zlen ms <> zlen (l_sizes c) -> accepts_lattice_constraints c = false.
Proof. intros E H. reject_with accepts_lattice_constraints_sound. apply H, (la_monos_len c Hacc ms E). Qed.

Lemma reject_lattice_unimodalities_length c us :
  l_unimods c = Some us -> zlen us <> zlen (l_sizes c) -> accepts_lattice_constraints c = false.
Proof. intros E H. reject_with accepts_lattice_constraints_sound. apply H, (la_unimods_len c Hacc us E). Qed.

Lemma reject_lattice_unimodal_size_below_3 c us i :
  l_unimods c = Some us -> (i < length us)%nat -> (i < length (l_sizes c))%nat ->
  nth i us 0 <> 0 -> nth i (l_sizes c) 0 < 3 -> accepts_lattice_constraints c = false.
Proof.
  intros E H1 H2 Hnz Hs. reject_with accepts_lattice_constraints_sound.
  pose proof (la_unimod_size c Hacc us i E H1 H2 Hnz). lia.
Qed.

Lemma reject_lattice_monotone_and_unimodal c ms us i :
  l_monos c = Some ms -> l_unimods c = Some us -> (i < length ms)%nat -> (i < length us)%nat ->
  nth i ms 0 <> 0 -> nth i us 0 <> 0 -> accepts_lattice_constraints c = false.
Proof.
  intros E1 E2 H1 H2 Hm Hu. reject_with accepts_lattice_constraints_sound.
  destruct (la_mono_unimod c Hacc ms us i E1 E2 H1 H2); contradiction.
Qed.

Lemma reject_lattice_trust_main_not_monotone c a b d :
  In (a, b, d) (l_edge c ++ l_trap c) -> mono_at (l_monos c) a <> Some 1 ->
  accepts_lattice_constraints c = false.
Proof.
  intros Hin Hm. reject_with accepts_lattice_constraints_sound.
  destruct (la_trust c Hacc a b d Hin) as (_ & _ & X). contradiction.
Qed.

Lemma reject_lattice_trust_out_of_range c a b d :
  In (a, b, d) (l_edge c ++ l_trap c) ->
  a < 0 \/ zlen (l_sizes c) <= a \/ b < 0 \/ zlen (l_sizes c) <= b ->
  accepts_lattice_constraints c = false.
Proof.
  intros Hin Hr. reject_with accepts_lattice_constraints_sound.
  destruct (la_trust c Hacc a b d Hin) as (X & Y & _). unfold lat_n in *. lia.
Qed.

Lemma reject_lattice_trust_main_and_conditional c a b d a' d' :
  In (a, b, d) (l_edge c ++ l_trap c) -> In (a', a, d') (l_edge c ++ l_trap c) ->
  accepts_lattice_constraints c = false.
Proof.
  intros H1 H2. reject_with accepts_lattice_constraints_sound.
  exact (la_trust_main_cond c Hacc a b d a' d' H1 H2).
Qed.

Lemma reject_lattice_trust_two_directions c a b d d' :
  In (a, b, d) (l_edge c ++ l_trap c) -> In (a, b, d') (l_edge c ++ l_trap c) -> d <> d' ->
  accepts_lattice_constraints c = false.
Proof.
  intros H1 H2 Hne. reject_with accepts_lattice_constraints_sound.
  apply Hne, (la_trust_dir c Hacc a b d d' H1 H2).
Qed.

(* a dominance list is l_mdom or l_rdom *)
Definition lat_dominance_list (c : lattice_cfg) (cs : list (list Z)) : Prop :=
  l_mdom c = Some cs \/ l_rdom c = Some cs.

Lemma lat_dom_spec c cs : lattice_constraints_accepted c -> lat_dominance_list c cs ->
  (forall cst, In cst cs -> exists a b, cst = [a; b] /\ a <> b /\ 0 <= a < lat_n c /\ 0 <= b < lat_n c /\
      mono_at (l_monos c) a = Some 1 /\ mono_at (l_monos c) b = Some 1) /\
  (forall a b, In [a; b] cs -> In [b; a] cs -> False).
Proof. intros Hacc [E|E]; [apply (la_mdom c Hacc cs E)|apply (la_rdom c Hacc cs E)]. Qed.

Lemma reject_lattice_dominance_not_monotone c cs a b :
  lat_dominance_list c cs -> In [a; b] cs ->
  mono_at (l_monos c) a <> Some 1 \/ mono_at (l_monos c) b <> Some 1 ->
  accepts_lattice_constraints c = false.
Proof.
  intros Hl Hin Hm. reject_with accepts_lattice_constraints_sound.
  destruct (lat_dom_spec c cs Hacc Hl) as [X _]. destruct (X _ Hin) as (a' & b' & E & _ & _ & _ & M1 & M2).
  injection E as <- <-. tauto.
Qed.

Lemma reject_lattice_dominance_both_ways c cs a b :
  lat_dominance_list c cs -> In [a; b] cs -> In [b; a] cs -> accepts_lattice_constraints c = false.
Proof.
  intros Hl H1 H2. reject_with accepts_lattice_constraints_sound.
  destruct (lat_dom_spec c cs Hacc Hl) as [_ X]. exact (X a b H1 H2).
Qed.

Lemma reject_lattice_dominance_self c cs a :
  lat_dominance_list c cs -> In [a; a] cs -> accepts_lattice_constraints c = false.
Proof.
  intros Hl Hin. reject_with accepts_lattice_constraints_sound.
  destruct (lat_dom_spec c cs Hacc Hl) as [X _]. destruct (X _ Hin) as (a' & b' & E & Hne & _).
  injection E as <- <-. apply Hne. reflexivity.
Qed.

Lemma reject_lattice_dominance_out_of_range c cs a b :
  lat_dominance_list c cs -> In [a; b] cs ->
  a < 0 \/ zlen (l_sizes c) <= a \/ b < 0 \/ zlen (l_sizes c) <= b ->
  accepts_lattice_constraints c = false.
Proof.
  intros Hl Hin Hr. reject_with accepts_lattice_constraints_sound.
  destruct (lat_dom_spec c cs Hacc Hl) as [X _]. destruct (X _ Hin) as (a' & b' & E & _ & Ra & Rb & _).
  injection E as <- <-. unfold lat_n in *. lia.
Qed.

Lemma reject_lattice_dominance_not_a_pair c cs cst :
  lat_dominance_list c cs -> In cst cs -> length cst <> 2%nat -> accepts_lattice_constraints c = false.
Proof.
  intros Hl Hin Hlen. reject_with accepts_lattice_constraints_sound.
  destruct (lat_dom_spec c cs Hacc Hl) as [X _]. destruct (X _ Hin) as (a' & b' & E & _). subst cst.
  apply Hlen. reflexivity.
Qed.

Lemma reject_lattice_joint_monotonicity_bad c cs cst :
  l_jmono c = Some cs -> In cst cs ->
  length cst <> 2%nat \/ (exists d, In d cst /\ (d < 0 \/ zlen (l_sizes c) <= d)) \/ (exists a, cst = [a; a]) ->
  accepts_lattice_constraints c = false.
Proof.
  intros E Hin Hbad. reject_with accepts_lattice_constraints_sound.
  destruct (la_jmono c Hacc cs cst E Hin) as (a & b & -> & Ra & Rb & Hne). unfold lat_n in *.
  destruct Hbad as [Hlen|[(d & Hd & Hr)|(a' & Ea)]]; [apply Hlen; reflexivity| |].
  - destruct Hd as [<-|[<-|[]]]; lia.
  - injection Ea as -> ->. apply Hne. reflexivity.
Qed.

(* joint monotonicity between a dimension and itself *)
Lemma reject_lattice_joint_monotonicity_self c cs a :
  l_jmono c = Some cs -> In [a; a] cs -> accepts_lattice_constraints c = false.
Proof.
  intros E Hin. apply (reject_lattice_joint_monotonicity_bad c cs [a; a] E Hin).
  right. right. exists a. reflexivity.
Qed.

Lemma reject_lattice_joint_unimodality_bad c cs dims dir_ok :
  l_junimod c = Some cs -> In (dims, dir_ok) cs ->
  dir_ok = false \/ ~ NoDup dims \/
  (exists d, In d dims /\ (d < 0 \/ zlen (l_sizes c) <= d \/ znth (l_sizes c) d < 3 \/
                           exists ms, l_monos c = Some ms /\ znth ms d <> 0)) ->
  accepts_lattice_constraints c = false.
Proof.
  intros E Hin Hbad. reject_with accepts_lattice_constraints_sound.
  destruct (la_junimod c Hacc cs dims dir_ok E Hin) as (D & N & X). unfold lat_n in *.
  destruct Hbad as [Hd|[Hn|(d & Hd & Hr)]]; [congruence|contradiction|].
  destruct (X d Hd) as (R & S & M).
  destruct Hr as [Hr|[Hr|[Hr|(ms & Em & Hr)]]]; try lia. apply Hr, M, Em.
Qed.

(* ---- accepts_lattice / accepts_lattice_layer ---- *)
Lemma accepts_lattice_sound c : accepts_lattice c = true ->
  accepts_lattice_constraints c = true /\
  (forall lo hi, l_omin c = Some lo -> l_omax c = Some hi -> (lo < hi)%Q) /\
  l_interp_ok c = true.
Proof.
  unfold accepts_lattice. rewrite !andb_true_iff. intros [[H1 H2] H3].
  split; [exact H1|]. split; [|exact H3].
  intros lo hi E1 E2. rewrite E1, E2 in H2. cbn in H2. apply qlt_b_spec, H2.
Qed.

Lemma reject_lattice_constraints_invalid c :
  accepts_lattice_constraints c = false -> accepts_lattice c = false /\ accepts_lattice_layer c = false.
Proof. intros H. unfold accepts_lattice_layer, accepts_lattice. rewrite H. split; reflexivity. Qed.

Lemma reject_lattice_output_min_ge_max c lo hi :
  l_omin c = Some lo -> l_omax c = Some hi -> (hi <= lo)%Q ->
  accepts_lattice c = false /\ accepts_lattice_layer c = false.
Proof.
  intros E1 E2 Hle.
  assert (X : accepts_lattice c = false).
  { destruct (accepts_lattice c) eqn:Eacc; [exfalso|reflexivity].
    destruct (accepts_lattice_sound c Eacc) as (_ & B & _). specialize (B lo hi E1 E2).
    apply (Qlt_not_le _ _ B Hle). }
  split; [exact X|]. unfold accepts_lattice_layer. rewrite X. reflexivity.
Qed.

(* the LatticeConstraints object: every rejection of accepts_lattice_constraints carries over, and so do the bounds *)
Lemma reject_lattice_constraints_obj c :
  accepts_lattice_constraints c = false \/
  (exists lo hi, l_omin c = Some lo /\ l_omax c = Some hi /\ (hi <= lo)%Q) ->
  accepts_lattice_constraints_obj c = false.
Proof.
  unfold accepts_lattice_constraints_obj. intros [H|(lo & hi & E1 & E2 & Hle)].
  - rewrite H. reflexivity.
  - destruct (accepts_lattice_constraints c); [|reflexivity]. cbn [andb].
    unfold bounds_strict_ok. rewrite E1, E2. unfold qlt_b.
    destruct (Qle_bool hi lo) eqn:E; [reflexivity|].
    exfalso. apply Qle_bool_iff in Hle. congruence.
Qed.

Lemma accepted_lattice_constraints_obj c :
  accepts_lattice_constraints_obj c = true ->
  accepts_lattice_constraints c = true /\
  (forall lo hi, l_omin c = Some lo -> l_omax c = Some hi -> (lo < hi)%Q).
Proof.
  unfold accepts_lattice_constraints_obj. rewrite andb_true_iff. intros [H B]. split; [exact H|].
  intros lo hi E1 E2. unfold bounds_strict_ok in B. rewrite E1, E2 in B. unfold qlt_b in B.
  apply negb_true_iff in B. destruct (Qlt_le_dec lo hi) as [L|L]; [exact L|].
  apply Qle_bool_iff in L. congruence.
Qed.

Lemma reject_lattice_unknown_interpolation c :
  l_interp_ok c = false -> accepts_lattice c = false /\ accepts_lattice_layer c = false.
Proof.
  intros H.
  assert (X : accepts_lattice c = false) by (unfold accepts_lattice; rewrite H; apply andb_false_r).
  split; [exact X|]. unfold accepts_lattice_layer. rewrite X. reflexivity.
Qed.

(* the Lattice layer with its default (linear) kernel initialiser *)
Lemma accepts_lattice_layer_sound c : accepts_lattice_layer c = true ->
  accepts_lattice c = true /\
  (joint_covers_all (zlen (l_sizes c)) (l_junimod c) = true \/
   (fst (init_range (l_omin c) (l_omax c)) < snd (init_range (l_omin c) (l_omax c)))%Q).
Proof.
  unfold accepts_lattice_layer. rewrite andb_true_iff, orb_true_iff. intros [H1 [H2|H2]].
  - auto.
  - split; [exact H1|right]. rewrite !andb_true_iff in H2. destruct H2 as [_ H2].
    destruct (init_range (l_omin c) (l_omax c)) as [a b]. apply qlt_b_spec, H2.
Qed.

(* default_init_params: with only output_min given the initial range is
   [output_min, max(1, output_min)], with only output_max [min(0, output_max), output_max] *)
Lemma reject_lattice_layer_empty_init_range c :
  joint_covers_all (zlen (l_sizes c)) (l_junimod c) = false ->
  (exists lo, l_omin c = Some lo /\ l_omax c = None /\ (1 <= lo)%Q) \/
  (exists hi, l_omin c = None /\ l_omax c = Some hi /\ (hi <= 0)%Q) ->
  accepts_lattice_layer c = false.
Proof.
  intros Hj Hb. destruct (accepts_lattice_layer c) eqn:Eacc; [exfalso|reflexivity].
  destruct (accepts_lattice_layer_sound c Eacc) as [_ [X|X]]; [congruence|].
  destruct Hb as [(lo & E1 & E2 & H)|(hi & E1 & E2 & H)]; rewrite E1, E2 in X; cbn in X.
  - destruct (Qle_bool lo 1) eqn:E; cbn in X.
    + apply Qle_bool_iff in E. lra.
    + lra.
  - destruct (Qle_bool 0 hi) eqn:E; cbn in X.
    + apply Qle_bool_iff in E. lra.
    + lra.
Qed.

(* ------------------------------------------------------------------------- *)
(* 2. Linear                                                                   *)
(* ------------------------------------------------------------------------- *)
Lemma nth_Some_lt {A} (l : list (option A)) i a : nth i l None = Some a -> (i < length l)%nat.
Proof.
  intros H. destruct (Nat.lt_ge_cases i (length l)) as [Hl|Hl]; [exact Hl|].
  rewrite nth_overflow in H by exact Hl. discriminate.
Qed.

Lemma lin_mdom_loop_spec m : forall cs seen, lin_mdom_loop m seen cs = true ->
  (forall cst, In cst cs -> exists a b, cst = [a; b] /\ a <> b /\ 0 <= a < zlen m /\ 0 <= b < zlen m /\
      znth m a = 1 /\ znth m b = 1) /\
  (forall a b, In [a; b] cs -> ~ In (b, a) seen) /\
  (forall a b, In [a; b] cs -> In [b; a] cs -> False).
Proof.
  induction cs as [|cst r IH]; intros seen H.
  - repeat split; intros; contradiction.
  - destruct cst as [|dom [|weak [|x y]]]; cbn [lin_mdom_loop] in H; try discriminate.
    rewrite !andb_true_iff in H. destruct H as [[[[[[Hne Hd] Hw] Hmd] Hmw] Hseen] Hrest].
    apply negb_true_iff, Z.eqb_neq in Hne. apply in_range_spec in Hd, Hw.
    apply Z.eqb_eq in Hmd, Hmw. apply negb_true_iff in Hseen.
    destruct (IH _ Hrest) as (I1 & I2 & I3).
    split; [|split].
    + intros c [<-|Hin]; [exists dom, weak; auto 10|apply I1, Hin].
    + intros a b [E|Hin] Hs.
      * injection E as <- <-. apply pair_mem_spec in Hs. congruence.
      * apply (I2 a b Hin). right. exact Hs.
    + intros a b [E|Hin] [E'|Hin'].
      * injection E as <- <-. injection E' as E1 E2. congruence.
      * injection E as <- <-. apply (I2 weak dom Hin'). left. reflexivity.
      * injection E' as <- <-. apply (I2 weak dom Hin). left. reflexivity.
      * eapply I3; eassumption.
Qed.

(* input_min[d] and input_max[d] are both given and differ *)
Definition range_given (lo hi : option (list (option Q))) (d : Z) : Prop :=
  exists a b, onth lo d = Some a /\ onth hi d = Some b /\ ~ (a == b)%Q.

Lemma range_set_spec lo hi d : range_set lo hi d = true <-> range_given lo hi d.
Proof.
  unfold range_set, range_given. destruct (onth lo d) as [a|], (onth hi d) as [b|].
  - rewrite negb_true_iff. split.
    + intros H. exists a, b. split; [reflexivity|]. split; [reflexivity|].
      intros E. apply Qeq_bool_iff in E. congruence.
    + intros (a' & b' & E1 & E2 & Hne). injection E1 as <-. injection E2 as <-.
      destruct (Qeq_bool a b) eqn:E; [|reflexivity]. apply Qeq_bool_iff in E. contradiction.
  - split; [discriminate|intros (a' & b' & _ & E & _); discriminate].
  - split; [discriminate|intros (a' & b' & E & _); discriminate].
  - split; [discriminate|intros (a' & b' & E & _); discriminate].
Qed.

Lemma lin_rdom_loop_spec m lo hi : forall cs seen, lin_rdom_loop m lo hi seen cs = true ->
  (forall cst, In cst cs -> exists a b, cst = [a; b] /\ a <> b /\ 0 <= a < zlen m /\ 0 <= b < zlen m /\
      znth m a = znth m b /\ znth m a <> 0 /\ range_given lo hi a /\ range_given lo hi b) /\
  (forall a b, In [a; b] cs -> ~ In (b, a) seen) /\
  (forall a b, In [a; b] cs -> In [b; a] cs -> False).
Proof.
  induction cs as [|cst r IH]; intros seen H.
  - repeat split; intros; contradiction.
  - destruct cst as [|dom [|weak [|x y]]]; cbn [lin_rdom_loop] in H; try discriminate.
    rewrite !andb_true_iff in H. destruct H as [[[[[[[[Hne Hd] Hw] Hmeq] Hmnz] Hrd] Hrw] Hseen] Hrest].
    apply negb_true_iff, Z.eqb_neq in Hne. apply in_range_spec in Hd, Hw.
    apply Z.eqb_eq in Hmeq. apply negb_true_iff, Z.eqb_neq in Hmnz.
    apply range_set_spec in Hrd, Hrw. apply negb_true_iff in Hseen.
    destruct (IH _ Hrest) as (I1 & I2 & I3).
    split; [|split].
    + intros c [<-|Hin]; [exists dom, weak; auto 12|apply I1, Hin].
    + intros a b [E|Hin] Hs.
      * injection E as <- <-. apply pair_mem_spec in Hs. congruence.
      * apply (I2 a b Hin). right. exact Hs.
    + intros a b [E|Hin] [E'|Hin'].
      * injection E as <- <-. injection E' as E1 E2. congruence.
      * injection E as <- <-. apply (I2 weak dom Hin'). left. reflexivity.
      * injection E' as <- <-. apply (I2 weak dom Hin). left. reflexivity.
      * eapply I3; eassumption.
Qed.

Record linear_accepted (c : linear_cfg) : Prop := {
  na_len : forall m n, n_monos c = Some m -> n_num_input_dims c = Some n -> zlen m = n;
  na_bounds_len : forall n, n_num_input_dims c = Some n ->
      (forall ls, n_imin c = Some ls -> zlen ls = n) /\ (forall hs, n_imax c = Some hs -> zlen hs = n);
  na_bounds : forall ls hs i a b, n_imin c = Some ls -> n_imax c = Some hs ->
      nth i ls None = Some a -> nth i hs None = Some b -> (a <= b)%Q;
  na_mdom : forall cs, n_mdom c = Some cs -> exists m, n_monos c = Some m /\
      (forall cst, In cst cs -> exists a b, cst = [a; b] /\ a <> b /\ 0 <= a < zlen m /\ 0 <= b < zlen m /\
          znth m a = 1 /\ znth m b = 1) /\
      (forall a b, In [a; b] cs -> In [b; a] cs -> False);
  na_rdom : forall cs, n_rdom c = Some cs -> exists m, n_monos c = Some m /\
      (forall cst, In cst cs -> exists a b, cst = [a; b] /\ a <> b /\ 0 <= a < zlen m /\ 0 <= b < zlen m /\
          znth m a = znth m b /\ znth m a <> 0 /\
          range_given (n_imin c) (n_imax c) a /\ range_given (n_imin c) (n_imax c) b) /\
      (forall a b, In [a; b] cs -> In [b; a] cs -> False);
  na_disjoint : forall ms rs d, n_mdom c = Some ms -> n_rdom c = Some rs ->
      In d (concat ms) -> In d (concat rs) -> False
}.

Lemma accepts_linear_sound c : accepts_linear c = true -> linear_accepted c.
Proof.
  unfold accepts_linear. rewrite !andb_true_iff. intros [[[[[H1 H1b] H2] H3] H4] H5].
  constructor.
  - intros m n E1 E2. rewrite E1, E2 in H1. apply Z.eqb_eq in H1. exact H1.
  - intros n E. rewrite E in H1b. apply andb_true_iff in H1b. destruct H1b as [Ha Hb]. split.
    + intros ls El. rewrite El in Ha. cbn [len_matches] in Ha. apply Z.eqb_eq in Ha. exact Ha.
    + intros hs Eh. rewrite Eh in Hb. cbn [len_matches] in Hb. apply Z.eqb_eq in Hb. exact Hb.
  - intros ls hs i a b E1 E2 Ea Eb. unfold bounds_order_ok in H2. rewrite E1, E2 in H2.
    pose proof (proj1 (all_b_spec _ _) H2 _
      (In_combine_nth None None ls hs i (nth_Some_lt _ _ _ Ea) (nth_Some_lt _ _ _ Eb))) as X.
    cbn beta in X. rewrite Ea, Eb in X. apply Qle_bool_iff in X. exact X.
  - intros cs E. rewrite E in H3. destruct (n_monos c) as [m|]; [|discriminate].
    exists m. split; [reflexivity|]. destruct (lin_mdom_loop_spec m cs [] H3) as (I1 & _ & I3). split; assumption.
  - intros cs E. rewrite E in H4. destruct (n_monos c) as [m|]; [|discriminate].
    exists m. split; [reflexivity|].
    destruct (lin_rdom_loop_spec m _ _ cs [] H4) as (I1 & _ & I3). split; assumption.
  - intros ms rs d E1 E2 Hm Hr. unfold dominance_dims_disjoint in H5. rewrite E1, E2 in H5.
    pose proof (proj1 (all_b_spec _ _) H5 _ Hr) as X. cbn beta in X. apply negb_true_iff in X.
    apply zmem_spec in Hm. congruence.
Qed.

Lemma reject_linear_monotonicities_length c m n :
  n_monos c = Some m -> n_num_input_dims c = Some n -> zlen m <> n -> accepts_linear c = false.
Proof. intros E1 E2 H. reject_with accepts_linear_sound. apply H, (na_len c Hacc m n E1 E2). Qed.

Lemma reject_linear_bounds_length c n :
  n_num_input_dims c = Some n ->
  (exists ls, n_imin c = Some ls /\ zlen ls <> n) \/ (exists hs, n_imax c = Some hs /\ zlen hs <> n) ->
  accepts_linear c = false.
Proof.
  intros E H. reject_with accepts_linear_sound. destruct (na_bounds_len c Hacc n E) as [Ha Hb].
  destruct H as [(ls & El & Hn)|(hs & Eh & Hn)]; [apply Hn, Ha, El|apply Hn, Hb, Eh].
Qed.

Lemma reject_linear_input_min_above_max c ls hs i a b :
  n_imin c = Some ls -> n_imax c = Some hs -> nth i ls None = Some a -> nth i hs None = Some b ->
  (b < a)%Q -> accepts_linear c = false.
Proof.
  intros E1 E2 Ea Eb H. reject_with accepts_linear_sound.
  pose proof (na_bounds c Hacc ls hs i a b E1 E2 Ea Eb). lra.
Qed.

Lemma reject_linear_dominance_without_monotonicities c :
  n_monos c = None -> n_mdom c <> None \/ n_rdom c <> None -> accepts_linear c = false.
Proof.
  intros E H. reject_with accepts_linear_sound. destruct H as [H|H].
  - destruct (n_mdom c) as [cs|] eqn:Ed; [|congruence].
    destruct (na_mdom c Hacc cs Ed) as (m & Em & _). congruence.
  - destruct (n_rdom c) as [cs|] eqn:Ed; [|congruence].
    destruct (na_rdom c Hacc cs Ed) as (m & Em & _). congruence.
Qed.

Lemma reject_linear_monotonic_dominance_bad c m cs cst :
  n_monos c = Some m -> n_mdom c = Some cs -> In cst cs ->
  length cst <> 2%nat \/
  (exists a b, cst = [a; b] /\
     (a = b \/ a < 0 \/ zlen m <= a \/ b < 0 \/ zlen m <= b \/ znth m a <> 1 \/ znth m b <> 1 \/ In [b; a] cs)) ->
  accepts_linear c = false.
Proof.
  intros Em Ed Hin Hbad. reject_with accepts_linear_sound.
  destruct (na_mdom c Hacc cs Ed) as (m' & Em' & X & Y). rewrite Em in Em'. injection Em' as <-.
  destruct (X _ Hin) as (a & b & -> & Hne & Ra & Rb & Ma & Mb).
  destruct Hbad as [Hl|(a' & b' & E & Hbad)]; [apply Hl; reflexivity|]. injection E as <- <-.
  destruct Hbad as [H|[H|[H|[H|[H|[H|[H|H]]]]]]]; try lia; try contradiction. exact (Y a b Hin H).
Qed.

Lemma reject_linear_range_dominance_bad c m cs cst :
  n_monos c = Some m -> n_rdom c = Some cs -> In cst cs ->
  length cst <> 2%nat \/
  (exists a b, cst = [a; b] /\
     (a = b \/ a < 0 \/ zlen m <= a \/ b < 0 \/ zlen m <= b \/ znth m a <> znth m b \/ znth m a = 0 \/
      ~ range_given (n_imin c) (n_imax c) a \/ ~ range_given (n_imin c) (n_imax c) b \/ In [b; a] cs)) ->
  accepts_linear c = false.
Proof.
  intros Em Ed Hin Hbad. reject_with accepts_linear_sound.
  destruct (na_rdom c Hacc cs Ed) as (m' & Em' & X & Y). rewrite Em in Em'. injection Em' as <-.
  destruct (X _ Hin) as (a & b & -> & Hne & Ra & Rb & Me & Mz & Ga & Gb).
  destruct Hbad as [Hl|(a' & b' & E & Hbad)]; [apply Hl; reflexivity|]. injection E as <- <-.
  destruct Hbad as [H|[H|[H|[H|[H|[H|[H|[H|[H|H]]]]]]]]]; try lia; try contradiction. exact (Y a b Hin H).
Qed.

Lemma reject_linear_dimension_in_both_dominances c ms rs d :
  n_mdom c = Some ms -> n_rdom c = Some rs -> In d (concat ms) -> In d (concat rs) ->
  accepts_linear c = false.
Proof. intros E1 E2 H1 H2. reject_with accepts_linear_sound. exact (na_disjoint c Hacc ms rs d E1 E2 H1 H2). Qed.

(* ------------------------------------------------------------------------- *)
(* 3. PWLCalibration                                                           *)
(* ------------------------------------------------------------------------- *)
Lemma strictly_increasing_spec : forall l, strictly_increasing l = true ->
  forall i, (S i < length l)%nat -> (nth i l 0 < nth (S i) l 0)%Q.
Proof.
  induction l as [|a [|b r] IH]; intros H i Hi; cbn [length] in Hi; try lia.
  cbn [strictly_increasing] in H. apply andb_true_iff in H. destruct H as [H1 H2].
  destruct i as [|i].
  - cbn. apply qlt_b_spec, H1.
  - change (nth (S i) (a :: b :: r) 0%Q) with (nth i (b :: r) 0%Q).
    change (nth (S (S i)) (a :: b :: r) 0%Q) with (nth (S i) (b :: r) 0%Q).
    apply IH; [exact H2|cbn [length]; lia].
Qed.

Definition nonzero_oz (o : option Z) : Prop := exists z, o = Some z /\ z <> 0.
Lemma truthy_oz_spec o : truthy_oz o = true <-> nonzero_oz o.
Proof.
  unfold truthy_oz, nonzero_oz. destruct o as [z|].
  - rewrite negb_true_iff, Z.eqb_neq. split; [intros H; exists z; auto|intros (z' & E & H); injection E as <-; exact H].
  - split; [discriminate|intros (z & E & _); discriminate].
Qed.

Record pwl_accepted (c : pwl_cfg) : Prop := {
  pa_kp_none : p_keypoints c = None -> p_layer c = false;
  pa_kp_len : forall ks, p_keypoints c = Some ks -> 2 <= zlen ks;
  pa_kp_sorted : forall ks i, p_keypoints c = Some ks -> (S i < length ks)%nat -> (nth i ks 0 < nth (S i) ks 0)%Q;
  pa_kp_cyclic : forall ks, p_keypoints c = Some ks -> p_layer c = true -> p_cyclic c = true -> 3 <= zlen ks;
  pa_bounds : forall lo hi, p_omin c = Some lo -> p_omax c = Some hi -> (lo <= hi)%Q;
  pa_cyclic : p_cyclic c = true -> ~ nonzero_oz (p_mono c) /\ ~ nonzero_oz (p_convex c);
  pa_kp_type : p_kp_type_ok c = true;
  pa_layer : p_layer c = true ->
      (p_missing_in c = true -> p_impute c = true) /\ (p_missing_out c = true -> p_impute c = true) /\
      p_mono c <> None /\ (p_learned c = true -> p_convexity_is_none_spelling c = true);
  pa_layer_convexity : p_layer c = true -> p_convex c <> None
}.

Lemma accepts_pwl_sound c : accepts_pwl c = true -> pwl_accepted c.
Proof.
  unfold accepts_pwl. rewrite !andb_true_iff. intros [[[[H1 H2] H3] H4] H5].
  constructor.
  - intros E. rewrite E in H1. apply negb_true_iff in H1. exact H1.
  - intros ks E. rewrite E in H1. rewrite !andb_true_iff in H1. destruct H1 as [[X _] _]. apply Z.leb_le, X.
  - intros ks i E Hi. rewrite E in H1. rewrite !andb_true_iff in H1. destruct H1 as [[_ X] _].
    apply strictly_increasing_spec; assumption.
  - intros ks E Hl Hc. rewrite E, Hl, Hc in H1. rewrite !andb_true_iff in H1. destruct H1 as [_ X].
    cbn in X. apply Z.leb_le, X.
  - intros lo hi E1 E2. rewrite E1, E2 in H2. apply Qle_bool_iff, H2.
  - intros Hc. rewrite Hc in H3. cbn in H3. apply negb_true_iff, orb_false_iff in H3. destruct H3 as [X Y].
    split; intros Hn; apply truthy_oz_spec in Hn; congruence.
  - exact H4.
  - intros Hl. rewrite Hl in H5. cbn in H5. rewrite !andb_true_iff in H5. destruct H5 as [[[[X1 X2] X3] X4] _].
    repeat split.
    + intros Hm. rewrite Hm in X1. cbn in X1. apply negb_true_iff, negb_false_iff in X1. exact X1.
    + intros Hm. rewrite Hm in X2. cbn in X2. apply negb_true_iff, negb_false_iff in X2. exact X2.
    + intros E. rewrite E in X3. discriminate.
    + intros Hle. rewrite Hle in X4. rewrite andb_true_r in X4. apply negb_true_iff, negb_false_iff in X4. exact X4.
  - intros Hl. rewrite Hl in H5. cbn in H5. rewrite !andb_true_iff in H5. destruct H5 as [_ X5].
    intros E. rewrite E in X5. discriminate.
Qed.

Lemma reject_pwl_too_few_keypoints c ks :
  p_keypoints c = Some ks -> zlen ks < 2 -> accepts_pwl c = false.
Proof. intros E H. reject_with accepts_pwl_sound. pose proof (pa_kp_len c Hacc ks E). lia. Qed.

Lemma reject_pwl_unsorted_keypoints c ks i :
  p_keypoints c = Some ks -> (S i < length ks)%nat -> (nth (S i) ks 0 <= nth i ks 0)%Q -> accepts_pwl c = false.
Proof. intros E Hi H. reject_with accepts_pwl_sound. pose proof (pa_kp_sorted c Hacc ks i E Hi). lra. Qed.

Lemma reject_pwl_output_min_above_max c lo hi :
  p_omin c = Some lo -> p_omax c = Some hi -> (hi < lo)%Q -> accepts_pwl c = false.
Proof. intros E1 E2 H. reject_with accepts_pwl_sound. pose proof (pa_bounds c Hacc lo hi E1 E2). lra. Qed.

Lemma reject_pwl_cyclic_with_monotonicity_or_convexity c z :
  p_cyclic c = true -> z <> 0 -> p_mono c = Some z \/ p_convex c = Some z -> accepts_pwl c = false.
Proof.
  intros Hc Hz H. reject_with accepts_pwl_sound. destruct (pa_cyclic c Hacc Hc) as [X Y].
  destruct H as [H|H]; [apply X|apply Y]; exists z; auto.
Qed.

Lemma reject_pwl_unknown_keypoints_type c : p_kp_type_ok c = false -> accepts_pwl c = false.
Proof. intros H. reject_with accepts_pwl_sound. pose proof (pa_kp_type c Hacc). congruence. Qed.

Lemma reject_pwl_layer_bad c : p_layer c = true ->
  p_keypoints c = None \/
  (exists ks, p_keypoints c = Some ks /\ p_cyclic c = true /\ zlen ks < 3) \/
  (p_missing_in c = true /\ p_impute c = false) \/ (p_missing_out c = true /\ p_impute c = false) \/
  p_mono c = None \/ (p_learned c = true /\ p_convexity_is_none_spelling c = false) ->
  accepts_pwl c = false.
Proof.
  intros Hl Hbad. reject_with accepts_pwl_sound. destruct (pa_layer c Hacc Hl) as (X1 & X2 & X3 & X4).
  destruct Hbad as [H|[(ks & E & Hc & H)|[[H H']|[[H H']|[H|[H H']]]]]].
  - pose proof (pa_kp_none c Hacc H). congruence.
  - pose proof (pa_kp_cyclic c Hacc ks E Hl Hc). lia.
  - specialize (X1 H). congruence.
  - specialize (X2 H). congruence.
  - contradiction.
  - specialize (X4 H). congruence.
Qed.

(* "'convexity' can't be None" (PWLCalibration.__init__ since /repo commit adb1223) *)
Lemma reject_pwl_layer_convexity_none c : p_layer c = true -> p_convex c = None -> accepts_pwl c = false.
Proof. intros Hl E. reject_with accepts_pwl_sound. exact (pa_layer_convexity c Hacc Hl E). Qed.

(* ------------------------------------------------------------------------- *)
(* 4. CategoricalCalibration                                                   *)
(* ------------------------------------------------------------------------- *)
Record categorical_accepted (c : cat_cfg) : Prop := {
  ca_bounds : forall lo hi, c_omin c = Some lo -> c_omax c = Some hi -> (lo <= hi)%Q;
  ca_list : forall ps, c_pairs c = Some ps -> ps <> [] -> c_pairs_is_list c = true;
  ca_pairs : forall ps p, c_pairs c = Some ps -> In p ps ->
      exists i j, p = [i; j] /\ 0 <= i /\ 0 <= j /\ forall n, c_buckets c = Some n -> i < n /\ j < n;
  ca_source : forall ps n, c_pairs c = Some ps -> ps <> [] -> c_buckets c = Some n ->
      exists i j, In [i; j] ps /\ forall k, ~ In [k; i] ps
}.

Lemma has_source_spec ps : has_source ps = true -> exists i j, In [i; j] ps /\ forall k, ~ In [k; i] ps.
Proof.
  unfold has_source. intros H. apply existsb_exists in H. destruct H as (i & Hi & Hn).
  apply in_flat_map in Hi. destruct Hi as (p & Hp & Hip).
  destruct p as [|i' [|j [|x y]]]; cbn in Hip; try contradiction.
  destruct Hip as [<-|[]]. exists i', j. split; [exact Hp|].
  intros k Hk. apply negb_true_iff in Hn.
  assert (X : zmem i' (flat_map (fun p => match p with [_; j0] => [j0] | _ => [] end) ps) = true).
  { apply zmem_spec, in_flat_map. exists [k; i']. split; [exact Hk|left; reflexivity]. }
  congruence.
Qed.

Lemma accepts_categorical_sound c : accepts_categorical c = true -> categorical_accepted c.
Proof.
  unfold accepts_categorical. rewrite andb_true_iff. intros [H1 H2].
  constructor.
  - intros lo hi E1 E2. rewrite E1, E2 in H1. apply Qle_bool_iff, H1.
  - intros ps E Hne. rewrite E in H2. destruct ps as [|p ps]; [contradiction|].
    rewrite !andb_true_iff in H2. tauto.
  - intros ps p E Hin. rewrite E in H2. destruct ps as [|p0 ps]; [contradiction|].
    rewrite !andb_true_iff in H2. destruct H2 as [[_ X] _].
    pose proof (proj1 (all_b_spec _ _) X _ Hin) as Y. cbn beta in Y.
    destruct p as [|i [|j [|x y]]]; try discriminate.
    rewrite !andb_true_iff, !Z.leb_le in Y. destruct Y as [[Yi Yj] Yn].
    exists i, j. repeat split; try assumption; destruct (c_buckets c) as [n'|]; try discriminate;
      injection H as <-; rewrite andb_true_iff, !Z.ltb_lt in Yn; tauto.
  - intros ps n E Hne En. rewrite E in H2. destruct ps as [|p0 ps]; [contradiction|].
    rewrite !andb_true_iff in H2. destruct H2 as [_ X]. rewrite En in X. apply has_source_spec, X.
Qed.

Lemma reject_categorical_output_min_above_max c lo hi :
  c_omin c = Some lo -> c_omax c = Some hi -> (hi < lo)%Q -> accepts_categorical c = false.
Proof. intros E1 E2 H. reject_with accepts_categorical_sound. pose proof (ca_bounds c Hacc lo hi E1 E2). lra. Qed.

Lemma reject_categorical_pairs_not_a_list c ps :
  c_pairs c = Some ps -> ps <> [] -> c_pairs_is_list c = false -> accepts_categorical c = false.
Proof. intros E Hne H. reject_with accepts_categorical_sound. pose proof (ca_list c Hacc ps E Hne). congruence. Qed.

Lemma reject_categorical_pair_bad c ps p :
  c_pairs c = Some ps -> In p ps ->
  length p <> 2%nat \/
  (exists x, In x p /\ (x < 0 \/ exists n, c_buckets c = Some n /\ n <= x)) ->
  accepts_categorical c = false.
Proof.
  intros E Hin Hbad. reject_with accepts_categorical_sound.
  destruct (ca_pairs c Hacc ps p E Hin) as (i & j & -> & Hi & Hj & Hn).
  destruct Hbad as [Hl|(x & Hx & Hr)]; [apply Hl; reflexivity|].
  destruct Hr as [Hr|(n & En & Hr)].
  - destruct Hx as [<-|[<-|[]]]; lia.
  - specialize (Hn n En). destruct Hx as [<-|[<-|[]]]; lia.
Qed.

(* the only cycle test (internal_utils._topological_sort): no source *)
Lemma reject_categorical_no_source c ps n :
  c_pairs c = Some ps -> ps <> [] -> c_buckets c = Some n ->
  (forall i j, In [i; j] ps -> exists k, In [k; i] ps) -> accepts_categorical c = false.
Proof.
  intros E Hne En Hcyc. reject_with accepts_categorical_sound.
  destruct (ca_source c Hacc ps n E Hne En) as (i & j & Hin & Hno).
  destruct (Hcyc i j Hin) as (k & Hk). exact (Hno k Hk).
Qed.

(* ------------------------------------------------------------------------- *)
(* 5. KroneckerFactoredLattice                                                 *)
(* ------------------------------------------------------------------------- *)
Lemma accepts_kfl_sound c : accepts_kfl c = true ->
  (k_size c = 0 \/ 2 <= k_size c) /\ (k_units c = 0 \/ 1 <= k_units c) /\ (k_terms c = 0 \/ 1 <= k_terms c) /\
  (forall m, k_monos c = Some m -> zlen m = k_dims c) /\
  (forall lo hi, k_omin c = Some lo -> k_omax c = Some hi -> (lo < hi)%Q).
Proof.
  unfold accepts_kfl. rewrite !andb_true_iff, !orb_true_iff, !Z.eqb_eq, !Z.leb_le.
  intros [[[[H1 H2] H3] H4] H5]. repeat split; try assumption.
  - intros m E. rewrite E in H4. apply Z.eqb_eq, H4.
  - intros lo hi E1 E2. rewrite E1, E2 in H5. apply qlt_b_spec, H5.
Qed.

Lemma reject_kfl_size c : k_size c <> 0 -> k_size c < 2 -> accepts_kfl c = false.
Proof. intros H0 H. reject_with accepts_kfl_sound. lia. Qed.
Lemma reject_kfl_units c : k_units c < 0 -> accepts_kfl c = false.
Proof. intros H. reject_with accepts_kfl_sound. lia. Qed.
Lemma reject_kfl_terms c : k_terms c < 0 -> accepts_kfl c = false.
Proof. intros H. reject_with accepts_kfl_sound. lia. Qed.
Lemma reject_kfl_monotonicities_length c m : k_monos c = Some m -> zlen m <> k_dims c -> accepts_kfl c = false.
Proof. intros E H. reject_with accepts_kfl_sound. destruct Hacc as (_ & _ & _ & X & _). apply H, X, E. Qed.
Lemma reject_kfl_output_min_ge_max c lo hi :
  k_omin c = Some lo -> k_omax c = Some hi -> (hi <= lo)%Q -> accepts_kfl c = false.
Proof.
  intros E1 E2 H. reject_with accepts_kfl_sound. destruct Hacc as (_ & _ & _ & _ & X).
  specialize (X lo hi E1 E2). lra.
Qed.
(* as is (finding D48): `if lattice_sizes and lattice_sizes < 2` lets 0 through *)
Lemma kfl_zero_size_accepted : exists c, k_size c = 0 /\ accepts_kfl c = true.
Proof. exists (mkK 0 1 1 None 2 None None). split; reflexivity. Qed.

(* ========================================================================= *)
(* 6. Bridges: accepted => the "valid configuration" premises of the other     *)
(*    properties                                                               *)
(* ========================================================================= *)

(* ---- Lattice -> LatticeSpec.cfg_valid (premise of C01 / C08 / C10 / C12) --- *)
(* Z indices become nat; monotonicities None means "all 0". *)
Definition conv_trust (t : Z * Z * Z) : LatticeFinalize.trust :=
  let '(a, b, d) := t in (Z.to_nat a, Z.to_nat b, d).
Definition conv_lattice (c : lattice_cfg) (units : nat) : LatticeFinalize.lat_cfg :=
  LatticeFinalize.mkLat (map Z.to_nat (l_sizes c)) units
    (match l_monos c with Some ms => ms | None => repeat 0 (length (l_sizes c)) end)
    (map conv_trust (l_edge c)) (map conv_trust (l_trap c)) (l_omin c) (l_omax c).

Lemma in_conv_trusts c units t : In t (LatticeSpec.all_trusts (conv_lattice c units)) ->
  exists a b d, t = (Z.to_nat a, Z.to_nat b, d) /\ In (a, b, d) (lat_trusts c).
Proof.
  unfold LatticeSpec.all_trusts, conv_lattice, lat_trusts. cbn. rewrite <- map_app. intros H.
  apply in_map_iff in H. destruct H as ([[a b] d] & <- & Hin). exists a, b, d. split; [reflexivity|exact Hin].
Qed.

Lemma accepted_lattice_cfg_valid c units :
  accepts_lattice c = true -> (1 <= units)%nat ->
  (forall ms m, l_monos c = Some ms -> In m ms -> m = 0 \/ m = 1) ->
  (forall a b d, In (a, b, d) (l_edge c ++ l_trap c) -> d = 1 \/ d = -1) ->
  LatticeSpec.cfg_valid (conv_lattice c units).
Proof.
  intros Hacc Hu Hcanon Hdir. destruct (accepts_lattice_sound c Hacc) as (Hc & Hb & _).
  pose proof (accepts_lattice_constraints_sound c Hc) as A.
  unfold LatticeSpec.cfg_valid. repeat split.
  - cbn. intros s Hs. apply in_map_iff in Hs. destruct Hs as (z & <- & Hz). pose proof (la_sizes c A z Hz). lia.
  - exact Hu.
  - cbn. rewrite map_length. destruct (l_monos c) as [ms|] eqn:Em.
    + pose proof (la_monos_len c A ms Em) as X. unfold lat_n, zlen in X. lia.
    + apply repeat_length.
  - cbn. destruct (l_monos c) as [ms|] eqn:Em.
    + intros m Hm. exact (Hcanon ms m eq_refl Hm).
    + intros m Hm. apply repeat_spec in Hm. left. exact Hm.
  - intros t Ht. destruct (in_conv_trusts c units t Ht) as (a & b & d & -> & Hin).
    destruct (la_trust c A a b d Hin) as (Ra & Rb & Hm). unfold LatticeSpec.trust_ok. cbn.
    rewrite map_length. unfold lat_n, zlen in Ra, Rb. repeat split; try lia.
    + unfold mono_at in Hm. destruct (l_monos c) as [ms|]; [|discriminate]. injection Hm as Hm. exact Hm.
    + apply (Hdir a b d Hin).
  - intros t1 t2 H1 H2.
    destruct (in_conv_trusts c units t1 H1) as (a & b & d & -> & Hin1).
    destruct (in_conv_trusts c units t2 H2) as (a' & b' & d' & -> & Hin2). cbn. intros E.
    destruct (la_trust c A a b d Hin1) as (Ra & _). destruct (la_trust c A a' b' d' Hin2) as (_ & Rb' & _).
    assert (a = b') by lia. subst b'. exact (la_trust_main_cond c A a b d a' d' Hin1 Hin2).
  - intros t1 t2 H1 H2.
    destruct (in_conv_trusts c units t1 H1) as (a & b & d & -> & Hin1).
    destruct (in_conv_trusts c units t2 H2) as (a' & b' & d' & -> & Hin2). cbn. intros E. injection E as Ea Eb.
    destruct (la_trust c A a b d Hin1) as (Ra & Rb & _). destruct (la_trust c A a' b' d' Hin2) as (Ra' & Rb' & _).
    assert (a' = a) by lia. assert (b' = b) by lia. subst a' b'. exact (la_trust_dir c A a b d d' Hin1 Hin2).
  - cbn. destruct (l_omin c) as [lo|] eqn:E1, (l_omax c) as [hi|] eqn:E2; try exact I. apply (Hb lo hi eq_refl eq_refl).
Qed.

Example accepted_lattice_example :
  let c := mkL [3; 2; 2] (Some [1; 0; 1]) (Some [0; 0; 0]) [(0, 1, 1)] [(2, 1, -1)]
               (Some [[0; 2]]) None (Some [[0; 1]]) None (Some (0#1)) (Some (1#1))%Q true in
  accepts_lattice c = true /\ accepts_lattice_layer c = true /\
  (forall ms m, l_monos c = Some ms -> In m ms -> m = 0 \/ m = 1) /\
  (forall a b d, In (a, b, d) (l_edge c ++ l_trap c) -> d = 1 \/ d = -1).
Proof.
  cbv zeta. split; [vm_compute; reflexivity|]. split; [vm_compute; reflexivity|]. split.
  - intros ms m E Hm. injection E as <-. cbn in Hm. intuition lia.
  - intros a b d Hin. cbn in Hin. destruct Hin as [E|[E|[]]]; injection E as <- <- <-; lia.
Qed.

(* ---- KroneckerFactoredLattice -> KFL.cfg_ok (premise of C07 / C14) --------- *)
Definition conv_kfl (c : kfl_cfg) (clip : bool) : Model.KFL.config :=
  Model.KFL.mkCfg (Z.to_nat (k_size c)) (option_map (map (fun z => negb (z =? 0))) (k_monos c))
                  (k_omin c) (k_omax c) clip.

(* extra hypotheses: lattice_sizes <> 0 (0 slips through `if lattice_sizes and
   lattice_sizes < 2`, finding D48) and at least one input dimension *)
Lemma accepted_kfl_cfg_ok c clip :
  accepts_kfl c = true -> k_size c <> 0 -> 1 <= k_dims c ->
  Proofs.KFL.cfg_ok (conv_kfl c clip) (Z.to_nat (k_dims c)).
Proof.
  intros Hacc Hs Hd. destruct (accepts_kfl_sound c Hacc) as (S & _ & _ & M & B).
  unfold Proofs.KFL.cfg_ok, conv_kfl. cbn. repeat split; try lia.
  - intros lo hi E1 E2. apply (B lo hi E1 E2).
  - intros ms E. destruct (k_monos c) as [m|] eqn:Em; cbn in E; [|discriminate].
    specialize (M m eq_refl). destruct (map _ m) as [|x r] eqn:El; [discriminate|]. injection E as <-.
    rewrite <- El, map_length. unfold zlen in M. lia.
Qed.

Example accepted_kfl_example :
  let c := mkK 3 2 2 (Some [1; 0]) 2 (Some (0#1)) (Some (1#1))%Q in
  accepts_kfl c = true /\ k_size c <> 0 /\ 1 <= k_dims c.
Proof. cbv zeta. split; [vm_compute; reflexivity|]. cbn. lia. Qed.

(* ---- PWLCalibration -> PWLProject.pwl_valid (premise of C04) --------------- *)
Fixpoint kp_lengths (ks : list Q) : list Q :=
  match ks with a :: ((b :: _) as r) => (b - a)%Q :: kp_lengths r | _ => [] end.
Definition conv_bct (o : option Q) (clamp : bool) : Model.PWLProject.bct :=
  match o with None => Model.PWLProject.BNone
             | Some _ => if clamp then Model.PWLProject.BClamped else Model.PWLProject.BBound end.
Definition oz (o : option Z) : Z := match o with Some z => z | None => 0 end.
Definition oq (o : option Q) : Q := match o with Some q => q | None => 0%Q end.
Definition conv_pwl (c : pwl_cfg) (ks : list Q) (clamp_min clamp_max : bool) (iters : nat) : Model.PWLProject.pwl_cfg :=
  Model.PWLProject.mkPwl (oz (p_mono c)) (oz (p_convex c)) (oq (p_omin c)) (oq (p_omax c))
    (conv_bct (p_omin c) clamp_min) (conv_bct (p_omax c) clamp_max) (kp_lengths ks) iters.

Lemma kp_lengths_length : forall ks, length (kp_lengths ks) = (length ks - 1)%nat.
Proof.
  induction ks as [|a [|b r] IH]; try reflexivity.
  change (kp_lengths (a :: b :: r)) with ((b - a)%Q :: kp_lengths (b :: r)). cbn [length] in *. lia.
Qed.
Lemma kp_lengths_pos : forall ks, strictly_increasing ks = true -> Forall (fun l => (0 < l)%Q) (kp_lengths ks).
Proof.
  induction ks as [|a [|b r] IH]; intros H; try constructor.
  - cbn [strictly_increasing] in H. apply andb_true_iff in H. destruct H as [H _]. apply qlt_b_spec in H. lra.
  - apply IH. cbn [strictly_increasing] in H. apply andb_true_iff in H. tauto.
Qed.

(* extra hypotheses: canonical values (the C16_canonical_range theorems), and a clamp only
   with a monotonicity (NOT checked up front by the library: finding D43) *)
Lemma accepted_pwl_valid c ks clamp_min clamp_max iters :
  accepts_pwl c = true -> p_keypoints c = Some ks ->
  (oz (p_mono c) = -1 \/ oz (p_mono c) = 0 \/ oz (p_mono c) = 1) ->
  (oz (p_convex c) = -1 \/ oz (p_convex c) = 0 \/ oz (p_convex c) = 1) ->
  ((p_omin c <> None /\ clamp_min = true) \/ (p_omax c <> None /\ clamp_max = true) -> oz (p_mono c) <> 0) ->
  Proofs.PWLProject.pwl_valid (conv_pwl c ks clamp_min clamp_max iters) (length ks - 1).
Proof.
  intros Hacc Ek Hm Hc Hclamp.
  assert (Hacc' := Hacc). unfold accepts_pwl in Hacc'. rewrite Ek, !andb_true_iff in Hacc'.
  destruct Hacc' as [[[[[[Hlen Hinc] _] _] _] _] _].
  pose proof (accepts_pwl_sound c Hacc) as A.
  unfold Proofs.PWLProject.pwl_valid, conv_pwl. cbn. repeat split.
  - apply Z.leb_le in Hlen. unfold zlen in Hlen. lia.
  - apply kp_lengths_length.
  - apply kp_lengths_pos, Hinc.
  - exact Hm.
  - exact Hc.
  - intros H1 H2. destruct (p_omin c) as [lo|] eqn:E1; [|cbn in H1; congruence].
    destruct (p_omax c) as [hi|] eqn:E2; [|cbn in H2; congruence]. cbn. apply (pa_bounds c A lo hi E1 E2).
  - intros H. apply Hclamp. destruct H as [H|H]; [left|right].
    + destruct (p_omin c); [|discriminate]. destruct clamp_min; [split; [discriminate|reflexivity]|discriminate].
    + destruct (p_omax c); [|discriminate]. destruct clamp_max; [split; [discriminate|reflexivity]|discriminate].
Qed.

Example accepted_pwl_example :
  let c := mkP (Some [0#1; 1#2; 2#1]%Q) (Some (0#1)%Q) (Some (1#1)%Q) (Some 1) (Some (-1)) false true false true
               false false false true in
  accepts_pwl c = true /\ oz (p_mono c) = 1 /\ oz (p_convex c) = -1.
Proof. cbv zeta. split; [vm_compute; reflexivity|]. split; reflexivity. Qed.

(* ---- Linear -> LinearProject.lin_valid (premise of C06) -------------------- *)
Definition zpairs (cs : list (list Z)) : list (nat * nat) :=
  flat_map (fun c => match c with [a; b] => [(Z.to_nat a, Z.to_nat b)] | _ => [] end) cs.
Definition olist {A} (o : option (list A)) : list A := match o with Some l => l | None => [] end.
Definition conv_linear (c : linear_cfg) (norm : nat) : Model.LinearProject.lin_cfg :=
  Model.LinearProject.mkLin (olist (n_monos c)) (zpairs (olist (n_mdom c))) (zpairs (olist (n_rdom c)))
    (olist (n_imin c)) (olist (n_imax c)) norm.

Lemma in_zpairs cs d k : In (d, k) (zpairs cs) <-> exists a b, In [a; b] cs /\ d = Z.to_nat a /\ k = Z.to_nat b.
Proof.
  unfold zpairs. rewrite in_flat_map. split.
  - intros (cst & Hin & H). destruct cst as [|a [|b [|x y]]]; cbn in H; try contradiction.
    destruct H as [E|[]]. injection E as <- <-. exists a, b. auto.
  - intros (a & b & Hin & -> & ->). exists [a; b]. split; [exact Hin|left; reflexivity].
Qed.

Lemma in_pair_concat (cs : list (list Z)) a b : In [a; b] cs -> In a (concat cs) /\ In b (concat cs).
Proof. intros H. split; apply in_concat; exists [a; b]; (split; [exact H|cbn; auto]). Qed.

Lemma range_given_rbounds c a : linear_accepted c -> range_given (n_imin c) (n_imax c) a ->
  exists l h, nth (Z.to_nat a) (olist (n_imin c)) None = Some l /\
              nth (Z.to_nat a) (olist (n_imax c)) None = Some h /\ (l < h)%Q.
Proof.
  intros A (l & h & E1 & E2 & Hne). unfold onth in E1, E2.
  destruct (n_imin c) as [ls|] eqn:El; [|discriminate]. destruct (n_imax c) as [hs|] eqn:Eh; [|discriminate].
  exists l, h. cbn. split; [exact E1|]. split; [exact E2|].
  pose proof (na_bounds c A ls hs _ l h El Eh E1 E2) as Hle.
  destruct (Qlt_le_dec l h) as [Hlt|Hge]; [exact Hlt|]. exfalso. apply Hne. apply Qle_antisym; assumption.
Qed.

(* extra hypotheses: canonical monotonicities; input_min / input_max as long as
   the monotonicities when range dominances are used (the library checks this
   against the weights' shape at call time, finding D45); and acyclicity of the
   two dominance graphs, which verify_hyperparameters does NOT check (only
   self-loops and 2-cycles are rejected; a longer cycle raises 'Circular
   monotonicity constraints' from the first projection) *)
Lemma accepted_linear_lin_valid c m norm :
  accepts_linear c = true -> n_monos c = Some m ->
  (forall x, In x m -> x = 0 \/ x = 1 \/ x = -1) ->
  (olist (n_rdom c) <> [] -> length (olist (n_imin c)) = length m /\ length (olist (n_imax c)) = length m) ->
  TopoSort.acyclic (Model.LinearProject.swap_pairs (zpairs (olist (n_mdom c)))) ->
  TopoSort.acyclic (Model.LinearProject.swap_pairs (zpairs (olist (n_rdom c)))) ->
  Proofs.LinearProject.lin_valid (conv_linear c norm) (length m).
Proof.
  intros Hacc Em Hcanon Hlen Ha1 Ha2. pose proof (accepts_linear_sound c Hacc) as A.
  assert (Hm1 : forall cs, n_mdom c = Some cs -> forall d k, In (d, k) (zpairs cs) ->
     exists a b, In [a; b] cs /\ d = Z.to_nat a /\ k = Z.to_nat b /\ 0 <= a < zlen m /\ 0 <= b < zlen m /\
                 znth m a = 1 /\ znth m b = 1).
  { intros cs E d k Hin. apply in_zpairs in Hin. destruct Hin as (a & b & Hin & -> & ->).
    destruct (na_mdom c A cs E) as (m' & Em' & X & _). rewrite Em in Em'. injection Em' as <-.
    destruct (X _ Hin) as (a' & b' & Eab & _ & Ra & Rb & Ma & Mb). injection Eab as <- <-.
    exists a, b. auto 10. }
  assert (Hr1 : forall cs, n_rdom c = Some cs -> forall d k, In (d, k) (zpairs cs) ->
     exists a b, In [a; b] cs /\ d = Z.to_nat a /\ k = Z.to_nat b /\ 0 <= a < zlen m /\ 0 <= b < zlen m /\
                 znth m a = znth m b /\ znth m a <> 0 /\
                 range_given (n_imin c) (n_imax c) a /\ range_given (n_imin c) (n_imax c) b).
  { intros cs E d k Hin. apply in_zpairs in Hin. destruct Hin as (a & b & Hin & -> & ->).
    destruct (na_rdom c A cs E) as (m' & Em' & X & _). rewrite Em in Em'. injection Em' as <-.
    destruct (X _ Hin) as (a' & b' & Eab & _ & Ra & Rb & Me & Mz & Ga & Gb). injection Eab as <- <-.
    exists a, b. auto 12. }
  constructor; unfold conv_linear; cbn [Model.LinearProject.lc_monos Model.LinearProject.lc_mdom
    Model.LinearProject.lc_rdom Model.LinearProject.lc_min Model.LinearProject.lc_max]; rewrite ?Em; cbn [olist].
  - reflexivity.
  - intros i. unfold Proofs.LinearProject.mono. cbn. rewrite ?Em. cbn.
    destruct (Nat.lt_ge_cases i (length m)) as [Hi|Hi].
    + apply Hcanon, nth_In, Hi.
    + rewrite nth_overflow by exact Hi. auto.
  - intros H. assert (H' : olist (n_rdom c) <> []) by (intros E; rewrite E in H; apply H; reflexivity).
    apply Hlen in H'. tauto.
  - intros H. assert (H' : olist (n_rdom c) <> []) by (intros E; rewrite E in H; apply H; reflexivity).
    apply Hlen in H'. tauto.
  - intros d k Hin. destruct (n_mdom c) as [cs|] eqn:Ed; [|contradiction].
    destruct (Hm1 cs eq_refl d k Hin) as (a & b & _ & -> & -> & Ra & Rb & Ma & Mb).
    unfold Proofs.LinearProject.mono. cbn. rewrite ?Em. cbn. unfold zlen in Ra, Rb.
    repeat split; try lia; assumption.
  - intros d k Hin. destruct (n_rdom c) as [cs|] eqn:Ed; [|contradiction].
    destruct (Hr1 cs eq_refl d k Hin) as (a & b & _ & -> & -> & Ra & Rb & Me & Mz & Ga & Gb).
    unfold Proofs.LinearProject.mono, Proofs.LinearProject.rbounds. cbn. rewrite ?Em. cbn. unfold zlen in Ra, Rb.
    repeat split; try lia; try assumption; apply range_given_rbounds; assumption.
  - intros i (x & Hx) (y & Hy).
    destruct (n_mdom c) as [ms|] eqn:Edm; [|destruct Hx; contradiction].
    destruct (n_rdom c) as [rs|] eqn:Edr; [|destruct Hy; contradiction]. cbn [olist] in *.
    assert (X : exists a, In a (concat ms) /\ i = Z.to_nat a /\ 0 <= a).
    { destruct Hx as [Hx|Hx]; destruct (Hm1 ms eq_refl _ _ Hx) as (a & b & Hin & -> & -> & Ra & Rb & _);
        apply in_pair_concat in Hin; [exists a|exists b]; repeat split; try tauto; lia. }
    assert (Y : exists a, In a (concat rs) /\ i = Z.to_nat a /\ 0 <= a).
    { destruct Hy as [Hy|Hy]; destruct (Hr1 rs eq_refl _ _ Hy) as (a & b & Hin & -> & -> & Ra & Rb & _);
        apply in_pair_concat in Hin; [exists a|exists b]; repeat split; try tauto; lia. }
    destruct X as (a & Ha & -> & Ha0). destruct Y as (a' & Ha' & E & Ha0').
    assert (a' = a) by lia. subst a'. exact (na_disjoint c A ms rs a Edm Edr Ha Ha').
  - exact Ha1.
  - exact Ha2.
Qed.

Example accepted_linear_example :
  let c := mkLin (Some [1; 1; -1; -1; 0]) (Some 5) (Some [[0; 1]]) (Some [[2; 3]])
                 (Some [None; None; Some (0#1); Some (-1#1); None]%Q)
                 (Some [None; None; Some (2#1); Some (1#2); None]%Q) in
  accepts_linear c = true /\
  (forall x, In x [1; 1; -1; -1; 0] -> x = 0 \/ x = 1 \/ x = -1) /\
  (length (olist (n_imin c)) = 5%nat /\ length (olist (n_imax c)) = 5%nat) /\
  TopoSort.acyclic (Model.LinearProject.swap_pairs (zpairs (olist (n_mdom c)))) /\
  TopoSort.acyclic (Model.LinearProject.swap_pairs (zpairs (olist (n_rdom c)))).
Proof.
  cbv zeta. split; [vm_compute; reflexivity|]. split; [cbn; intuition lia|]. split; [split; reflexivity|].
  split; apply (TopoSort.acyclic_rank _ (fun x => 10 - x)%nat); intros a b H; vm_compute in H;
    destruct H as [E|[]]; injection E as <- <-; lia.
Qed.

(* verify_hyperparameters rejects self-dominance and 2-cycles only: a longer
   dominance cycle is accepted (and the first projection then raises
   'Circular monotonicity constraints'), so acyclicity is a genuine extra
   hypothesis of the bridge above *)
Lemma linear_accepts_dominance_cycle : exists c cs,
  accepts_linear c = true /\ n_mdom c = Some cs /\
  ~ TopoSort.acyclic (Model.LinearProject.swap_pairs (zpairs cs)).
Proof.
  exists (mkLin (Some [1; 1; 1]) None (Some [[0; 1]; [1; 2]; [2; 0]]) None None None), [[0; 1]; [1; 2]; [2; 0]].
  split; [vm_compute; reflexivity|]. split; [reflexivity|]. intros H. apply (H 0%nat).
  apply (TopoSort.path_trans _ _ 2%nat); [apply TopoSort.path_step; cbn; auto|].
  apply (TopoSort.path_trans _ _ 1%nat); apply TopoSort.path_step; cbn; auto.
Qed.

(* ---- CategoricalCalibration -> pairs_in_range (premise of C06) ------------- *)
Lemma accepted_categorical_pairs_in_range c ps n (w : list Q) :
  accepts_categorical c = true -> c_pairs c = Some ps -> c_buckets c = Some n -> length w = Z.to_nat n ->
  PartialOrder.pairs_in_range (zpairs ps) w.
Proof.
  intros Hacc E En Hw i j Hin. pose proof (accepts_categorical_sound c Hacc) as A.
  apply in_zpairs in Hin. destruct Hin as (a & b & Hin & -> & ->).
  destruct (ca_pairs c A ps _ E Hin) as (a' & b' & Eab & Ha & Hb & Hn). injection Eab as <- <-.
  specialize (Hn n En). lia.
Qed.

Example accepted_categorical_example :
  let c := mkC (Some 4) (Some (0#1)%Q) (Some (1#1)%Q) true (Some [[0; 1]; [1; 3]; [2; 3]]) in
  accepts_categorical c = true /\
  TopoSort.acyclic (zpairs [[0; 1]; [1; 3]; [2; 3]]).
Proof.
  cbv zeta. split; [vm_compute; reflexivity|].
  apply (TopoSort.acyclic_rank _ (fun x => x)); intros a b H; vm_compute in H;
    destruct H as [E|[E|[E|[]]]]; injection E as <- <-; lia.
Qed.

(* the layer's only cycle test is "some index has no incoming pair": a cycle
   next to an unrelated source is accepted, so acyclicity (the other premise of
   the C06 categorical theorems) is NOT implied by acceptance *)
Lemma categorical_accepts_cycle : exists c ps,
  accepts_categorical c = true /\ c_pairs c = Some ps /\ ~ TopoSort.acyclic (zpairs ps).
Proof.
  exists (mkC (Some 4) None None true (Some [[0; 3]; [1; 2]; [3; 0]])), [[0; 3]; [1; 2]; [3; 0]].
  split; [vm_compute; reflexivity|]. split; [reflexivity|]. intros H. apply (H 0%nat).
  apply (TopoSort.path_trans _ _ 3%nat); apply TopoSort.path_step; cbn; auto.
Qed.

Lemma reject_lattice_trust_across_kinds c f cond dir main' dir' :
  (In (f, cond, dir) (l_edge c) /\ In (main', f, dir') (l_trap c)) \/
  (In (f, cond, dir) (l_trap c) /\ In (main', f, dir') (l_edge c)) ->
  accepts_lattice_constraints c = false.
Proof.
  intros [[H1 H2]|[H1 H2]]; apply (reject_lattice_trust_main_and_conditional c f cond dir main' dir');
    apply in_or_app; auto.
Qed.

(* ========================================================================= *)
(* 7. Converse for the Lattice: the conditions of lattice_constraints_accepted *)
(*    are ALL that accepts_lattice_constraints checks (so the rejection lemmas *)
(*    of section 1 are exhaustive)                                             *)
(* ========================================================================= *)
Lemma In_combine_nth_inv {A B} (a : A) (b : B) : forall (l : list A) (l' : list B) x y,
  In (x, y) (combine l l') -> exists i, (i < length l)%nat /\ (i < length l')%nat /\ x = nth i l a /\ y = nth i l' b.
Proof.
  induction l as [|u l IH]; intros [|v l'] x y H; cbn in H; try contradiction.
  destruct H as [E|H].
  - injection E as <- <-. exists 0%nat. cbn. repeat split; lia.
  - destruct (IH l' x y H) as (i & H1 & H2 & -> & ->). exists (S i). cbn. repeat split; lia.
Qed.

Lemma trusts_loop_complete n m : forall ts seen,
  (forall a b d, In (a, b, d) ts -> 0 <= a < n /\ 0 <= b < n /\ mono_at m a = Some 1) ->
  (forall a b d d', In (a, b, d) ts -> In (a, b, d') (seen ++ ts) -> d' = d) ->
  trusts_loop n m seen ts = true.
Proof.
  induction ts as [|[[main cond] dir] r IH]; intros seen H1 H2; [reflexivity|].
  cbn [trusts_loop]. destruct (H1 main cond dir (or_introl eq_refl)) as (Ra & Rb & Hm).
  rewrite !andb_true_iff. repeat split.
  - apply in_range_spec, Ra.
  - apply in_range_spec, Rb.
  - apply mono_is_spec, Hm.
  - apply all_b_spec. intros [[a b] d'] Hin.
    destruct (Z.eqb a main) eqn:Ea, (Z.eqb b cond) eqn:Eb; cbn; try reflexivity.
    apply Z.eqb_eq in Ea, Eb. subst a b. apply Z.eqb_eq.
    apply (H2 main cond dir d' (or_introl eq_refl)). apply in_or_app. left. exact Hin.
  - apply IH.
    + intros a b d Hin. apply (H1 a b d). right. exact Hin.
    + intros a b d d' Hin Hin'. apply (H2 a b d d'); [right; exact Hin|].
      apply in_app_or in Hin'. apply in_or_app. destruct Hin' as [[E|Hs]|Hr].
      * right. left. exact E.
      * left. exact Hs.
      * right. right. exact Hr.
Qed.

Lemma trusts_ok_complete n m ts :
  (forall a b d, In (a, b, d) ts -> 0 <= a < n /\ 0 <= b < n /\ mono_at m a = Some 1) ->
  (forall a b d d', In (a, b, d) ts -> In (a, b, d') ts -> d = d') ->
  (forall a b d a' d', In (a, b, d) ts -> In (a', a, d') ts -> False) ->
  trusts_ok n m ts = true.
Proof.
  intros H1 H2 H3. unfold trusts_ok. rewrite andb_true_iff. split.
  - apply trusts_loop_complete; [exact H1|]. intros a b d d' Hin Hin'. cbn in Hin'. apply (H2 a b d' d Hin' Hin).
  - apply all_b_spec. intros [[a b] d] Hin. apply negb_true_iff.
    destruct (existsb _ ts) eqn:E; [|reflexivity]. exfalso.
    apply existsb_exists in E. destruct E as ([[a' b'] d'] & Hin' & E). apply Z.eqb_eq in E. subst b'.
    exact (H3 a b d a' d' Hin Hin').
Qed.

Lemma dominances_loop_complete n m : forall cs seen,
  (forall cst, In cst cs -> exists a b, cst = [a; b] /\ a <> b /\ 0 <= a < n /\ 0 <= b < n /\
      mono_at m a = Some 1 /\ mono_at m b = Some 1) ->
  (forall a b, In [a; b] cs -> ~ In (b, a) seen) ->
  (forall a b, In [a; b] cs -> In [b; a] cs -> False) ->
  dominances_loop n m seen cs = true.
Proof.
  induction cs as [|cst r IH]; intros seen H1 H2 H3; [reflexivity|].
  destruct (H1 cst (or_introl eq_refl)) as (a & b & -> & Hne & Ra & Rb & Ma & Mb).
  cbn [dominances_loop]. rewrite !andb_true_iff. repeat split.
  - apply negb_true_iff, Z.eqb_neq, Hne.
  - apply in_range_spec, Ra.
  - apply in_range_spec, Rb.
  - apply mono_is_spec, Ma.
  - apply mono_is_spec, Mb.
  - apply negb_true_iff. destruct (pair_mem (b, a) seen) eqn:E; [|reflexivity].
    apply pair_mem_spec in E. exfalso. exact (H2 a b (or_introl eq_refl) E).
  - apply IH.
    + intros c Hin. apply H1. right. exact Hin.
    + intros x y Hin [E|Hs].
      * injection E as <- <-. exact (H3 a b (or_introl eq_refl) (or_intror Hin)).
      * exact (H2 x y (or_intror Hin) Hs).
    + intros x y Hx Hy. exact (H3 x y (or_intror Hx) (or_intror Hy)).
Qed.

Lemma dominances_ok_complete n m o : dominances_spec n m o -> dominances_ok n m o = true.
Proof.
  intros H. destruct o as [cs|]; [|reflexivity]. destruct (H cs eq_refl) as [H1 H3]. cbn.
  apply dominances_loop_complete; [exact H1| |exact H3]. intros a b _ [].
Qed.

Lemma accepts_lattice_constraints_complete c :
  lattice_constraints_accepted c -> accepts_lattice_constraints c = true.
Proof.
  intros A. unfold accepts_lattice_constraints. cbv zeta. fold (lat_n c). fold (lat_trusts c).
  rewrite !andb_true_iff. repeat split.
  - apply all_b_spec. intros s Hs. apply Z.leb_le, (la_sizes c A s Hs).
  - destruct (l_monos c) as [ms|] eqn:E; [|reflexivity]. cbn. apply Z.eqb_eq, (la_monos_len c A ms E).
  - destruct (l_unimods c) as [us|] eqn:E; [|reflexivity]. cbn. apply Z.eqb_eq, (la_unimods_len c A us E).
  - destruct (l_unimods c) as [us|] eqn:E; [|reflexivity]. cbn. apply all_b_spec. intros [u s] Hin.
    destruct (In_combine_nth_inv 0 0 _ _ _ _ Hin) as (i & H1 & H2 & -> & ->). cbn [fst snd].
    destruct (Z.eqb (nth i us 0) 0) eqn:E0; [reflexivity|]. apply Z.eqb_neq in E0. cbn.
    apply Z.leb_le, (la_unimod_size c A us i E H1 H2 E0).
  - destruct (l_monos c) as [ms|] eqn:E1; [|reflexivity]. destruct (l_unimods c) as [us|] eqn:E2; [|reflexivity].
    cbn. apply all_b_spec. intros [x y] Hin.
    destruct (In_combine_nth_inv 0 0 _ _ _ _ Hin) as (i & H1 & H2 & -> & ->). cbn [fst snd].
    apply orb_true_iff. rewrite !Z.eqb_eq. apply (la_mono_unimod c A ms us i E1 E2 H1 H2).
  - apply trusts_ok_complete; [apply (la_trust c A)|apply (la_trust_dir c A)|apply (la_trust_main_cond c A)].
  - apply dominances_ok_complete, (la_mdom c A).
  - apply dominances_ok_complete, (la_rdom c A).
  - destruct (l_jmono c) as [cs|] eqn:E; [|reflexivity]. cbn. apply all_b_spec. intros cst Hin.
    destruct (la_jmono c A cs cst E Hin) as (a & b & -> & Ra & Rb & Hne).
    rewrite !andb_true_iff. repeat split; try (apply in_range_spec; assumption).
    apply negb_true_iff, Z.eqb_neq, Hne.
  - destruct (l_junimod c) as [cs|] eqn:E; [|reflexivity]. cbn. apply all_b_spec. intros [dims dok] Hin.
    destruct (la_junimod c A cs dims dok E Hin) as (D & N & X). cbn [fst snd].
    rewrite !andb_true_iff. repeat split; [exact D| |apply distinct_spec, N].
    apply all_b_spec. intros d Hd. destruct (X d Hd) as (R & S & M).
    rewrite !andb_true_iff. repeat split; [apply in_range_spec, R|apply Z.leb_le, S|].
    destruct (l_monos c) as [ms|]; [|reflexivity]. apply Z.eqb_eq, (M ms eq_refl).
Qed.

Lemma accepts_lattice_constraints_iff c :
  accepts_lattice_constraints c = true <-> lattice_constraints_accepted c.
Proof. split; [apply accepts_lattice_constraints_sound|apply accepts_lattice_constraints_complete]. Qed.

(* ------------------------------------------------------------------------- *)
(* Non-positive sizes of the LAYERS (units, num_input_dims, num_buckets): the  *)
(* add_weight call of build() - TensorFlow's ValueError for a negative         *)
(* dimension - on top of the verify_hyperparameters decisions above.           *)
(* ------------------------------------------------------------------------- *)
Lemma accepts_lattice_layer_units_sound c u : accepts_lattice_layer_units c u = true ->
  accepts_lattice_layer c = true /\ 0 <= u /\
  (joint_covers_all (zlen (l_sizes c)) (l_junimod c) = true \/ 1 <= u).
Proof.
  unfold accepts_lattice_layer_units. rewrite !andb_true_iff, orb_true_iff, !Z.leb_le. tauto.
Qed.
Lemma lattice_layer_units_positive c u : 1 <= u -> accepts_lattice_layer_units c u = accepts_lattice_layer c.
Proof.
  intros H. unfold accepts_lattice_layer_units.
  assert (E1 : (0 <=? u) = true) by (apply Z.leb_le; lia). assert (E2 : (1 <=? u) = true) by (apply Z.leb_le; lia).
  rewrite E1, E2, orb_true_r, !andb_true_r. reflexivity.
Qed.
Lemma reject_lattice_layer_negative_units c u : u < 0 -> accepts_lattice_layer_units c u = false.
Proof.
  intros H. destruct (accepts_lattice_layer_units c u) eqn:E; [exfalso|reflexivity].
  destruct (accepts_lattice_layer_units_sound c u E) as (_ & X & _). lia.
Qed.
Lemma reject_lattice_layer_zero_units c :
  joint_covers_all (zlen (l_sizes c)) (l_junimod c) = false -> accepts_lattice_layer_units c 0 = false.
Proof.
  intros H. destruct (accepts_lattice_layer_units c 0) eqn:E; [exfalso|reflexivity].
  destruct (accepts_lattice_layer_units_sound c 0 E) as (_ & _ & [X|X]); [congruence|lia].
Qed.
(* as is: with ONE joint unimodality over all features the fall-back Keras
   initialiser builds a kernel with zero columns *)
Lemma lattice_layer_zero_units_accepted : exists c, accepts_lattice_layer_units c 0 = true.
Proof.
  exists (mkL [3; 3] None None [] [] None None None (Some [([0; 1], true)]) None None true). reflexivity.
Qed.

Lemma accepts_linear_layer_sound c u : accepts_linear_layer c u = true ->
  accepts_linear c = true /\ 0 <= u /\ (forall n, n_num_input_dims c = Some n -> 0 <= n).
Proof.
  unfold accepts_linear_layer. rewrite !andb_true_iff, Z.leb_le. intros [[H1 H2] H3]. repeat split; try assumption.
  intros n E. rewrite E in H3. apply Z.leb_le, H3.
Qed.
Lemma linear_layer_sizes_nonnegative c u n :
  0 <= u -> n_num_input_dims c = Some n -> 0 <= n -> accepts_linear_layer c u = accepts_linear c.
Proof.
  intros Hu E Hn. unfold accepts_linear_layer. rewrite E.
  assert (E1 : (0 <=? u) = true) by (apply Z.leb_le; lia). assert (E2 : (0 <=? n) = true) by (apply Z.leb_le; lia).
  rewrite E1, E2, !andb_true_r. reflexivity.
Qed.
Lemma reject_linear_layer_negative_units c u : u < 0 -> accepts_linear_layer c u = false.
Proof.
  intros H. destruct (accepts_linear_layer c u) eqn:E; [exfalso|reflexivity].
  destruct (accepts_linear_layer_sound c u E) as (_ & X & _). lia.
Qed.
Lemma reject_linear_layer_negative_num_input_dims c u n :
  n_num_input_dims c = Some n -> n < 0 -> accepts_linear_layer c u = false.
Proof.
  intros En H. destruct (accepts_linear_layer c u) eqn:E; [exfalso|reflexivity].
  destruct (accepts_linear_layer_sound c u E) as (_ & _ & X). specialize (X n En). lia.
Qed.

Lemma accepts_pwl_layer_sound c u : accepts_pwl_layer c u = true ->
  accepts_pwl c = true /\ (p_layer c = true -> 1 <= u).
Proof.
  unfold accepts_pwl_layer. rewrite andb_true_iff, orb_true_iff, negb_true_iff, Z.leb_le.
  intros [H1 H2]. split; [exact H1|]. intros E. destruct H2 as [H2|H2]; [congruence|exact H2].
Qed.
Lemma pwl_layer_units_positive c u : 1 <= u -> accepts_pwl_layer c u = accepts_pwl c.
Proof.
  intros H. unfold accepts_pwl_layer. assert (E : (1 <=? u) = true) by (apply Z.leb_le; lia).
  rewrite E, orb_true_r, andb_true_r. reflexivity.
Qed.
Lemma reject_pwl_layer_units_below_1 c u : p_layer c = true -> u < 1 -> accepts_pwl_layer c u = false.
Proof.
  intros Hl H. destruct (accepts_pwl_layer c u) eqn:E; [exfalso|reflexivity].
  destruct (accepts_pwl_layer_sound c u E) as (_ & X). specialize (X Hl). lia.
Qed.

Lemma accepts_categorical_layer_sound c u : accepts_categorical_layer c u = true ->
  accepts_categorical c = true /\ 0 <= u /\ (forall n, c_buckets c = Some n -> 0 <= n).
Proof.
  unfold accepts_categorical_layer. rewrite !andb_true_iff, Z.leb_le. intros [[H1 H2] H3]. repeat split; try assumption.
  intros n E. rewrite E in H3. apply Z.leb_le, H3.
Qed.
Lemma categorical_layer_sizes_nonnegative c u n :
  0 <= u -> c_buckets c = Some n -> 0 <= n -> accepts_categorical_layer c u = accepts_categorical c.
Proof.
  intros Hu E Hn. unfold accepts_categorical_layer. rewrite E.
  assert (E1 : (0 <=? u) = true) by (apply Z.leb_le; lia). assert (E2 : (0 <=? n) = true) by (apply Z.leb_le; lia).
  rewrite E1, E2, !andb_true_r. reflexivity.
Qed.
Lemma reject_categorical_layer_negative_units c u : u < 0 -> accepts_categorical_layer c u = false.
Proof.
  intros H. destruct (accepts_categorical_layer c u) eqn:E; [exfalso|reflexivity].
  destruct (accepts_categorical_layer_sound c u E) as (_ & X & _). lia.
Qed.
Lemma reject_categorical_layer_negative_num_buckets c u n :
  c_buckets c = Some n -> n < 0 -> accepts_categorical_layer c u = false.
Proof.
  intros En H. destruct (accepts_categorical_layer c u) eqn:E; [exfalso|reflexivity].
  destruct (accepts_categorical_layer_sound c u E) as (_ & _ & X). specialize (X n En). lia.
Qed.
