(* C07, histories WITH parameter updates.

   Proofs/KFL.v treats histories made of constraint applications only
   (run: StepK / StepS / StepF).  The property statement also speaks of
   "signs that change between updates" and of "all orders in which kernel and
   scale are updated/constrained".  Here a history is a list of EVENTS: a
   constraint application, or an update (variable.assign) of the scale, the
   kernel or the bias to an arbitrary new value of the same shape.  Three
   freshness flags are computed from the history:

     km_fresh  a kernel constraint (K or F) was applied after the LAST update of
               the kernel AND after the last update of the scale
     kb_fresh  a kernel constraint was applied after the last update of the kernel
               (scale updates in between are allowed)
     s_fresh   a scale constraint (S or F) was applied after the last update of
               the scale

   Theorems: km_fresh -> monotone; kb_fresh /\ s_fresh -> bounded (the bound
   part of the kernel constraint does not depend on the scale, so a scale whose
   signs changed after the kernel constraint only needs the scale constraint);
   and a witness that s_fresh /\ kb_fresh alone do NOT give monotonicity: the
   interleaving  K (against the old signs) ; scale update flipping a sign ; S
   leaves a decreasing output. *)
From TFL Require Import Model.KFL Proofs.KFL.
Open Scope Q_scope.

Inductive event :=
| EStep (st : step)                 (* kernel.constraint / scale.constraint / finalize_constraints() *)
| ESetScale (s : list (list Q))     (* scale.assign(new value): e.g. an optimizer step *)
| ESetKernel (k : kernel)           (* kernel.assign(new value) *)
| ESetBias (b : list Q).            (* bias.assign(new value) *)

Definition apply_event (root : nat -> Q -> Q) (c : config) (p : params) (e : event) : params :=
  match e with
  | EStep st => apply_step root c p st
  | ESetScale s => mkPar (p_kern p) s (p_bias p)
  | ESetKernel k => mkPar k (p_scale p) (p_bias p)
  | ESetBias b => mkPar (p_kern p) (p_scale p) b
  end.
Definition run_events (root : nat -> Q -> Q) (c : config) (es : list event) (p : params) : params :=
  fold_left (apply_event root c) es p.

(* every update assigns a value of the variable's shape (what assign enforces):
   after it the parameters are still [shaped] *)
Fixpoint events_ok (root : nat -> Q -> Q) (c : config) (dims : nat) (es : list event) (p : params) : Prop :=
  match es with
  | [] => True
  | e :: r => (match e with EStep _ => True | _ => shaped c dims (apply_event root c p e) end) /\
              events_ok root c dims r (apply_event root c p e)
  end.

(* flags: [indep] = the established kernel fact does not depend on the scale *)
Definition kflag (indep : bool) (a : bool) (e : event) : bool :=
  match e with
  | EStep StepS => a
  | EStep _ => true
  | ESetKernel _ => false
  | ESetScale _ => if indep then a else false
  | ESetBias _ => a
  end.
Definition sflag (b : bool) (e : event) : bool :=
  match e with
  | EStep StepK => b
  | EStep _ => true
  | ESetScale _ => false
  | _ => b
  end.
Definition km_fresh (es : list event) : bool := fold_left (kflag false) es false.
Definition kb_fresh (es : list event) : bool := fold_left (kflag true) es false.
Definition s_fresh (es : list event) : bool := fold_left sflag es false.

(* a history of constraint applications only is a special case *)
Lemma run_events_steps root c steps p : run_events root c (map EStep steps) p = run root c steps p.
Proof. revert p. induction steps as [|st r IH]; intros p. reflexivity. cbn. apply IH. Qed.
Lemma kflag_steps indep : forall steps a, fold_left (kflag indep) (map EStep steps) a = a || hasK steps.
Proof. induction steps as [|st r IH]; intros a; cbn [map fold_left hasK existsb]. rewrite orb_false_r; reflexivity.
  rewrite IH. destruct st; cbn [kflag]; unfold hasK; destruct a; reflexivity. Qed.
Lemma sflag_steps : forall steps b, fold_left sflag (map EStep steps) b = b || hasS steps.
Proof. induction steps as [|st r IH]; intros b; cbn [map fold_left hasS existsb]. rewrite orb_false_r; reflexivity.
  rewrite IH. destruct st; cbn [sflag]; unfold hasS; destruct b; reflexivity. Qed.

(* ------------------------------------------------------------------ *)
(* list helpers: re-pairing a Forall2 (Forall2 _) after one side changed *)
Lemma F2_left {A B} (R : A -> B -> Prop) (P : A -> Prop) l1 l2 :
  Forall2 R l1 l2 -> (forall a b, R a b -> P a) -> Forall P l1.
Proof. intros H HP. induction H; constructor; eauto. Qed.
Lemma F2_right {A B} (R : A -> B -> Prop) (P : B -> Prop) l1 l2 :
  Forall2 R l1 l2 -> (forall a b, R a b -> P b) -> Forall P l2.
Proof. intros H HP. induction H; constructor; eauto. Qed.
Lemma F2_and_left {A B} (R T : A -> B -> Prop) (P : A -> Prop) l1 l2 :
  Forall2 R l1 l2 -> Forall P l1 -> (forall a b, R a b -> P a -> T a b) -> Forall2 T l1 l2.
Proof. intros H HP HT. induction H; constructor; inversion HP; subst; eauto. Qed.
Lemma F2_and_right {A B} (R T : A -> B -> Prop) (P : B -> Prop) l1 l2 :
  Forall2 R l1 l2 -> Forall P l2 -> (forall a b, R a b -> P b -> T a b) -> Forall2 T l1 l2.
Proof. intros H HP HT. induction H; constructor; inversion HP; subst; eauto. Qed.

Section Hist.
Variable root : nat -> Q -> Q.
Variable c : config.
Variable dims : nat.
Variable PK : Q -> term -> Prop.
Variable PS : Q -> Prop.
Variable indep : bool.
Hypothesis HK : forall s vs, tshape (c_size c) dims vs ->
  tshape (c_size c) dims (Ktg root c s vs) /\ PK s (Ktg root c s vs).
Hypothesis HKS : forall s vs, PK s vs -> PK (S1 c s) vs.
Hypothesis HS : forall s, PS (S1 c s).
Hypothesis Hindep : indep = true -> forall s s' vs, PK s vs -> PK s' vs.

Notation Inv := (inv c dims PK PS).

Lemma inv_shaped a b p : Inv a b p -> shaped c dims p.
Proof. intros H. eapply Forall2_impl. exact H. cbn beta. intros su ku Hu. eapply Forall2_impl. exact Hu.
  cbn beta. intros s vs (H1 & _). exact H1. Qed.

(* the kernel is replaced: what is known about the scale stays *)
Lemma inv_set_kernel a b p k : Inv a b p -> shaped c dims (mkPar k (p_scale p) (p_bias p)) ->
  Inv false b (mkPar k (p_scale p) (p_bias p)).
Proof.
  intros H Hsh. unfold inv, shaped in *. cbn [p_kern p_scale] in *.
  assert (HPs : Forall (Forall (fun s => b = true -> PS s)) (p_scale p)).
  { eapply F2_left. exact H. cbn beta. intros su ku Hu. eapply F2_left. exact Hu. cbn beta. intros s vs (_ & _ & Hs). exact Hs. }
  eapply F2_and_left. exact Hsh. exact HPs. cbn beta. intros su ku Hu Hsu.
  eapply F2_and_left. exact Hu. exact Hsu. cbn beta. intros s vs Ht Hs.
  split; [exact Ht|split; [intros; discriminate|exact Hs]].
Qed.

(* the scale is replaced: a scale-independent kernel fact stays *)
Lemma inv_set_scale a b p s' : Inv a b p -> shaped c dims (mkPar (p_kern p) s' (p_bias p)) ->
  Inv (if indep then a else false) false (mkPar (p_kern p) s' (p_bias p)).
Proof.
  intros H Hsh. unfold inv, shaped in *. cbn [p_kern p_scale] in *.
  assert (HPk : Forall (Forall (fun vs => indep = true -> a = true -> forall s, PK s vs)) (p_kern p)).
  { eapply F2_right. exact H. cbn beta. intros su ku Hu. eapply F2_right. exact Hu. cbn beta.
    intros s vs (_ & Hk & _) Hi Ha s2. apply (Hindep Hi s). apply Hk, Ha. }
  eapply F2_and_right. exact Hsh. exact HPk. cbn beta. intros su ku Hu Hku.
  eapply F2_and_right. exact Hu. exact Hku. cbn beta. intros s vs Ht Hk.
  split; [exact Ht|split; [|intros; discriminate]].
  destruct indep; [|intros; discriminate]. intros Ha. apply Hk; auto.
Qed.

Lemma inv_set_bias a b p bb : Inv a b p -> Inv a b (mkPar (p_kern p) (p_scale p) bb).
Proof. intros H. exact H. Qed.

Lemma inv_step a b p st : Inv a b p ->
  Inv (kflag indep a (EStep st)) (sflag b (EStep st)) (apply_step root c p st).
Proof.
  intros H. rewrite apply_step_ops. destruct st; cbn [kflag sflag].
  - apply (inv_opK root c dims PK PS HK a b p H).
  - apply (inv_opS c dims PK PS HKS HS a b p H).
  - apply (inv_opS c dims PK PS HKS HS true b). apply (inv_opK root c dims PK PS HK a b p H).
Qed.

Lemma run_events_inv : forall es a b p, Inv a b p -> events_ok root c dims es p ->
  Inv (fold_left (kflag indep) es a) (fold_left sflag es b) (run_events root c es p).
Proof.
  induction es as [|e r IH]; intros a b p H Hok. exact H.
  cbn [fold_left run_events]. fold (run_events root c r (apply_event root c p e)).
  destruct Hok as [He Hr]. apply IH; [|exact Hr].
  destruct e as [st|s'|k|bb]; cbn [apply_event] in *.
  - apply inv_step, H.
  - cbn [kflag sflag]. apply (inv_set_scale a b); assumption.
  - cbn [kflag sflag]. apply (inv_set_kernel a b); assumption.
  - cbn [kflag sflag]. apply inv_set_bias, H.
Qed.

Lemma run_events_establishes es p : shaped c dims p -> events_ok root c dims es p ->
  Inv (fold_left (kflag indep) es false) (fold_left sflag es false) (run_events root c es p).
Proof.
  intros Hsh Hok. apply run_events_inv; [|exact Hok].
  eapply Forall2_impl. exact Hsh. cbn beta. intros su ku Hu. eapply Forall2_impl. exact Hu. cbn beta.
  intros s vs Ht. split; [exact Ht|split; intros; discriminate].
Qed.
End Hist.

(* the bound part of what the kernel constraint establishes: no scale in it *)
Definition kbnd (c : config) (vs : term) : Prop :=
  (is_some (c_min c) = true -> is_some (c_max c) = true -> prodmax vs <= 1) /\
  (is_some (c_min c) <> is_some (c_max c) -> tnonneg vs).

(* the configuration with the monotonicities erased: same evaluation, same bounds *)
Definition no_monos (c : config) : config := mkCfg (c_size c) None (c_min c) (c_max c) (c_clip c).
Lemma cfg_ok_no_monos c dims : cfg_ok c dims -> cfg_ok (no_monos c) dims.
Proof. intros (H1 & H2 & H3 & _). split; [exact H1|split; [exact H2|split; [exact H3|]]]. intros ms E; discriminate. Qed.
Lemma kgood_no_monos c s vs : kbnd c vs -> kgood (no_monos c) s vs.
Proof. intros [H1 H2]. split; [|split; [exact H1|exact H2]]. intros ms E; discriminate. Qed.

Section Main.
Variable root : nat -> Q -> Q.
Hypothesis Hroot : root_ok root.

Lemma events_bias_last c es p bb :
  p_bias (run_events root c (es ++ [ESetBias bb]) p) = bb.
Proof. unfold run_events. rewrite fold_left_app. reflexivity. Qed.

(* the bias is only changed by bias updates *)
Fixpoint no_bias_update (es : list event) : bool :=
  match es with [] => true | ESetBias _ :: _ => false | _ :: r => no_bias_update r end.
Lemma run_events_bias c : forall es p, no_bias_update es = true -> p_bias (run_events root c es p) = p_bias p.
Proof. induction es as [|e r IH]; intros p H. reflexivity.
  cbn [run_events fold_left]. fold (run_events root c r (apply_event root c p e)).
  destruct e as [st| | |]; cbn [no_bias_update] in H; try discriminate; rewrite (IH _ H); [destruct st|..]; reflexivity. Qed.

(* monotone: a kernel constraint after the last update of kernel or scale *)
Theorem kfl_monotone_history c dims p es ms u xs ys :
  cfg_ok c dims -> shaped c dims p -> events_ok root c dims es p -> km_fresh es = true ->
  canon_monos (c_monos c) = Some ms ->
  coords_le ms xs ys ->
  c_clip c = true \/ (in_range (c_size c) xs /\ in_range (c_size c) ys) ->
  unit_out c (run_events root c es p) u xs <= unit_out c (run_events root c es p) u ys.
Proof.
  intros Hc Hsh Hok HK Em Hle Hr.
  destruct (Nat.eq_dec (count_true ms) 0) as [E0|E0].
  - rewrite (coords_le_no_mono ms xs ys E0 Hle). lra.
  - pose proof Hc as (_ & _ & Hb & _).
    pose proof (run_events_establishes root c dims (kgood c) (sgood c) false
                  (good_HK root Hroot c dims Hc) (fun s vs => kgood_scale c s vs Hb)
                  (fun s => sgood_finalize c s Hb) ltac:(intros; discriminate) es p Hsh Hok) as Hinv.
    fold (km_fresh es) in Hinv. rewrite HK in Hinv.
    unfold unit_out. set (p' := run_events root c es p) in *.
    destruct (Nat.lt_ge_cases u (length (p_scale p'))) as [Hu|Hu].
    + pose proof (Forall2_nth _ _ _ u [] [] Hinv Hu) as Hu'. cbn beta in Hu'.
      destruct Hc as (HL & _). apply (unit_eval_mono _ _ dims ms); auto.
      eapply Forall2_impl. exact Hu'. cbn beta. intros s vs (H1 & H2 & _). split. exact H1.
      destruct (H2 eq_refl) as [H3 _]. apply H3. exact Em. lia.
    + rewrite (nth_overflow (p_scale p') [] Hu). unfold unit_eval. cbn [map2]. lra.
Qed.

(* bounded: a kernel constraint after the last KERNEL update, a scale constraint
   after the last SCALE update, the bias at its fixed value when evaluating *)
Theorem kfl_bounded_history c dims p es u xs :
  cfg_ok c dims -> shaped c dims p -> events_ok root c dims es p ->
  kb_fresh es = true -> s_fresh es = true ->
  (u < length (p_scale (run_events root c es p)))%nat ->
  nth u (p_bias (run_events root c es p)) 0 == bias_init1 (c_min c) (c_max c) ->
  length xs = dims -> c_clip c = true \/ in_range (c_size c) xs ->
  (forall lo, c_min c = Some lo -> lo <= unit_out c (run_events root c es p) u xs) /\
  (forall hi, c_max c = Some hi -> unit_out c (run_events root c es p) u xs <= hi).
Proof.
  intros Hc Hsh Hok HK HS Hu Eb Hlen Hr.
  pose proof Hc as (_ & _ & Hb & _).
  assert (HKb : forall s vs, tshape (c_size c) dims vs ->
            tshape (c_size c) dims (Ktg root c s vs) /\ kbnd c (Ktg root c s vs)).
  { intros s vs Ht. destruct (good_HK root Hroot c dims Hc s vs Ht) as (G1 & _ & G2 & G3). split; [exact G1|split; assumption]. }
  pose proof (run_events_establishes root c dims (fun _ => kbnd c) (sgood c) true
                HKb (fun _ vs H => H) (fun s => sgood_finalize c s Hb) (fun _ _ _ vs H => H) es p Hsh Hok) as Hinv.
  fold (kb_fresh es) in Hinv. fold (s_fresh es) in Hinv. rewrite HK, HS in Hinv.
  unfold unit_out. set (p' := run_events root c es p) in *.
  pose proof (Forall2_nth _ _ _ u [] [] Hinv Hu) as H. cbn beta in H.
  apply (unit_eval_bounded (no_monos c) dims); auto.
  - apply cfg_ok_no_monos, Hc.
  - eapply Forall2_impl. exact H. cbn beta. intros s vs (H1 & H2 & H3).
    split; [exact H1|split; [apply kgood_no_monos, H2, eq_refl|exact (H3 eq_refl)]].
Qed.
End Main.

(* ------------------------------------------------------------------ *)
(* the boundary of the claim                                           *)

(* lattice_sizes=2, one increasing input, bounds [0,1], clip on; kernel (0,1),
   scale +1, bias 1/2 (the fixed value). *)
Definition stale_cfg : config := mkCfg 2 (Some [true]) (Some 0) (Some 1) true.
Definition stale_par : params := mkPar [[ [[0; 1]] ]] [[ 1 ]] [1#2].
Definition stale_events : list event := [EStep StepK; ESetScale [[ -1 ]]; EStep StepS].
Lemma stale_cfg_ok : cfg_ok stale_cfg 1.
Proof.
  split; [cbn; lia|split; [lia|split]].
  - intros lo hi E1 E2. injection E1 as <-. injection E2 as <-. lra.
  - intros ms E. injection E as <-. reflexivity.
Qed.
Lemma stale_shaped : shaped stale_cfg 1 stale_par.
Proof. repeat constructor. Qed.

(* The kernel was constrained against scale +1; the scale is then updated to -1
   (sign change) and the scale constraint applied.  Both bounds flags hold, the
   output stays within [0,1] (kfl_bounded_history), but it is DECREASING in the
   input declared increasing: f(0) = 1/2 > f(1) = 0. *)
Lemma stale_kernel_constraint_witness : exists root c dims p es ms u xs ys,
  root_ok root /\ cfg_ok c dims /\ shaped c dims p /\ events_ok root c dims es p /\
  kb_fresh es = true /\ s_fresh es = true /\ km_fresh es = false /\
  canon_monos (c_monos c) = Some ms /\ coords_le ms xs ys /\
  in_range (c_size c) xs /\ in_range (c_size c) ys /\
  unit_out c (run_events root c es p) u ys < unit_out c (run_events root c es p) u xs.
Proof.
  exists (fun _ x => x), stale_cfg, 1%nat, stale_par, stale_events, [true], 0%nat, [0], [1].
  split; [exact root_ok_id|split; [exact stale_cfg_ok|split; [exact stale_shaped|]]].
  split. { cbn. split; [exact I|split; [|split; exact I]]. repeat constructor. }
  split; [reflexivity|split; [reflexivity|split; [reflexivity|split; [reflexivity|]]]].
  split. { cbn. split; [lra|exact I]. }
  split. { constructor; [|constructor]. change (qn (c_size stale_cfg)) with 2. lra. }
  split. { constructor; [|constructor]. change (qn (c_size stale_cfg)) with 2. lra. }
  vm_compute. reflexivity.
Qed.

(* With the kernel constraint applied once more after the sign change the
   history is km_fresh and kfl_monotone_history applies. *)
Lemma stale_repaired : km_fresh (stale_events ++ [EStep StepK]) = true /\
  unit_out stale_cfg (run_events (fun _ x => x) stale_cfg (stale_events ++ [EStep StepK]) stale_par) 0 [0] <=
  unit_out stale_cfg (run_events (fun _ x => x) stale_cfg (stale_events ++ [EStep StepK]) stale_par) 0 [1].
Proof. split. reflexivity. vm_compute. discriminate. Qed.

(* The bias hypothesis of the bounds theorem is needed: both constraints
   applied, then the bias of the bounded layer assigned away from its fixed
   value -> the output leaves [0,1]. *)
Lemma moved_bias_witness : exists root c dims p es u xs hi,
  root_ok root /\ cfg_ok c dims /\ shaped c dims p /\ events_ok root c dims es p /\
  kb_fresh es = true /\ s_fresh es = true /\ in_range (c_size c) xs /\ length xs = dims /\
  c_max c = Some hi /\ hi < unit_out c (run_events root c es p) u xs.
Proof.
  exists (fun _ x => x), stale_cfg, 1%nat, stale_par, [EStep StepF; ESetBias [1]], 0%nat, [1], 1.
  split; [exact root_ok_id|split; [exact stale_cfg_ok|split; [exact stale_shaped|]]].
  split. { cbn. split; [exact I|split; [|exact I]]. repeat constructor. }
  split; [reflexivity|split; [reflexivity|]].
  split. { constructor; [|constructor]. change (qn (c_size stale_cfg)) with 2. lra. }
  split; [reflexivity|split; [reflexivity|]].
  vm_compute. reflexivity.
Qed.

(* the hypotheses of the two history theorems are jointly satisfiable with a
   history that contains updates of all three variables *)
Lemma history_hypotheses_witness : exists root c dims p es ms xs ys,
  root_ok root /\ cfg_ok c dims /\ shaped c dims p /\ events_ok root c dims es p /\
  km_fresh es = true /\ kb_fresh es = true /\ s_fresh es = true /\
  canon_monos (c_monos c) = Some ms /\ coords_le ms xs ys /\
  in_range (c_size c) xs /\ in_range (c_size c) ys /\ length xs = dims /\
  (0 < length (p_scale (run_events root c es p)))%nat /\
  nth 0 (p_bias (run_events root c es p)) 0 == bias_init1 (c_min c) (c_max c).
Proof.
  exists (fun _ x => x), stale_cfg, 1%nat, stale_par,
    [EStep StepK; ESetKernel [[ [[3; -1]] ]]; ESetBias [5]; ESetScale [[ -2 ]]; ESetBias [1#2]; EStep StepS; EStep StepK],
    [true], [1#2], [1].
  split; [exact root_ok_id|split; [exact stale_cfg_ok|split; [exact stale_shaped|]]].
  split. { cbn. repeat split; repeat constructor. }
  split; [reflexivity|split; [reflexivity|split; [reflexivity|split; [reflexivity|]]]].
  split. { cbn. split; [lra|exact I]. }
  split. { constructor; [|constructor]. change (qn (c_size stale_cfg)) with 2. lra. }
  split. { constructor; [|constructor]. change (qn (c_size stale_cfg)) with 2. lra. }
  split; [reflexivity|split; [cbn; lia|vm_compute; reflexivity]].
Qed.
