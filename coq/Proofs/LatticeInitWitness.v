(* C10: concrete witnesses for the open findings D6 / D24 on the model, and
   examples showing that the hypotheses of the C10 theorems are satisfiable. *)
From TFL Require Export Proofs.LatticeInitFixed.
From Coq Require Import Permutation.
Open Scope Q_scope.

(* valley (u = 1) / peak along dimension d, split at size // 2 as in the projection *)
Definition unimodal_holds (sh : list nat) (d : nat) (u : Z) (f : tens) : Prop :=
  forall i, valid sh i -> (S (nth d i 0) < nth d sh 0)%nat ->
    let nxt := upd i d (S (nth d i 0%nat)) in
    if (nth d i 0 <? nth d sh 0 / 2)%nat
    then (if (u =? 1)%Z then f nxt <= f i else f i <= f nxt)
    else (if (u =? 1)%Z then f i <= f nxt else f nxt <= f i).

(* ---- D6 (a): trapezoid trust whose conditional feature is monotone ---- *)
Definition d6a_kernel : tens := linear_init [2; 2]%nat 0 1 (Some [1; 1]%Z) None 1.
Lemma d6a_refuted : ~ trapezoid_holds [2; 2; 1]%nat (0%nat, 1%nat, 1%Z) d6a_kernel.
Proof. intros H. specialize (H [0; 0; 0]%nat 0%nat ltac:(repeat constructor) ltac:(cbn; lia)).
  vm_compute in H. destruct H as [H _]. apply H. reflexivity. Qed.
(* ---- D6 (b): monotonic dominance, dominant dimension larger ---- *)
Definition d6b_kernel : tens := linear_init [3; 2]%nat 0 1 (Some [1; 1]%Z) None 1.
Lemma d6b_refuted : ~ mono_dominance_holds [3; 2; 1]%nat (0%nat, 1%nat) d6b_kernel.
Proof. intros H. specialize (H [0; 0; 0]%nat 0%nat 0%nat ltac:(repeat constructor) ltac:(cbn; lia) ltac:(cbn; lia)).
  vm_compute in H. destruct H as [H _]. apply H. reflexivity. Qed.
(* ---- D6 (c): joint monotonicity touching a unimodal dimension ---- *)
Definition d6c_kernel : tens := linear_init [4; 3]%nat 0 1 (Some [1; 0]%Z) (Some [0; 1]%Z) 1.
Lemma d6c_refuted : ~ joint_mono_holds [4; 3; 1]%nat (0%nat, 1%nat) d6c_kernel.
Proof. intros H. specialize (H [0; 0; 0]%nat 0%nat 0%nat ltac:(repeat constructor) ltac:(cbn; lia) ltac:(cbn; lia)).
  vm_compute in H. destruct H as [H _]. apply H. reflexivity. Qed.

(* ---- D24: the random monotonic initialiser ignores unimodality and trusts ---- *)
Definition d24_order : list (list idx) := levels [3; 2]%nat.
Definition d24_samples : list Q := [0; 1; 2; 3; 4; 5].
Definition d24_kernel : tens := random_mono_init [3; 2]%nat 1 d24_order d24_samples.
Lemma d24_oracle_ok :
  Forall2 (@Permutation idx) d24_order (levels [3; 2]%nat) /\
  (forall a b, (a <= b)%nat -> (b < length d24_samples)%nat -> nth a d24_samples 0 <= nth b d24_samples 0) /\
  length d24_samples = length (concat d24_order) /\ (forall x, In x d24_samples -> 0 <= x /\ x <= 5).
Proof. split; [|split; [|split]].
  - unfold d24_order. induction (levels [3; 2]%nat); constructor; auto.
  - intros a b Hab Hb. cbn in Hb.
    do 6 (destruct b as [|b]; [do 6 (destruct a as [|a]; [cbn; first [lra|lia]|]); lia|]). lia.
  - reflexivity.
  - intros x Hx. cbn in Hx. repeat (destruct Hx as [<-|Hx]; [lra|]). destruct Hx. Qed.
Lemma d24_refuted_unimodality : ~ unimodal_holds [3; 2; 1]%nat 0%nat 1%Z d24_kernel.
Proof. intros H. specialize (H [0; 0; 0]%nat ltac:(repeat constructor) ltac:(cbn; lia)).
  vm_compute in H. apply H. reflexivity. Qed.
Lemma d24_refuted_trapezoid : ~ trapezoid_holds [3; 2; 1]%nat (0%nat, 1%nat, 1%Z) d24_kernel.
Proof. intros H. specialize (H [0; 0; 0]%nat 0%nat ltac:(repeat constructor) ltac:(cbn; lia)).
  vm_compute in H. destruct H as [H _]. apply H. reflexivity. Qed.

(* ---- the hypotheses of the positive theorems are satisfiable ---- *)
Example linear_range_hyps :
  let sizes := [3; 2; 4]%nat in let zm := [1; 0; 0]%Z in let zu := [0; 0; -1]%Z in
  (forall s, In s sizes -> (2 <= s)%nat) /\ length zm = length sizes /\ length zu = length sizes /\
  (forall d, nz (nth d zm 0%Z) && nz (nth d zu 0%Z) = false).
Proof. cbn. repeat split; try reflexivity.
  - intros s H. repeat (destruct H as [<-|H]; [lia|]). destruct H.
  - intros d. do 3 (destruct d as [|d]; [reflexivity|]). destruct d; reflexivity. Qed.

Definition ex_cfg : lat_cfg := mkLat [3; 2]%nat 2 [1; 0]%Z [] [] (Some (-2)) None.
Example ex_cfg_valid : cfg_valid ex_cfg /\ mono_bounds_only ex_cfg /\ l_sizes ex_cfg <> [] /\
  fst (default_init_params (l_min ex_cfg) (l_max ex_cfg)) <= snd (default_init_params (l_min ex_cfg) (l_max ex_cfg)).
Proof. unfold cfg_valid, mono_bounds_only. cbn. repeat split; try congruence; try lia; try lra. Qed.
(* with the identity as Dykstra stage the hypothesis of C10_constraint_fixes_* holds trivially *)
Example ex_fixed :
  let W := linear_init (l_sizes ex_cfg) (-2) 1 (Some (l_monos ex_cfg)) None (l_units ex_cfg) in
  teq (l_shape ex_cfg) (lattice_constraint_after_dykstra ex_cfg true W) W.
Proof. destruct ex_cfg_valid as (H1 & H2 & H3 & H4).
  apply (constraint_fixes_feasible ex_cfg (fun K => K)); [exact H1| |apply teq_refl].
  exact (linear_init_feasible ex_cfg H1 H2 H3 H4). Qed.
