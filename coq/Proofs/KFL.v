From TFL Require Import Model.KFL.
Open Scope Q_scope.
Lemma placeholder_sgn : qsgn 0 = 0. Proof. reflexivity. Qed.
