(* Lemmas about the model of KroneckerFactoredLattice (Model/KFL.v): 1-D
   interpolation in cell form, the monotonicity / bounds projections, the
   invariant argument over arbitrary constraint histories, and the output
   theorems used by Props/C07.v. *)
From TFL Require Import Model.KFL.
Open Scope Q_scope.


(* ------------------------------------------------------------------ *)
(* small arithmetic facts                                              *)
Lemma qn_S k : qn (S k) == qn k + 1.
Proof. unfold qn. rewrite Nat2Z.inj_succ, <- Z.add_1_r, inject_Z_plus. reflexivity. Qed.
Lemma qn_nonneg k : 0 <= qn k.
Proof. unfold qn. change 0 with (inject_Z 0). rewrite <- Zle_Qle. lia. Qed.
Lemma qn_pos k : (0 < k)%nat -> 0 < qn k.
Proof. intros H. unfold qn. change 0 with (inject_Z 0). rewrite <- Zlt_Qlt. lia. Qed.
Lemma qn_ge1 k : (1 <= k)%nat -> 1 <= qn k.
Proof. intros H. unfold qn. change 1 with (inject_Z 1). rewrite <- Zle_Qle. lia. Qed.

Lemma qsgn_cases s : (0 < s /\ qsgn s = 1) \/ (s < 0 /\ qsgn s = -1) \/ (s == 0 /\ qsgn s = 0).
Proof.
  unfold qsgn. destruct (qlt 0 s) eqn:E1.
  - left. split; [apply qlt_true; exact E1|reflexivity].
  - apply qlt_false in E1. destruct (qlt s 0) eqn:E2.
    + right; left. split; [apply qlt_true; exact E2|reflexivity].
    + apply qlt_false in E2. right; right. split; [lra|reflexivity].
Qed.

Lemma qdiv_pos_mono f a b : 0 < f -> a <= b -> a / f <= b / f.
Proof. intros Hf H. unfold Qdiv. apply Qmult_le_compat_r. exact H. apply Qlt_le_weak, Qinv_lt_0_compat, Hf. Qed.
Lemma qdiv_pos_nonneg f a : 0 < f -> 0 <= a -> 0 <= a / f.
Proof. intros Hf H. pose proof (qdiv_pos_mono f 0 a Hf H) as H1. unfold Qdiv in *. lra. Qed.

(* ------------------------------------------------------------------ *)
(* generic list lemmas                                                 *)
Lemma Forall2_map2_r {A B} (P : A -> B -> Prop) (R : A -> B -> Prop) (f : A -> B -> B) l1 l2 :
  Forall2 P l1 l2 -> (forall a b, P a b -> R a (f a b)) -> Forall2 R l1 (map2 f l1 l2).
Proof. intros H HF. induction H; cbn [map2]; constructor; auto. Qed.
Lemma Forall2_map_l {A B} (P R : A -> B -> Prop) (g : A -> A) l1 l2 :
  Forall2 P l1 l2 -> (forall a b, P a b -> R (g a) b) -> Forall2 R (map g l1) l2.
Proof. intros H HF. induction H; cbn [map]; constructor; auto. Qed.
Lemma Forall2_impl {A B} (P R : A -> B -> Prop) l1 l2 :
  Forall2 P l1 l2 -> (forall a b, P a b -> R a b) -> Forall2 R l1 l2.
Proof. intros H HF. induction H; constructor; auto. Qed.
Lemma Forall2_nth {A B} (P : A -> B -> Prop) l1 l2 u da db :
  Forall2 P l1 l2 -> (u < length l1)%nat -> P (nth u l1 da) (nth u l2 db).
Proof. intros H. revert u. induction H; intros u Hu; cbn in *; [lia|]. destruct u; [assumption|apply IHForall2; lia]. Qed.
Lemma Forall2_length {A B} (P : A -> B -> Prop) l1 l2 : Forall2 P l1 l2 -> length l1 = length l2.
Proof. induction 1; cbn; congruence. Qed.


(* ------------------------------------------------------------------ *)
(* 1-D interpolation                                                   *)
Definition hatsum (off : nat) (v : vec) (x : Q) : Q :=
  qsum (map2 Qmult (map (fun i => hat (qn i - x)) (seq off (length v))) v).
Lemma hatsum_cons off a v x : hatsum off (a :: v) x = hat (qn off - x) * a + hatsum (S off) v x.
Proof. reflexivity. Qed.
Lemma hat_far z : 1 <= z \/ z <= -1 -> hat z == 0.
Proof. intros H. unfold hat. qcases; lra. Qed.
Lemma hat_pos z : 0 <= z -> z <= 1 -> hat z == 1 - z.
Proof. intros H1 H2. unfold hat. qcases; lra. Qed.
Lemma hat_neg z : z <= 0 -> -1 <= z -> hat z == 1 + z.
Proof. intros H1 H2. unfold hat. qcases; lra. Qed.

Lemma hatsum_zero : forall v off x, x <= qn off - 1 -> hatsum off v x == 0.
Proof.
  induction v as [|a v IH]; intros off x H. reflexivity.
  rewrite hatsum_cons. rewrite hat_far by (left; lra).
  rewrite IH by (rewrite qn_S; lra). lra.
Qed.

(* The same function written cell by cell: on [off, off+1] the segment from
   v_0 to v_1, further right the rest of the list. *)
Fixpoint cell (off : nat) (v : vec) (x : Q) : Q :=
  match v with
  | [] => 0
  | a :: r => match r with
              | [] => a
              | b :: _ => if Qle_bool x (qn (S off)) then a + (x - qn off) * (b - a) else cell (S off) r x
              end
  end.

Lemma cell_cons2 off a b r x :
  cell off (a :: b :: r) x = if Qle_bool x (qn (S off)) then a + (x - qn off) * (b - a) else cell (S off) (b :: r) x.
Proof. reflexivity. Qed.
Lemma cell_one off a x : cell off [a] x = a.
Proof. reflexivity. Qed.

Lemma hatsum_cell : forall v off x, qn off <= x -> x <= qn off + qn (length v) - 1 -> hatsum off v x == cell off v x.
Proof.
  induction v as [|a r IH]; intros off x H1 H2. reflexivity.
  destruct r as [|b r'].
  - rewrite hatsum_cons. cbn [cell]. change (qn (length [a])) with 1 in H2.
    rewrite hat_pos by lra. change (hatsum (S off) [] x) with 0.
    assert (E : x == qn off) by lra. rewrite E. ring.
  - rewrite cell_cons2. destruct (Qle_bool x (qn (S off))) eqn:E.
    + apply Qle_bool_iff in E. rewrite qn_S in E.
      rewrite !hatsum_cons. rewrite hatsum_zero by (rewrite !qn_S; lra).
      rewrite hat_neg by lra. rewrite hat_pos by (rewrite qn_S; lra). rewrite qn_S. ring.
    + assert (E' : qn (S off) < x).
      { apply Qnot_le_lt. intro Hc. apply Qle_bool_iff in Hc. congruence. }
      rewrite hatsum_cons. rewrite hat_far by (right; rewrite qn_S in E'; lra).
      rewrite IH. ring. lra.
      change (length (a :: b :: r')) with (S (length (b :: r'))) in H2. rewrite qn_S in H2. rewrite qn_S. lra.
Qed.

Lemma pwl1d_cell L v x : length v = L -> (2 <= L)%nat -> 0 <= x -> x <= qn L - 1 -> pwl1d L v x == cell 0 v x.
Proof.
  intros Hl HL H0 H1. unfold pwl1d, interp_weights. destruct (L =? 2)%nat eqn:E.
  - apply Nat.eqb_eq in E. rewrite E in *. clear E HL. destruct v as [|a [|b [|c v]]]; try discriminate.
    cbn [map2 qsum cell]. change (qn 2) with 2 in H1. change (qn 1) with 1. change (qn 0) with 0.
    destruct (Qle_bool x 1) eqn:E1.
    + ring.
    + exfalso. assert (x <= 1) by lra. apply Qle_bool_iff in H. congruence.
  - subst L. change (qsum _) with (hatsum 0 v x). apply hatsum_cell.
    change (qn 0) with 0; lra. change (qn 0) with 0; lra.
Qed.

Fixpoint sorted (v : vec) : Prop :=
  match v with a :: r => match r with b :: _ => a <= b /\ sorted r | [] => True end | [] => True end.
Fixpoint rsorted (v : vec) : Prop :=
  match v with a :: r => match r with b :: _ => b <= a /\ rsorted r | [] => True end | [] => True end.

Lemma lerp_between t a b lo hi : 0 <= t -> t <= 1 -> lo <= a -> a <= hi -> lo <= b -> b <= hi ->
  lo <= a + t * (b - a) /\ a + t * (b - a) <= hi.
Proof.
  intros. pose proof (qmul_nonneg t (b - lo) ltac:(lra) ltac:(lra)).
  pose proof (qmul_nonneg (1 - t) (a - lo) ltac:(lra) ltac:(lra)).
  pose proof (qmul_nonneg t (hi - b) ltac:(lra) ltac:(lra)).
  pose proof (qmul_nonneg (1 - t) (hi - a) ltac:(lra) ltac:(lra)).
  split; lra.
Qed.

Lemma cell_between lo hi : forall v off x, v <> [] -> Forall (fun w => lo <= w /\ w <= hi) v -> qn off <= x ->
  lo <= cell off v x /\ cell off v x <= hi.
Proof.
  induction v as [|a r IH]; intros off x Hne HF Hx. congruence.
  inversion HF as [|? ? [Ha1 Ha2] HF']; subst. destruct r as [|b r'].
  - cbn [cell]. split; assumption.
  - rewrite cell_cons2. destruct (Qle_bool x (qn (S off))) eqn:E.
    + apply Qle_bool_iff in E. rewrite qn_S in E. inversion HF' as [|? ? [Hb1 Hb2] _]; subst.
      apply lerp_between; lra.
    + assert (E' : qn (S off) < x).
      { apply Qnot_le_lt. intro Hc. apply Qle_bool_iff in Hc. congruence. }
      apply IH. congruence. assumption. lra.
Qed.

Lemma cell_ge_head : forall v off x a r, v = a :: r -> sorted v -> qn off <= x -> a <= cell off v x.
Proof.
  induction v as [|a0 r0 IH]; intros off x a r E Hs Hx. discriminate.
  injection E as -> ->. destruct r as [|b r'].
  - cbn [cell]. lra.
  - rewrite cell_cons2. cbn [sorted] in Hs. destruct Hs as [Hab Hs]. destruct (Qle_bool x (qn (S off))) eqn:E.
    + pose proof (qmul_nonneg (x - qn off) (b - a) ltac:(lra) ltac:(lra)). lra.
    + assert (E' : qn (S off) < x).
      { apply Qnot_le_lt. intro Hc. apply Qle_bool_iff in Hc. congruence. }
      pose proof (IH (S off) x b r' eq_refl Hs ltac:(lra)). lra.
Qed.
Lemma cell_le_head : forall v off x a r, v = a :: r -> rsorted v -> qn off <= x -> cell off v x <= a.
Proof.
  induction v as [|a0 r0 IH]; intros off x a r E Hs Hx. discriminate.
  injection E as -> ->. destruct r as [|b r'].
  - cbn [cell]. lra.
  - rewrite cell_cons2. cbn [rsorted] in Hs. destruct Hs as [Hab Hs]. destruct (Qle_bool x (qn (S off))) eqn:E.
    + pose proof (qmul_nonneg (x - qn off) (a - b) ltac:(lra) ltac:(lra)). lra.
    + assert (E' : qn (S off) < x).
      { apply Qnot_le_lt. intro Hc. apply Qle_bool_iff in Hc. congruence. }
      pose proof (IH (S off) x b r' eq_refl Hs ltac:(lra)). lra.
Qed.

Lemma cell_mono : forall v off x y, sorted v -> qn off <= x -> x <= y -> cell off v x <= cell off v y.
Proof.
  induction v as [|a r IH]; intros off x y Hs Hx Hxy. cbn; lra.
  destruct r as [|b r']. cbn [cell]; lra.
  rewrite !cell_cons2. cbn [sorted] in Hs. destruct Hs as [Hab Hs].
  destruct (Qle_bool x (qn (S off))) eqn:Ex; destruct (Qle_bool y (qn (S off))) eqn:Ey.
  - pose proof (qmul_nonneg (y - x) (b - a) ltac:(lra) ltac:(lra)). lra.
  - apply Qle_bool_iff in Ex. rewrite qn_S in Ex.
    assert (Ey' : qn (S off) < y).
    { apply Qnot_le_lt. intro Hc. apply Qle_bool_iff in Hc. congruence. }
    pose proof (cell_ge_head (b :: r') (S off) y b r' eq_refl Hs ltac:(lra)).
    pose proof (qmul_nonneg (1 - (x - qn off)) (b - a) ltac:(lra) ltac:(lra)). lra.
  - exfalso. apply Qle_bool_iff in Ey.
    assert (x <= qn (S off)) by lra. apply Qle_bool_iff in H. congruence.
  - assert (Ex' : qn (S off) < x).
    { apply Qnot_le_lt. intro Hc. apply Qle_bool_iff in Hc. congruence. }
    apply IH; [assumption|lra|assumption].
Qed.
Lemma cell_anti : forall v off x y, rsorted v -> qn off <= x -> x <= y -> cell off v y <= cell off v x.
Proof.
  induction v as [|a r IH]; intros off x y Hs Hx Hxy. cbn; lra.
  destruct r as [|b r']. cbn [cell]; lra.
  rewrite !cell_cons2. cbn [rsorted] in Hs. destruct Hs as [Hab Hs].
  destruct (Qle_bool x (qn (S off))) eqn:Ex; destruct (Qle_bool y (qn (S off))) eqn:Ey.
  - pose proof (qmul_nonneg (y - x) (a - b) ltac:(lra) ltac:(lra)). lra.
  - apply Qle_bool_iff in Ex. rewrite qn_S in Ex.
    assert (Ey' : qn (S off) < y).
    { apply Qnot_le_lt. intro Hc. apply Qle_bool_iff in Hc. congruence. }
    pose proof (cell_le_head (b :: r') (S off) y b r' eq_refl Hs ltac:(lra)).
    pose proof (qmul_nonneg (1 - (x - qn off)) (a - b) ltac:(lra) ltac:(lra)). lra.
  - exfalso. apply Qle_bool_iff in Ey.
    assert (x <= qn (S off)) by lra. apply Qle_bool_iff in H. congruence.
  - assert (Ex' : qn (S off) < x).
    { apply Qnot_le_lt. intro Hc. apply Qle_bool_iff in Hc. congruence. }
    apply IH; [assumption|lra|assumption].
Qed.


(* ------------------------------------------------------------------ *)
(* products and means                                                  *)
Lemma qprod_le l l' : Forall2 (fun a b => 0 <= a /\ a <= b) l l' -> 0 <= qprod l /\ qprod l <= qprod l'.
Proof.
  induction 1 as [|a b l l' [Ha Hab] _ [IH1 IH2]]; cbn [qprod]. split; lra.
  pose proof (qmul_nonneg a (qprod l) Ha IH1).
  pose proof (qmul_le_l a _ _ Ha IH2).
  pose proof (qmul_nonneg (b - a) (qprod l') ltac:(lra) ltac:(lra)).
  split; lra.
Qed.
Lemma qprod_abs l ms : Forall2 (fun a m => - m <= a /\ a <= m) l ms -> - qprod ms <= qprod l /\ qprod l <= qprod ms.
Proof.
  induction 1 as [|a m l ms [Ha1 Ha2] _ [IH1 IH2]]; cbn [qprod]. split; lra.
  pose proof (qmul_nonneg (m - a) (qprod ms + qprod l) ltac:(lra) ltac:(lra)).
  pose proof (qmul_nonneg (m + a) (qprod ms - qprod l) ltac:(lra) ltac:(lra)).
  pose proof (qmul_nonneg (m - a) (qprod ms - qprod l) ltac:(lra) ltac:(lra)).
  pose proof (qmul_nonneg (m + a) (qprod ms + qprod l) ltac:(lra) ltac:(lra)).
  split; lra.
Qed.

Lemma qsum_bounds l lo hi : Forall (fun a => lo <= a /\ a <= hi) l ->
  qn (length l) * lo <= qsum l /\ qsum l <= qn (length l) * hi.
Proof.
  induction 1 as [|a l [H1 H2] _ [IH1 IH2]]; cbn [qsum length]. change (qn 0) with 0. split; lra.
  rewrite qn_S. split; lra.
Qed.
Lemma qmean_between l lo hi : l <> [] -> Forall (fun a => lo <= a /\ a <= hi) l -> lo <= qmean l /\ qmean l <= hi.
Proof.
  intros Hne HF. destruct (qsum_bounds l lo hi HF) as [H1 H2]. unfold qmean.
  assert (Hc : 0 < qn (length l)) by (apply qn_pos; destruct l; [congruence|cbn; lia]).
  split.
  - apply Qle_shift_div_l. exact Hc. lra.
  - apply Qle_shift_div_r. exact Hc. lra.
Qed.
Lemma qsum_le l l' : Forall2 Qle l l' -> qsum l <= qsum l'.
Proof. induction 1; cbn [qsum]; lra. Qed.
Lemma qmean_le l l' : Forall2 Qle l l' -> qmean l <= qmean l'.
Proof.
  intros H. unfold qmean. rewrite <- (Forall2_length _ _ _ H).
  destruct l as [|a l]. inversion H; subst. cbn. lra.
  apply qdiv_pos_mono. apply qn_pos; cbn; lia. apply qsum_le, H.
Qed.

(* ------------------------------------------------------------------ *)
(* elementwise maps, cumulative max / min                              *)
Lemma sorted_map g v : (forall x y, x <= y -> g x <= g y) -> sorted v -> sorted (map g v).
Proof. intros Hg. induction v as [|a r IH]; intros H. exact I. destruct r as [|b r']. exact I.
  destruct H as [H1 H2]. split. apply Hg, H1. apply IH, H2. Qed.
Lemma rsorted_map g v : (forall x y, x <= y -> g x <= g y) -> rsorted v -> rsorted (map g v).
Proof. intros Hg. induction v as [|a r IH]; intros H. exact I. destruct r as [|b r']. exact I.
  destruct H as [H1 H2]. split. apply Hg, H1. apply IH, H2. Qed.
Lemma sorted_map_anti g v : (forall x y, x <= y -> g y <= g x) -> sorted v -> rsorted (map g v).
Proof. intros Hg. induction v as [|a r IH]; intros H. exact I. destruct r as [|b r']. exact I.
  destruct H as [H1 H2]. split. apply Hg, H1. apply IH, H2. Qed.

Lemma cummin_back_cons a r :
  cummin_back (a :: r) = match cummin_back r with [] => [a] | (y :: _) as r' => qmin a y :: r' end.
Proof. reflexivity. Qed.
Lemma cummin_back_sorted v : sorted (cummin_back v).
Proof.
  induction v as [|a r IH]. exact I. rewrite cummin_back_cons.
  destruct (cummin_back r) as [|y l]. exact I. split. apply qmin_r. exact IH.
Qed.
Lemma cummin_back_length v : length (cummin_back v) = length v.
Proof.
  induction v as [|a r IH]. reflexivity. rewrite cummin_back_cons.
  destruct (cummin_back r) as [|y l]; cbn [length] in *; lia.
Qed.
Lemma qmin_either a b : qmin a b = a \/ qmin a b = b.
Proof. unfold qmin. destruct (Qle_bool a b); auto. Qed.
Lemma qmax_either a b : qmax a b = a \/ qmax a b = b.
Proof. unfold qmax. destruct (Qle_bool a b); auto. Qed.
Lemma cummin_back_Forall (P : Q -> Prop) v : Forall P v -> Forall P (cummin_back v).
Proof.
  induction 1 as [|a r Ha _ IH]. constructor. rewrite cummin_back_cons.
  destruct (cummin_back r) as [|y l]. constructor; [assumption|constructor].
  constructor; [|assumption]. inversion IH; subst. destruct (qmin_either a y) as [-> | ->]; assumption.
Qed.
Lemma cummax_from_Forall (P : Q -> Prop) : forall l m, P m -> Forall P l -> Forall P (cummax_from m l).
Proof.
  induction l as [|x r IH]; intros m Hm H; cbn [cummax_from]. constructor.
  inversion H; subst. assert (P (qmax x m)) by (destruct (qmax_either x m) as [-> | ->]; assumption).
  constructor; auto.
Qed.
Lemma cummax_Forall (P : Q -> Prop) v : Forall P v -> Forall P (cummax v).
Proof. destruct 1; cbn [cummax]. constructor. constructor; [assumption|apply cummax_from_Forall; assumption]. Qed.
Lemma cummax_from_length : forall l m, length (cummax_from m l) = length l.
Proof. induction l; intros; cbn; auto. Qed.
Lemma cummax_length v : length (cummax v) = length v.
Proof. destruct v; cbn; [|rewrite cummax_from_length]; reflexivity. Qed.
Lemma map2_Forall {A} (P : A -> Prop) (f : A -> A -> A) : forall a b,
  (forall x y, P x -> P y -> P (f x y)) -> Forall P a -> Forall P b -> Forall P (map2 f a b).
Proof.
  induction a as [|x a IH]; intros [|y b] Hf Ha Hb; cbn [map2]; try constructor;
  inversion Ha; inversion Hb; subst; auto.
Qed.

Lemma mono_proj1_sorted v : sorted (mono_proj1 v).
Proof. apply cummin_back_sorted. Qed.
Lemma mono_proj1_length v : length (mono_proj1 v) = length v.
Proof. unfold mono_proj1. rewrite cummin_back_length, map2_length, cummax_length. lia. Qed.
Lemma mono_proj1_nonneg v : Forall (fun w => 0 <= w) v -> Forall (fun w => 0 <= w) (mono_proj1 v).
Proof.
  intros H. apply cummin_back_Forall. apply map2_Forall; [|assumption|apply cummax_Forall; assumption].
  cbn; intros; lra.
Qed.
Lemma mono_proj1_nonpos v : Forall (fun w => w <= 0) v -> Forall (fun w => w <= 0) (mono_proj1 v).
Proof.
  intros H. apply cummin_back_Forall. apply map2_Forall; [|assumption|apply cummax_Forall; assumption].
  cbn; intros; lra.
Qed.


(* ------------------------------------------------------------------ *)
(* term-level predicates                                               *)
Definition vnonneg (v : vec) : Prop := Forall (fun w => 0 <= w) v.
Definition tnonneg (vs : term) : Prop := Forall vnonneg vs.
Definition tshape (L dims : nat) (vs : term) : Prop := length vs = dims /\ Forall (fun v => length v = L) vs.
Definition prodmax (vs : term) : Q := qprod (map maxabs vs).

(* what the kernel constraint establishes for the monotone inputs, relative to
   the sign of the scale of the term *)
Definition term_good (ms : list bool) (s : Q) (vs : term) : Prop :=
  s == 0 \/
  (0 < s /\ tnonneg vs /\ Forall2 (fun (m : bool) v => m = true -> sorted v) ms vs) \/
  (s < 0 /\ tnonneg vs /\ Forall2 (fun (m : bool) v => m = true -> rsorted v) ms vs).

Lemma Forall_map_impl {A B} (P : A -> Prop) (P' : B -> Prop) (g : A -> B) l :
  Forall P l -> (forall x, P x -> P' (g x)) -> Forall P' (map g l).
Proof. induction 1; cbn [map]; constructor; auto. Qed.
Lemma Forall_map_any {A B} (P' : B -> Prop) (g : A -> B) l : (forall x, P' (g x)) -> Forall P' (map g l).
Proof. intros H. induction l; cbn [map]; constructor; auto. Qed.
Lemma Forall_map2_any {A B C} (P : C -> Prop) (f : A -> B -> C) a b : (forall x y, P (f x y)) -> Forall P (map2 f a b).
Proof. intros H. revert b. induction a as [|x a IH]; intros [|y b]; cbn [map2]; constructor; auto. Qed.
Lemma Forall2_map2_any {A B} (R : B -> A -> Prop) (f : A -> B -> A) : forall a b,
  length a = length b -> (forall x y, R y (f x y)) -> Forall2 R b (map2 f a b).
Proof. induction a as [|x a IH]; intros [|y b] Hl H; cbn in *; try discriminate; constructor; auto. Qed.
Lemma Forall2_map_r {A B} (R R' : A -> B -> Prop) (g : B -> B) l1 l2 :
  Forall2 R l1 l2 -> (forall a b, R a b -> R' a (g b)) -> Forall2 R' l1 (map g l2).
Proof. induction 1; cbn [map]; constructor; auto. Qed.

(* ---- elementwise post-processing (bounds stage) preserves goodness ---- *)
Lemma term_good_map g ms s vs :
  (forall x y, x <= y -> g x <= g y) -> (forall x, 0 <= x -> 0 <= g x) ->
  term_good ms s vs -> term_good ms s (map (map g) vs).
Proof.
  intros Hm Hp [H|[(Hs & Hn & Hso)|(Hs & Hn & Hso)]]; [left; assumption|right; left|right; right];
  (split; [assumption|split]).
  - apply Forall_map_impl with (P := vnonneg); [assumption|]. intros v Hv. apply Forall_map_impl with (P := fun w => 0 <= w); auto.
  - apply Forall2_map_r with (R := fun (m : bool) v => m = true -> sorted v); [assumption|].
    intros m v H E. apply sorted_map; auto.
  - apply Forall_map_impl with (P := vnonneg); [assumption|]. intros v Hv. apply Forall_map_impl with (P := fun w => 0 <= w); auto.
  - apply Forall2_map_r with (R := fun (m : bool) v => m = true -> rsorted v); [assumption|].
    intros m v H E. apply rsorted_map; auto.
Qed.
Lemma tshape_map g L dims vs : tshape L dims vs -> tshape L dims (map (map g) vs).
Proof.
  intros [H1 H2]. split. rewrite map_length; assumption.
  apply Forall_map_impl with (P := fun v => length v = L); [assumption|]. intros v Hv. rewrite map_length; assumption.
Qed.

(* ---- the monotonicity stage ---- *)
Definition relu (w : Q) : Q := qmax w 0.
Definition pv (dir : Q) (m : bool) (v : vec) : vec :=
  vscale dir (if m then mono_proj1 (vscale dir (map relu v)) else vscale dir (map relu v)).
Lemma project_mono_term_pv ms s vs :
  project_mono_term ms s (clip0 vs) = map2 (fun v m => pv (qsgn s) m v) vs ms.
Proof.
  unfold project_mono_term, clip0. generalize (qsgn s) as dir. intros dir. revert ms.
  induction vs as [|v vs IH]; intros [|m ms]; cbn [map map2]; try reflexivity.
  f_equal. apply IH.
Qed.
Lemma pv_length dir m v : length (pv dir m v) = length v.
Proof. unfold pv, vscale. destruct m; rewrite !map_length, ?mono_proj1_length, ?map_length; reflexivity. Qed.

Lemma relu_nonneg v : vnonneg (map relu v).
Proof. apply Forall_map_any. intros x. unfold relu. apply qmax_r. Qed.

Lemma pv_pos_nonneg m v : vnonneg (pv 1 m v).
Proof.
  unfold pv, vscale.
  assert (H : vnonneg (map (fun w => 1 * w) (map relu v))).
  { apply Forall_map_impl with (P := fun w => 0 <= w). apply relu_nonneg. intros; lra. }
  apply Forall_map_impl with (P := fun w => 0 <= w); [|intros; lra].
  destruct m; [apply mono_proj1_nonneg|]; exact H.
Qed.
Lemma pv_pos_sorted v : sorted (pv 1 true v).
Proof. unfold pv, vscale. apply sorted_map. intros; lra. apply mono_proj1_sorted. Qed.
Lemma pv_neg_nonneg m v : vnonneg (pv (-1) m v).
Proof.
  unfold pv, vscale.
  assert (H : Forall (fun w => w <= 0) (map (fun w => -1 * w) (map relu v))).
  { apply Forall_map_impl with (P := fun w => 0 <= w). apply relu_nonneg. intros; lra. }
  apply Forall_map_impl with (P := fun w => w <= 0); [|intros; lra].
  destruct m; [apply mono_proj1_nonpos|]; exact H.
Qed.
Lemma pv_neg_rsorted v : rsorted (pv (-1) true v).
Proof. unfold pv, vscale. apply sorted_map_anti. intros; lra. apply mono_proj1_sorted. Qed.

Lemma project_mono_term_good ms s vs : length vs = length ms ->
  term_good ms s (project_mono_term ms s (clip0 vs)).
Proof.
  intros Hl. rewrite project_mono_term_pv.
  destruct (qsgn_cases s) as [[Hs ->]|[[Hs ->]|[Hs ->]]].
  - right; left. split; [assumption|split].
    + apply Forall_map2_any. intros; apply pv_pos_nonneg.
    + apply Forall2_map2_any. assumption. intros v m ->. apply pv_pos_sorted.
  - right; right. split; [assumption|split].
    + apply Forall_map2_any. intros; apply pv_neg_nonneg.
    + apply Forall2_map2_any. assumption. intros v m ->. apply pv_neg_rsorted.
  - left; assumption.
Qed.
Lemma project_mono_term_shape L dims ms s vs : length ms = dims -> tshape L dims vs ->
  tshape L dims (project_mono_term ms s (clip0 vs)).
Proof.
  intros Hm [H1 H2]. rewrite project_mono_term_pv. split.
  - rewrite map2_length. lia.
  - clear H1 Hm. revert ms. induction H2 as [|v vs Hv _ IH]; intros [|m ms]; cbn [map2]; constructor.
    rewrite pv_length; assumption. apply IH.
Qed.

(* ---- the bounds stage ---- *)
Section Root.
Variable root : nat -> Q -> Q.
(* the only facts used about tf.pow(x, 1/d) *)
(* the only facts used about tf.pow(x, 1/d), for x >= 1: the result is >= 1, its
   d-th power is not below x (an exact root where one exists, else any upper
   approximation: there is no exact rational square root of 2), and 1 for x = 1 *)
Definition root_ok : Prop := forall d x, (1 <= d)%nat -> 1 <= x ->
  1 <= root d x /\ x <= qpow (root d x) d /\ (x == 1 -> root d x == 1).
Hypothesis Hroot : root_ok.

Lemma qabs_div w f : 0 < f -> qabs (w / f) == qabs w / f.
Proof.
  intros Hf. assert (Hi : 0 < / f) by (apply Qinv_lt_0_compat, Hf). unfold Qdiv.
  destruct (qabs_spec w) as [[H1 ->]|[H1 ->]]; destruct (qabs_spec (w * / f)) as [[H2 ->]|[H2 ->]]; try lra.
  - pose proof (qmul_nonneg w (/ f) H1 ltac:(lra)). lra.
  - pose proof (qmul_nonneg (- w) (/ f) ltac:(lra) ltac:(lra)).
    assert (w * / f == 0) by lra. lra.
Qed.
Lemma maxabs_nonneg v : 0 <= maxabs v.
Proof.
  unfold maxabs. destruct v as [|a v]. cbn; lra.
  pose proof (qmaxl_ge (map qabs (a :: v)) (qabs a) (or_introl eq_refl)). pose proof (qabs_nonneg a). lra.
Qed.
Lemma maxabs_div_le v f : 0 < f -> maxabs (map (fun w => w / f) v) <= maxabs v / f.
Proof.
  intros Hf. destruct v as [|a v].
  - cbn. unfold Qdiv. lra.
  - unfold maxabs. apply qmaxl_lub. cbn; congruence.
    intros x Hx. rewrite map_map in Hx. apply in_map_iff in Hx. destruct Hx as [w [<- Hw]].
    rewrite qabs_div by assumption. apply qdiv_pos_mono. assumption.
    apply qmaxl_ge. apply in_map. assumption.
Qed.
Lemma qprod_map_div (g : vec -> Q) f vs : ~ f == 0 ->
  qprod (map (fun v => g v / f) vs) * qpow f (length vs) == qprod (map g vs).
Proof.
  intros Hf. induction vs as [|v vs IH]; cbn [map qprod length qpow]. ring.
  rewrite <- IH. field. assumption.
Qed.
Lemma prodmax_nonneg vs : 0 <= prodmax vs.
Proof.
  unfold prodmax. induction vs as [|v vs IH]; cbn [map qprod]. lra.
  apply qmul_nonneg. apply maxabs_nonneg. exact IH.
Qed.

Lemma prodmax_after_div vs :
  (1 <= length vs)%nat ->
  let f := root (length vs) (qmax (prodmax vs) 1) in
  0 < f /\ prodmax (map (map (fun w => w / f)) vs) <= 1.
Proof.
  intros Hd f.
  destruct (Hroot (length vs) (qmax (prodmax vs) 1) Hd (qmax_r _ _)) as (Hf1 & Hf2 & _). fold f in Hf1, Hf2.
  assert (Hf : 0 < f) by lra. split. exact Hf.
  assert (H1 : 0 <= prodmax (map (map (fun w => w / f)) vs) /\
               prodmax (map (map (fun w => w / f)) vs) <= qprod (map (fun v => maxabs v / f) vs)).
  { unfold prodmax. rewrite map_map. apply qprod_le.
    clear - Hf. clearbody f. induction vs as [|v vs IH]; cbn [map]; constructor; [|exact IH]. split.
    apply maxabs_nonneg. apply maxabs_div_le. exact Hf. }
  destruct H1 as [_ H1].
  pose proof (qprod_map_div maxabs f vs ltac:(lra)) as H2. fold (prodmax vs) in H2.
  set (P' := qprod (map (fun v => maxabs v / f) vs)) in *.
  pose proof (qmax_l (prodmax vs) 1) as H3. pose proof (qmax_r (prodmax vs) 1) as H4.
  set (M := qmax (prodmax vs) 1) in *. set (F := qpow f (length vs)) in *.
  (* P' * F == P <= M <= F, 1 <= F  ->  P' <= 1 *)
  assert (P' <= 1).
  { destruct (Qlt_le_dec 1 P') as [Hc|Hc]; [|exact Hc]. exfalso.
    assert (0 < (P' - 1) * F). { apply Qmult_lt_0_compat; lra. } lra. }
  lra.
Qed.
End Root.


(* ------------------------------------------------------------------ *)
(* scale constraint                                                    *)
Definition bounds_ok (omin omax : option Q) : Prop :=
  forall lo hi, omin = Some lo -> omax = Some hi -> lo < hi.

Lemma finalize_scale1_sign omin omax s : bounds_ok omin omax ->
  (0 < finalize_scale1 omin omax s -> 0 < s) /\ (finalize_scale1 omin omax s < 0 -> s < 0).
Proof.
  intros Hb. unfold finalize_scale1. destruct omin as [lo|], omax as [hi|].
  - specialize (Hb lo hi eq_refl eq_refl). unfold qclip. split; intros H; qcases; lra.
  - split; intros H; qcases; lra.
  - split; intros H; qcases; lra.
  - split; intros H; lra.
Qed.
Lemma finalize_scale1_qsgn omin omax s : bounds_ok omin omax ->
  qsgn (finalize_scale1 omin omax s) = qsgn s \/ qsgn (finalize_scale1 omin omax s) = 0.
Proof.
  intros Hb. destruct (finalize_scale1_sign omin omax s Hb) as [H1 H2].
  destruct (qsgn_cases (finalize_scale1 omin omax s)) as [[Hs ->]|[[Hs ->]|[Hs ->]]]; [| |right; reflexivity]; left.
  - destruct (qsgn_cases s) as [[Hs' ->]|[[Hs' ->]|[Hs' ->]]]; [reflexivity| |]; specialize (H1 Hs); lra.
  - destruct (qsgn_cases s) as [[Hs' ->]|[[Hs' ->]|[Hs' ->]]]; [|reflexivity|]; specialize (H2 Hs); lra.
Qed.
(* with two-sided bounds (or none) the sign is kept exactly *)
Lemma finalize_scale1_qsgn_two_sided lo hi s : lo < hi ->
  qsgn (finalize_scale1 (Some lo) (Some hi) s) = qsgn s.
Proof.
  intros Hb. cbn [finalize_scale1]. unfold qclip.
  destruct (qsgn_cases s) as [[Hs ->]|[[Hs ->]|[Hs ->]]];
  match goal with |- qsgn ?e = _ => destruct (qsgn_cases e) as [[Hs' ->]|[[Hs' ->]|[Hs' ->]]] end;
  try reflexivity; exfalso; revert Hs'; qcases; lra.
Qed.
Lemma finalize_scale1_idem omin omax s : bounds_ok omin omax ->
  finalize_scale1 omin omax (finalize_scale1 omin omax s) == finalize_scale1 omin omax s.
Proof.
  intros Hb. unfold finalize_scale1. destruct omin as [lo|], omax as [hi|].
  - specialize (Hb lo hi eq_refl eq_refl). unfold qclip. qcases; lra.
  - qcases; lra.
  - qcases; lra.
  - reflexivity.
Qed.

Lemma term_good_scale ms omin omax s vs : bounds_ok omin omax ->
  term_good ms s vs -> term_good ms (finalize_scale1 omin omax s) vs.
Proof.
  intros Hb H. destruct (finalize_scale1_sign omin omax s Hb) as [H1 H2].
  destruct (Qlt_le_dec 0 (finalize_scale1 omin omax s)) as [Hp|Hp].
  - specialize (H1 Hp). destruct H as [H|[H|H]]; [lra| |destruct H; lra].
    right; left. destruct H as (_ & Ha & Hb'). auto.
  - destruct (Qlt_le_dec (finalize_scale1 omin omax s) 0) as [Hn|Hn].
    + specialize (H2 Hn). destruct H as [H|[H|H]]; [lra|destruct H; lra|].
      right; right. destruct H as (_ & Ha & Hb'). auto.
    + left. lra.
Qed.

(* ------------------------------------------------------------------ *)
(* what the two constraints establish, per (unit, term)                *)
Definition kgood (c : config) (s : Q) (vs : term) : Prop :=
  (forall ms, canon_monos (c_monos c) = Some ms -> (0 < count_true ms)%nat -> term_good ms s vs) /\
  (is_some (c_min c) = true -> is_some (c_max c) = true -> prodmax vs <= 1) /\
  (is_some (c_min c) <> is_some (c_max c) -> tnonneg vs).
Definition sgood (c : config) (s : Q) : Prop :=
  match c_min c, c_max c with
  | Some lo, Some hi => - ((hi - lo) * (1#2)) <= s /\ s <= (hi - lo) * (1#2)
  | Some _, None => 0 <= s
  | None, Some _ => s <= 0
  | None, None => True
  end.
Definition cfg_ok (c : config) (dims : nat) : Prop :=
  (2 <= c_size c)%nat /\ (1 <= dims)%nat /\ bounds_ok (c_min c) (c_max c) /\
  (forall ms, canon_monos (c_monos c) = Some ms -> length ms = dims).

Lemma sgood_finalize c s : bounds_ok (c_min c) (c_max c) -> sgood c (finalize_scale1 (c_min c) (c_max c) s).
Proof.
  intros Hb. unfold sgood, finalize_scale1. destruct (c_min c) as [lo|], (c_max c) as [hi|].
  - specialize (Hb lo hi eq_refl eq_refl). unfold qclip. split; qcases; lra.
  - apply qmax_r.
  - apply qmin_r.
  - exact I.
Qed.
Lemma kgood_scale c s vs : bounds_ok (c_min c) (c_max c) ->
  kgood c s vs -> kgood c (finalize_scale1 (c_min c) (c_max c) s) vs.
Proof.
  intros Hb (H1 & H2 & H3). split; [|split]; auto.
  intros ms E Hc. apply term_good_scale; auto.
Qed.

Section Root.
Variable root : nat -> Q -> Q.
Hypothesis Hroot : root_ok root.

Lemma bounds_stage omin omax L dims ms s t : (1 <= dims)%nat -> tshape L dims t ->
  let t' := if is_some omin || is_some omax then project_bounds_term root omin omax t else t in
  tshape L dims t' /\ (term_good ms s t -> term_good ms s t') /\
  (is_some omin = true -> is_some omax = true -> prodmax t' <= 1) /\
  (is_some omin <> is_some omax -> tnonneg t').
Proof.
  intros Hd Hsh.
  assert (Hrelu : tnonneg (clip0 t)).
  { unfold clip0. apply Forall_map_any. intros v. apply (relu_nonneg v). }
  destruct omin as [lo|], omax as [hi|]; cbn [is_some orb project_bounds_term].
  - destruct (prodmax_after_div root Hroot t) as [Hf Hp]. destruct Hsh; lia.
    split; [apply tshape_map; assumption|split; [|split]].
    + apply term_good_map. intros; apply qdiv_pos_mono; assumption. intros; apply qdiv_pos_nonneg; assumption.
    + intros _ _. exact Hp.
    + intros H; congruence.
  - split; [apply tshape_map; assumption|split; [|split]].
    + apply term_good_map. intros; apply qmax_mono; lra. intros; apply qmax_r.
    + intros _ H; discriminate.
    + intros _. exact Hrelu.
  - split; [apply tshape_map; assumption|split; [|split]].
    + apply term_good_map. intros; apply qmax_mono; lra. intros; apply qmax_r.
    + intros H; discriminate.
    + intros _. exact Hrelu.
  - split; [assumption|split; [auto|split]].
    + intros H; discriminate.
    + intros H; congruence.
Qed.

(* the kernel constraint of the layer on one (unit, term) *)
Definition Kt (c : config) (s : Q) (vs : term) : term :=
  finalize_weights_term root (canon_monos (c_monos c)) (c_min c) (c_max c) s vs.
Definition gate (c : config) : bool :=
  (0 <? num_constraint_dims (canon_monos (c_monos c)))%nat || is_some (c_min c) || is_some (c_max c).

Lemma Kt_good c dims s vs : cfg_ok c dims -> tshape (c_size c) dims vs ->
  tshape (c_size c) dims (Kt c s vs) /\ kgood c s (Kt c s vs).
Proof.
  intros (HL & Hd & Hb & Hms) Hsh. unfold Kt, finalize_weights_term.
  destruct (canon_monos (c_monos c)) as [ms|] eqn:Em.
  - specialize (Hms ms eq_refl). destruct (0 <? count_true ms)%nat eqn:Ec.
    + pose proof (project_mono_term_shape (c_size c) dims ms s vs Hms Hsh) as Hsh1.
      pose proof (project_mono_term_good ms s vs ltac:(destruct Hsh; lia)) as Hg1.
      destruct (bounds_stage (c_min c) (c_max c) (c_size c) dims ms s _ Hd Hsh1) as (B1 & B2 & B3 & B4).
      split; [exact B1|]. split; [|split; assumption].
      intros ms' E _. rewrite Em in E. injection E as <-. apply B2, Hg1.
    + destruct (bounds_stage (c_min c) (c_max c) (c_size c) dims ms s _ Hd Hsh) as (B1 & B2 & B3 & B4).
      split; [exact B1|]. split; [|split; assumption].
      intros ms' E Hc. rewrite Em in E. injection E as <-. apply Nat.ltb_ge in Ec. lia.
  - destruct (bounds_stage (c_min c) (c_max c) (c_size c) dims [] s _ Hd Hsh) as (B1 & B2 & B3 & B4).
    split; [exact B1|]. split; [|split; assumption]. intros ms' E; rewrite Em in E; discriminate.
Qed.
Lemma kgood_gate_closed c s vs : gate c = false -> kgood c s vs.
Proof.
  unfold gate. intros H. apply orb_false_iff in H. destruct H as [H H3]. apply orb_false_iff in H. destruct H as [H1 H2].
  split; [|split].
  - intros ms E Hc. rewrite E in H1. cbn [num_constraint_dims] in H1. apply Nat.ltb_ge in H1. lia.
  - intros H; congruence.
  - intros H; congruence.
Qed.

(* ------------------------------------------------------------------ *)
(* the layer's operations, reduced to the two gated calls              *)
Definition opK (c : config) (p : params) : params :=
  mkPar (kfl_constraints_call root c (p_scale p) (p_kern p)) (p_scale p) (p_bias p).
Definition opS (c : config) (p : params) : params :=
  mkPar (p_kern p) (scale_constraints_call c (p_scale p)) (p_bias p).

Lemma kernel_variable_constraint_eq c s k :
  kernel_variable_constraint root c s k = kfl_constraints_call root c s k.
Proof.
  unfold kernel_variable_constraint, kfl_constraints_call, has_bounds.
  destruct (canon_monos (c_monos c)) as [ms|]; cbn [is_some orb]. reflexivity.
  destruct (is_some (c_min c) || is_some (c_max c)) eqn:E. reflexivity.
  cbn [num_constraint_dims]. rewrite <- orb_assoc, E. reflexivity.
Qed.
Lemma scale_variable_constraint_eq c s : scale_variable_constraint c s = scale_constraints_call c s.
Proof. unfold scale_variable_constraint, scale_constraints_call. destruct (has_bounds c); reflexivity. Qed.
Lemma apply_step_ops c p st :
  apply_step root c p st = match st with StepK => opK c p | StepS => opS c p | StepF => opS c (opK c p) end.
Proof.
  destruct st; cbn [apply_step]; unfold opK, opS; cbn [p_kern p_scale p_bias].
  - rewrite kernel_variable_constraint_eq. reflexivity.
  - rewrite scale_variable_constraint_eq. reflexivity.
  - reflexivity.
Qed.

Definition Ktg (c : config) (s : Q) (vs : term) : term := if gate c then Kt c s vs else vs.
Definition S1 (c : config) (s : Q) : Q := finalize_scale1 (c_min c) (c_max c) s.
Definition hasK (steps : list step) : bool := existsb (fun st => match st with StepS => false | _ => true end) steps.
Definition hasS (steps : list step) : bool := existsb (fun st => match st with StepK => false | _ => true end) steps.
Definition shaped (c : config) (dims : nat) (p : params) : Prop :=
  Forall2 (Forall2 (fun (_ : Q) vs => tshape (c_size c) dims vs)) (p_scale p) (p_kern p).

(* Generic invariant argument: PK is established by the kernel constraint on
   every (unit, term) and survives the scale constraint; PS is established by
   the scale constraint (the kernel constraint does not touch the scale). *)
Section Inv.
Variable c : config.
Variable dims : nat.
Variable PK : Q -> term -> Prop.
Variable PS : Q -> Prop.
Hypothesis HK : forall s vs, tshape (c_size c) dims vs -> tshape (c_size c) dims (Ktg c s vs) /\ PK s (Ktg c s vs).
Hypothesis HKS : forall s vs, PK s vs -> PK (S1 c s) vs.
Hypothesis HS : forall s, PS (S1 c s).

Definition inv (a b : bool) (p : params) : Prop :=
  Forall2 (Forall2 (fun s vs => tshape (c_size c) dims vs /\ (a = true -> PK s vs) /\ (b = true -> PS s)))
          (p_scale p) (p_kern p).

Lemma inv_opK a b p : inv a b p -> inv true b (opK c p).
Proof.
  intros H. unfold inv, opK in *. cbn [p_kern p_scale]. unfold kfl_constraints_call. fold (gate c).
  destruct (gate c) eqn:G.
  - unfold finalize_weights. eapply Forall2_map2_r. exact H. cbn beta.
    intros su ku Hu. eapply Forall2_map2_r. exact Hu. cbn beta.
    intros s vs (Hsh & _ & Hs). destruct (HK s vs Hsh) as [K1 K2]. unfold Ktg in K1, K2. rewrite G in K1, K2.
    split; [exact K1|split; [intros _; exact K2|exact Hs]].
  - eapply Forall2_impl. exact H. cbn beta. intros su ku Hu. eapply Forall2_impl. exact Hu. cbn beta.
    intros s vs (Hsh & _ & Hs). destruct (HK s vs Hsh) as [K1 K2]. unfold Ktg in K1, K2. rewrite G in K1, K2.
    split; [exact Hsh|split; [intros _; exact K2|exact Hs]].
Qed.
Lemma inv_opS a b p : inv a b p -> inv a true (opS c p).
Proof.
  intros H. unfold inv, opS in *. cbn [p_kern p_scale]. unfold scale_constraints_call.
  destruct (has_bounds c) eqn:G.
  - eapply Forall2_map_l. exact H. cbn beta. intros su ku Hu. eapply Forall2_map_l. exact Hu. cbn beta.
    intros s vs (Hsh & Hk & _). split; [exact Hsh|split].
    + intros E. apply HKS; auto.
    + intros _. apply HS.
  - eapply Forall2_impl. exact H. cbn beta. intros su ku Hu. eapply Forall2_impl. exact Hu. cbn beta.
    intros s vs (Hsh & Hk & _). split; [exact Hsh|split; [exact Hk|intros _]].
    pose proof (HS s) as Hs. unfold S1, has_bounds in *. destruct (c_min c), (c_max c); cbn in G; try discriminate. exact Hs.
Qed.

Lemma run_inv : forall steps a b p, inv a b p -> inv (a || hasK steps) (b || hasS steps) (run root c steps p).
Proof.
  induction steps as [|st steps IH]; intros a b p H.
  - cbn. rewrite !orb_false_r. exact H.
  - unfold run. cbn [fold_left]. fold (run root c steps (apply_step root c p st)).
    rewrite apply_step_ops. destruct st; cbn [hasK hasS existsb].
    + specialize (IH true b _ (inv_opK a b p H)). rewrite orb_true_r. cbn [orb] in *. exact IH.
    + specialize (IH a true _ (inv_opS a b p H)). rewrite orb_true_r. cbn [orb] in *. exact IH.
    + specialize (IH true true _ (inv_opS _ _ _ (inv_opK a b p H))).
      rewrite !orb_true_r. cbn [orb] in *. exact IH.
Qed.
Lemma run_establishes steps p : shaped c dims p -> inv (hasK steps) (hasS steps) (run root c steps p).
Proof.
  intros H. apply (run_inv steps false false p).
  eapply Forall2_impl. exact H. cbn beta. intros su ku Hu. eapply Forall2_impl. exact Hu. cbn beta.
  intros s vs Hsh. split; [exact Hsh|split; intros; discriminate].
Qed.
End Inv.

Lemma run_bias c steps p : p_bias (run root c steps p) = p_bias p.
Proof. revert p. induction steps as [|st steps IH]; intros p. reflexivity.
  unfold run. cbn [fold_left]. fold (run root c steps (apply_step root c p st)). rewrite IH. destruct st; reflexivity. Qed.

(* instance 1: the properties that make the output monotone and bounded *)
Lemma good_HK c dims : cfg_ok c dims -> forall s vs, tshape (c_size c) dims vs ->
  tshape (c_size c) dims (Ktg c s vs) /\ kgood c s (Ktg c s vs).
Proof.
  intros Hc s vs Hsh. unfold Ktg. destruct (gate c) eqn:G. apply Kt_good; assumption.
  split. exact Hsh. apply kgood_gate_closed, G.
Qed.
Lemma run_good c dims steps p : cfg_ok c dims -> shaped c dims p ->
  inv c dims (kgood c) (sgood c) (hasK steps) (hasS steps) (run root c steps p).
Proof.
  intros Hc Hsh. pose proof Hc as (_ & _ & Hb & _). apply run_establishes; auto.
  - apply good_HK, Hc.
  - intros s vs. apply kgood_scale, Hb.
  - intros s. apply sgood_finalize, Hb.
Qed.
End Root.


(* ------------------------------------------------------------------ *)
(* input points                                                        *)
Definition in_range (L : nat) (xs : list Q) : Prop := Forall (fun x => 0 <= x /\ x <= qn L - 1) xs.
(* ys is obtained from xs by increasing some of the monotone coordinates *)
Fixpoint coords_le (ms : list bool) (xs ys : list Q) : Prop :=
  match ms, xs, ys with
  | [], [], [] => True
  | m :: ms', x :: xs', y :: ys' => (if m : bool then x <= y else x = y) /\ coords_le ms' xs' ys'
  | _, _, _ => False
  end.

Lemma clip_in_range clip L xs : (2 <= L)%nat -> clip = true \/ in_range L xs -> in_range L (map (clip_in clip L) xs).
Proof.
  intros HL H. pose proof (qn_ge1 L ltac:(lia)) as H1. unfold in_range, clip_in.
  destruct clip.
  - apply Forall_map_any. intros x. apply qclip_range. lra.
  - destruct H as [H|H]; [discriminate|]. apply Forall_map_impl with (P := fun x => 0 <= x /\ x <= qn L - 1); auto.
Qed.
Lemma coords_le_clip clip L : forall ms xs ys, coords_le ms xs ys ->
  coords_le ms (map (clip_in clip L) xs) (map (clip_in clip L) ys).
Proof.
  induction ms as [|m ms IH]; intros [|x xs] [|y ys] H; cbn [coords_le map] in *; try contradiction; auto.
  destruct H as [H1 H2]. split; [|apply IH; exact H2].
  destruct m. unfold clip_in. destruct clip; [apply qclip_mono|]; exact H1. rewrite H1; reflexivity.
Qed.
Lemma coords_le_no_mono : forall ms xs ys, count_true ms = 0%nat -> coords_le ms xs ys -> xs = ys.
Proof.
  induction ms as [|m ms IH]; intros [|x xs] [|y ys] Hc H; cbn [coords_le] in *; try contradiction; auto.
  destruct H as [H1 H2]. destruct m. discriminate. f_equal. exact H1. apply IH; assumption.
Qed.
Lemma coords_le_length : forall ms xs ys, coords_le ms xs ys -> length xs = length ms /\ length ys = length ms.
Proof.
  induction ms as [|m ms IH]; intros [|x xs] [|y ys] H; cbn [coords_le] in *; try contradiction; auto.
  destruct H as [_ H]. destruct (IH _ _ H). cbn; split; congruence.
Qed.

(* ------------------------------------------------------------------ *)
(* 1-D facts in the form used below                                    *)
Lemma vec_abs_bound v : Forall (fun w => - maxabs v <= w /\ w <= maxabs v) v.
Proof.
  apply Forall_forall. intros w Hw. unfold maxabs.
  pose proof (qmaxl_ge (map qabs v) (qabs w) (in_map qabs v w Hw)). revert H. qcases; lra.
Qed.
Lemma pwl1d_abs L v x : length v = L -> (2 <= L)%nat -> 0 <= x -> x <= qn L - 1 ->
  - maxabs v <= pwl1d L v x /\ pwl1d L v x <= maxabs v.
Proof.
  intros Hl HL H0 H1. rewrite (pwl1d_cell L v x Hl HL H0 H1).
  apply cell_between. destruct v; cbn in *; [lia|congruence]. apply vec_abs_bound. change (qn 0) with 0; exact H0.
Qed.
Lemma pwl1d_nonneg L v x : length v = L -> (2 <= L)%nat -> 0 <= x -> x <= qn L - 1 -> vnonneg v -> 0 <= pwl1d L v x.
Proof.
  intros Hl HL H0 H1 Hn. rewrite (pwl1d_cell L v x Hl HL H0 H1).
  apply (cell_between 0 (qmaxl v)). destruct v; cbn in *; [lia|congruence].
  apply Forall_forall. intros w Hw. split. unfold vnonneg in Hn. rewrite Forall_forall in Hn. auto. apply qmaxl_ge, Hw.
  change (qn 0) with 0; exact H0.
Qed.
Lemma pwl1d_mono L v x y : length v = L -> (2 <= L)%nat -> 0 <= x -> x <= y -> y <= qn L - 1 -> sorted v ->
  pwl1d L v x <= pwl1d L v y.
Proof.
  intros Hl HL H0 Hxy H1 Hs. rewrite (pwl1d_cell L v x Hl HL H0 ltac:(lra)), (pwl1d_cell L v y Hl HL ltac:(lra) H1).
  apply cell_mono; [assumption|change (qn 0) with 0; assumption|assumption].
Qed.
Lemma pwl1d_anti L v x y : length v = L -> (2 <= L)%nat -> 0 <= x -> x <= y -> y <= qn L - 1 -> rsorted v ->
  pwl1d L v y <= pwl1d L v x.
Proof.
  intros Hl HL H0 Hxy H1 Hs. rewrite (pwl1d_cell L v x Hl HL H0 ltac:(lra)), (pwl1d_cell L v y Hl HL ltac:(lra) H1).
  apply cell_anti; [assumption|change (qn 0) with 0; assumption|assumption].
Qed.

(* ------------------------------------------------------------------ *)
(* one term                                                            *)
Section Term.
Variable L : nat.
Hypothesis HL : (2 <= L)%nat.

Lemma factors_up : forall ms vs xs ys,
  Forall2 (fun (m : bool) v => m = true -> sorted v) ms vs -> tnonneg vs -> Forall (fun v => length v = L) vs ->
  coords_le ms xs ys -> in_range L xs -> in_range L ys ->
  Forall2 (fun a b => 0 <= a /\ a <= b) (map2 (pwl1d L) vs xs) (map2 (pwl1d L) vs ys).
Proof.
  intros ms vs xs ys H. revert xs ys. induction H as [|m v ms vs Hm _ IH]; intros [|x xs] [|y ys] Hn Hl Hc Hx Hy;
    cbn [coords_le map2] in *; try contradiction; try constructor.
  - inversion Hn; inversion Hl; inversion Hx as [|? ? [X0 X1]]; inversion Hy as [|? ? [Y0 Y1]]; subst.
    destruct Hc as [Hc _]. split. apply pwl1d_nonneg; auto.
    destruct m. apply pwl1d_mono; auto. subst y. lra.
  - inversion Hn; inversion Hl; inversion Hx; inversion Hy; subst. destruct Hc as [_ Hc]. apply IH; auto.
Qed.
Lemma factors_down : forall ms vs xs ys,
  Forall2 (fun (m : bool) v => m = true -> rsorted v) ms vs -> tnonneg vs -> Forall (fun v => length v = L) vs ->
  coords_le ms xs ys -> in_range L xs -> in_range L ys ->
  Forall2 (fun a b => 0 <= a /\ a <= b) (map2 (pwl1d L) vs ys) (map2 (pwl1d L) vs xs).
Proof.
  intros ms vs xs ys H. revert xs ys. induction H as [|m v ms vs Hm _ IH]; intros [|x xs] [|y ys] Hn Hl Hc Hx Hy;
    cbn [coords_le map2] in *; try contradiction; try constructor.
  - inversion Hn; inversion Hl; inversion Hx as [|? ? [X0 X1]]; inversion Hy as [|? ? [Y0 Y1]]; subst.
    destruct Hc as [Hc _]. split. apply pwl1d_nonneg; auto.
    destruct m. apply pwl1d_anti; auto. subst y. lra.
  - inversion Hn; inversion Hl; inversion Hx; inversion Hy; subst. destruct Hc as [_ Hc]. apply IH; auto.
Qed.

Lemma term_out_mono ms s vs xs ys : term_good ms s vs -> Forall (fun v => length v = L) vs ->
  coords_le ms xs ys -> in_range L xs -> in_range L ys -> term_out L xs s vs <= term_out L ys s vs.
Proof.
  intros [H|[(Hs & Hn & Hso)|(Hs & Hn & Hso)]] Hl Hc Hx Hy; unfold term_out.
  - rewrite H. lra.
  - destruct (qprod_le _ _ (factors_up ms vs xs ys Hso Hn Hl Hc Hx Hy)) as [_ H]. apply qmul_le_l; lra.
  - destruct (qprod_le _ _ (factors_down ms vs xs ys Hso Hn Hl Hc Hx Hy)) as [_ H]. apply qmul_le_l_neg; lra.
Qed.

Lemma factors_abs : forall vs xs, Forall (fun v => length v = L) vs -> length xs = length vs -> in_range L xs ->
  Forall2 (fun a m => - m <= a /\ a <= m) (map2 (pwl1d L) vs xs) (map maxabs vs).
Proof.
  induction vs as [|v vs IH]; intros [|x xs] Hl Hlen Hx; cbn [map2 map length] in *; try discriminate; constructor.
  - inversion Hl; inversion Hx as [|? ? [X0 X1]]; subst. apply pwl1d_abs; auto.
  - inversion Hl; inversion Hx; subst. apply IH; auto.
Qed.
Lemma term_out_abs dims s vs xs b : tshape L dims vs -> length xs = dims -> in_range L xs ->
  prodmax vs <= 1 -> - b <= s -> s <= b -> - b <= term_out L xs s vs /\ term_out L xs s vs <= b.
Proof.
  intros [Hd Hl] Hlen Hx Hp Hb1 Hb2. unfold term_out.
  assert (Hlen' : length xs = length vs) by congruence.
  destruct (qprod_abs _ _ (factors_abs vs xs Hl Hlen' Hx)) as [P1 P2]. fold (prodmax vs) in P1, P2.
  set (P := qprod (map2 (pwl1d L) vs xs)) in *.
  pose proof (qmul_nonneg (b - s) (1 + P) ltac:(lra) ltac:(lra)).
  pose proof (qmul_nonneg (b + s) (1 - P) ltac:(lra) ltac:(lra)).
  pose proof (qmul_nonneg (b - s) (1 - P) ltac:(lra) ltac:(lra)).
  pose proof (qmul_nonneg (b + s) (1 + P) ltac:(lra) ltac:(lra)).
  split; lra.
Qed.
Lemma factors_nonneg : forall vs xs, tnonneg vs -> Forall (fun v => length v = L) vs -> in_range L xs ->
  Forall2 (fun a b => 0 <= a /\ a <= b) (map2 (pwl1d L) vs xs) (map2 (pwl1d L) vs xs).
Proof.
  induction vs as [|v vs IH]; intros [|x xs] Hn Hl Hx; cbn [map2] in *; constructor.
  - inversion Hn; inversion Hl; inversion Hx as [|? ? [X0 X1]]; subst. split; [apply pwl1d_nonneg; auto|lra].
  - inversion Hn; inversion Hl; inversion Hx; subst. apply IH; auto.
Qed.
Lemma term_prod_nonneg vs xs : tnonneg vs -> Forall (fun v => length v = L) vs -> in_range L xs ->
  0 <= qprod (map2 (pwl1d L) vs xs).
Proof. intros Hn Hl Hx. destruct (qprod_le _ _ (factors_nonneg vs xs Hn Hl Hx)) as [H _]. exact H. Qed.
End Term.

Lemma qmean_nil : qmean [] == 0.
Proof. reflexivity. Qed.
Lemma qmean_between0 l lo hi : lo <= 0 -> 0 <= hi -> Forall (fun a => lo <= a /\ a <= hi) l -> lo <= qmean l /\ qmean l <= hi.
Proof.
  intros H1 H2 HF. destruct l as [|a l]. pose proof qmean_nil as Q0. split; lra.
  apply qmean_between. congruence. exact HF.
Qed.


Section Main.
Variable root : nat -> Q -> Q.
Hypothesis Hroot : root_ok root.

(* ------------------------------------------------------------------ *)
(* C07_monotone                                                        *)
Lemma unit_eval_mono clip L dims ms su ku b xs ys : (2 <= L)%nat ->
  Forall2 (fun s vs => tshape L dims vs /\ term_good ms s vs) su ku ->
  coords_le ms xs ys -> clip = true \/ (in_range L xs /\ in_range L ys) ->
  unit_eval clip L su ku b xs <= unit_eval clip L su ku b ys.
Proof.
  intros HL H Hc Hr. unfold unit_eval.
  assert (Hx : in_range L (map (clip_in clip L) xs)) by (apply clip_in_range; tauto).
  assert (Hy : in_range L (map (clip_in clip L) ys)) by (apply clip_in_range; tauto).
  pose proof (coords_le_clip clip L ms xs ys Hc) as Hc'.
  set (xs' := map (clip_in clip L) xs) in *. set (ys' := map (clip_in clip L) ys) in *.
  assert (Forall2 Qle (map2 (term_out L xs') su ku) (map2 (term_out L ys') su ku)).
  { induction H as [|s vs su ku [[_ Hsh] Hg] _ IH]; cbn [map2]; constructor; [|exact IH].
    apply (term_out_mono L HL ms); assumption. }
  pose proof (qmean_le _ _ H0). lra.
Qed.

Theorem kfl_monotone c dims p steps ms u xs ys :
  cfg_ok c dims -> shaped c dims p -> hasK steps = true ->
  canon_monos (c_monos c) = Some ms ->
  coords_le ms xs ys ->
  c_clip c = true \/ (in_range (c_size c) xs /\ in_range (c_size c) ys) ->
  unit_out c (run root c steps p) u xs <= unit_out c (run root c steps p) u ys.
Proof.
  intros Hc Hsh HK Em Hle Hr.
  destruct (Nat.eq_dec (count_true ms) 0) as [E0|E0].
  - rewrite (coords_le_no_mono ms xs ys E0 Hle). lra.
  - pose proof (run_good root Hroot c dims steps p Hc Hsh) as Hinv. rewrite HK in Hinv.
    unfold unit_out. set (p' := run root c steps p) in *.
    destruct (Nat.lt_ge_cases u (length (p_scale p'))) as [Hu|Hu].
    + pose proof (Forall2_nth _ _ _ u [] [] Hinv Hu) as Hu'. cbn beta in Hu'.
      destruct Hc as (HL & _). apply (unit_eval_mono _ _ dims ms); auto.
      eapply Forall2_impl. exact Hu'. cbn beta. intros s vs (H1 & H2 & _). split. exact H1.
      destruct (H2 eq_refl) as [H3 _]. apply H3. exact Em. lia.
    + rewrite (nth_overflow (p_scale p') [] Hu). unfold unit_eval. cbn [map2]. lra.
Qed.

(* ------------------------------------------------------------------ *)
(* C07_bounded                                                         *)
Lemma unit_eval_bounded c dims su ku b xs :
  cfg_ok c dims ->
  Forall2 (fun s vs => tshape (c_size c) dims vs /\ kgood c s vs /\ sgood c s) su ku ->
  length xs = dims -> c_clip c = true \/ in_range (c_size c) xs ->
  b == bias_init1 (c_min c) (c_max c) ->
  (forall lo, c_min c = Some lo -> lo <= unit_eval (c_clip c) (c_size c) su ku b xs) /\
  (forall hi, c_max c = Some hi -> unit_eval (c_clip c) (c_size c) su ku b xs <= hi).
Proof.
  intros (HL & Hd & Hb & _) H Hlen Hr Eb. unfold unit_eval.
  assert (Hx : in_range (c_size c) (map (clip_in (c_clip c) (c_size c)) xs)) by (apply clip_in_range; tauto).
  assert (Hlen' : length (map (clip_in (c_clip c) (c_size c)) xs) = dims) by (rewrite map_length; exact Hlen).
  set (xs' := map (clip_in (c_clip c) (c_size c)) xs) in *.
  unfold kgood, sgood, bias_init1, bounds_ok in *.
  destruct (c_min c) as [lo|] eqn:Emin, (c_max c) as [hi|] eqn:Emax; cbn [is_some] in *.
  - specialize (Hb lo hi eq_refl eq_refl).
    assert (HF : Forall (fun a => - ((hi - lo) * (1#2)) <= a /\ a <= (hi - lo) * (1#2)) (map2 (term_out (c_size c) xs') su ku)).
    { induction H as [|s vs su ku (Hsh & (_ & Hp & _) & Hs1 & Hs2) _ IH]; cbn [map2]; constructor; [|exact IH].
      apply (term_out_abs (c_size c) HL dims); auto. }
    assert (B1 : - ((hi - lo) * (1#2)) <= 0) by lra. assert (B2 : 0 <= (hi - lo) * (1#2)) by lra.
    destruct (qmean_between0 _ _ _ B1 B2 HF) as [M1 M2].
    split; intros b' E; injection E as <-; lra.
  - assert (HF : Forall (fun a => 0 <= a /\ a <= qmaxl (map2 (term_out (c_size c) xs') su ku)) (map2 (term_out (c_size c) xs') su ku)).
    { apply Forall_forall. intros a Ha. split; [|apply qmaxl_ge, Ha]. clear - H Ha HL Hx.
      induction H as [|s vs su ku (Hsh & (_ & _ & Hn) & Hs) _ IH]; cbn [map2] in Ha. contradiction.
      destruct Ha as [<-|Ha]; [|apply IH, Ha]. unfold term_out. apply qmul_nonneg. exact Hs.
      destruct Hsh as [_ Hl]. apply term_prod_nonneg; auto. apply Hn. discriminate. }
    destruct (map2 (term_out (c_size c) xs') su ku) as [|a l] eqn:El.
    + pose proof qmean_nil as Q0. split; intros b' E; [injection E as <-; lra|discriminate].
    + destruct (qmean_between (a :: l) _ _ ltac:(congruence) HF) as [M1 _].
      split; intros b' E; [injection E as <-; lra|discriminate].
  - assert (HF : Forall (fun a => qminl (map2 (term_out (c_size c) xs') su ku) <= a /\ a <= 0) (map2 (term_out (c_size c) xs') su ku)).
    { apply Forall_forall. intros a Ha. split; [apply qminl_le, Ha|]. clear - H Ha HL Hx.
      induction H as [|s vs su ku (Hsh & (_ & _ & Hn) & Hs) _ IH]; cbn [map2] in Ha. contradiction.
      destruct Ha as [<-|Ha]; [|apply IH, Ha]. unfold term_out.
      destruct Hsh as [_ Hl]. pose proof (term_prod_nonneg (c_size c) HL vs xs' (Hn ltac:(discriminate)) Hl Hx) as Hpn.
      pose proof (qmul_nonneg (- s) _ ltac:(lra) Hpn). lra. }
    destruct (map2 (term_out (c_size c) xs') su ku) as [|a l] eqn:El.
    + pose proof qmean_nil as Q0. split; intros b' E; [discriminate|injection E as <-; lra].
    + destruct (qmean_between (a :: l) _ _ ltac:(congruence) HF) as [_ M2].
      split; intros b' E; [discriminate|injection E as <-; lra].
  - split; intros b' E; discriminate.
Qed.

Theorem kfl_bounded c dims p steps u xs :
  cfg_ok c dims -> shaped c dims p -> hasK steps = true -> hasS steps = true ->
  (u < length (p_scale p))%nat ->
  nth u (p_bias p) 0 == bias_init1 (c_min c) (c_max c) ->
  length xs = dims -> c_clip c = true \/ in_range (c_size c) xs ->
  (forall lo, c_min c = Some lo -> lo <= unit_out c (run root c steps p) u xs) /\
  (forall hi, c_max c = Some hi -> unit_out c (run root c steps p) u xs <= hi).
Proof.
  intros Hc Hsh HK HS Hu Eb Hlen Hr.
  pose proof (run_good root Hroot c dims steps p Hc Hsh) as Hinv. rewrite HK, HS in Hinv.
  unfold unit_out. rewrite run_bias. set (p' := run root c steps p) in *.
  destruct (Nat.lt_ge_cases u (length (p_scale p'))) as [Hu'|Hu'].
  - pose proof (Forall2_nth _ _ _ u [] [] Hinv Hu') as H. cbn beta in H.
    apply (unit_eval_bounded c dims); auto.
    eapply Forall2_impl. exact H. cbn beta. intros s vs (H1 & H2 & H3). auto.
  - pose proof (Forall2_length _ _ _ Hinv) as El.
    rewrite (nth_overflow (p_scale p') [] Hu'). rewrite (nth_overflow (p_kern p') []) by lia.
    apply (unit_eval_bounded c dims); auto.
Qed.
End Main.


(* ------------------------------------------------------------------ *)
(* pointwise equality of weights                                       *)
Definition veq (a b : vec) : Prop := Forall2 Qeq a b.
Definition teq (a b : term) : Prop := Forall2 veq a b.

Lemma Forall2_refl {A} (R : A -> A -> Prop) : (forall x, R x x) -> forall l, Forall2 R l l.
Proof. intros H l. induction l; constructor; auto. Qed.
Lemma Forall2_comp {A B C} (R : A -> B -> Prop) (S : B -> C -> Prop) (T : A -> C -> Prop) :
  (forall x y z, R x y -> S y z -> T x z) -> forall a b c, Forall2 R a b -> Forall2 S b c -> Forall2 T a c.
Proof. intros H a b c H1. revert c. induction H1; intros c H2; inversion H2; subst; constructor; eauto. Qed.
Lemma Forall2_flip {A B} (R : A -> B -> Prop) (S : B -> A -> Prop) :
  (forall x y, R x y -> S y x) -> forall a b, Forall2 R a b -> Forall2 S b a.
Proof. intros H a b H1. induction H1; constructor; auto. Qed.
Lemma veq_refl v : veq v v. Proof. apply Forall2_refl. intros; reflexivity. Qed.
Lemma veq_sym a b : veq a b -> veq b a. Proof. apply Forall2_flip. intros; symmetry; assumption. Qed.
Lemma veq_trans a b c : veq a b -> veq b c -> veq a c.
Proof. apply Forall2_comp. intros x y z H1 H2. rewrite H1; exact H2. Qed.
Lemma teq_refl t : teq t t. Proof. apply Forall2_refl, veq_refl. Qed.
Lemma teq_trans a b c : teq a b -> teq b c -> teq a c.
Proof. apply Forall2_comp. apply veq_trans. Qed.

Lemma veq_map_id (P : Q -> Prop) g v : Forall P v -> (forall w, P w -> g w == w) -> veq (map g v) v.
Proof. induction 1; intros Hg; cbn [map]; constructor; auto. apply IHForall; assumption. Qed.
Lemma sorted_head_eq a a' r : a == a' -> sorted (a :: r) -> sorted (a' :: r).
Proof. intros E. destruct r as [|b r]. auto. cbn [sorted]. intros [H1 H2]. split; [lra|assumption]. Qed.
Lemma sorted_veq : forall a b, veq a b -> sorted a -> sorted b.
Proof.
  induction a as [|x a IH]; intros b H Hs; inversion H as [|? y ? b' Hxy Hab]; subst. exact I.
  destruct a as [|x' a']; inversion Hab as [|? y' ? b'' Hxy' Hab']; subst. exact I.
  cbn [sorted] in Hs. destruct Hs as [H1 H2]. cbn [sorted]. split. lra. apply (IH (y' :: b'')); assumption.
Qed.

(* a sorted vector is a fixed point of the 1-D monotonicity projection *)
Lemma cummax_from_fix : forall l m, sorted (m :: l) -> veq (cummax_from m l) l.
Proof.
  induction l as [|x r IH]; intros m Hs; cbn [cummax_from]. constructor.
  cbn [sorted] in Hs. destruct Hs as [Hmx Hs].
  assert (E : qmax x m == x) by (qcases; lra).
  constructor. exact E. apply IH. apply (sorted_head_eq x). symmetry; exact E. exact Hs.
Qed.
Lemma cummax_fix u : sorted u -> veq (cummax u) u.
Proof. destruct u as [|a r]; intros Hs; cbn [cummax]. constructor. constructor. reflexivity. apply cummax_from_fix, Hs. Qed.
Lemma avg_fix : forall c u, veq c u -> veq (map2 (fun a m => (a + m) * (1#2)) u c) u.
Proof. induction 1; cbn [map2]; constructor; auto. lra. Qed.
Lemma cummin_back_fix : forall h, sorted h -> veq (cummin_back h) h.
Proof.
  induction h as [|a r IH]; intros Hs. constructor. rewrite cummin_back_cons. destruct r as [|b r0].
  - cbn [cummin_back]. apply veq_refl.
  - cbn [sorted] in Hs. destruct Hs as [Hab Hs]. specialize (IH Hs).
    destruct (cummin_back (b :: r0)) as [|y l']; inversion IH as [|? ? ? ? Hy Hl]; subst.
    constructor. qcases; lra. constructor; assumption.
Qed.
Lemma mono_proj1_fix u : sorted u -> veq (mono_proj1 u) u.
Proof.
  intros Hs. unfold mono_proj1. pose proof (avg_fix _ _ (cummax_fix u Hs)) as Hh.
  set (h := map2 _ u (cummax u)) in *.
  apply veq_trans with h; [|exact Hh]. apply cummin_back_fix. apply (sorted_veq u h); [apply veq_sym, Hh|exact Hs].
Qed.

Lemma rsorted_map_anti g v : (forall x y, x <= y -> g y <= g x) -> rsorted v -> sorted (map g v).
Proof. intros Hg. induction v as [|a r IH]; intros H. exact I. destruct r as [|b r']. exact I.
  destruct H as [H1 H2]. split. apply Hg, H1. apply IH, H2. Qed.

Lemma pv_fix_pos m v : vnonneg v -> (m = true -> sorted v) -> veq (pv 1 m v) v.
Proof.
  intros Hn Hs. unfold pv.
  assert (Hu : veq (vscale 1 (map relu v)) v).
  { unfold vscale. rewrite map_map. apply (veq_map_id (fun w => 0 <= w)). exact Hn. intros w Hw. unfold relu. qcases; lra. }
  set (u := vscale 1 (map relu v)) in *.
  assert (H1 : forall x, veq (vscale 1 x) x).
  { intros x. unfold vscale. apply (veq_map_id (fun _ => True)). apply Forall_forall; auto. intros; lra. }
  destruct m.
  - apply veq_trans with (mono_proj1 u). apply H1. apply veq_trans with u; [|exact Hu].
    apply mono_proj1_fix. apply (sorted_veq v u). apply veq_sym, Hu. auto.
  - apply veq_trans with u. apply H1. exact Hu.
Qed.
Lemma vscale_neg_fix : forall x v, Forall2 (fun a w => a == - w) x v -> veq (vscale (-1) x) v.
Proof. unfold vscale. induction 1; cbn [map]; constructor; auto. lra. Qed.
Lemma pv_fix_neg m v : vnonneg v -> (m = true -> rsorted v) -> veq (pv (-1) m v) v.
Proof.
  intros Hn Hs. unfold pv.
  assert (Hu : Forall2 (fun x w => x == - w) (vscale (-1) (map relu v)) v).
  { unfold vscale. rewrite map_map. clear Hs. induction Hn; cbn [map]; constructor; auto. unfold relu. qcases; lra. }
  assert (Hso : m = true -> sorted (vscale (-1) (map relu v))).
  { intros E. unfold vscale. rewrite map_map. apply rsorted_map_anti; auto. intros x y H. unfold relu. qcases; lra. }
  set (u := vscale (-1) (map relu v)) in *.
  pose proof (fun x => vscale_neg_fix x v) as H1.
  destruct m.
  - apply H1. apply (Forall2_comp Qeq (fun x w => x == - w)) with u.
    intros x y z E1 E2. lra. apply mono_proj1_fix; auto. exact Hu.
  - apply H1. exact Hu.
Qed.

Lemma map2_pv_fix dir (P : bool -> vec -> Prop) :
  (forall m v, vnonneg v -> P m v -> veq (pv dir m v) v) ->
  forall ms w, Forall2 P ms w -> tnonneg w -> teq (map2 (fun v m => pv dir m v) w ms) w.
Proof.
  intros H ms w HF. induction HF as [|m v ms w Hp _ IH]; intros Hn; cbn [map2]. constructor.
  inversion Hn; subst. constructor; auto. apply IH; assumption.
Qed.
Lemma mono_stage_fix ms s w : ~ s == 0 -> term_good ms s w -> teq (project_mono_term ms s (clip0 w)) w.
Proof.
  intros Hs Hg. rewrite project_mono_term_pv. destruct Hg as [H|[(H1 & Hn & Hso)|(H1 & Hn & Hso)]]. contradiction.
  - destruct (qsgn_cases s) as [[_ ->]|[[H2 _]|[H2 _]]]; try lra.
    apply (map2_pv_fix 1 (fun (m : bool) v => m = true -> sorted v)); auto. intros; apply pv_fix_pos; auto.
  - destruct (qsgn_cases s) as [[H2 _]|[[_ ->]|[H2 _]]]; try lra.
    apply (map2_pv_fix (-1) (fun (m : bool) v => m = true -> rsorted v)); auto. intros; apply pv_fix_neg; auto.
Qed.

(* proper-ness of the reductions used by the bounds stage *)
Lemma fold_qmax_proper : forall l l', Forall2 Qeq l l' -> forall a a', a == a' -> fold_left qmax l a == fold_left qmax l' a'.
Proof. induction 1; intros a a' E; cbn [fold_left]. exact E. apply IHForall2. apply qmax_proper; assumption. Qed.
Lemma maxabs_proper a b : veq a b -> maxabs a == maxabs b.
Proof.
  intros H. unfold maxabs. destruct H as [|x y a b Hxy Hab]; cbn [map qmaxl]. reflexivity.
  apply fold_qmax_proper. induction Hab; cbn [map]; constructor; auto. apply qabs_proper; assumption.
  apply qabs_proper; assumption.
Qed.
Lemma prodmax_proper a b : teq a b -> prodmax a == prodmax b.
Proof. unfold prodmax. induction 1; cbn [map qprod]. reflexivity. rewrite (maxabs_proper _ _ H), IHForall2. reflexivity. Qed.
Lemma teq_map_id g t : (forall w, g w == w) -> teq (map (map g) t) t.
Proof.
  intros Hg. induction t as [|v t IH]; cbn [map]; constructor; auto.
  apply (veq_map_id (fun _ => True)). apply Forall_forall; auto. auto.
Qed.
Lemma teq_relu t w : teq t w -> tnonneg w -> teq (clip0 t) w.
Proof.
  unfold clip0. induction 1 as [|a b t w Hab _ IH]; intros Hn; cbn [map]. constructor.
  inversion Hn as [|? ? Hb Hw]; subst. constructor; [|apply IH; assumption].
  clear - Hab Hb. induction Hab; cbn [map]; constructor.
  inversion Hb; subst. qcases; lra. inversion Hb; subst. apply IHHab; assumption.
Qed.

Section Root.
Variable root : nat -> Q -> Q.
Hypothesis Hroot : root_ok root.

Lemma bounds_stage_fix omin omax t w : (1 <= length t)%nat -> teq t w ->
  (is_some omin = true -> is_some omax = true -> prodmax w <= 1) ->
  (is_some omin <> is_some omax -> tnonneg w) ->
  teq (if is_some omin || is_some omax then project_bounds_term root omin omax t else t) w.
Proof.
  intros Hd Ht H2 H1. destruct omin as [lo|], omax as [hi|]; cbn [is_some orb project_bounds_term].
  - apply teq_trans with t; [|exact Ht]. apply teq_map_id. intros x.
    assert (E : qmax (prodmax t) 1 == 1).
    { rewrite (prodmax_proper _ _ Ht). specialize (H2 eq_refl eq_refl). qcases; lra. }
    destruct (Hroot (length t) (qmax (prodmax t) 1) Hd (qmax_r _ _)) as (_ & _ & Hone).
    rewrite (Hone E). unfold Qdiv. change (/ 1) with 1. ring.
  - apply teq_relu. exact Ht. apply H1. discriminate.
  - apply teq_relu. exact Ht. apply H1. discriminate.
  - exact Ht.
Qed.

(* the kernel constraint is idempotent on every term whose scale is not zero
   (a zero scale zeroes the weights; see kt_zero below) *)
Lemma Kt_settled c dims s vs : cfg_ok c dims -> tshape (c_size c) dims vs ->
  s == 0 \/ teq (Kt root c s (Kt root c s vs)) (Kt root c s vs).
Proof.
  intros Hc Hsh. destruct (Qeq_dec s 0) as [E|E]; [left; exact E|right].
  destruct (Kt_good root Hroot c dims s vs Hc Hsh) as [Hshw (G1 & G2 & G3)].
  destruct Hc as (HL & Hd & Hb & Hms).
  set (w := Kt root c s vs) in *. unfold Kt at 1. unfold finalize_weights_term.
  assert (Hlen : length w = dims) by (destruct Hshw; assumption).
  destruct (canon_monos (c_monos c)) as [ms|] eqn:Em.
  - destruct (0 <? count_true ms)%nat eqn:Ec.
    + apply Nat.ltb_lt in Ec. pose proof (mono_stage_fix ms s w E (G1 ms eq_refl Ec)) as Hm.
      apply bounds_stage_fix; auto. rewrite (Forall2_length _ _ _ Hm). lia.
    + apply bounds_stage_fix; auto. lia. apply teq_refl.
  - apply bounds_stage_fix; auto. lia. apply teq_refl.
Qed.
Lemma Kt_sign c s s' vs : qsgn s = qsgn s' -> Kt root c s vs = Kt root c s' vs.
Proof. intros E. unfold Kt, finalize_weights_term, project_mono_term. rewrite E. reflexivity. Qed.
End Root.


(* ------------------------------------------------------------------ *)
(* relating two parameter sets entry by entry                          *)
Fixpoint rel4 {A B} (R : A -> B -> A -> B -> Prop) (a : list A) (b : list B) (a' : list A) (b' : list B) : Prop :=
  match a, b, a', b' with
  | [], [], [], [] => True
  | x :: a1, y :: b1, x' :: a1', y' :: b1' => R x y x' y' /\ rel4 R a1 b1 a1' b1'
  | _, _, _, _ => False
  end.
Lemma rel4_K {A B} (P : A -> B -> Prop) (R : A -> B -> A -> B -> Prop) (f : A -> B -> B) a b :
  Forall2 P a b -> (forall x y, P x y -> R x y x (f x y)) -> rel4 R a b a (map2 f a b).
Proof. intros H HR. induction H; cbn [map2 rel4]; auto. Qed.
Lemma rel4_S {A B} (P : A -> B -> Prop) (R : A -> B -> A -> B -> Prop) (g : A -> A) a b :
  Forall2 P a b -> (forall x y, P x y -> R x y (g x) y) -> rel4 R a b (map g a) b.
Proof. intros H HR. induction H; cbn [map rel4]; auto. Qed.
Lemma rel4_id {A B} (P : A -> B -> Prop) (R : A -> B -> A -> B -> Prop) a b :
  Forall2 P a b -> (forall x y, P x y -> R x y x y) -> rel4 R a b a b.
Proof. intros H HR. induction H; cbn [rel4]; auto. Qed.
Lemma rel4_trans {A B} (R : A -> B -> A -> B -> Prop) :
  (forall x y x' y' x'' y'', R x y x' y' -> R x' y' x'' y'' -> R x y x'' y'') ->
  forall a b a' b' a'' b'', rel4 R a b a' b' -> rel4 R a' b' a'' b'' -> rel4 R a b a'' b''.
Proof.
  intros HR. induction a as [|x a IH]; intros [|y b] [|x' a'] [|y' b'] [|x'' a''] [|y'' b''] H1 H2;
    cbn [rel4] in *; try contradiction; auto.
  destruct H1, H2. split; eauto.
Qed.
Lemma rel4_nth {A B} (R : A -> B -> A -> B -> Prop) :
  forall a b a' b' u, rel4 (rel4 R) a b a' b' -> rel4 R (nth u a []) (nth u b []) (nth u a' []) (nth u b' []).
Proof.
  induction a as [|x a IH]; intros [|y b] [|x' a'] [|y' b'] u H; cbn [rel4] in H; try contradiction.
  - destruct u; exact I.
  - destruct H as [H1 H2]. destruct u; cbn [nth]. exact H1. apply IH, H2.
Qed.

(* Two states of one (unit, term) are equivalent when the scales agree and,
   unless that scale is zero, the weights agree. *)
Definition tequiv (s : Q) (vs : term) (s' : Q) (vs' : term) : Prop := s' == s /\ (s == 0 \/ teq vs' vs).
Definition params_equiv (p q : params) : Prop :=
  rel4 (rel4 tequiv) (p_scale p) (p_kern p) (p_scale q) (p_kern q) /\ p_bias q = p_bias p.
Lemma tequiv_trans s vs s' vs' s'' vs'' : tequiv s vs s' vs' -> tequiv s' vs' s'' vs'' -> tequiv s vs s'' vs''.
Proof.
  intros [E1 H1] [E2 H2]. split. rewrite E2; exact E1.
  destruct H1 as [H1|H1]; [left; exact H1|]. destruct H2 as [H2|H2]; [left; rewrite <- E1; exact H2|].
  right. apply teq_trans with vs'; assumption.
Qed.
Lemma params_equiv_trans p q r : params_equiv p q -> params_equiv q r -> params_equiv p r.
Proof.
  intros [H1 B1] [H2 B2]. split; [|congruence].
  eapply (rel4_trans (rel4 tequiv)); [|exact H1|exact H2].
  intros. eapply (rel4_trans tequiv); eauto. intros; eapply tequiv_trans; eauto.
Qed.

(* ------------------------------------------------------------------ *)
(* equivalent parameters give the same output                          *)
Lemma dot_proper : forall w v v', veq v v' -> qsum (map2 Qmult w v) == qsum (map2 Qmult w v').
Proof.
  intros w v v' H. revert w. induction H as [|x y v v' Hxy _ IH]; intros [|a w]; cbn [map2 qsum]; try reflexivity.
  rewrite Hxy, (IH w). reflexivity.
Qed.
Lemma factors_proper L xs : forall vs vs', teq vs vs' ->
  qprod (map2 (pwl1d L) vs xs) == qprod (map2 (pwl1d L) vs' xs).
Proof.
  intros vs vs' H. revert xs. induction H as [|v v' vs vs' Hv _ IH]; intros [|x xs]; cbn [map2 qprod]; try reflexivity.
  unfold pwl1d at 1 3. rewrite (dot_proper _ _ _ Hv), (IH xs). reflexivity.
Qed.
Lemma term_out_equiv L xs s vs s' vs' : tequiv s vs s' vs' -> term_out L xs s' vs' == term_out L xs s vs.
Proof.
  intros [E [H|H]]; unfold term_out; rewrite E.
  - rewrite H. ring.
  - rewrite (factors_proper L xs _ _ H). reflexivity.
Qed.
Lemma qsum_proper l l' : Forall2 Qeq l l' -> qsum l == qsum l'.
Proof. induction 1; cbn [qsum]. reflexivity. rewrite H, IHForall2. reflexivity. Qed.
Lemma qmean_proper l l' : Forall2 Qeq l l' -> qmean l == qmean l'.
Proof. intros H. unfold qmean. rewrite (qsum_proper _ _ H), (Forall2_length _ _ _ H). reflexivity. Qed.
Lemma terms_equiv L xs : forall su ku su' ku', rel4 tequiv su ku su' ku' ->
  Forall2 Qeq (map2 (term_out L xs) su' ku') (map2 (term_out L xs) su ku).
Proof.
  induction su as [|s su IH]; intros [|vs ku] [|s' su'] [|vs' ku'] H; cbn [rel4] in H; try contradiction; cbn [map2].
  constructor. destruct H as [H1 H2]. constructor. apply term_out_equiv, H1. apply IH, H2.
Qed.
Theorem equiv_same_output c p q u xs : params_equiv p q -> unit_out c q u xs == unit_out c p u xs.
Proof.
  intros [H B]. unfold unit_out, unit_eval. rewrite B.
  rewrite (qmean_proper _ _ (terms_equiv _ _ _ _ _ _ (rel4_nth tequiv _ _ _ _ u H))). reflexivity.
Qed.

Section Root.
Variable root : nat -> Q -> Q.
Hypothesis Hroot : root_ok root.

(* instance 2 of the invariant argument: fixed points *)
Definition settledK (c : config) (s : Q) (vs : term) : Prop := s == 0 \/ teq (Ktg root c s vs) vs.
Definition settledS (c : config) (s : Q) : Prop := S1 c s == s.

Lemma qsgn_zero x : qsgn x = 0 -> x == 0.
Proof. destruct (qsgn_cases x) as [[_ ->]|[[_ ->]|[H _]]]; [discriminate|discriminate|auto]. Qed.
Lemma S1_keeps_sign c s : bounds_ok (c_min c) (c_max c) -> S1 c s == 0 \/ qsgn (S1 c s) = qsgn s.
Proof.
  intros Hb. unfold S1. destruct (finalize_scale1_qsgn (c_min c) (c_max c) s Hb) as [H|H].
  right; exact H. left; apply qsgn_zero, H.
Qed.
Lemma Ktg_sign c s s' vs : qsgn s = qsgn s' -> Ktg root c s vs = Ktg root c s' vs.
Proof. intros E. unfold Ktg. destruct (gate c); [apply Kt_sign, E|reflexivity]. Qed.

Lemma settled_HK c dims : cfg_ok c dims -> forall s vs, tshape (c_size c) dims vs ->
  tshape (c_size c) dims (Ktg root c s vs) /\ settledK c s (Ktg root c s vs).
Proof.
  intros Hc s vs Hsh. unfold settledK, Ktg. destruct (gate c) eqn:G.
  - split. apply (Kt_good root Hroot c dims s vs Hc Hsh). apply (Kt_settled root Hroot c dims); assumption.
  - split. exact Hsh. right. apply teq_refl.
Qed.
Lemma settled_HKS c : bounds_ok (c_min c) (c_max c) -> forall s vs, settledK c s vs -> settledK c (S1 c s) vs.
Proof.
  intros Hb s vs H. unfold settledK in *. destruct H as [H|H].
  - left. destruct (finalize_scale1_sign (c_min c) (c_max c) s Hb) as [P N]. fold (S1 c s) in P, N.
    destruct (Qlt_le_dec 0 (S1 c s)) as [H1|H1]. specialize (P H1); lra.
    destruct (Qlt_le_dec (S1 c s) 0) as [H2|H2]. specialize (N H2); lra. lra.
  - destruct (S1_keeps_sign c s Hb) as [E|E]. left; exact E.
    right. rewrite (Ktg_sign c _ _ vs E). exact H.
Qed.
Lemma settled_HS c : bounds_ok (c_min c) (c_max c) -> forall s, settledS c (S1 c s).
Proof. intros Hb s. unfold settledS, S1. apply finalize_scale1_idem, Hb. Qed.

Lemma run_settled c dims steps p : cfg_ok c dims -> shaped c dims p ->
  inv c dims (settledK c) (settledS c) (hasK steps) (hasS steps) (run root c steps p).
Proof.
  intros Hc Hsh. pose proof Hc as (_ & _ & Hb & _). apply run_establishes; auto.
  - apply settled_HK, Hc.
  - apply settled_HKS, Hb.
  - apply settled_HS, Hb.
Qed.

(* one more application of anything changes nothing (up to equivalence) *)
Lemma settled_opK c dims p : inv c dims (settledK c) (settledS c) true true p -> params_equiv p (opK root c p).
Proof.
  intros H. unfold params_equiv, opK. cbn [p_kern p_scale p_bias]. split; [|reflexivity].
  unfold kfl_constraints_call. fold (gate c). destruct (gate c) eqn:G.
  - unfold finalize_weights. eapply rel4_K. exact H. cbn beta. intros su ku Hu.
    eapply rel4_K. exact Hu. cbn beta. intros s vs (_ & Hk & _). specialize (Hk eq_refl).
    unfold settledK, Ktg in Hk. rewrite G in Hk. split. reflexivity. exact Hk.
  - eapply rel4_id. exact H. cbn beta. intros su ku Hu. eapply rel4_id. exact Hu. cbn beta.
    intros s vs _. split. reflexivity. right. apply teq_refl.
Qed.
Lemma settled_opS c dims p : inv c dims (settledK c) (settledS c) true true p -> params_equiv p (opS c p).
Proof.
  intros H. unfold params_equiv, opS. cbn [p_kern p_scale p_bias]. split; [|reflexivity].
  unfold scale_constraints_call. destruct (has_bounds c) eqn:G.
  - eapply rel4_S. exact H. cbn beta. intros su ku Hu. eapply rel4_S. exact Hu. cbn beta.
    intros s vs (_ & _ & Hs). specialize (Hs eq_refl). split. exact Hs. right. apply teq_refl.
  - eapply rel4_id. exact H. cbn beta. intros su ku Hu. eapply rel4_id. exact Hu. cbn beta.
    intros s vs _. split. reflexivity. right. apply teq_refl.
Qed.
Lemma settled_run c dims : cfg_ok c dims -> forall more p, inv c dims (settledK c) (settledS c) true true p ->
  params_equiv p (run root c more p).
Proof.
  intros Hc. pose proof Hc as (_ & _ & Hb & _).
  assert (HK := settled_HK c dims Hc). assert (HKS := settled_HKS c Hb). assert (HS := settled_HS c Hb).
  induction more as [|st more IH]; intros p H.
  - cbn. split; [|reflexivity]. eapply rel4_id. exact H. cbn beta. intros su ku Hu. eapply rel4_id. exact Hu.
    cbn beta. intros s vs _. split. reflexivity. right. apply teq_refl.
  - unfold run. cbn [fold_left]. fold (run root c more (apply_step root c p st)). rewrite apply_step_ops.
    pose proof (inv_opK root c dims _ _ HK true true p H) as IK.
    pose proof (inv_opS c dims _ _ HKS HS true true p H) as IS.
    destruct st.
    + eapply params_equiv_trans. apply (settled_opK c dims p H). apply IH, IK.
    + eapply params_equiv_trans. apply (settled_opS c dims p H). apply IH, IS.
    + pose proof (inv_opS c dims _ _ HKS HS true true _ IK) as IKS.
      eapply params_equiv_trans. apply (settled_opK c dims p H).
      eapply params_equiv_trans. apply (settled_opS c dims _ IK). apply IH, IKS.
Qed.
Lemma run_app c steps more p : run root c (steps ++ more) p = run root c more (run root c steps p).
Proof. unfold run. apply fold_left_app. Qed.

Theorem kfl_idempotent c dims p steps more :
  cfg_ok c dims -> shaped c dims p -> hasK steps = true -> hasS steps = true ->
  params_equiv (run root c steps p) (run root c (steps ++ more) p).
Proof.
  intros Hc Hsh HK HS. rewrite run_app. apply (settled_run c dims Hc).
  pose proof (run_settled c dims steps p Hc Hsh) as H. rewrite HK, HS in H. exact H.
Qed.

(* the kernel constraint applied before or after the scale constraint *)
Lemma rel4_order {A B} (P : A -> B -> Prop) (R : A -> B -> A -> B -> Prop) (g : A -> A) (f : A -> B -> B) a b :
  Forall2 P a b -> (forall x y, P x y -> R (g x) (f x y) (g x) (f (g x) y)) ->
  rel4 R (map g a) (map2 f a b) (map g a) (map2 f (map g a) b).
Proof. intros H HR. induction H; cbn [map map2 rel4]; auto. Qed.
Lemma rel4_same {A B} (P : A -> B -> Prop) (R : A -> B -> A -> B -> Prop) (f : A -> B -> B) a b :
  Forall2 P a b -> (forall x y, P x y -> R x (f x y) x (f x y)) -> rel4 R a (map2 f a b) a (map2 f a b).
Proof. intros H HR. induction H; cbn [map2 rel4]; auto. Qed.

Theorem kfl_order_irrelevant c dims p : cfg_ok c dims -> shaped c dims p ->
  params_equiv (run root c [StepK; StepS] p) (run root c [StepS; StepK] p).
Proof.
  intros Hc Hsh. pose proof Hc as (_ & _ & Hb & _). unfold run. cbn [fold_left]. rewrite !apply_step_ops.
  unfold params_equiv, opK, opS. cbn [p_kern p_scale p_bias]. split; [|reflexivity].
  unfold scale_constraints_call, kfl_constraints_call. fold (gate c).
  assert (Hrefl : forall s vs, tequiv s vs s vs) by (intros; split; [reflexivity|right; apply teq_refl]).
  set (Sk := fun (su : list Q) (ku : list term) => Forall2 (fun (_ : Q) (_ : term) => True) su ku).
  assert (Hsk : Forall2 Sk (p_scale p) (p_kern p)).
  { eapply Forall2_impl. exact Hsh. cbn beta. intros su ku Hu. eapply Forall2_impl. exact Hu. auto. }
  destruct (has_bounds c) eqn:GS; destruct (gate c) eqn:GK.
  - unfold finalize_weights. eapply rel4_order. exact Hsk. cbn beta. intros su ku Hu.
    eapply rel4_order. exact Hu. cbn beta. intros s vs _.
    fold (S1 c s). split. reflexivity. destruct (S1_keeps_sign c s Hb) as [E|E]. left; exact E.
    right. fold (Kt root c (S1 c s) vs). fold (Kt root c s vs). rewrite (Kt_sign root c _ _ vs E). apply teq_refl.
  - eapply rel4_id with (P := Sk).
    + eapply Forall2_map_l. exact Hsk. cbn beta. intros su ku Hu. eapply Forall2_map_l. exact Hu. auto.
    + intros su ku Hu. eapply rel4_id. exact Hu. auto.
  - unfold finalize_weights. eapply rel4_same. exact Hsk. cbn beta. intros su ku Hu.
    eapply rel4_same. exact Hu. auto.
  - eapply rel4_id. exact Hsk. intros su ku Hu. eapply rel4_id. exact Hu. auto.
Qed.
End Root.


(* the root hypothesis is satisfiable (by a crude upper root) *)
Lemma qpow_ge1 x d : 1 <= x -> 1 <= qpow x d.
Proof. intros H. induction d as [|d IH]; cbn [qpow]. lra. pose proof (qmul_le_l x 1 (qpow x d) ltac:(lra) IH). lra. Qed.
Lemma root_ok_id : root_ok (fun _ x => x).
Proof.
  intros d x Hd Hx. split; [exact Hx|split; [|auto]].
  destruct d as [|d]. lia. cbn [qpow]. pose proof (qpow_ge1 x d Hx).
  pose proof (qmul_le_l x 1 (qpow x d) ltac:(lra) H). lra.
Qed.

(* moving one monotone coordinate up *)
Lemma coords_le_refl : forall ms xs, length xs = length ms -> coords_le ms xs xs.
Proof.
  induction ms as [|m ms IH]; intros [|x xs] H; cbn in *; try discriminate; auto.
  split. destruct m; [lra|reflexivity]. apply IH. lia.
Qed.
Lemma coords_le_set_nth : forall ms xs d y, length xs = length ms -> nth d ms false = true -> nth d xs 0 <= y ->
  coords_le ms xs (set_nth d y xs).
Proof.
  induction ms as [|m ms IH]; intros [|x xs] d y Hl Hm Hy; cbn [length] in *; try discriminate.
  - destruct d; discriminate.
  - destruct d as [|d]; cbn [nth set_nth coords_le] in *.
    + subst m. split. exact Hy. apply coords_le_refl. lia.
    + split. destruct m; [lra|reflexivity]. apply IH; auto.
Qed.

Section Root.
Variable root : nat -> Q -> Q.
Hypothesis Hroot : root_ok root.
Theorem kfl_monotone_single c dims p steps ms u xs d y :
  cfg_ok c dims -> shaped c dims p -> hasK steps = true ->
  canon_monos (c_monos c) = Some ms -> length xs = dims ->
  nth d ms false = true -> nth d xs 0 <= y ->
  c_clip c = true \/ (in_range (c_size c) xs /\ in_range (c_size c) (set_nth d y xs)) ->
  unit_out c (run root c steps p) u xs <= unit_out c (run root c steps p) u (set_nth d y xs).
Proof.
  intros Hc Hsh HK Em Hl Hm Hy Hr. apply (kfl_monotone root Hroot c dims p steps ms); auto.
  apply coords_le_set_nth; auto. destruct Hc as (_ & _ & _ & H). rewrite (H ms Em). exact Hl.
Qed.
End Root.

(* ------------------------------------------------------------------ *)
(* concrete witnesses                                                  *)
Definition wit_cfg : config := mkCfg 2 (Some [true]) (Some 0) None true.
Definition wit_par : params := mkPar [[ [[1; 2]] ]] [[ -1 ]] [0].
Lemma wit_cfg_ok : cfg_ok wit_cfg 1.
Proof.
  split; [cbn; lia|split; [lia|split]].
  - intros lo hi _ H; discriminate.
  - intros ms E. injection E as <-. reflexivity.
Qed.
Lemma wit_shaped : shaped wit_cfg 1 wit_par.
Proof. repeat constructor. Qed.
Lemma idempotent_params_witness : exists c p,
  cfg_ok c 1 /\ shaped c 1 p /\
  ~ Forall2 (Forall2 teq) (p_kern (run qroot c [StepK; StepS] p))
                          (p_kern (run qroot c [StepK; StepS; StepK] p)).
Proof.
  exists wit_cfg, wit_par. split; [exact wit_cfg_ok|split; [exact wit_shaped|]].
  intros H. vm_compute in H.
  inversion H as [|? ? ? ? H1 _]; subst. inversion H1 as [|? ? ? ? H2 _]; subst.
  inversion H2 as [|? ? ? ? H3 _]; subst. inversion H3 as [|? ? ? ? H4 _]; subst.
  vm_compute in H4. discriminate H4.
Qed.
Lemma hypotheses_witness : exists root c dims p steps ms xs ys,
  root_ok root /\ cfg_ok c dims /\ shaped c dims p /\ hasK steps = true /\ hasS steps = true /\
  canon_monos (c_monos c) = Some ms /\ coords_le ms xs ys /\
  in_range (c_size c) xs /\ in_range (c_size c) ys /\ length xs = dims /\
  (0 < length (p_scale p))%nat /\ nth 0 (p_bias p) 0 == bias_init1 (c_min c) (c_max c).
Proof.
  exists (fun _ x => x), wit_cfg, 1%nat, wit_par, [StepK; StepS], [true], [1#2], [1].
  split; [exact root_ok_id|split; [exact wit_cfg_ok|split; [exact wit_shaped|]]].
  split; [reflexivity|split; [reflexivity|split; [reflexivity|]]].
  split. { cbn. split; [lra|exact I]. }
  split. { constructor; [|constructor]. change (qn (c_size wit_cfg)) with 2. lra. }
  split. { constructor; [|constructor]. change (qn (c_size wit_cfg)) with 2. lra. }
  split; [reflexivity|split; [cbn; lia|cbn; lra]].
Qed.
