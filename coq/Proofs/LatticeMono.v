(* _approximately_project_monotonicity (Model/LatticeFinalize.v: approx_mono):
   the result is monotone along every requested dimension, a monotone kernel is
   left unchanged, and the values at valid indices depend only on the values
   of the input at valid indices.  All ranks / sizes, no bounds. *)
From TFL Require Import Proofs.LatticeSpecFacts.
Open Scope Q_scope.

(* ------------------------------------------------------------------ *)
(* mono_dims                                                            *)
(* ------------------------------------------------------------------ *)
Lemma mono_dims_from_spec ms : forall k d,
  In d (mono_dims_from k ms) <-> (k <= d)%nat /\ (d - k < length ms)%nat /\ nth (d - k) ms 0%Z <> 0%Z.
Proof. induction ms as [|m r IH]; intros k d; cbn [mono_dims_from length].
  - split. intros []. intros (_ & H & _). lia.
  - destruct (Z.eqb_spec m 0) as [E|E].
    + rewrite IH. split.
      * intros (H1 & H2 & H3). split; [lia|]. split; [lia|].
        replace (d - k)%nat with (S (d - S k)) by lia. exact H3.
      * intros (H1 & H2 & H3). destruct (Nat.eq_dec d k) as [->|Hne].
        { rewrite Nat.sub_diag in H3. cbn in H3. congruence. }
        split; [lia|]. split; [lia|]. replace (d - k)%nat with (S (d - S k)) in H3 by lia. exact H3.
    + cbn [In]. rewrite IH. split.
      * intros [<-|(H1 & H2 & H3)].
        { rewrite Nat.sub_diag. cbn. split; [lia|]. split; [lia|exact E]. }
        split; [lia|]. split; [lia|]. replace (d - k)%nat with (S (d - S k)) by lia. exact H3.
      * intros (H1 & H2 & H3). destruct (Nat.eq_dec d k) as [->|Hne]. left; reflexivity.
        right. split; [lia|]. split; [lia|]. replace (d - k)%nat with (S (d - S k)) in H3 by lia. exact H3.
Qed.

Lemma mono_dims_spec ms d : In d (mono_dims ms) <-> (d < length ms)%nat /\ nth d ms 0%Z <> 0%Z.
Proof. unfold mono_dims. rewrite mono_dims_from_spec. rewrite Nat.sub_0_r. split.
  intros (_ & H & H'); auto. intros [H H']; repeat split; auto; lia. Qed.

(* ------------------------------------------------------------------ *)
(* suffix min / prefix max                                              *)
(* ------------------------------------------------------------------ *)
Lemma sufmin_le f i d : forall n k j, (k <= j <= k + n)%nat -> sufmin f i d k n <= f (upd i d j).
Proof. induction n as [|n IH]; intros k j Hj; cbn [sufmin].
  - assert (j = k) by lia; subst. lra.
  - destruct (qmin_spec (f (upd i d k)) (sufmin f i d (S k) n)) as [[H ->]|[H ->]].
    + destruct (Nat.eq_dec j k) as [->|Hne]. lra. specialize (IH (S k) j ltac:(lia)). lra.
    + destruct (Nat.eq_dec j k) as [->|Hne]. lra. apply IH; lia.
Qed.
Lemma sufmin_glb f i d c : forall n k,
  (forall j, (k <= j <= k + n)%nat -> c <= f (upd i d j)) -> c <= sufmin f i d k n.
Proof. induction n as [|n IH]; intros k H; cbn [sufmin]. apply H; lia.
  destruct (qmin_spec (f (upd i d k)) (sufmin f i d (S k) n)) as [[_ ->]|[_ ->]].
  apply H; lia. apply IH. intros j Hj. apply H; lia. Qed.
Lemma sufmin_ext f g i d : forall n k,
  (forall j, (k <= j <= k + n)%nat -> f (upd i d j) == g (upd i d j)) -> sufmin f i d k n == sufmin g i d k n.
Proof. induction n as [|n IH]; intros k H; cbn [sufmin]. apply H; lia.
  rewrite (H k) by lia. rewrite (IH (S k)). reflexivity. intros j Hj. apply H; lia. Qed.

Lemma prefmax_ge f i d : forall k j, (j <= k)%nat -> f (upd i d j) <= prefmax f i d k.
Proof. induction k as [|k IH]; intros j Hj; cbn [prefmax].
  - assert (j = 0%nat) by lia; subst. lra.
  - destruct (Nat.eq_dec j (S k)) as [->|Hne]. apply qmax_l.
    eapply Qle_trans. apply IH; lia. apply qmax_r. Qed.
Lemma prefmax_lub f i d c : forall k,
  (forall j, (j <= k)%nat -> f (upd i d j) <= c) -> prefmax f i d k <= c.
Proof. induction k as [|k IH]; intros H; cbn [prefmax]. apply H; lia.
  apply qmax_lub. apply H; lia. apply IH. intros j Hj. apply H; lia. Qed.
Lemma prefmax_ext f g i d : forall k,
  (forall j, (j <= k)%nat -> f (upd i d j) == g (upd i d j)) -> prefmax f i d k == prefmax g i d k.
Proof. induction k as [|k IH]; intros H; cbn [prefmax]. apply H; lia.
  rewrite (H (S k)) by lia. rewrite IH. reflexivity. intros j Hj. apply H; lia. Qed.

Lemma cummin_val sh d f i : valid sh i ->
  cummin sh d f i = sufmin f i d (nth d i 0%nat) (nth d sh 0%nat - 1 - nth d i 0%nat).
Proof. intros; unfold cummin; rewrite memo_ok by assumption; reflexivity. Qed.
Lemma cummax_val sh d f i : valid sh i -> cummax sh d f i = prefmax f i d (nth d i 0%nat).
Proof. intros; unfold cummax; rewrite memo_ok by assumption; reflexivity. Qed.

(* ------------------------------------------------------------------ *)
(* cummin makes its own dimension monotone and keeps the others         *)
(* ------------------------------------------------------------------ *)
Lemma cummin_mono_self sh d f : (d < length sh)%nat -> mono_along sh d (cummin sh d f).
Proof. intros Hd i Hv Hs. set (x := nth d i 0%nat) in *.
  assert (Hl : length i = length sh) by (apply valid_length; assumption).
  assert (Hv' : valid sh (upd i d (S x))) by (apply upd_valid; assumption).
  rewrite !cummin_val by assumption. rewrite nth_upd_same by lia. fold x.
  apply sufmin_glb. intros j Hj. rewrite upd_upd. apply sufmin_le. lia. Qed.

Lemma cummin_mono_other sh d d' f : d <> d' -> (d < length sh)%nat -> (d' < length sh)%nat ->
  mono_along sh d' f -> mono_along sh d' (cummin sh d f).
Proof. intros Hne Hd Hd' Hm i Hv Hs. set (y := nth d' i 0%nat) in *.
  assert (Hl : length i = length sh) by (apply valid_length; assumption).
  assert (Hv' : valid sh (upd i d' (S y))) by (apply upd_valid; assumption).
  rewrite !cummin_val by assumption. rewrite nth_upd_other by auto.
  set (x := nth d i 0%nat). assert (Hx : (x < nth d sh 0%nat)%nat) by (apply valid_nth; assumption).
  apply sufmin_glb. intros j Hj.
  eapply Qle_trans. apply (sufmin_le f i d _ _ j). lia.
  rewrite upd_comm by auto.
  assert (Hvj : valid sh (upd i d j)) by (apply upd_valid; [assumption|lia]).
  specialize (Hm (upd i d j) Hvj). rewrite nth_upd_other in Hm by auto. fold y in Hm. apply Hm. assumption. Qed.

Lemma cummins_mono sh : forall monos f, (forall d, In d monos -> (d < length sh)%nat) ->
  forall done, (forall d, In d done -> (d < length sh)%nat /\ mono_along sh d f) ->
  forall d, In d (done ++ monos) -> mono_along sh d (fold_left (fun acc d => cummin sh d acc) monos f).
Proof. induction monos as [|m ms IH]; intros f Hb done Hdone d Hin; cbn [fold_left].
  - rewrite app_nil_r in Hin. apply Hdone; assumption.
  - apply (IH (cummin sh m f) ltac:(intros; apply Hb; right; assumption) (m :: done)).
    + intros e [<-|He]. split. apply Hb; left; reflexivity. apply cummin_mono_self. apply Hb; left; reflexivity.
      destruct (Hdone e He) as [Hle Hme]. split; [assumption|].
      destruct (Nat.eq_dec m e) as [<-|Hne]. apply cummin_mono_self; assumption.
      apply cummin_mono_other; auto. apply Hb; left; reflexivity.
    + apply in_app_iff in Hin. destruct Hin as [Hin|[<-|Hin]].
      * apply in_app_iff; left; right; assumption.
      * apply in_app_iff; left; left; reflexivity.
      * apply in_app_iff; right; assumption.
Qed.

(* the same two facts for cummax (not needed for the main theorem, but they
   say that either pass alone is already a feasible projection) *)
Lemma cummax_mono_self sh d f : (d < length sh)%nat -> mono_along sh d (cummax sh d f).
Proof. intros Hd i Hv Hs. set (x := nth d i 0%nat) in *.
  assert (Hl : length i = length sh) by (apply valid_length; assumption).
  assert (Hv' : valid sh (upd i d (S x))) by (apply upd_valid; assumption).
  rewrite !cummax_val by assumption. rewrite nth_upd_same by lia. fold x.
  apply prefmax_lub. intros j Hj. rewrite <- (upd_upd i d (S x) j). apply prefmax_ge. lia. Qed.

Lemma cummax_mono_other sh d d' f : d <> d' -> (d < length sh)%nat -> (d' < length sh)%nat ->
  mono_along sh d' f -> mono_along sh d' (cummax sh d f).
Proof. intros Hne Hd Hd' Hm i Hv Hs. set (y := nth d' i 0%nat) in *.
  assert (Hl : length i = length sh) by (apply valid_length; assumption).
  assert (Hv' : valid sh (upd i d' (S y))) by (apply upd_valid; assumption).
  rewrite !cummax_val by assumption. rewrite nth_upd_other by auto.
  set (x := nth d i 0%nat). assert (Hx : (x < nth d sh 0%nat)%nat) by (apply valid_nth; assumption).
  apply prefmax_lub. intros j Hj.
  eapply Qle_trans; [|apply (prefmax_ge f (upd i d' (S y)) d x j); lia].
  rewrite (upd_comm i d' d (S y) j) by auto.
  assert (Hvj : valid sh (upd i d j)) by (apply upd_valid; [assumption|lia]).
  specialize (Hm (upd i d j) Hvj). rewrite nth_upd_other in Hm by auto. fold y in Hm. apply Hm. assumption. Qed.

(* ------------------------------------------------------------------ *)
(* both passes only read valid positions                                *)
(* ------------------------------------------------------------------ *)
Lemma cummax_teq sh d f g : teq sh f g -> teq sh (cummax sh d f) (cummax sh d g).
Proof. intros E i Hv. rewrite !cummax_val by assumption. apply prefmax_ext. intros j Hj.
  apply E. apply upd_valid_gen. assumption. intros Hd. pose proof (valid_nth sh i d Hv Hd). lia. Qed.
Lemma cummin_teq sh d f g : teq sh f g -> teq sh (cummin sh d f) (cummin sh d g).
Proof. intros E i Hv. rewrite !cummin_val by assumption. apply sufmin_ext. intros j Hj.
  apply E. apply upd_valid_gen. assumption. intros Hd. pose proof (valid_nth sh i d Hv Hd). lia. Qed.

Lemma fold_teq sh (F : nat -> tens -> tens) :
  (forall d f g, teq sh f g -> teq sh (F d f) (F d g)) ->
  forall l a b, teq sh a b -> teq sh (fold_left (fun acc d => F d acc) l a) (fold_left (fun acc d => F d acc) l b).
Proof. intros HF. induction l as [|d l IH]; intros a b E; cbn [fold_left]. exact E. apply IH. apply HF. exact E. Qed.

(* ------------------------------------------------------------------ *)
(* a tensor already monotone along d is a fixed point of both passes    *)
(* ------------------------------------------------------------------ *)
Lemma cummax_fixed sh d f : (d < length sh)%nat -> mono_along sh d f -> teq sh (cummax sh d f) f.
Proof. intros Hd Hm i Hv. rewrite cummax_val by assumption. set (x := nth d i 0%nat).
  assert (Hx : (x < nth d sh 0)%nat) by (apply valid_nth; assumption).
  apply Qle_antisym.
  - apply prefmax_lub. intros j Hj. rewrite <- (upd_self i d) at 2. fold x.
    apply (mono_along_le sh d f i Hm Hv Hd); lia.
  - rewrite <- (upd_self i d) at 1. fold x. apply prefmax_ge. lia. Qed.
Lemma cummin_fixed sh d f : (d < length sh)%nat -> mono_along sh d f -> teq sh (cummin sh d f) f.
Proof. intros Hd Hm i Hv. rewrite cummin_val by assumption. set (x := nth d i 0%nat).
  assert (Hx : (x < nth d sh 0)%nat) by (apply valid_nth; assumption).
  apply Qle_antisym.
  - rewrite <- (upd_self i d) at 2. fold x. apply sufmin_le. lia.
  - apply sufmin_glb. intros j Hj. rewrite <- (upd_self i d) at 1. fold x.
    apply (mono_along_le sh d f i Hm Hv Hd); lia. Qed.

Lemma fold_fixed sh (F : nat -> tens -> tens) w :
  (forall d f g, teq sh f g -> teq sh (F d f) (F d g)) ->
  forall l, (forall d, In d l -> teq sh (F d w) w) ->
  forall a, teq sh a w -> teq sh (fold_left (fun acc d => F d acc) l a) w.
Proof. intros HF. induction l as [|d l IH]; intros Hl a E; cbn [fold_left]. exact E.
  apply IH. intros; apply Hl; right; assumption.
  eapply teq_trans. apply HF. exact E. apply Hl. left; reflexivity. Qed.

(* ------------------------------------------------------------------ *)
(* approx_mono                                                          *)
(* ------------------------------------------------------------------ *)
Lemma approx_mono_monotone sh monos w d : (forall d, In d monos -> (d < length sh)%nat) ->
  In d monos -> mono_along sh d (approx_mono sh monos w).
Proof. intros Hb Hin. unfold approx_mono. apply (cummins_mono sh monos _ Hb []). intros e []. exact Hin. Qed.

Lemma approx_mono_valid_only sh monos w w' :
  teq sh w w' -> teq sh (approx_mono sh monos w) (approx_mono sh monos w').
Proof. intros E. unfold approx_mono.
  apply (fold_teq sh (cummin sh)). intros; apply cummin_teq; assumption.
  apply memo_teq_ext. intros i Hv. rewrite !Qred_correct.
  pose proof (fold_teq sh (cummax sh) ltac:(intros; apply cummax_teq; assumption) monos w w' E i Hv) as Hmx.
  cbv beta in Hmx. rewrite Hmx. rewrite (E i Hv). reflexivity. Qed.

Lemma approx_mono_fixed sh monos w : (forall d, In d monos -> (d < length sh)%nat) ->
  (forall d, In d monos -> mono_along sh d w) -> teq sh (approx_mono sh monos w) w.
Proof. intros Hb Hm. unfold approx_mono.
  assert (Hmx : teq sh (fold_left (fun acc d => cummax sh d acc) monos w) w).
  { apply (fold_fixed sh (cummax sh) w). intros; apply cummax_teq; assumption.
    intros d Hd. apply cummax_fixed; auto. apply teq_refl. }
  apply (fold_fixed sh (cummin sh) w). intros; apply cummin_teq; assumption.
  intros d Hd. apply cummin_fixed; auto.
  apply memo_teq_l. intros i Hv. rewrite Qred_correct. rewrite (Hmx i Hv). lra. Qed.

(* the result never leaves the range of the input: every value lies between
   the smallest and the largest input value (so bounds that held before the
   projection still hold) *)
Lemma fold_range sh (F : nat -> tens -> tens) lo hi :
  (forall d f, (forall i, valid sh i -> lo <= f i <= hi) -> forall i, valid sh i -> lo <= F d f i <= hi) ->
  forall l a, (forall i, valid sh i -> lo <= a i <= hi) ->
  forall i, valid sh i -> lo <= fold_left (fun acc d => F d acc) l a i <= hi.
Proof. intros HF. induction l as [|d l IH]; intros a Ha; cbn [fold_left]. exact Ha. apply IH. apply HF. exact Ha. Qed.

Lemma cummax_range sh d f lo hi : (forall i, valid sh i -> lo <= f i <= hi) ->
  forall i, valid sh i -> lo <= cummax sh d f i <= hi.
Proof. intros H i Hv. rewrite cummax_val by assumption.
  assert (V : forall j, (j <= nth d i 0)%nat -> valid sh (upd i d j)).
  { intros j Hj. apply upd_valid_gen. assumption. intros Hd. pose proof (valid_nth sh i d Hv Hd). lia. }
  split.
  - eapply Qle_trans; [|apply (prefmax_ge f i d _ 0%nat); lia]. apply H. apply V. lia.
  - apply prefmax_lub. intros j Hj. apply H. apply V. exact Hj. Qed.
Lemma cummin_range sh d f lo hi : (forall i, valid sh i -> lo <= f i <= hi) ->
  forall i, valid sh i -> lo <= cummin sh d f i <= hi.
Proof. intros H i Hv. rewrite cummin_val by assumption.
  assert (V : forall j, (nth d i 0 <= j <= nth d i 0 + (nth d sh 0 - 1 - nth d i 0))%nat -> valid sh (upd i d j)).
  { intros j Hj. apply upd_valid_gen. assumption. intros Hd. pose proof (valid_nth sh i d Hv Hd). lia. }
  split.
  - apply sufmin_glb. intros j Hj. apply H. apply V. exact Hj.
  - eapply Qle_trans; [apply (sufmin_le f i d _ _ (nth d i 0%nat)); lia|]. apply H. apply V. lia. Qed.

Lemma approx_mono_range sh monos w lo hi : (forall i, valid sh i -> lo <= w i <= hi) ->
  forall i, valid sh i -> lo <= approx_mono sh monos w i <= hi.
Proof. intros H. unfold approx_mono.
  apply (fold_range sh (cummin sh)). intros; apply cummin_range; assumption.
  intros i Hv. rewrite memo_ok by assumption. rewrite Qred_correct.
  pose proof (fold_range sh (cummax sh) lo hi ltac:(intros; apply cummax_range; assumption) monos w H i Hv) as Hmx.
  cbv beta in Hmx. pose proof (H i Hv). lra. Qed.

(* ------------------------------------------------------------------ *)
(* the same at the level of a configuration                             *)
(* ------------------------------------------------------------------ *)
Lemma cfg_mono_dims_lt c d : cfg_valid c -> In d (mono_dims (l_monos c)) -> (d < l_ud c)%nat.
Proof. intros (_ & _ & Hlen & _) Hd. apply mono_dims_spec in Hd. unfold l_ud. lia. Qed.
Lemma cfg_mono_dims_shape c d : cfg_valid c -> In d (mono_dims (l_monos c)) -> (d < length (l_shape c))%nat.
Proof. intros Hc Hd. pose proof (cfg_mono_dims_lt c d Hc Hd). pose proof (l_ud_lt c). lia. Qed.

Lemma approx_mono_monotone_kernel c W : cfg_valid c ->
  monotone_kernel c (approx_mono (l_shape c) (mono_dims (l_monos c)) W).
Proof. intros Hc d Hd. apply approx_mono_monotone; [|exact Hd]. intros e He. apply cfg_mono_dims_shape; assumption. Qed.
Lemma approx_mono_kernel_fixed c W : cfg_valid c -> monotone_kernel c W ->
  teq (l_shape c) (approx_mono (l_shape c) (mono_dims (l_monos c)) W) W.
Proof. intros Hc Hm. apply approx_mono_fixed. intros e He. apply cfg_mono_dims_shape; assumption. exact Hm. Qed.

(* ------------------------------------------------------------------ *)
(* the hypotheses are satisfiable: a 2 x 3 lattice with 2 units         *)
(* ------------------------------------------------------------------ *)
Definition ex_sh : list nat := [2; 3; 2]%nat.
(* monotone along dims 0 and 1, both units *)
Definition ex_w_mono : tens := of_list ex_sh [0; 1; 1; 1; 2; 3;  1; 2; 2#1; 5#2; 4; 3].
(* violates monotonicity along both dims *)
Definition ex_w_bad : tens := of_list ex_sh [3; 0; 1; 5; 2; -1;  1; 4; 0; 2; -2; 7].

Example approx_mono_fixed_hyps :
  (forall d, In d [0; 1]%nat -> (d < length ex_sh)%nat) /\
  (forall d, In d [0; 1]%nat -> mono_along ex_sh d ex_w_mono).
Proof. split; intros d [<-|[<-|[]]]; try (cbn; lia); apply mono_alongb_ok; vm_compute; reflexivity. Qed.

Example approx_mono_fixed_ex : teq ex_sh (approx_mono ex_sh [0; 1]%nat ex_w_mono) ex_w_mono.
Proof. destruct approx_mono_fixed_hyps. apply approx_mono_fixed; assumption. Qed.

Example approx_mono_bad_not_mono : ~ mono_along ex_sh 0%nat ex_w_bad.
Proof. intros H. specialize (H [0; 0; 0]%nat).
  assert (V : valid ex_sh [0; 0; 0]%nat) by (repeat constructor).
  specialize (H V ltac:(cbn; lia)). vm_compute in H. apply H. reflexivity. Qed.

Example approx_mono_bad_projected :
  mono_along ex_sh 0%nat (approx_mono ex_sh [0; 1]%nat ex_w_bad) /\
  mono_along ex_sh 1%nat (approx_mono ex_sh [0; 1]%nat ex_w_bad).
Proof. split; apply approx_mono_monotone; cbn; intuition lia. Qed.

Example mono_dims_ex : mono_dims [1; 0; 1; 1]%Z = [0; 2; 3]%nat.
Proof. reflexivity. Qed.

Print Assumptions mono_dims_spec.
Print Assumptions approx_mono_monotone.
Print Assumptions approx_mono_fixed.
Print Assumptions approx_mono_valid_only.
Print Assumptions approx_mono_range.
