(* Layer-level statements of "convex combination of the containing cell's
   corner values" and "continuous across cell boundaries" for the Lattice
   forward pass: the helper-level lemmas about multilin / scell composed with
   the theorems that the layer function unit_fn IS the cell formula. *)
From Coq Require Import Permutation.
From TFL Require Import Proofs.LatticeInterp.
Open Scope Q_scope.

(* ---------- corners of a cell and the simplex walk ---------- *)
Lemma corner_of_length c i : corner_of c i -> length i = length c.
Proof. induction 1; cbn; congruence. Qed.

Lemma corner_of_self c : corner_of c c.
Proof. induction c; constructor; assumption. Qed.

(* raising a coordinate that still has the lower corner's value keeps a corner a corner *)
Lemma corner_of_bump : forall c v d, corner_of c v -> (d < length c)%nat -> nth d v 0%nat = nth d c 0%nat ->
  corner_of c (bump v d).
Proof. intros c v d H. revert d. induction H as [|cd cs i H IH|cd cs i H IH]; intros d Hd E; cbn in Hd. lia.
  - destruct d as [|d]; unfold bump; cbn [nth upd].
    + apply co_hi. exact H.
    + apply co_lo. apply (IH d). lia. exact E.
  - destruct d as [|d]; unfold bump; cbn [nth upd] in *.
    + lia.
    + apply co_hi. apply (IH d). lia. exact E. Qed.

(* the vertices visited by the walk over pairs with distinct dimensions are corners of the cell *)
Lemma walk_corner_bounds K c lo hi : (forall i, corner_of c i -> lo <= K i /\ K i <= hi) ->
  forall l prev v, chain prev l -> NoDup (map snd l) -> corner_of c v ->
  (forall d, In d (map snd l) -> (d < length c)%nat /\ nth d v 0%nat = nth d c 0%nat) ->
  lo * prev <= walk K prev v l /\ walk K prev v l <= hi * prev.
Proof. intros HK. induction l as [|[r d] l IH]; intros prev v Hc Hn Hv Hd; cbn [walk].
  - destruct (HK v Hv). cbn in Hc. split; nra.
  - destruct Hc as [H1 H2]. cbn [map snd] in Hn, Hd. inversion Hn; subst.
    destruct (Hd d (or_introl eq_refl)) as [Ld Ed]. destruct (HK v Hv).
    destruct (IH r (bump v d) H2 H4 (corner_of_bump c v d Hv Ld Ed)) as [A B].
    { intros d' Hin. destruct (Hd d' (or_intror Hin)) as [L' E']. split. exact L'.
      unfold bump. rewrite nth_upd_other. exact E'. intros ->. contradiction. }
    split; nra. Qed.

(* the simplex formula of a cell is a convex combination of THAT cell's corner values *)
Theorem scell_corner_bounds sizes K c rs z lo hi : dec sizes c rs z ->
  (forall i, corner_of c i -> lo <= K i /\ K i <= hi) -> lo <= scell K c rs /\ scell K c rs <= hi.
Proof. intros D HK. unfold scell.
  pose proof (dec_wok _ _ _ _ D) as W. pose proof (sort_is_perm (combine rs (seq 0 (length rs)))) as P.
  destruct (wok_perm _ _ _ _ (Permutation_sym P) W) as [Hv [Hn Hb]].
  pose proof (valid_length _ _ Hv) as Lc. pose proof (dec_length _ _ _ _ D) as Lr.
  assert (B : lo * 1 <= walk K 1 c (sort_desc (combine rs (seq 0 (length rs)))) /\
              walk K 1 c (sort_desc (combine rs (seq 0 (length rs)))) <= hi * 1).
  { apply (walk_corner_bounds K c lo hi HK).
    - apply sort_chain. eapply dec_rng; eassumption.
    - exact Hn.
    - apply corner_of_self.
    - intros d Hin. split; [|reflexivity].
      assert (Hin' : In d (map snd (combine rs (seq 0 (length rs))))).
      { eapply Permutation_in. apply Permutation_map. exact P. exact Hin. }
      rewrite map_snd_combine_seq in Hin'. apply in_seq in Hin'. lia. }
  lra. Qed.

(* ---------- layer level: convex combination of the cell's corners ---------- *)
Lemma L_hyper_layer_cell_convex tensor clip units sizes Kmat u x c lo hi : sizes <> [] ->
  ok_input clip sizes x -> in_cell sizes c (eff clip sizes x) ->
  (forall i, corner_of c i -> lo <= kern sizes Kmat u i /\ kern sizes Kmat u i <= hi) ->
  lo <= unit_fn Hypercube tensor clip units sizes Kmat u x /\ unit_fn Hypercube tensor clip units sizes Kmat u x <= hi.
Proof. intros Hne Hx Hc HK. rewrite (L_hyper_is_multilinear tensor clip units sizes Kmat u x c Hne Hx Hc).
  eapply multilin_bounds; eassumption. Qed.

(* the cell the simplex code selects *)
Lemma L_simplex_layer_cell_convex tensor clip units sizes Kmat u x lo hi :
  sizes_ok sizes -> wfK units Kmat u -> ok_input clip sizes x ->
  (forall i, corner_of (mcorner sizes (eff clip sizes x)) i -> lo <= kern sizes Kmat u i /\ kern sizes Kmat u i <= hi) ->
  lo <= unit_fn Simplex tensor clip units sizes Kmat u x /\ unit_fn Simplex tensor clip units sizes Kmat u x <= hi.
Proof. intros Hs Hw Hx HK. destruct (L_simplex_cell_formula tensor clip units sizes Kmat u x Hs Hw Hx) as [D E].
  rewrite E. eapply scell_corner_bounds; eassumption. Qed.

(* ---------- layer level: continuity across cell boundaries ---------- *)
(* hypercube: a point on a face shared by several cells is the multilinear
   formula of EVERY cell containing it: the per-cell formulas glue continuously *)
Lemma L_hyper_layer_continuous tensor clip units sizes Kmat u x c c' : sizes <> [] ->
  ok_input clip sizes x -> in_cell sizes c (eff clip sizes x) -> in_cell sizes c' (eff clip sizes x) ->
  unit_fn Hypercube tensor clip units sizes Kmat u x == multilin (kern sizes Kmat u) c (eff clip sizes x) /\
  unit_fn Hypercube tensor clip units sizes Kmat u x == multilin (kern sizes Kmat u) c' (eff clip sizes x).
Proof. intros Hne Hx Hc Hc'. split; apply L_hyper_is_multilinear; assumption. Qed.

(* simplex: every decomposition z = c + rs of the point (every cell that
   contains it, whichever side of each face) gives the same cell formula *)
Lemma dec_inv_cons s ss c cs r rs z zs : dec (s :: ss) (c :: cs) (r :: rs) (z :: zs) ->
  (S c < s)%nat /\ 0 <= r /\ r <= 1 /\ z == qn c + r /\ dec ss cs rs zs.
Proof. intros H. inversion H; subst. tauto. Qed.

(* scell only depends on the residuals up to == *)
Lemma insert_desc_eqv : forall (a a' : Q * nat) l l', fst a == fst a' -> snd a = snd a' ->
  Forall2 (fun p p' : Q * nat => fst p == fst p' /\ snd p = snd p') l l' ->
  Forall2 (fun p p' : Q * nat => fst p == fst p' /\ snd p = snd p') (insert_desc a l) (insert_desc a' l').
Proof. intros a a' l l' Ea Es H. induction H as [|b b' l l' [Eb Ebs] H IH]; cbn [insert_desc].
  - constructor; [split; assumption|constructor].
  - assert (Eq : qle (fst b) (fst a) = qle (fst b') (fst a')).
    { destruct (qle (fst b) (fst a)) eqn:Q1, (qle (fst b') (fst a')) eqn:Q2; try reflexivity.
      - apply qle_true in Q1. apply qle_false in Q2. lra.
      - apply qle_false in Q1. apply qle_true in Q2. lra. }
    rewrite Eq. destruct (qle (fst b') (fst a')).
    + constructor; [split; assumption|]. constructor; [split; assumption|exact H].
    + constructor; [split; assumption|exact IH]. Qed.

Lemma sort_desc_eqv : forall l l', Forall2 (fun p p' : Q * nat => fst p == fst p' /\ snd p = snd p') l l' ->
  Forall2 (fun p p' : Q * nat => fst p == fst p' /\ snd p = snd p') (sort_desc l) (sort_desc l').
Proof. induction 1 as [|a a' l l' [E1 E2] H IH]; cbn [sort_desc fold_right]. constructor.
  apply insert_desc_eqv; assumption. Qed.

Lemma walk_eqv K : forall l l', Forall2 (fun p p' : Q * nat => fst p == fst p' /\ snd p = snd p') l l' ->
  forall prev prev' v, prev == prev' -> walk K prev v l == walk K prev' v l'.
Proof. induction 1 as [|[r d] [r' d'] l l' [E1 E2] H IH]; intros prev prev' v Ep; cbn [walk].
  - rewrite Ep. reflexivity.
  - cbn [fst snd] in *. subst d'. rewrite (IH r r' (bump v d) E1), Ep, E1. reflexivity. Qed.

Lemma combine_eqv : forall (rs rs' : list Q) k, Forall2 Qeq rs rs' ->
  Forall2 (fun p p' : Q * nat => fst p == fst p' /\ snd p = snd p') (combine rs (seq k (length rs))) (combine rs' (seq k (length rs'))).
Proof. intros rs rs' k H. revert k. induction H as [|r r' rs rs' E H IH]; intros k; cbn [length seq combine]. constructor.
  constructor. split; [exact E|reflexivity]. apply IH. Qed.

Lemma scell_eqv K c rs rs' : Forall2 Qeq rs rs' -> scell K c rs == scell K c rs'.
Proof. intros H. unfold scell. apply walk_eqv. apply sort_desc_eqv. apply combine_eqv. exact H. reflexivity. Qed.

(* two decompositions of the same point: per dimension the same corner (and ==
   residuals), or neighbouring corners with residuals 1 and 0 *)
Lemma qn_lt_inv a b : qn a < qn b -> (a < b)%nat.
Proof. intros H. destruct (Nat.lt_ge_cases a b) as [L|L]. exact L. pose proof (qn_le _ _ L). lra. Qed.

Lemma F2_refl : forall l : list Q, Forall2 Qeq l l.
Proof. induction l; constructor; [reflexivity|assumption]. Qed.
Lemma set_nth_eqv : forall (l : list Q) k v w, v == w -> Forall2 Qeq (set_nth k v l) (set_nth k w l).
Proof. induction l as [|h l IH]; intros [|k] v w E; cbn [set_nth]; try constructor; try reflexivity; try assumption;
  try apply F2_refl. apply IH. exact E. Qed.
Lemma set_nth_eqv_self : forall (l : list Q) k v, (k < length l)%nat -> nth k l 0 == v -> Forall2 Qeq l (set_nth k v l).
Proof. induction l as [|h l IH]; intros k v Hl E; cbn in Hl. lia. destruct k as [|k]; cbn [set_nth nth] in *.
  constructor. exact E. apply F2_refl. constructor. reflexivity. apply IH. lia. exact E. Qed.
Lemma set_nth_twice : forall (l : list Q) k x y, set_nth k x (set_nth k y l) = set_nth k x l.
Proof. induction l as [|h l IHl]; intros [|k'] x y; cbn [set_nth]; try reflexivity. f_equal. apply IHl. Qed.

(* replace the first k dimensions of the decomposition (c, rs) by those of (c', rs') *)
Fixpoint hyb {A} (k : nat) (a' a : list A) : list A :=
  match k, a', a with
  | S k', x' :: r', _ :: r => x' :: hyb k' r' r
  | _, _, _ => a
  end.

Lemma hyb_0 {A} (a' a : list A) : hyb 0 a' a = a.
Proof. destruct a', a; reflexivity. Qed.
Lemma hyb_all {A} : forall (a' a : list A), length a' = length a -> hyb (length a) a' a = a'.
Proof. induction a' as [|x' a' IH]; intros [|x a] H; cbn in *; try discriminate; try reflexivity. f_equal. apply IH. lia. Qed.

Lemma dec_hyb : forall sizes c rs z c' rs' k, dec sizes c rs z -> dec sizes c' rs' z -> dec sizes (hyb k c' c) (hyb k rs' rs) z.
Proof. intros sizes c rs z c' rs' k D. revert c' rs' k. induction D as [|s ss c cs r rs z zs Hc H0 H1 Hz D IH]; intros c' rs' k D'.
  - inversion D'; subst. destruct k; constructor.
  - inversion D'; subst. destruct k as [|k]; cbn [hyb].
    + constructor; assumption.
    + constructor; try assumption. apply IH. assumption. Qed.

(* one step: switching dimension k from (c, rs) to (c', rs') does not change the cell formula *)
Lemma hyb_step K : forall sizes c rs z c' rs' k, dec sizes c rs z -> dec sizes c' rs' z -> (k < length sizes)%nat ->
  scell K (hyb k c' c) (hyb k rs' rs) == scell K (hyb (S k) c' c) (hyb (S k) rs' rs).
Proof. intros sizes c rs z c' rs' k D D' Hk.
  pose proof (dec_hyb sizes c rs z c' rs' k D D') as Dk.
  pose proof (dec_hyb sizes c rs z c' rs' (S k) D D') as Dk1.
  pose proof (dec_nth _ _ _ _ Dk k Hk) as [A1 [A2 [A3 A4]]].
  pose proof (dec_nth _ _ _ _ Dk1 k Hk) as [B1 [B2 [B3 B4]]].
  pose proof (dec_length _ _ _ _ Dk) as Lk. pose proof (dec_length _ _ _ _ Dk1) as Lk1.
  pose proof (valid_length _ _ (dec_valid _ _ _ _ Dk)) as Ck. pose proof (valid_length _ _ (dec_valid _ _ _ _ Dk1)) as Ck1.
  (* the two hybrids agree outside dimension k *)
  assert (Hoth : forall j, j <> k -> nth j (hyb k c' c) 0%nat = nth j (hyb (S k) c' c) 0%nat /\
                                   nth j (hyb k rs' rs) 0 = nth j (hyb (S k) rs' rs) 0).
  { clear - D D'. revert c' rs' k D'. induction D as [|s ss c cs r rs z zs Hc H0 H1 Hz D IH]; intros c' rs' k D' j Hj.
    - inversion D'; subst. destruct k; split; reflexivity.
    - inversion D'; subst. destruct k as [|k]; cbn [hyb].
      + destruct j as [|j]. lia. cbn [nth]. rewrite ?hyb_0. split; reflexivity.
      + destruct j as [|j]; cbn [nth]. split; reflexivity. apply IH. assumption. lia. }
  assert (Er : hyb (S k) rs' rs = set_nth k (nth k (hyb (S k) rs' rs) 0) (hyb k rs' rs))
    by (apply set_nth_ext; [congruence|intros j Hj; apply Hoth; exact Hj]).
  assert (Ec : hyb (S k) c' c = upd (hyb k c' c) k (nth k (hyb (S k) c' c) 0%nat))
    by (apply upd_ext; [congruence|intros j Hj; apply Hoth; exact Hj]).
  set (ck := hyb k c' c) in *. set (rk := hyb k rs' rs) in *.
  set (a := nth k ck 0%nat) in *. set (b := nth k (hyb (S k) c' c) 0%nat) in *.
  set (ra := nth k rk 0) in *. set (rb := nth k (hyb (S k) rs' rs) 0) in *.
  rewrite Er, Ec.
  assert (Eab : qn a + ra == qn b + rb) by (rewrite <- A4, <- B4; reflexivity).
  destruct (Nat.lt_trichotomy a b) as [Lt|[Eq|Gt]].
  - (* b = a + 1, ra = 1, rb = 0 *)
    pose proof (qn_le _ _ Lt) as Q. rewrite qn_S in Q.
    assert (Eb : b = S a).
    { destruct (Nat.eq_dec b (S a)) as [e|ne]. exact e. assert (L2 : (S (S a) <= b)%nat) by lia.
      pose proof (qn_le _ _ L2) as Q2. rewrite !qn_S in Q2. lra. }
    assert (R1 : ra == 1) by (rewrite Eb, qn_S in Eab; lra).
    assert (R0 : rb == 0) by (rewrite Eb, qn_S in Eab; lra).
    rewrite Eb.
    transitivity (scell K ck (set_nth k 1 rk)).
    { apply scell_eqv. apply set_nth_eqv_self. lia. exact R1. }
    transitivity (scell K (bump ck k) (set_nth k 0 rk)).
    { apply (scell_face K sizes k ck rk z Dk Hk). fold a. lia. }
    unfold bump. fold a. apply scell_eqv. apply set_nth_eqv. symmetry; exact R0.
  - (* same corner: == residuals *)
    assert (R : ra == rb) by (rewrite Eq in Eab; lra).
    rewrite <- Eq. unfold a. rewrite upd_self. apply scell_eqv. apply set_nth_eqv_self. lia. exact R.
  - (* a = b + 1, ra = 0, rb = 1 *)
    pose proof (qn_le _ _ Gt) as Q. rewrite qn_S in Q.
    assert (Ea : a = S b).
    { destruct (Nat.eq_dec a (S b)) as [e|ne]. exact e. assert (L2 : (S (S b) <= a)%nat) by lia.
      pose proof (qn_le _ _ L2) as Q2. rewrite !qn_S in Q2. lra. }
    assert (R0 : ra == 0) by (rewrite Ea, qn_S in Eab; lra).
    assert (R1 : rb == 1) by (rewrite Ea, qn_S in Eab; lra).
    (* view from the (S k) side: ck = bump (upd ck k b) k *)
    assert (Ec' : bump (upd ck k b) k = ck).
    { unfold bump. rewrite nth_upd_same by lia. rewrite upd_upd. rewrite <- Ea. unfold a. apply upd_self. }
    assert (Dk1' : dec sizes (upd ck k b) (set_nth k rb rk) z) by (rewrite <- Ec, <- Er; exact Dk1).
    pose proof (scell_face K sizes k (upd ck k b) (set_nth k rb rk) z Dk1' Hk) as F.
    rewrite nth_upd_same in F by lia. specialize (F ltac:(fold a in A1; lia)).
    rewrite Ec' in F. rewrite !set_nth_twice in F.
    transitivity (scell K ck (set_nth k 0 rk)).
    { apply scell_eqv. apply set_nth_eqv_self. lia. exact R0. }
    rewrite <- F. apply scell_eqv. apply set_nth_eqv. symmetry; exact R1. Qed.

Theorem scell_dec_unique K sizes c rs c' rs' z : dec sizes c rs z -> dec sizes c' rs' z ->
  scell K c rs == scell K c' rs'.
Proof. intros D D'.
  assert (H : forall k, (k <= length sizes)%nat -> scell K c rs == scell K (hyb k c' c) (hyb k rs' rs)).
  { induction k as [|k IH]; intros Hk.
    - rewrite !hyb_0. reflexivity.
    - rewrite IH by lia. apply (hyb_step K sizes c rs z c' rs' k D D'). lia. }
  pose proof (dec_length _ _ _ _ D) as L1. pose proof (dec_length _ _ _ _ D') as L1'.
  pose proof (valid_length _ _ (dec_valid _ _ _ _ D)) as L2. pose proof (valid_length _ _ (dec_valid _ _ _ _ D')) as L2'.
  rewrite (H (length sizes) (le_n _)).
  rewrite <- L2 at 1. rewrite hyb_all by congruence. rewrite <- L1. rewrite hyb_all by congruence. reflexivity. Qed.

(* layer level: the simplex output is the cell formula of EVERY cell that contains the (clipped) point *)
Lemma L_simplex_layer_continuous tensor clip units sizes Kmat u x c rs :
  sizes_ok sizes -> wfK units Kmat u -> ok_input clip sizes x -> dec sizes c rs (eff clip sizes x) ->
  unit_fn Simplex tensor clip units sizes Kmat u x == scell (kern sizes Kmat u) c rs.
Proof. intros Hs Hw Hx D. destruct (L_simplex_cell_formula tensor clip units sizes Kmat u x Hs Hw Hx) as [D0 E].
  rewrite E. eapply scell_dec_unique; eassumption. Qed.

(* ... hence a convex combination of the corner values of any such cell *)
Lemma L_simplex_layer_any_cell_convex tensor clip units sizes Kmat u x c rs lo hi :
  sizes_ok sizes -> wfK units Kmat u -> ok_input clip sizes x -> dec sizes c rs (eff clip sizes x) ->
  (forall i, corner_of c i -> lo <= kern sizes Kmat u i /\ kern sizes Kmat u i <= hi) ->
  lo <= unit_fn Simplex tensor clip units sizes Kmat u x /\ unit_fn Simplex tensor clip units sizes Kmat u x <= hi.
Proof. intros Hs Hw Hx D HK. rewrite (L_simplex_layer_continuous tensor clip units sizes Kmat u x c rs Hs Hw Hx D).
  eapply scell_corner_bounds; eassumption. Qed.

(* ---------- clip_inputs as such: the clipped call is the unclipped call on the clipped point ---------- *)
Lemma L_hyper_clip tensor tensor' units sizes Kmat u x : sizes <> [] -> sizes_ok sizes -> length x = length sizes ->
  unit_fn Hypercube tensor true units sizes Kmat u x == unit_fn Hypercube tensor' false units sizes Kmat u (clip_onto sizes x).
Proof. intros Hne Hs Hl.
  assert (Hx : ok_input true sizes x) by (split; [exact Hl|left; reflexivity]).
  assert (Hc : ok_input false sizes (clip_onto sizes x))
    by (split; [apply clip_onto_length; exact Hl|right; apply clip_onto_inr; assumption]).
  rewrite !unit_fn_hyper by (try assumption; try apply Hc).
  rewrite (hyper_unit_G tensor true sizes _ x Hx), (hyper_unit_G tensor' false sizes _ _ Hc). reflexivity. Qed.

Lemma L_simplex_clip tensor tensor' units sizes Kmat u x :
  unit_fn Simplex tensor true units sizes Kmat u x = unit_fn Simplex tensor' false units sizes Kmat u (clip_onto sizes x).
Proof. rewrite !unit_fn_simplex. apply simplex_unit_clip. Qed.

(* ---------- non-vacuity ---------- *)
(* the point (1/2, 1) of the 2 x 3 example lattice lies on the face between the cells (0,0) and (0,1) *)
Example ex_two_decs : dec ex_sizes [0; 0]%nat [1#2; 1] [1#2; 1] /\ dec ex_sizes [0; 1]%nat [1#2; 0] [1#2; 1].
Proof. split; repeat constructor; try lra; try lia; vm_compute; reflexivity. Qed.
Example ex_two_decs_value : scell (kern ex_sizes ex_K 0) [0; 0]%nat [1#2; 1] == 3#2 /\
  scell (kern ex_sizes ex_K 0) [0; 1]%nat [1#2; 0] == 3#2 /\ unit_fn Simplex true false 2 ex_sizes ex_K 0 [1#2; 1] == 3#2.
Proof. repeat split; vm_compute; reflexivity. Qed.
Example ex_corner_bounds : forall i, corner_of [0; 1]%nat i -> 1 <= kern ex_sizes ex_K 0 i /\ kern ex_sizes ex_K 0 i <= 9#2.
Proof. intros i H. inversion H as [| ? ? i1 H1 | ? ? i1 H1]; subst; inversion H1 as [| ? ? i2 H2 | ? ? i2 H2]; subst;
  inversion H2; subst; vm_compute; split; discriminate. Qed.
