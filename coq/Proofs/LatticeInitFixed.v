(* C10: the Lattice weight constraint leaves a fresh kernel unchanged, for
   configurations with monotonicity and bound constraints only.  Built on
   C01's constraint_feasible_fixed (Proofs/LatticeFinalize.v). *)
From TFL Require Export Proofs.LatticeInit Proofs.LatticeMono Proofs.LatticeBounds Proofs.LatticeFinalize.
From Coq Require Import Permutation.
Open Scope Q_scope.

(* [dyk] stands for the Dykstra stage (lattice_lib.project_by_dykstra with the
   layer's constraints).  That it returns a feasible kernel unchanged is C08's
   theorem about the abstract scheme; here it is the explicit hypothesis
   [teq sh (dyk W) W]. *)
Lemma constraint_fixes_feasible c (dyk : tens -> tens) W ran : cfg_valid c -> feasible_kernel c W ->
  teq (l_shape c) (dyk W) W -> teq (l_shape c) (lattice_constraint_after_dykstra c ran (dyk W)) W.
Proof. intros Hc Hf Hd.
  assert (Hf' : feasible_kernel c (dyk W)) by (apply (feasible_kernel_teq c W); [apply teq_sym; exact Hd|exact Hf]).
  eapply teq_trans; [|exact Hd]. apply (constraint_feasible_fixed c Hc ran (dyk W) Hf'). Qed.

Definition mono_bounds_only (c : lat_cfg) : Prop := l_edge c = [] /\ l_trap c = [].

Lemma mono_bounds_feasible c W : mono_bounds_only c -> monotone_kernel c W ->
  lower_ok (l_shape c) (l_min c) W -> upper_ok (l_shape c) (l_max c) W -> feasible_kernel c W.
Proof. intros [He Ht] Hm Hl Hu. unfold feasible_kernel. rewrite He, Ht. repeat split; auto; intros t []. Qed.

(* the linear initial kernel of a fresh layer is feasible *)
Lemma linear_init_feasible c : cfg_valid c -> mono_bounds_only c -> l_sizes c <> [] ->
  let imin := fst (default_init_params (l_min c) (l_max c)) in
  let imax := snd (default_init_params (l_min c) (l_max c)) in
  imin <= imax ->
  feasible_kernel c (linear_init (l_sizes c) imin imax (Some (l_monos c)) None (l_units c)).
Proof. intros Hc Hmb Hne imin imax Hr.
  pose proof Hc as (Hs & Hu & Hlm & Hm01 & _).
  apply mono_bounds_feasible; [exact Hmb| | |].
  - intros d Hd. apply mono_dims_spec in Hd. destruct Hd as [Hd Hnz].
    apply linear_mono_dim. exact Hr. lia.
    apply configured_mono_dim. cbn [zeros_if_none]. unfold nz. apply negb_true_iff. apply Z.eqb_neq. exact Hnz.
  - destruct (l_min c) as [lo|] eqn:E; [|exact I]. intros i Hv.
    assert (Hlen : (1 <= length (l_sizes c))%nat) by (destruct (l_sizes c); [congruence|cbn; lia]).
    destruct (linear_range (l_sizes c) imin imax (Some (l_monos c)) None (l_units c) Hs Hu Hlen) as [Hin _];
      cbn [zeros_if_none]; try assumption. apply repeat_length.
    { intros d. rewrite nth_repeat. apply andb_false_r. }
    destruct (Hin i Hv) as [H1 _]. destruct (default_init_params_spec (Some lo) (l_max c)) as [Hd _].
    unfold imin in H1. rewrite (Hd lo eq_refl) in H1. exact H1.
  - destruct (l_max c) as [hi|] eqn:E; [|exact I]. intros i Hv.
    assert (Hlen : (1 <= length (l_sizes c))%nat) by (destruct (l_sizes c); [congruence|cbn; lia]).
    destruct (linear_range (l_sizes c) imin imax (Some (l_monos c)) None (l_units c) Hs Hu Hlen) as [Hin _];
      cbn [zeros_if_none]; try assumption. apply repeat_length.
    { intros d. rewrite nth_repeat. apply andb_false_r. }
    destruct (Hin i Hv) as [_ H1]. destruct (default_init_params_spec (l_min c) (Some hi)) as [_ Hd].
    unfold imax in H1. rewrite (Hd hi eq_refl) in H1. exact H1. Qed.

(* the random monotonic initial kernel of a fresh layer is feasible *)
Lemma random_init_feasible c order samples : cfg_valid c -> mono_bounds_only c ->
  let imin := fst (default_init_params (l_min c) (l_max c)) in
  let imax := snd (default_init_params (l_min c) (l_max c)) in
  Forall2 (@Permutation idx) order (levels (l_sizes c)) ->
  (forall a b, (a <= b)%nat -> (b < length samples)%nat -> nth a samples 0 <= nth b samples 0) ->
  length samples = length (concat order) ->
  (forall x, In x samples -> imin <= x /\ x <= imax) ->
  feasible_kernel c (random_mono_init (l_sizes c) (l_units c) order samples).
Proof. intros Hc Hmb imin imax Ho Hs Hl Hr.
  apply mono_bounds_feasible; [exact Hmb| | |].
  - intros d Hd. apply (random_mono_all_dims (l_sizes c) (l_units c) order samples Ho Hs Hl).
    pose proof (cfg_mono_dims_lt c d Hc Hd). unfold l_ud in *. assumption.
  - destruct (l_min c) as [lo|] eqn:E; [|exact I]. intros i Hv.
    destruct (random_mono_in_range (l_sizes c) (l_units c) order samples imin imax Ho Hl Hr i Hv) as [H1 _].
    destruct (default_init_params_spec (Some lo) (l_max c)) as [Hd _]. unfold imin in H1. rewrite (Hd lo eq_refl) in H1. exact H1.
  - destruct (l_max c) as [hi|] eqn:E; [|exact I]. intros i Hv.
    destruct (random_mono_in_range (l_sizes c) (l_units c) order samples imin imax Ho Hl Hr i Hv) as [_ H1].
    destruct (default_init_params_spec (l_min c) (Some hi)) as [_ Hd]. unfold imax in H1. rewrite (Hd hi eq_refl) in H1. exact H1. Qed.
