(* C11 — generic lemmas about the config round-trip interpreter of
   Model/ConfigModel.v.  Everything here is proved ONCE for every class
   description d; the per-class theorems of Props/C11.v instantiate d with the
   description the translator extracted from the source and discharge the
   decidable side condition (roundtrip_okb d = true etc.) by computation. *)
From Coq Require Import String List ZArith QArith Bool.
From TFL Require Import Model.ConfigModel.
Import ListNotations.
Open Scope string_scope.
Open Scope list_scope.

(* ---------------------------------------------------------------------- *)
(* Statements (Prop level) that the per-class theorems are about.           *)

(* every parameter that __init__ stores in the object, and every required
   parameter, is a key of get_config, and the entry reads the attribute the
   parameter was stored in *)
Definition keys_cover_init (d : class_desc) : Prop :=
  (forall s, In s (c_stores d) ->
     exists e, In e (c_emits d) /\ em_key e = ps_param s /\
               (em_src e = Attr (ps_attr s) \/ em_src e = Serialized (ps_attr s))) /\
  (forall p, In p (required_params d) -> In p (emit_keys d)).

(* every key get_config writes itself is accepted by __init__ *)
Definition keys_are_params (d : class_desc) : Prop :=
  forall k, In k (emit_keys d) ->
    In k (param_names d) \/ (c_var_kw d = true /\ In k (c_base_keys d)).

(* get_config never reads an attribute __init__ left unset *)
Definition reads_are_set (d : class_desc) : Prop :=
  forall e a, In e (c_emits d) -> (em_src e = Attr a \/ em_src e = Serialized a) ->
    exists s, In s (c_stores d) /\ ps_attr s = a /\
      (ps_cond s = None \/ exists c ca, ps_cond s = Some c /\ em_cond e = Some ca /\ cond_pairb d c ca = true).

(* ---------------------------------------------------------------------- *)
Lemma mem_In : forall k l, mem k l = true <-> In k l.
Proof.
  unfold mem. intros k l. rewrite existsb_exists. split.
  - intros [x [Hin Heq]]. apply String.eqb_eq in Heq. subst. exact Hin.
  - intros H. exists k. split; [exact H | apply String.eqb_refl].
Qed.

Lemma mem_false_not_In : forall k l, mem k l = false -> ~ In k l.
Proof. intros k l H Hin. apply mem_In in Hin. congruence. Qed.

Lemma inclb_spec : forall a b, inclb a b = true -> forall x, In x a -> In x b.
Proof.
  unfold inclb. intros a b H x Hx. rewrite forallb_forall in H. apply mem_In. auto.
Qed.

Lemma find_emit_In : forall k es e, find_emit k es = Some e -> In e es /\ em_key e = k.
Proof.
  induction es as [|e0 r IH]; simpl; intros e H; [discriminate|].
  destruct (String.eqb k (em_key e0)) eqn:E.
  - inversion H; subst. apply String.eqb_eq in E. auto.
  - destruct (IH _ H). auto.
Qed.

Lemma find_emit_none : forall k es, mem k (map em_key es) = false -> find_emit k es = None.
Proof.
  induction es as [|e0 r IH]; simpl; intros H; [reflexivity|].
  apply orb_false_iff in H. destruct H as [H1 H2]. rewrite H1. auto.
Qed.

Lemma find_store_by_attr_In : forall a ss s, find_store_by_attr a ss = Some s -> In s ss /\ ps_attr s = a.
Proof.
  induction ss as [|s0 r IH]; simpl; intros s H; [discriminate|].
  destruct (String.eqb a (ps_attr s0)) eqn:E.
  - inversion H; subst. apply String.eqb_eq in E. auto.
  - destruct (IH _ H). auto.
Qed.

Lemma find_store_by_param_In : forall p ss s, find_store_by_param p ss = Some s -> In s ss /\ ps_param s = p.
Proof.
  induction ss as [|s0 r IH]; simpl; intros s H; [discriminate|].
  destruct (String.eqb p (ps_param s0)) eqn:E.
  - inversion H; subst. apply String.eqb_eq in E. auto.
  - destruct (IH _ H). auto.
Qed.

Lemma find_store_nodup : forall ss s, nodupb (map ps_attr ss) = true -> In s ss ->
  find_store_by_attr (ps_attr s) ss = Some s.
Proof.
  induction ss as [|s0 r IH]; simpl; intros s Hnd Hin; [contradiction|].
  apply andb_true_iff in Hnd. destruct Hnd as [Hn Hr].
  destruct Hin as [->|Hin].
  - rewrite String.eqb_refl. reflexivity.
  - destruct (String.eqb (ps_attr s) (ps_attr s0)) eqn:E.
    + apply String.eqb_eq in E. apply negb_true_iff in Hn. apply mem_false_not_In in Hn.
      exfalso. apply Hn. rewrite <- E. apply in_map. exact Hin.
    + auto.
Qed.

(* ---------------------------------------------------------------------- *)
(* Boolean checks imply the Prop statements.                                *)
Lemma keys_cover_init_spec : forall d, keys_cover_initb d = true -> keys_cover_init d.
Proof.
  intros d H. unfold keys_cover_initb in H. apply andb_true_iff in H. destruct H as [H1 H2].
  split.
  - intros s Hs. rewrite forallb_forall in H1. specialize (H1 _ Hs). unfold store_coveredb in H1.
    destruct (find_emit (ps_param s) (c_emits d)) as [e|] eqn:E; [|discriminate].
    apply find_emit_In in E. destruct E as [Hin Hk]. exists e. split; [exact Hin|]. split; [exact Hk|].
    unfold reads in H1. destruct (em_src e); try discriminate; apply String.eqb_eq in H1; subst; auto.
  - apply inclb_spec. exact H2.
Qed.

Lemma keys_are_params_spec : forall d, keys_are_paramsb d = true -> keys_are_params d.
Proof.
  intros d H k Hk. unfold keys_are_paramsb in H. rewrite forallb_forall in H. specialize (H _ Hk).
  unfold key_acceptedb in H. apply orb_true_iff in H. destruct H as [H|H].
  - left. apply mem_In. exact H.
  - right. apply andb_true_iff in H. destruct H. split; [assumption| apply mem_In; assumption].
Qed.

Lemma reads_are_set_spec : forall d, reads_are_setb d = true -> reads_are_set d.
Proof.
  intros d H e a He Hsrc. unfold reads_are_setb in H. rewrite forallb_forall in H. specialize (H _ He).
  unfold emit_reads_setb in H. apply andb_true_iff in H. destruct H as [H _].
  assert (Hx : match find_store_by_attr a (c_stores d) with
               | Some s => match ps_cond s, em_cond e with
                           | None, _ => true
                           | Some c, Some ca => cond_pairb d c ca
                           | Some _, None => false
                           end
               | None => false
               end = true).
  { destruct Hsrc as [Hs|Hs]; rewrite Hs in H; exact H. }
  destruct (find_store_by_attr a (c_stores d)) as [s|] eqn:E; [|discriminate].
  apply find_store_by_attr_In in E. destruct E as [Hin Ha]. exists s. split; [exact Hin|]. split; [exact Ha|].
  destruct (ps_cond s) as [c|]; [|left; reflexivity].
  right. destruct (em_cond e) as [ca|]; [|discriminate]. exists c, ca. auto.
Qed.

(* ---------------------------------------------------------------------- *)
(* Known wrappers are idempotent.                                           *)
Lemma wrap_single_tuple_idem : forall v, wrap_single_tuple (wrap_single_tuple v) = wrap_single_tuple v.
Proof.
  intros v. destruct v; try reflexivity.
  destruct l as [|x1 l1]; [reflexivity|]. destruct x1; reflexivity.
Qed.
Lemma wrap_single_pair_idem : forall v, wrap_single_pair (wrap_single_pair v) = wrap_single_pair v.
Proof.
  intros v. destruct v; try reflexivity.
  destruct l as [|x1 l1]; [reflexivity|].
  destruct l1 as [|x2 l2]; [reflexivity|].
  destruct x2; try reflexivity; destruct l2; reflexivity.
Qed.
Lemma wrap_float_idem : forall v, wrap_float (wrap_float v) = wrap_float v.
Proof. intros v. destruct v; reflexivity. Qed.
Lemma wrap_list_idem : forall v, wrap_list (wrap_list v) = wrap_list v.
Proof. intros v. destruct v; reflexivity. Qed.

Lemma known_wrapper_idem : forall w f v, known_wrapper w = Some f -> f (f v) = f v.
Proof.
  unfold known_wrapper. intros w f v H.
  destruct (String.eqb w "single_tuple_to_list"); [inversion H; apply wrap_single_tuple_idem|].
  destruct (String.eqb w "single_pair_to_list"); [inversion H; apply wrap_single_pair_idem|].
  destruct (String.eqb w "float"); [inversion H; apply wrap_float_idem|].
  destruct (String.eqb w "list"); [inversion H; apply wrap_list_idem|].
  discriminate.
Qed.

(* ---------------------------------------------------------------------- *)
(* Association-list lemmas.                                                 *)
Lemma assoc_app : forall (k : string) (a b : kwargs),
  assoc k (a ++ b) = match assoc k a with Some v => Some v | None => assoc k b end.
Proof.
  induction a as [|[k' v] r IH]; simpl; intros b; [reflexivity|].
  destruct (String.eqb k k'); auto.
Qed.

Lemma assoc_keymap : forall (f : string -> value) k ks,
  assoc k (map (fun k0 => (k0, f k0)) ks) = if mem k ks then Some (f k) else None.
Proof.
  induction ks as [|k0 r IH]; simpl; [reflexivity|].
  destruct (String.eqb k k0) eqn:E; simpl.
  - apply String.eqb_eq in E. subst. reflexivity.
  - exact IH.
Qed.

Lemma assoc_stores : forall (f : pstore -> value) a ss,
  assoc a (map (fun s => (ps_attr s, f s)) ss) = option_map f (find_store_by_attr a ss).
Proof.
  induction ss as [|s0 r IH]; simpl; [reflexivity|].
  destruct (String.eqb a (ps_attr s0)); simpl; auto.
Qed.

Lemma assoc_emits : forall (g : emit -> value) (on : emit -> bool) k es,
  nodupb (map em_key es) = true ->
  assoc k (map (fun e => (em_key e, g e)) (filter on es)) =
  match find_emit k es with
  | Some e => if on e then Some (g e) else None
  | None => None
  end.
Proof.
  induction es as [|e0 r IH]; simpl; intros Hnd; [reflexivity|].
  apply andb_true_iff in Hnd. destruct Hnd as [Hn Hr].
  destruct (String.eqb k (em_key e0)) eqn:E.
  - destruct (on e0) eqn:Eon; simpl.
    + rewrite E. reflexivity.
    + rewrite (IH Hr). apply String.eqb_eq in E. subst.
      apply negb_true_iff in Hn. rewrite (find_emit_none _ _ Hn). reflexivity.
  - destruct (on e0); simpl; [rewrite E|]; auto.
Qed.

Section RoundTrip.
Variable wrap_oracle : string -> value -> value.
Variable ser deser : value -> value.
(* canonicalisers are idempotent *)
Hypothesis H_idem : forall w v, wrap_oracle w (wrap_oracle w v) = wrap_oracle w v.
(* a keras `get` applied to the serialised form of what it returned gives the same object *)
Hypothesis H_get_ser : forall w v, wrap_oracle w (ser (wrap_oracle w v)) = wrap_oracle w v.
(* deserialize_keras_object inverts serialize_keras_object *)
Hypothesis H_deser_ser : forall v, deser (ser v) = v.

Notation wrap := (wrap wrap_oracle).
Notation apply_how := (apply_how wrap_oracle).
Notation store_val := (store_val wrap_oracle).
Notation init := (init wrap_oracle).
Notation get_config := (get_config ser).
Notation own_config := (own_config ser).
Notation emit_val := (emit_val ser).
Notation from_config := (from_config deser).
Notation rebuild := (rebuild wrap_oracle deser).

Lemma wrap_idem : forall w v, wrap w (wrap w v) = wrap w v.
Proof.
  intros w v. unfold ConfigModel.wrap. destruct (known_wrapper w) as [f|] eqn:E.
  - eapply known_wrapper_idem; eauto.
  - apply H_idem.
Qed.

Lemma assoc_from_config : forall d k c,
  assoc k (from_config d c) =
  if passes d k then (if mem k (c_deser d) then option_map deser (assoc k c) else assoc k c) else None.
Proof.
  intros d k. unfold ConfigModel.from_config.
  induction c as [|[k' v] r IH]; simpl.
  - destruct (passes d k); [destruct (mem k (c_deser d))|]; reflexivity.
  - destruct (String.eqb k k') eqn:E.
    + apply String.eqb_eq in E. subst k'.
      destruct (passes d k) eqn:Ep; simpl.
      * destruct (mem k (c_deser d)); simpl; rewrite String.eqb_refl; reflexivity.
      * rewrite IH. reflexivity.
    + destruct (passes d k') eqn:Ep'; simpl.
      * destruct (mem k' (c_deser d)); simpl; rewrite E; exact IH.
      * exact IH.
Qed.

Section OneClass.
Variable d : class_desc.
Hypothesis Hok : roundtrip_okb d = true.
Variable kw : kwargs.
(* a parameter that is always stored but reported only under a condition must
   either be reported (condition true) or have been left at its default *)
Hypothesis Hvis : forall p c, In (p, c) (hidden_pairs d) ->
  truthy (arg d kw c) = true \/ assoc p kw = None.

Let kw' := from_config d (get_config d (init d kw)).

Lemma ok_parts :
  nodupb (emit_keys d) = true /\ nodupb (map ps_attr (c_stores d)) = true /\ nodupb (c_base_keys d) = true /\
  (forall s, In s (c_stores d) -> store_rt_okb d s = true) /\
  (forall k, In k (c_base_keys d) -> base_rt_okb d k = true).
Proof.
  pose proof Hok as H. unfold roundtrip_okb in H.
  apply andb_true_iff in H. destruct H as [H H5].
  apply andb_true_iff in H. destruct H as [H H4].
  apply andb_true_iff in H. destruct H as [H H3].
  apply andb_true_iff in H. destruct H as [H1 H2].
  rewrite forallb_forall in H4, H5. auto 10.
Qed.

Lemma attr_init_any : forall kw0 s, In s (c_stores d) ->
  attr_val (init d kw0) (ps_attr s) = store_val d kw0 s.
Proof.
  intros kw0 s Hs. destruct ok_parts as (_ & Hnd & _).
  unfold attr_val, ConfigModel.init. simpl. rewrite assoc_stores.
  rewrite (find_store_nodup _ _ Hnd Hs). reflexivity.
Qed.
Lemma attr_init : forall s, In s (c_stores d) ->
  attr_val (init d kw) (ps_attr s) = store_val d kw s.
Proof. intros s Hs. apply attr_init_any. exact Hs. Qed.


Lemma assoc_own_config : forall k,
  assoc k (own_config d (init d kw)) =
  match find_emit k (c_emits d) with
  | Some e => if emit_on (init d kw) e then Some (emit_val (init d kw) e) else None
  | None => None
  end.
Proof.
  intros k. destruct ok_parts as (Hnd & _). unfold ConfigModel.own_config.
  apply assoc_emits. exact Hnd.
Qed.

Lemma assoc_base_init : forall k,
  assoc k (snd (init d kw)) = if mem k (c_base_keys d) then Some (argb kw k) else None.
Proof. intros k. unfold ConfigModel.init. simpl. apply assoc_keymap. Qed.

(* a key that is not a Keras base key is read from the class's own entries *)
Lemma assoc_get_config_own : forall k, mem k (c_base_keys d) = false ->
  assoc k (get_config d (init d kw)) = assoc k (own_config d (init d kw)).
Proof.
  intros k Hk. unfold ConfigModel.get_config. destruct (c_base d).
  - reflexivity.
  - rewrite assoc_app, assoc_base_init, Hk. reflexivity.
  - rewrite assoc_app, assoc_base_init, Hk. destruct (assoc k (own_config d (init d kw))); reflexivity.
Qed.

(* what the call cls( **kw' ) binds to the parameter of store s, when the
   entry e of s is actually written *)
Lemma arg_rt_emitted : forall s e, In s (c_stores d) ->
  find_emit (ps_param s) (c_emits d) = Some e ->
  emit_on (init d kw) e = true ->
  store_val d kw s = apply_how (ps_how s) (arg d kw (ps_param s)) ->
  apply_how (ps_how s) (arg d kw' (ps_param s)) = store_val d kw s /\
  (ps_how s = Direct -> arg d kw' (ps_param s) = arg d kw (ps_param s)).
Proof.
  intros s e Hs Ee Hon Hsv. destruct ok_parts as (_ & _ & _ & Hst & _).
  specialize (Hst _ Hs). unfold store_rt_okb in Hst. rewrite Ee in Hst.
  apply andb_true_iff in Hst. destruct Hst as [Hst He].
  apply andb_true_iff in Hst. destruct Hst as [Hpass Hnb]. apply negb_true_iff in Hnb.
  apply andb_true_iff in He. destruct He as [Hsrc _].
  assert (Harg : arg d kw' (ps_param s) =
                 (if mem (ps_param s) (c_deser d) then deser (emit_val (init d kw) e) else emit_val (init d kw) e)).
  { unfold arg, kw'. rewrite assoc_from_config, Hpass, (assoc_get_config_own _ Hnb), assoc_own_config, Ee, Hon.
    destruct (mem (ps_param s) (c_deser d)); reflexivity. }
  rewrite Harg. unfold ConfigModel.emit_val.
  destruct (em_src e) as [a|a|k|] eqn:Esrc; try discriminate.
  - (* Attr *)
    destruct (mem (ps_param s) (c_deser d)); [destruct (ps_how s); discriminate|].
    assert (a = ps_attr s) by (destruct (ps_how s); apply String.eqb_eq in Hsrc; exact Hsrc). subst a.
    rewrite (attr_init _ Hs), Hsv.
    destruct (ps_how s) as [|w]; simpl; split; auto; try discriminate.
    apply wrap_idem.
  - (* Serialized *)
    destruct (ps_how s) as [|w] eqn:Eh.
    + destruct (mem (ps_param s) (c_deser d)); [|discriminate].
      apply String.eqb_eq in Hsrc. subst a.
      rewrite (attr_init _ Hs), Hsv. simpl. rewrite H_deser_ser. auto.
    + destruct (mem (ps_param s) (c_deser d)); [discriminate|].
      apply andb_true_iff in Hsrc. destruct Hsrc as [Ha Hkn]. apply String.eqb_eq in Ha. subst a.
      rewrite (attr_init _ Hs), Hsv. simpl. split; [|discriminate].
      unfold ConfigModel.wrap. destruct (known_wrapper w); [discriminate|]. apply H_get_ser.
Qed.

(* the entry is not written: cls( **kw' ) falls back to the default *)
Lemma arg_rt_omitted : forall s e, In s (c_stores d) ->
  find_emit (ps_param s) (c_emits d) = Some e ->
  emit_on (init d kw) e = false ->
  arg d kw' (ps_param s) = match default_of d (ps_param s) with Some v => v | None => VUnset end.
Proof.
  intros s e Hs Ee Hon. destruct ok_parts as (_ & _ & _ & Hst & _).
  specialize (Hst _ Hs). unfold store_rt_okb in Hst. rewrite Ee in Hst.
  apply andb_true_iff in Hst. destruct Hst as [Hst He].
  apply andb_true_iff in Hst. destruct Hst as [Hpass Hnb]. apply negb_true_iff in Hnb.
  unfold arg, kw'. rewrite assoc_from_config, Hpass, (assoc_get_config_own _ Hnb), assoc_own_config, Ee, Hon.
  destruct (mem (ps_param s) (c_deser d)); reflexivity.
Qed.

(* the parameter c behind a condition attribute ca round-trips *)
Lemma cond_param_rt : forall c ca, cond_pairb d c ca = true ->
  arg d kw' c = arg d kw c /\ attr_val (init d kw) ca = arg d kw c.
Proof.
  intros c ca H. unfold cond_pairb in H. apply andb_true_iff in H. destruct H as [H Hem].
  destruct (find_store_by_param c (c_stores d)) as [sc|] eqn:E; [|discriminate].
  apply find_store_by_param_In in E. destruct E as [Hin Hp].
  apply andb_true_iff in H. destruct H as [Ha Hh]. apply String.eqb_eq in Ha.
  destruct (ps_how sc) eqn:Eh; [|discriminate]. destruct (ps_cond sc) eqn:Ec; [discriminate|].
  rewrite <- Hp in Hem.
  destruct (find_emit (ps_param sc) (c_emits d)) as [e|] eqn:Ee; [|discriminate].
  destruct (em_cond e) eqn:Eec; [discriminate|].
  assert (Hsv : store_val d kw sc = apply_how (ps_how sc) (arg d kw (ps_param sc))).
  { unfold ConfigModel.store_val. rewrite Ec. reflexivity. }
  assert (Hon : emit_on (init d kw) e = true) by (unfold emit_on; rewrite Eec; reflexivity).
  destruct (arg_rt_emitted sc e Hin Ee Hon Hsv) as [_ Hd]. specialize (Hd Eh). rewrite Hp in Hd.
  split; [exact Hd|].
  rewrite <- Ha, (attr_init _ Hin), Hsv, Eh, Hp. reflexivity.
Qed.

Lemma hidden_pair_In : forall s e ca c, In s (c_stores d) -> ps_cond s = None ->
  find_emit (ps_param s) (c_emits d) = Some e -> em_cond e = Some ca -> cond_param_of d ca = Some c ->
  In (ps_param s, c) (hidden_pairs d).
Proof.
  intros s e ca c Hs Hc Ee Eec Ecp. unfold hidden_pairs. apply in_flat_map. exists s. split; [exact Hs|].
  rewrite Hc, Ee, Eec, Ecp. left. reflexivity.
Qed.

Lemma cond_param_of_pair : forall ca c, cond_param_of d ca = Some c -> cond_pairb d c ca = true.
Proof.
  unfold cond_param_of. intros ca c H.
  destruct (find_store_by_attr ca (c_stores d)) as [sc|]; [|discriminate].
  destruct (cond_pairb d (ps_param sc) ca) eqn:E; [|discriminate]. inversion H; subst. exact E.
Qed.

(* visibility of ONE store: if it is always stored but reported only under
   `if self.ca`, then the condition holds or the argument was left out *)
Definition store_visible (s : pstore) : Prop :=
  forall e ca c, find_emit (ps_param s) (c_emits d) = Some e -> ps_cond s = None ->
    em_cond e = Some ca -> cond_param_of d ca = Some c ->
    truthy (arg d kw c) = true \/ assoc (ps_param s) kw = None.

Lemma store_rt_local : forall s, In s (c_stores d) -> store_visible s ->
  store_val d kw' s = store_val d kw s.
Proof.
  intros s Hs Hloc. destruct ok_parts as (_ & _ & _ & Hst & _).
  specialize (Hst _ Hs). unfold store_rt_okb in Hst.
  apply andb_true_iff in Hst. destruct Hst as [_ He].
  destruct (find_emit (ps_param s) (c_emits d)) as [e|] eqn:Ee; [|discriminate].
  apply andb_true_iff in He. destruct He as [_ Hcond].
  destruct (ps_cond s) as [c|] eqn:Hc; destruct (em_cond e) as [ca|] eqn:Eec; try discriminate.
  - (* stored under `if c`, written under `if self.ca` *)
    destruct (cond_param_rt _ _ Hcond) as [Hargc Hattr].
    unfold ConfigModel.store_val at 1. rewrite Hc, Hargc.
    destruct (truthy (arg d kw c)) eqn:Et.
    + assert (Hsv : store_val d kw s = apply_how (ps_how s) (arg d kw (ps_param s))).
      { unfold ConfigModel.store_val. rewrite Hc, Et. reflexivity. }
      assert (Hon : emit_on (init d kw) e = true) by (unfold emit_on; rewrite Eec, Hattr; exact Et).
      apply (arg_rt_emitted s e Hs Ee Hon Hsv).
    + unfold ConfigModel.store_val. rewrite Hc, Et. reflexivity.
  - (* stored always, written under `if self.ca` *)
    destruct (cond_param_of d ca) as [c|] eqn:Ecp; [|discriminate].
    pose proof (cond_param_of_pair _ _ Ecp) as Hpair.
    destruct (cond_param_rt _ _ Hpair) as [Hargc Hattr].
    assert (Hsv : forall kw0, store_val d kw0 s = apply_how (ps_how s) (arg d kw0 (ps_param s))).
    { intros kw0. unfold ConfigModel.store_val. rewrite Hc. reflexivity. }
    destruct (truthy (arg d kw c)) eqn:Et.
    + assert (Hon : emit_on (init d kw) e = true) by (unfold emit_on; rewrite Eec, Hattr; exact Et).
      rewrite (Hsv kw'). apply (arg_rt_emitted s e Hs Ee Hon (Hsv kw)).
    + assert (Hon : emit_on (init d kw) e = false) by (unfold emit_on; rewrite Eec, Hattr; exact Et).
      destruct (Hloc e ca c Ee Hc Eec Ecp) as [Ht|Hnone]; [congruence|].
      rewrite !Hsv, (arg_rt_omitted s e Hs Ee Hon). unfold arg. rewrite Hnone. reflexivity.
  - (* stored always, written always *)
    assert (Hsv : forall kw0, store_val d kw0 s = apply_how (ps_how s) (arg d kw0 (ps_param s))).
    { intros kw0. unfold ConfigModel.store_val. rewrite Hc. reflexivity. }
    assert (Hon : emit_on (init d kw) e = true) by (unfold emit_on; rewrite Eec; reflexivity).
    rewrite (Hsv kw'). apply (arg_rt_emitted s e Hs Ee Hon (Hsv kw)).
Qed.

Lemma store_rt : forall s, In s (c_stores d) -> store_val d kw' s = store_val d kw s.
Proof.
  intros s Hs. apply store_rt_local; [exact Hs|].
  intros e ca c Ee Hc Eec Ecp. apply Hvis. eapply hidden_pair_In; eauto.
Qed.

Lemma base_rt : forall k, In k (c_base_keys d) -> argb kw' k = argb kw k.
Proof.
  intros k Hk. destruct ok_parts as (_ & _ & _ & _ & Hb).
  specialize (Hb _ Hk). unfold base_rt_okb in Hb.
  apply andb_true_iff in Hb. destruct Hb as [Hb Hm].
  apply andb_true_iff in Hb. destruct Hb as [Hpass Hnd]. apply negb_true_iff in Hnd.
  assert (Hmem : mem k (c_base_keys d) = true) by (apply mem_In; exact Hk).
  unfold argb at 1. unfold kw'. rewrite assoc_from_config, Hpass, Hnd.
  unfold ConfigModel.get_config. destruct (c_base d) eqn:Eb.
  - rewrite assoc_own_config.
    destruct (find_emit k (c_emits d)) as [e|] eqn:Ee; [|discriminate].
    destruct (em_src e) as [a|a|k0|] eqn:Esrc; try discriminate.
    destruct (em_cond e) eqn:Ec; [discriminate|]. apply String.eqb_eq in Hm. subst k0.
    unfold emit_on. rewrite Ec. unfold ConfigModel.emit_val. rewrite Esrc.
    unfold base_val. rewrite assoc_base_init, Hmem. reflexivity.
  - rewrite assoc_app, assoc_base_init, Hmem. reflexivity.
  - rewrite assoc_app, assoc_own_config.
    apply negb_true_iff in Hm. unfold emit_keys in Hm. rewrite (find_emit_none _ _ Hm).
    rewrite assoc_base_init, Hmem. reflexivity.
Qed.

Theorem rebuild_get_config_init : rebuild d (get_config d (init d kw)) = init d kw.
Proof.
  unfold ConfigModel.rebuild. fold kw'. unfold ConfigModel.init. f_equal.
  - apply map_ext_in. intros s Hs. f_equal. apply store_rt. exact Hs.
  - apply map_ext_in. intros k Hk. f_equal. apply base_rt. exact Hk.
Qed.

(* the rebuilt object reports the same configuration *)
Corollary config_stable :
  get_config d (rebuild d (get_config d (init d kw))) = get_config d (init d kw).
Proof. rewrite rebuild_get_config_init. reflexivity. Qed.

(* ---- the rebuilt object reports an equal config, WITHOUT the visibility guard ---- *)
Lemma attr_of_cond_any : forall kw0 c ca, cond_pairb d c ca = true ->
  attr_val (init d kw0) ca = arg d kw0 c.
Proof.
  intros kw0 c ca H. unfold cond_pairb in H. apply andb_true_iff in H. destruct H as [H _].
  destruct (find_store_by_param c (c_stores d)) as [sc|] eqn:E; [|discriminate].
  apply find_store_by_param_In in E. destruct E as [Hin Hp].
  apply andb_true_iff in H. destruct H as [Ha Hh]. apply String.eqb_eq in Ha.
  destruct (ps_how sc) eqn:Eh; [|discriminate]. destruct (ps_cond sc) eqn:Ec; [discriminate|].
  rewrite <- Ha, (attr_init_any kw0 _ Hin). unfold ConfigModel.store_val. rewrite Ec, Eh, Hp. reflexivity.
Qed.

Lemma base_state_rt : snd (init d kw') = snd (init d kw).
Proof.
  unfold ConfigModel.init. simpl. apply map_ext_in. intros k Hk. f_equal. apply base_rt. exact Hk.
Qed.

Hypothesis Hemits : emits_okb d = true.

Lemma emit_rt : forall e, In e (c_emits d) ->
  emit_on (init d kw') e = emit_on (init d kw) e /\
  (emit_on (init d kw) e = true -> emit_val (init d kw') e = emit_val (init d kw) e).
Proof.
  intros e He. unfold emits_okb in Hemits. rewrite forallb_forall in Hemits. specialize (Hemits _ He).
  unfold emit_okb in Hemits. apply andb_true_iff in Hemits. destruct Hemits as [Hc Hs].
  assert (Hon : emit_on (init d kw') e = emit_on (init d kw) e).
  { unfold emit_on. destruct (em_cond e) as [ca|]; [|reflexivity].
    destruct (cond_param_of d ca) as [c|] eqn:Ecp; [|discriminate].
    pose proof (cond_param_of_pair _ _ Ecp) as Hpair.
    rewrite (attr_of_cond_any kw' _ _ Hpair), (attr_of_cond_any kw _ _ Hpair).
    destruct (cond_param_rt _ _ Hpair) as [Harg _]. rewrite Harg. reflexivity. }
  split; [exact Hon|]. intros Hon1.
  assert (Hattr : forall a, (em_src e = Attr a \/ em_src e = Serialized a) ->
                  attr_val (init d kw') a = attr_val (init d kw) a).
  { intros a Hsrc.
    assert (Hs' : match find_store_by_attr a (c_stores d) with
                  | None => true
                  | Some s =>
                      match ps_cond s, find_emit (ps_param s) (c_emits d) with
                      | None, Some e0 => match em_cond e0 with
                                         | None => true
                                         | Some ca0 => match em_cond e with
                                                       | Some ca => String.eqb ca ca0
                                                       | None => false
                                                       end
                                         end
                      | Some _, Some _ => true
                      | _, None => false
                      end
                  end = true).
    { destruct Hsrc as [Hx|Hx]; rewrite Hx in Hs; exact Hs. }
    destruct (find_store_by_attr a (c_stores d)) as [s|] eqn:Ef.
    - apply find_store_by_attr_In in Ef. destruct Ef as [Hin Ha]. subst a.
      rewrite (attr_init_any kw' _ Hin), (attr_init_any kw _ Hin).
      apply store_rt_local; [exact Hin|].
      intros e0 ca0 c0 Ee0 Hcs Eec0 Ecp0. left.
      rewrite Hcs, Ee0, Eec0 in Hs'.
      destruct (em_cond e) as [ca|] eqn:Eec; [|discriminate]. apply String.eqb_eq in Hs'. subst ca.
      pose proof (cond_param_of_pair _ _ Ecp0) as Hpair.
      unfold emit_on in Hon1. rewrite Eec, (attr_of_cond_any kw _ _ Hpair) in Hon1. exact Hon1.
    - unfold attr_val, ConfigModel.init. simpl. rewrite !assoc_stores, Ef. reflexivity. }
  unfold ConfigModel.emit_val. destruct (em_src e) as [a|a|k|] eqn:Esrc.
  - apply Hattr. left. reflexivity.
  - f_equal. apply Hattr. right. reflexivity.
  - unfold base_val. rewrite base_state_rt. reflexivity.
  - reflexivity.
Qed.

Lemma map_filter_ext : forall (g1 g2 : emit -> value) (on1 on2 : emit -> bool) (l : list emit),
  (forall e, In e l -> on1 e = on2 e /\ (on2 e = true -> g1 e = g2 e)) ->
  map (fun e => (em_key e, g1 e)) (filter on1 l) = map (fun e => (em_key e, g2 e)) (filter on2 l).
Proof.
  induction l as [|e r IH]; intros H; [reflexivity|]. simpl.
  destruct (H e (or_introl eq_refl)) as [Hon Hg]. rewrite Hon.
  assert (Hr : forall e0, In e0 r -> on1 e0 = on2 e0 /\ (on2 e0 = true -> g1 e0 = g2 e0)).
  { intros e0 H0. apply H. right. exact H0. }
  destruct (on2 e) eqn:E; simpl.
  - rewrite (Hg eq_refl), (IH Hr). reflexivity.
  - apply IH. exact Hr.
Qed.

Theorem config_stable_strong :
  get_config d (rebuild d (get_config d (init d kw))) = get_config d (init d kw).
Proof.
  unfold ConfigModel.rebuild. fold kw'.
  assert (Hown : own_config d (init d kw') = own_config d (init d kw)).
  { unfold ConfigModel.own_config. apply map_filter_ext. intros e He. apply emit_rt. exact He. }
  unfold ConfigModel.get_config. rewrite Hown, base_state_rt. reflexivity.
Qed.
End OneClass.
End RoundTrip.

(* The oracle hypotheses are satisfiable (identity wrappers, identity
   serialisation), so the round-trip theorems are not vacuous. *)
Example oracle_hypotheses_satisfiable :
  let w := fun (_ : string) (v : value) => v in
  let s := fun v : value => v in
  (forall n v, w n (w n v) = w n v) /\ (forall n v, w n (s (w n v)) = w n v) /\ (forall v, s (s v) = v).
Proof. simpl. auto. Qed.

(* ---------------------------------------------------------------------- *)
(* Closed forms used by the generated Props/C11.v.                          *)
Definition oracles_ok (wrap_oracle : string -> value -> value) (ser deser : value -> value) : Prop :=
  (forall w v, wrap_oracle w (wrap_oracle w v) = wrap_oracle w v) /\
  (forall w v, wrap_oracle w (ser (wrap_oracle w v)) = wrap_oracle w v) /\
  (forall v, deser (ser v) = v).

(* rebuilding from get_config() gives an object in the same state, for every
   constructor call cls( **kw ) *)
Definition roundtrip_for (d : class_desc) : Prop :=
  forall wrap_oracle ser deser, oracles_ok wrap_oracle ser deser ->
  forall kw : kwargs,
    rebuild wrap_oracle deser d (get_config ser d (init wrap_oracle d kw)) = init wrap_oracle d kw.

(* ... and the rebuilt object's get_config() is equal *)
Definition config_stable_for (d : class_desc) : Prop :=
  forall wrap_oracle ser deser, oracles_ok wrap_oracle ser deser ->
  forall kw : kwargs,
    get_config ser d (rebuild wrap_oracle deser d (get_config ser d (init wrap_oracle d kw))) =
    get_config ser d (init wrap_oracle d kw).

Theorem roundtrip_generic : forall d, roundtrip_okb d = true -> hidden_pairs d = [] -> roundtrip_for d.
Proof.
  intros d Hok Hh wo ser deser (H1 & H2 & H3) kw.
  apply rebuild_get_config_init; try assumption. rewrite Hh. intros p c [].
Qed.

Theorem config_stable_generic : forall d, roundtrip_okb d = true -> hidden_pairs d = [] -> config_stable_for d.
Proof.
  intros d Hok Hh wo ser deser (H1 & H2 & H3) kw.
  apply config_stable; try assumption. rewrite Hh. intros p c [].
Qed.

(* Guarded forms for a class that stores a parameter p always but reports it
   only under `if self.<c>:` (Linear: bias_regularizer / use_bias): the state is
   reproduced whenever c is true or p was left at its default. *)
Definition visible_args (d : class_desc) (kw : kwargs) : Prop :=
  forall p c, In (p, c) (hidden_pairs d) -> truthy (arg d kw c) = true \/ assoc p kw = None.
Definition roundtrip_guarded_for (d : class_desc) : Prop :=
  forall wrap_oracle ser deser, oracles_ok wrap_oracle ser deser ->
  forall kw : kwargs, visible_args d kw ->
    rebuild wrap_oracle deser d (get_config ser d (init wrap_oracle d kw)) = init wrap_oracle d kw.
Definition config_stable_guarded_for (d : class_desc) : Prop :=
  forall wrap_oracle ser deser, oracles_ok wrap_oracle ser deser ->
  forall kw : kwargs, visible_args d kw ->
    get_config ser d (rebuild wrap_oracle deser d (get_config ser d (init wrap_oracle d kw))) =
    get_config ser d (init wrap_oracle d kw).

Theorem roundtrip_guarded_generic : forall d, roundtrip_okb d = true -> roundtrip_guarded_for d.
Proof.
  intros d Hok wo ser deser (H1 & H2 & H3) kw Hv.
  apply rebuild_get_config_init; assumption.
Qed.
Theorem config_stable_guarded_generic : forall d, roundtrip_okb d = true -> config_stable_guarded_for d.
Proof.
  intros d Hok wo ser deser (H1 & H2 & H3) kw Hv.
  apply config_stable; assumption.
Qed.

(* The rebuilt object reports an equal config for EVERY constructor call (no
   visibility guard): what get_config hides, it hides on both sides. *)
Theorem config_stable_unguarded_generic : forall d,
  roundtrip_okb d = true -> emits_okb d = true -> config_stable_for d.
Proof.
  intros d Hok He wo ser deser (H1 & H2 & H3) kw.
  apply config_stable_strong; assumption.
Qed.

(* Known finding D23 (open): the four premade model classes take a `dtype`
   constructor argument that is stored nowhere; the guard names exactly that. *)
Definition d23_premade_dtype (d : class_desc) (p : string) : bool :=
  String.eqb (c_module d) "premade" && String.eqb (c_kind d) "model" && String.eqb p "dtype".
Definition no_dropped_params (d : class_desc) : Prop :=
  forall p, In p (c_dropped d) -> d23_premade_dtype d p = true.
Definition no_dropped_paramsb (d : class_desc) : bool := forallb (d23_premade_dtype d) (c_dropped d).
Lemma no_dropped_params_spec : forall d, no_dropped_paramsb d = true -> no_dropped_params d.
Proof. intros d H p Hp. unfold no_dropped_paramsb in H. rewrite forallb_forall in H. auto. Qed.

(* custom-object registry *)
Definition needs_registry (d : class_desc) : bool :=
  String.eqb (c_kind d) "layer" || String.eqb (c_kind d) "model" || String.eqb (c_kind d) "config".
Definition registry_covers_layers (reg : list (string * string)) (cs : list class_desc) : Prop :=
  forall d, In d cs -> needs_registry d = true -> registered reg d = true.
Lemma registry_covers_layers_spec : forall reg cs,
  forallb (fun d => negb (needs_registry d) || registered reg d) cs = true -> registry_covers_layers reg cs.
Proof.
  intros reg cs H d Hd Hn. rewrite forallb_forall in H. specialize (H _ Hd). rewrite Hn in H. exact H.
Qed.

Definition pwl_scoped (d : class_desc) : bool :=
  String.eqb (c_module d) "pwl_calibration_layer" &&
  (String.eqb (c_kind d) "regularizer" || String.eqb (c_kind d) "initializer").
Definition registry_covers_but_pwl (reg : list (string * string)) (cs : list class_desc) : Prop :=
  forall d, In d cs -> registered reg d = true \/ pwl_scoped d = true.
Lemma registry_covers_but_pwl_spec : forall reg cs,
  forallb (fun d => registered reg d || pwl_scoped d) cs = true -> registry_covers_but_pwl reg cs.
Proof.
  intros reg cs H d Hd. rewrite forallb_forall in H. specialize (H _ Hd). apply orb_true_iff in H. exact H.
Qed.

(* Attributes that hold a constructor argument verbatim and survive the round
   trip: used for the inputs of the seed-derived structures (RTL layer, random
   ensembles), whose construction is a FUNCTION of these values (C17 model:
   rtl_structure cfg sh1 sh2 with the shuffles determined by random_seed), so
   equal values give equal structure. *)
Definition attrs_survive (d : class_desc) (attrs : list string) : Prop :=
  forall wrap_oracle ser deser, oracles_ok wrap_oracle ser deser ->
  forall (kw : kwargs) (a : string), In a attrs ->
    attr_val (init wrap_oracle d kw) a = arg d kw a /\
    attr_val (rebuild wrap_oracle deser d (get_config ser d (init wrap_oracle d kw))) a = arg d kw a.

Definition direct_attrb (d : class_desc) (a : string) : bool :=
  match find_store_by_attr a (c_stores d) with
  | Some s => String.eqb (ps_param s) a &&
              match ps_how s, ps_cond s with Direct, None => true | _, _ => false end
  | None => false
  end.

Theorem attrs_survive_generic : forall d attrs,
  roundtrip_okb d = true -> hidden_pairs d = [] -> forallb (direct_attrb d) attrs = true ->
  attrs_survive d attrs.
Proof.
  intros d attrs Hok Hh Hd wo ser deser Hor kw a Ha.
  rewrite forallb_forall in Hd. specialize (Hd _ Ha). unfold direct_attrb in Hd.
  assert (H1 : attr_val (init wo d kw) a = arg d kw a).
  { unfold attr_val, init. simpl. rewrite assoc_stores.
    destruct (find_store_by_attr a (c_stores d)) as [s|]; [|discriminate].
    apply andb_true_iff in Hd. destruct Hd as [Hp Hh2]. apply String.eqb_eq in Hp.
    simpl. unfold store_val. destruct (ps_how s); [|discriminate]. destruct (ps_cond s); [discriminate|].
    simpl. rewrite Hp. reflexivity. }
  split; [exact H1|].
  rewrite (roundtrip_generic d Hok Hh wo ser deser Hor kw). exact H1.
Qed.
