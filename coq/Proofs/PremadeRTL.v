(* Premade ensembles with an RTL structure: lemmas for section E of Props/C03.v.
   Composes the wiring theorems of property C17 (Props/C17.v over
   Model/RTLStructure.v: position p of a lattice carries monotonicity flag 1
   exactly when the input wired to it was supplied under 'increasing') with the
   ensemble theorem of Proofs/PremadeKFL.v (members are all-vertices lattices or
   KFL units and may read an input at several positions: RTL tiles its inputs). *)
From TFL Require Import Model.PremadeKFL Proofs.Premade Proofs.PremadeKFL.
From TFL Require Import Proofs.PWLEval Proofs.LinearEval Proofs.LatticeInterp.
From TFL Require Model.RTLStructure Proofs.RTLStructure Props.C17.
Module MR := TFL.Model.RTLStructure.
Module PR := TFL.Proofs.RTLStructure.
Open Scope Q_scope.

(* the lattices of an RTL structure, each with the monotonicity tuple of its
   entry, in RTL.call order (entry by entry, unit by unit) *)
Definition rtl_units (s : MR.structure) : list (list nat * list nat) :=
  flat_map (fun e => map (fun lat => (fst e, lat)) (snd e)) s.

(* member m realises the lattice (mo, lat): it reads the flattened RTL inputs lat,
   input j through ITS calibrator nth j cals (premade_lib feeds the RTL layer the
   calibrated features: 'increasing' list first, then 'unconstrained'), and its
   layer was built with monotonicities = mo, i.e. it is constrained
   non-decreasing along every position that mo flags *)
Definition rtl_member_of (cals : list calib) (ml : list nat * list nat) (m : member2) : Prop :=
  member2_idx m = snd ml /\ member2_cals m = map (fun j => nth j cals dcal) (snd ml) /\
  forall q, (q < length (snd ml))%nat -> nth q (fst ml) 0%nat = 1%nat -> member2_mono_dim m q.
Definition rtl_wired (s : MR.structure) (cals : list calib) (ms : list member2) : Prop :=
  Forall2 (rtl_member_of cals) (rtl_units s) ms.

Lemma Forall2_In_r {A B} (R : A -> B -> Prop) l1 l2 b : Forall2 R l1 l2 -> In b l2 -> exists a, In a l1 /\ R a b.
Proof. induction 1 as [|a b' l1 l2 H _ IH]; intros Hin; cbn in Hin. contradiction.
  destruct Hin as [<-|Hin]. exists a. split. left; reflexivity. exact H.
  destruct (IH Hin) as [a' [Ha' Hr]]. exists a'. split. right; exact Ha'. exact Hr. Qed.

Lemma rtl_units_in s ml : In ml (rtl_units s) -> exists ls, In (fst ml, ls) s /\ In (snd ml) ls.
Proof. unfold rtl_units. intros H. apply in_flat_map in H. destruct H as [[mo ls] [He Hm]].
  apply in_map_iff in Hm. destruct Hm as [lat [<- Hl]]. exists ls. cbn [fst snd]. split; assumption. Qed.

(* every member of an RTL-wired ensemble is monotone in every input that was
   supplied under 'increasing' *)
Lemma rtl_member_monotone_in sh1 sh2 cfg s cals ms m i xi v :
  PR.perm_oracle sh1 -> PR.perm_oracle sh2 -> MR.rtl_structure cfg sh1 sh2 = Some s ->
  rtl_wired s cals ms -> In m ms ->
  MR.input_mono (MR.c_input cfg) i = 1%nat ->
  calib_eval (nth i cals dcal) xi <= calib_eval (nth i cals dcal) v ->
  member2_monotone_in m i xi v.
Proof. intros P1 P2 Hs Hw Hin Hmono Hle.
  destruct (Forall2_In_r _ _ _ m Hw Hin) as [[mo lat] [Hml (Eidx & Ecals & Hdim)]]. cbn [fst snd] in *.
  destruct (rtl_units_in s _ Hml) as [ls [He Hl]]. cbn [fst snd] in *.
  destruct (C17.C17_rtl_monotone_wiring sh1 sh2 P1 P2 cfg s Hs mo ls lat He Hl) as [Hwire _].
  destruct (C17.C17_rtl_rank sh1 sh2 P1 P2 cfg s Hs) as [_ Hrank].
  destruct (Hrank mo ls He) as [_ Hrl]. specialize (Hrl lat Hl).
  unfold member2_monotone_in, reads_monotone. rewrite Eidx, Ecals. intros q Hq Eq. split.
  - apply Hdim. exact Hq. rewrite (Hwire q ltac:(lia)). rewrite Eq. exact Hmono.
  - rewrite (nth_indep _ dcal (nth (0%nat) cals dcal)) by (rewrite map_length; exact Hq).
    rewrite (map_nth (fun j => nth j cals dcal) lat 0%nat q). rewrite Eq. exact Hle. Qed.

Theorem rtl_ensemble_monotone sh1 sh2 cfg s cals ms c oc x i v :
  PR.perm_oracle sh1 -> PR.perm_oracle sh2 -> MR.rtl_structure cfg sh1 sh2 = Some s ->
  rtl_wired s cals ms -> (forall m, In m ms -> member2_ok m) ->
  comb_monotone c -> out_monotone oc -> (i < length x)%nat ->
  MR.input_mono (MR.c_input cfg) i = 1%nat ->
  calib_eval (nth i cals dcal) (nth i x 0) <= calib_eval (nth i cals dcal) v ->
  ensemble2_eval ms c oc x <= ensemble2_eval ms c oc (set_nth i v x).
Proof. intros P1 P2 Hs Hw Hok Hc Ho Hi Hmono Hle. apply ensemble2_compose_monotone; try assumption.
  intros m Hm. split. apply Hok; exact Hm.
  exact (rtl_member_monotone_in sh1 sh2 cfg s cals ms m i _ v P1 P2 Hs Hw Hm Hmono Hle). Qed.

(* numeric feature behind RTL input i: increasing calibrator => non-decreasing
   output, decreasing calibrator => non-increasing output, for every pair of
   non-missing inputs *)
Theorem rtl_ensemble_monotone_numeric sh1 sh2 cfg s cals ms c oc x i v kps lens col miss :
  PR.perm_oracle sh1 -> PR.perm_oracle sh2 -> MR.rtl_structure cfg sh1 sh2 = Some s ->
  rtl_wired s cals ms -> (forall m, In m ms -> member2_ok m) ->
  comb_monotone c -> out_monotone oc -> (i < length x)%nat ->
  MR.input_mono (MR.c_input cfg) i = 1%nat ->
  nth i cals dcal = CPwl kps lens col miss -> Forall (fun l => 0 < l) lens ->
  regular_input (nth i cals dcal) (nth i x 0) -> regular_input (nth i cals dcal) v -> nth i x 0 <= v ->
  (outs_nondecr col -> ensemble2_eval ms c oc x <= ensemble2_eval ms c oc (set_nth i v x)) /\
  (outs_nonincr col -> ensemble2_eval ms c oc (set_nth i v x) <= ensemble2_eval ms c oc x).
Proof. intros P1 P2 Hs Hw Hok Hc Ho Hi Hmono E Hl Rx Rv Hle. rewrite E in Rx, Rv.
  destruct (calib_pwl_monotone kps lens col miss _ _ Hl Rx Rv Hle) as [Inc Dec]. split; intros Hd.
  - apply (rtl_ensemble_monotone sh1 sh2 cfg s cals); try assumption. rewrite E. apply Inc. exact Hd.
  - pose proof (rtl_ensemble_monotone sh1 sh2 cfg s cals ms c oc (set_nth i v x) i (nth i x 0) P1 P2 Hs Hw Hok Hc Ho
                  ltac:(rewrite set_nth_length; exact Hi) Hmono) as H.
    rewrite set_nth_twice, set_nth_self in H. apply H. rewrite nth_set_nth_same by lia. rewrite E. apply Dec. exact Hd. Qed.

(* categorical feature behind RTL input i, ordering pair (a, b) *)
Theorem rtl_ensemble_monotone_categorical sh1 sh2 cfg s cals ms c oc x i vals d a b :
  PR.perm_oracle sh1 -> PR.perm_oracle sh2 -> MR.rtl_structure cfg sh1 sh2 = Some s ->
  rtl_wired s cals ms -> (forall m, In m ms -> member2_ok m) ->
  comb_monotone c -> out_monotone oc -> (i < length x)%nat ->
  MR.input_mono (MR.c_input cfg) i = 1%nat ->
  nth i cals dcal = CCat vals d -> (a < length vals)%nat -> (b < length vals)%nat ->
  d <> Some (Z.of_nat a) -> d <> Some (Z.of_nat b) -> nth a vals 0 <= nth b vals 0 ->
  ensemble2_eval ms c oc (set_nth i (qn a) x) <= ensemble2_eval ms c oc (set_nth i (qn b) x).
Proof. intros P1 P2 Hs Hw Hok Hc Ho Hi Hmono E Ha Hb Da Db Hab.
  pose proof (rtl_ensemble_monotone sh1 sh2 cfg s cals ms c oc (set_nth i (qn a) x) i (qn b) P1 P2 Hs Hw Hok Hc Ho
                ltac:(rewrite set_nth_length; exact Hi) Hmono) as H.
  rewrite set_nth_twice in H. apply H. rewrite nth_set_nth_same by lia. rewrite E.
  apply calib_cat_pair; assumption. Qed.

(* ====================================================================== *)
(* Non-vacuity: the structure of C17_rtl_example                            *)
(*   3 lattices of rank 2 over 4 inputs (0, 1 'increasing'; 2, 3 'unconstrained'): *)
(*   [([0;1], [[2;1]; [3;0]]); ([1;1], [[0;1]])]                            *)
(* realised by two all-vertices 2x2 lattices (monotone along position 1) and *)
(* one KFL unit (monotonicities [1;1]); every input through the calibrator   *)
(* 0, 1 -> 0, 1.                                                            *)
(* ====================================================================== *)
Definition exr_cfg : MR.rtl_cfg :=
  MR.mkcfg 3 2 true 10 (MR.mkin (Some (MR.Multi [2%nat])) (Some (MR.Single 2))).
Definition exr_s : MR.structure := [([0; 1], [[2; 1]; [3; 0]]); ([1; 1], [[0; 1]])]%nat.
Definition exr_cals : list calib := [exk_cal; exk_cal; exk_cal; exk_cal].
Definition exr_K : list (list Q) := [[1]; [2]; [0]; [3]].       (* rows (0,0) (0,1) (1,0) (1,1) *)
Definition exr_lat (idx : list nat) : member2 :=
  MLat (mkMember idx [exk_cal; exk_cal] Hypercube [2; 2]%nat exr_K).
Definition exr_kcfg : MK.config := MK.mkCfg 2 (Some [true; true]) (Some (-(1))) (Some 1) false.
Definition exr_kpar : MK.params := MK.mkPar [[ [[0; 1]; [1#2; 1]] ]] [[ 1 ]] [0].
Definition exr_ms : list member2 :=
  [exr_lat [2; 1]%nat; exr_lat [3; 0]%nat; MKfl [0; 1]%nat [exk_cal; exk_cal] exr_kcfg exr_kpar 0].

Example exr_structure : PR.perm_oracle (fun l => l) /\ MR.rtl_structure exr_cfg (fun l => l) (fun l => l) = Some exr_s.
Proof. split. exact PR.perm_oracle_id. vm_compute. reflexivity. Qed.

Example exr_knondecr : knondecr [2; 2]%nat (kern [2; 2]%nat exr_K 0) 1.
Proof. intros i Hi Hb; all_valid i Hi; cbn in Hb; try lia; apply Qle_bool_iff; vm_compute; reflexivity. Qed.

Example exr_cals2_in_range : cals_in_range [2; 2]%nat [exk_cal; exk_cal].
Proof. intros j Hj. cbn in Hj. assert (E : nth j [exk_cal; exk_cal] dcal = exk_cal) by (destruct j as [|[|j]]; try reflexivity; lia).
  assert (E2 : nth j [2; 2]%nat 0%nat = 2%nat) by (destruct j as [|[|j]]; try reflexivity; lia). rewrite E, E2.
  exact (exk_in_range 0%nat ltac:(cbn; lia)). Qed.

Example exr_wired : rtl_wired exr_s exr_cals exr_ms.
Proof. unfold rtl_wired, exr_s, exr_ms, rtl_units. cbn [flat_map map fst snd app].
  constructor; [|constructor; [|constructor; [|constructor]]]; (split; [reflexivity|split; [reflexivity|]]);
    cbn [fst snd length]; intros q Hq Eq.
  - destruct q as [|[|q]]; cbn in Eq; try discriminate; try lia. exact exr_knondecr.
  - destruct q as [|[|q]]; cbn in Eq; try discriminate; try lia. exact exr_knondecr.
  - exists [true; true]. split. reflexivity. destruct q as [|[|q]]; try reflexivity; lia. Qed.

Example exr_kfl_feasible : PK.cfg_ok exr_kcfg 2 /\ kfl_feasible exr_kcfg 2 exr_kpar.
Proof. split.
  - split; [cbn; lia|split; [lia|split]].
    + intros lo hi H1 H2. cbn in H1, H2. injection H1 as <-. injection H2 as <-. lra.
    + intros ms E. cbn in E. injection E as <-. reflexivity.
  - split.
    + cbn [exr_kpar MK.p_scale MK.p_kern]. constructor; [|constructor]. constructor; [|constructor].
      split; [|split].
      * split. reflexivity. constructor; [reflexivity|constructor; [reflexivity|constructor]].
      * split; [|split].
        -- intros ms0 E Hc. cbn in E. injection E as <-. right. left. split. lra. split.
           ++ constructor; [|constructor; [|constructor]]; (constructor; [lra|constructor; [lra|constructor]]).
           ++ constructor; [|constructor; [|constructor]]; intros _; cbn; (split; [lra|exact I]).
        -- intros _ _. unfold PK.prodmax. vm_compute. discriminate.
        -- intros Hne. cbn in Hne. congruence.
      * unfold PK.sgood. cbn. lra.
    + intros _. cbn. constructor; [|constructor]. vm_compute. reflexivity. Qed.

Example exr_members_ok : forall m, In m exr_ms -> member2_ok m.
Proof. intros m [<-|[<-|[<-|[]]]].
  - cbn. repeat split; try discriminate; try reflexivity; try lia. repeat constructor. repeat constructor. exact exr_cals2_in_range.
  - cbn. repeat split; try discriminate; try reflexivity; try lia. repeat constructor. repeat constructor. exact exr_cals2_in_range.
  - cbn [member2_ok]. exists 2%nat. destruct exr_kfl_feasible as [H1 H2]. split. exact H1. split. exact H2.
    split. reflexivity. split. reflexivity. exact exr_cals2_in_range. Qed.

(* inputs 0 and 1 were supplied under 'increasing'; the ensemble evaluated: raising
   input 1 (read by the first lattice AND by the KFL unit) raises the output *)
Example exr_values :
  MR.input_mono (MR.c_input exr_cfg) 0 = 1%nat /\ MR.input_mono (MR.c_input exr_cfg) 1 = 1%nat /\
  ensemble2_eval exr_ms Average None [1#2; 0; 1; 0] == 7#12 /\
  ensemble2_eval exr_ms Average None [1#2; 1; 1; 0] == 5#3.
Proof. repeat split; vm_compute; reflexivity. Qed.
