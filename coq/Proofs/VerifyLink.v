(* Link between the two halves of property C16: the canonical-range hypotheses
   of the acceptance bridges of Proofs/VerifyFacts.v hold for every typed
   configuration that the correspondence glue of Harness/H_C16.v (num_z / to_zs /
   conv_zs / conv_trusts / conv_scalar) builds from an output of the GENERATED
   canonicalisers.  Separate from VerifyFacts.v so that only this file depends
   on the regenerated Gen/GenCanon.v. *)
From Coq Require Import ZArith QArith List Bool Lia.
From TFL Require Proofs.LatticeSpec.
From TFL Require Import Harness.H_C16 Proofs.Canon Proofs.VerifyFacts.
Import ListNotations.
Open Scope Z_scope.

Lemma qeq_inject z k : Qeq_bool (inject_Z z) (inject_Z k) = true -> z = k.
Proof. intros H. apply Qeq_bool_iff in H. unfold Qeq in H. cbn in H. lia. Qed.

Lemma num_z_eq y z k : num_z y = Some z -> py_eq y (VInt k) = true -> z = k.
Proof.
  destruct y; cbn; try discriminate.
  - intros E H. injection E as <-. destruct b; apply (qeq_inject _ k) in H; exact H.
  - intros E H. injection E as <-. apply qeq_inject, H.
Qed.

Lemma num_z_in3 y z : num_z y = Some z -> in3 y = true -> z = -1 \/ z = 0 \/ z = 1.
Proof.
  intros E H. unfold in3, py_in in H. cbn [existsb] in H. rewrite !orb_true_iff in H.
  destruct H as [H|[H|[H|H]]]; [| | |discriminate]; apply (num_z_eq y z _ E) in H; auto.
Qed.
Lemma num_z_in2 y z : num_z y = Some z -> in2 y = true -> z = 1 \/ z = -1.
Proof.
  intros E H. unfold in2, py_in in H. cbn [existsb] in H. rewrite !orb_true_iff in H.
  destruct H as [H|[H|H]]; [| |discriminate]; apply (num_z_eq y z _ E) in H; auto.
Qed.
Lemma num_z_not_minus1 y z : num_z y = Some z -> py_eq y (VInt (-1)) = false -> z <> -1.
Proof.
  destruct y; cbn; try discriminate.
  - intros E _. injection E as <-. destruct b; lia.
  - intros E H. injection E as <-. intros ->. cbn in H. discriminate.
Qed.

Lemma to_zs_Forall (P : value -> Prop) (R : Z -> Prop) :
  (forall y z, P y -> num_z y = Some z -> R z) ->
  forall ys ms, to_zs ys = Some ms -> Forall P ys -> forall m, In m ms -> R m.
Proof.
  intros HPR. induction ys as [|y ys IH]; intros ms E HF m Hm.
  - injection E as <-. contradiction.
  - cbn in E. destruct (num_z y) as [z|] eqn:Ez; [|discriminate].
    destruct (to_zs ys) as [zs|] eqn:Ezs; [|discriminate]. injection E as <-.
    inversion HF as [|? ? Hy Hys]; subst. destruct Hm as [<-|Hm].
    + apply (HPR y z Hy Ez).
    + apply (IH zs eq_refl Hys m Hm).
Qed.

(* monotonicities, either value of allow_decreasing: entries in {-1,0,1};
   allow_decreasing = False (Lattice, KFL): entries in {0,1} *)
Lemma link_monotonicities v ad ms :
  conv_zs (canonicalize_monotonicities v ad) = CVal (Some ms) ->
  (forall m, In m ms -> m = 0 \/ m = 1 \/ m = -1) /\
  (py_truthy ad = false -> forall m, In m ms -> m = 0 \/ m = 1).
Proof.
  intros H. destruct (canonicalize_monotonicities v ad) as [w| |e] eqn:Ec; cbn in H; try discriminate.
  destruct (gen_monotonicities_range v ad w Ec) as [->|(ys & -> & _ & HF)]; [discriminate|].
  destruct (to_zs ys) as [zs|] eqn:Ez; [|discriminate]. injection H as <-. split.
  - refine (to_zs_Forall _ (fun m => m = 0 \/ m = 1 \/ m = -1) _ ys zs Ez HF).
    intros y z [[->|H3] _] E; [discriminate|].
    destruct (num_z_in3 y z E H3) as [?|[?|?]]; auto.
  - intros Had. refine (to_zs_Forall _ (fun m => m = 0 \/ m = 1) _ ys zs Ez HF).
    intros y z [[->|H3] Hn] E; [discriminate|].
    pose proof (num_z_not_minus1 y z E (Hn Had)). destruct (num_z_in3 y z E H3) as [?|[?|?]]; auto. contradiction.
Qed.

Lemma to_trusts_dirs : forall ys ts, to_trusts ys = Some ts -> Forall canonical_trust_entry ys ->
  forall a b d, In (a, b, d) ts -> d = 1 \/ d = -1.
Proof.
  induction ys as [|y ys IH]; intros ts E HF a b d Hin.
  - injection E as <-. contradiction.
  - cbn in E. destruct (to_trust y) as [t|] eqn:Et; [|discriminate].
    destruct (to_trusts ys) as [ts'|] eqn:Ets; [|discriminate]. injection E as <-.
    inversion HF as [|? ? Hy Hys]; subst. destruct Hin as [->|Hin].
    + destruct Hy as (va & vb & vd & -> & H2). cbn in Et.
      destruct (num_z va) as [x1|]; [|discriminate]. destruct (num_z vb) as [x2|]; [|discriminate].
      destruct (num_z vd) as [z|] eqn:Ed; [|discriminate].
      injection Et as _ _ <-. apply (num_z_in2 vd z Ed H2).
    + apply (IH ts' eq_refl Hys a b d Hin).
Qed.

Lemma link_trusts v ts : conv_trusts (canonicalize_trust v) = CVal ts ->
  forall a b d, In (a, b, d) ts -> d = 1 \/ d = -1.
Proof.
  intros H. destruct (canonicalize_trust v) as [w| |e] eqn:Ec; cbn in H; try discriminate.
  destruct (gen_trust_range v w Ec) as [->|(ys & -> & _ & HF)].
  - injection H as <-. intros a b d [].
  - destruct (to_trusts ys) as [ts'|] eqn:Et; [|discriminate]. injection H as <-.
    apply (to_trusts_dirs ys ts' Et HF).
Qed.

Lemma link_scalar_range w o : (w = VNone \/ in3 w = true) -> conv_scalar (Ok w) = CVal o ->
  oz o = -1 \/ oz o = 0 \/ oz o = 1.
Proof.
  intros Hr H. destruct Hr as [->|H3].
  - cbn in H. injection H as <-. cbn. auto.
  - assert (X : exists z, num_z w = Some z /\ o = Some z).
    { destruct w; cbn in H; try discriminate; injection H as <-; eexists; split; reflexivity. }
    destruct X as (z & Ez & ->). cbn. apply (num_z_in3 w z Ez H3).
Qed.
Lemma link_monotonicity v ad o : conv_scalar (canonicalize_monotonicity v ad) = CVal o ->
  oz o = -1 \/ oz o = 0 \/ oz o = 1.
Proof.
  intros H. destruct (canonicalize_monotonicity v ad) as [w| |e] eqn:Ec; cbn in H; try discriminate.
  apply (link_scalar_range w o); [apply (gen_monotonicity_range v ad w Ec)|exact H].
Qed.
Lemma link_convexity v o : conv_scalar (canonicalize_convexity v) = CVal o ->
  oz o = -1 \/ oz o = 0 \/ oz o = 1.
Proof.
  intros H. destruct (canonicalize_convexity v) as [w| |e] eqn:Ec; cbn in H; try discriminate.
  apply (link_scalar_range w o); [apply (gen_convexity_range v w Ec)|exact H].
Qed.

(* the Lattice bridge with its canonical-range hypotheses discharged *)
Lemma canonical_accepted_lattice_cfg_valid vm ve vt c units :
  conv_zs (canonicalize_monotonicities vm (VBool false)) = CVal (l_monos c) ->
  conv_trusts (canonicalize_trust ve) = CVal (l_edge c) ->
  conv_trusts (canonicalize_trust vt) = CVal (l_trap c) ->
  accepts_lattice c = true -> (1 <= units)%nat ->
  LatticeSpec.cfg_valid (conv_lattice c units).
Proof.
  intros Hm He Ht Hacc Hu. apply accepted_lattice_cfg_valid; try assumption.
  - intros ms m E Hin. rewrite E in Hm. destruct (link_monotonicities _ _ _ Hm) as [_ X].
    apply (X eq_refl m Hin).
  - intros a b d Hin. apply in_app_or in Hin. destruct Hin as [Hin|Hin].
    + apply (link_trusts ve _ He a b d Hin).
    + apply (link_trusts vt _ Ht a b d Hin).
Qed.
