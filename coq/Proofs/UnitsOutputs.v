(* C09, third clause, for Linear, CategoricalCalibration, PWLCalibration and
   Lattice: "the layer output of unit u depends only on unit u's parameters and
   inputs".  Two layers of the same shape whose parameters agree ON UNIT u (and
   may differ arbitrarily elsewhere), evaluated on inputs that agree on unit
   u's input, give the same output for unit u.  (KroneckerFactoredLattice:
   Proofs/UnitsKFL.v.) *)
From TFL Require Import Model.LinearEval Proofs.LinearEval.
From TFL Require Model.PWLEval Model.CategoricalEval Model.LatticeInterp Proofs.LatticeInterp.
Open Scope Q_scope.

(* ================= Linear ================= *)
Theorem linear_unit_local units units' K K' bias bias' bs xs xs' u : (u < units)%nat -> (u < units')%nat ->
  column u K = column u K' -> nth u bias 0 = nth u bias' 0 -> nth u xs [] = nth u xs' [] ->
  nth u (linear_eval units K bias bs xs) 0 = nth u (linear_eval units' K' bias' bs xs') 0.
Proof. intros Hu Hu' EK Eb Ex. rewrite !linear_eval_unit by assumption. rewrite EK, Eb, Ex. reflexivity. Qed.

(* ================= CategoricalCalibration ================= *)
Section Cat.
Import Model.PWLEval Model.CategoricalEval.

(* which input column unit u reads: column u, or the only column *)
Definition in_col (cols u : nat) : nat := if (cols =? 1)%nat then 0%nat else u.

Lemma nth_map_Z (g : Q -> Z) row row' j : length row = length row' -> nth j row 0 = nth j row' 0 ->
  nth j (map g row) 0%Z = nth j (map g row') 0%Z.
Proof. intros L E. destruct (Nat.lt_ge_cases j (length row)) as [H|H].
  - rewrite nth_indep with (d' := g 0) by (rewrite map_length; exact H).
    rewrite (nth_indep (map g row') 0%Z (g 0)) by (rewrite map_length; lia). rewrite !map_nth, E. reflexivity.
  - rewrite !nth_overflow by (rewrite map_length; lia). reflexivity. Qed.

Theorem cat_unit_local (L L' : cat_layer) row row' u :
  c_buckets L = c_buckets L' -> c_units L = c_units L' -> c_default L = c_default L' ->
  column u (c_kernel L) = column u (c_kernel L') -> (u < c_units L)%nat ->
  length row = length row' -> nth (in_col (length row) u) row 0 = nth (in_col (length row) u) row' 0 ->
  nth u (cat_row L row) 0 = nth u (cat_row L' row') 0.
Proof. intros Eb Eu Ed Ek Hu Ll Ex. unfold cat_row. rewrite <- Eu, <- Eb.
  assert (Er : forall i, replace_default L i = replace_default L' i) by (intros i; unfold replace_default; rewrite Ed, Eb; reflexivity).
  rewrite (map_ext (fun x => replace_default L' (cast_int x)) (fun x => replace_default L (cast_int x))) by (intros; symmetry; apply Er).
  destruct (Nat.eqb_spec (c_units L) 1) as [E1|N1].
  - assert (u = 0%nat) by lia. subst u. cbn [nth]. rewrite Ek.
    assert (E0 : in_col (length row) 0 = 0%nat) by (unfold in_col; destruct (length row =? 1)%nat; reflexivity).
    rewrite E0 in Ex. rewrite (nth_map_Z (fun x => replace_default L (cast_int x)) row row' 0 Ll Ex). reflexivity.
  - rewrite (nth_map_seq (fun u => dot (one_hot (c_buckets L) (nth (if (length row =? 1)%nat then 0%nat else u)
               (map (fun x => replace_default L (cast_int x)) row) 0%Z)) (column u (c_kernel L))) (c_units L) u 0 Hu).
    rewrite (nth_map_seq (fun u => dot (one_hot (c_buckets L) (nth (if (length row' =? 1)%nat then 0%nat else u)
               (map (fun x => replace_default L (cast_int x)) row') 0%Z)) (column u (c_kernel L'))) (c_units L) u 0 Hu).
    rewrite Ek, <- Ll. fold (in_col (length row) u).
    rewrite (nth_map_Z (fun x => replace_default L (cast_int x)) row row' _ Ll Ex). reflexivity. Qed.
End Cat.

(* ================= PWLCalibration ================= *)
Section PWL.
Import Model.PWLEval.

Definition pwl_same_shape (L L' : pwl_layer) : Prop :=
  p_units L = p_units L' /\ p_learned L = p_learned L' /\ p_cyclic L = p_cyclic L' /\
  p_impute L = p_impute L' /\ p_missing_input L = p_missing_input L'.
(* unit u's parameters: its kernel column (bias and heights), its keypoint
   tables (shared row when the keypoints are fixed), its missing output *)
Definition pwl_agree_unit (L L' : pwl_layer) (u : nat) : Prop :=
  column u (p_kernel L) = column u (p_kernel L') /\ unit_lefts L u = unit_lefts L' u /\
  unit_lens L u = unit_lens L' u /\ nth u (p_missing_output L) 0 = nth u (p_missing_output L') 0.

Lemma column_tl u (K : list (list Q)) : column u (tl K) = tl (column u K).
Proof. destruct K; reflexivity. Qed.
Lemma column_app u (A B : list (list Q)) : column u (A ++ B) = column u A ++ column u B.
Proof. unfold column. apply map_app. Qed.

Lemma column_bias_and_heights L u : (u < p_units L)%nat ->
  column u (bias_and_heights L) =
  if p_cyclic L then column u (p_kernel L) ++ [- qsum (tl (column u (p_kernel L)))] else column u (p_kernel L).
Proof. intros Hu. unfold bias_and_heights. destruct (p_cyclic L); [|reflexivity].
  rewrite column_app. f_equal. unfold column at 1. cbn [map]. unfold closing_row.
  rewrite (nth_map_seq (fun u => - qsum (column u (tl (p_kernel L)))) (p_units L) u 0 Hu). rewrite column_tl. reflexivity. Qed.

Lemma unit_row0 learned units tbl u : (u < units)%nat -> (learned && (1 <? units)%nat) = false ->
  nth 0 tbl [] = unit_row learned tbl u.
Proof. intros Hu H. unfold unit_row. destruct learned; [|reflexivity]. rewrite Bool.andb_true_l in H. apply Nat.ltb_ge in H.
  assert (u = 0%nat) by lia. subst u. reflexivity. Qed.

(* unit u's calibration value as a function of unit u's data only *)
Definition calib_unit (L : pwl_layer) (row : list Q) (u : nat) : Q :=
  dot (interpolation_weights (nth (if (length row =? 1)%nat then 0%nat else u) row 0) (unit_lefts L u) (unit_lens L u))
      (column u (bias_and_heights L)).

Lemma calib_row_unit L row u : (u < p_units L)%nat -> nth u (calib_row L row) 0 = calib_unit L row u.
Proof. intros Hu. unfold calib_row, calib_unit. cbv zeta. destruct (expands L (length row)) eqn:Ex.
  - exact (nth_map_seq (fun u => dot (interpolation_weights (nth (if (length row =? 1)%nat then 0%nat else u) row 0)
                                         (unit_lefts L u) (unit_lens L u)) (column u (bias_and_heights L))) (p_units L) u 0 Hu).
  - rewrite (nth_map_seq (fun u => dot (interpolation_weights (nth 0 row 0) (nth 0 (p_lefts L) []) (nth 0 (p_lens L) []))
                                       (column u (bias_and_heights L))) (p_units L) u 0 Hu).
    unfold expands in Ex. apply Bool.orb_false_iff in Ex. destruct Ex as [E1 E2].
    unfold unit_lefts, unit_lens. rewrite <- (unit_row0 (p_learned L) (p_units L) (p_lefts L) u Hu E2).
    rewrite <- (unit_row0 (p_learned L) (p_units L) (p_lens L) u Hu E2).
    assert (Ei : nth (if (length row =? 1)%nat then 0%nat else u) row 0 = nth 0 row 0).
    { destruct (Nat.eqb_spec (length row) 1); [reflexivity|]. apply Nat.ltb_ge in E1.
      assert (length row = 0%nat) by lia. destruct row; [|discriminate]. destruct u; reflexivity. }
    rewrite Ei. reflexivity. Qed.

Lemma calib_unit_local L L' row u : pwl_same_shape L L' -> pwl_agree_unit L L' u -> (u < p_units L)%nat ->
  calib_unit L row u = calib_unit L' row u.
Proof. intros (Eu & El & Ec & _) (Ek & Elf & Eln & _) Hu. unfold calib_unit.
  rewrite (column_bias_and_heights L u Hu). rewrite (column_bias_and_heights L' u) by (rewrite <- Eu; exact Hu).
  rewrite Ek, Elf, Eln, Ec. reflexivity. Qed.

Lemma mix_row_unit L m res u : (u < p_units L)%nat ->
  nth u (mix_row L m res) 0 =
  nth (if (length m =? 1)%nat then 0%nat else u) m 0 * nth u (p_missing_output L) 0 +
  (1 - nth (if (length m =? 1)%nat then 0%nat else u) m 0) * nth u res 0.
Proof. intros Hu. unfold mix_row.
  exact (nth_map_seq (fun u => nth (if (length m =? 1)%nat then 0%nat else u) m 0 * nth u (p_missing_output L) 0 +
                               (1 - nth (if (length m =? 1)%nat then 0%nat else u) m 0) * nth u res 0) (p_units L) u 0 Hu). Qed.

Theorem pwl_unit_local (L L' : pwl_layer) u row given :
  pwl_same_shape L L' -> pwl_agree_unit L L' u -> (u < p_units L)%nat ->
  nth u (call_row L row given) 0 = nth u (call_row L' row given) 0.
Proof. intros S A Hu. pose proof S as (Eu & El & Ec & Ei & Em). pose proof A as (_ & _ & _ & Eo).
  assert (Hu' : (u < p_units L')%nat) by (rewrite <- Eu; exact Hu).
  assert (Ecal : nth u (calib_row L row) 0 = nth u (calib_row L' row) 0).
  { rewrite (calib_row_unit L row u Hu), (calib_row_unit L' row u Hu'). apply calib_unit_local; assumption. }
  unfold call_row. cbv zeta. rewrite <- Ei, <- Em. destruct (p_impute L); [|exact Ecal].
  destruct given as [m|]; [|destruct (p_missing_input L) as [v|]; [|exact Ecal]].
  - rewrite (mix_row_unit L _ _ u Hu), (mix_row_unit L' _ _ u Hu'). rewrite Ecal, Eo. reflexivity.
  - rewrite (mix_row_unit L _ _ u Hu), (mix_row_unit L' _ _ u Hu'). rewrite Ecal, Eo. reflexivity. Qed.

(* ... and on unit u's input only: rows of equal width that agree in the column unit u reads *)
Theorem pwl_unit_input_local (L : pwl_layer) u row row' :
  (u < p_units L)%nat -> length row = length row' ->
  nth (if (length row =? 1)%nat then 0%nat else u) row 0 = nth (if (length row =? 1)%nat then 0%nat else u) row' 0 ->
  nth u (call_row L row None) 0 = nth u (call_row L row' None) 0.
Proof. intros Hu Ll Ex.
  assert (Ecal : nth u (calib_row L row) 0 = nth u (calib_row L row') 0).
  { rewrite !calib_row_unit by exact Hu. unfold calib_unit. rewrite <- Ll, Ex. reflexivity. }
  unfold call_row. cbv zeta. destruct (p_impute L); [|exact Ecal].
  destruct (p_missing_input L) as [v|]; [|exact Ecal].
  rewrite !mix_row_unit by exact Hu. rewrite Ecal. unfold equal_flags. rewrite !map_length, <- Ll.
  set (j := if (length row =? 1)%nat then 0%nat else u) in *.
  assert (Ef : nth j (map (fun x => if Qeq_bool x v then 1 else 0) row) 0 = nth j (map (fun x => if Qeq_bool x v then 1 else 0) row') 0).
  { destruct (Nat.lt_ge_cases j (length row)) as [H|H].
    - rewrite nth_indep with (d' := (fun x => if Qeq_bool x v then 1 else 0) 0) by (rewrite map_length; exact H).
      rewrite (nth_indep (map _ row') 0 ((fun x => if Qeq_bool x v then 1 else 0) 0)) by (rewrite map_length; lia).
      rewrite !(map_nth (fun x => if Qeq_bool x v then 1 else 0)), Ex. reflexivity.
    - rewrite !nth_overflow by (rewrite map_length; lia). reflexivity. }
  rewrite Ef. reflexivity. Qed.
End PWL.

(* ================= Lattice ================= *)
Section Lat.
Import Model.LatticeInterp Proofs.LatticeInterp.

Lemma simplex_unit_ext clip sizes (g g' : Z -> Q) x : (forall i, g i = g' i) ->
  simplex_unit clip sizes g x = simplex_unit clip sizes g' x.
Proof. intros H. unfold simplex_unit. cbv zeta. rewrite (map_ext g g' H). reflexivity. Qed.

Lemma nthZ_neg i l : (i < 0)%Z -> nthZ i l = 0.
Proof. intros H. unfold nthZ. apply Z.ltb_lt in H. rewrite H. reflexivity. Qed.

(* what the simplex gather reads for unit u is column u of the kernel matrix *)
Lemma gather_of_column units (K : list (list Q)) u : wfK units K u ->
  forall i, gather_of units K u i = if (i <? 0)%Z then 0 else nth (Z.to_nat i) (column u K) 0.
Proof. intros [Hu HF] i. unfold gather_of. destruct (Z.ltb_spec i 0) as [Hneg|Hpos].
  - destruct (units =? 1)%nat; apply nthZ_neg; nia.
  - rewrite <- (Z2Nat.id i Hpos) at 1. set (n := Z.to_nat i). rewrite nth_column.
    destruct (Nat.eqb_spec units 1) as [E|NE].
    + subst units. assert (u = 0%nat) by lia. subst u. rewrite nthZ_nat.
      rewrite <- (nth_concat 1 0 ltac:(lia) K n HF). rewrite Nat.mul_1_r, Nat.add_0_r. reflexivity.
    + rewrite <- Nat2Z.inj_mul, <- Nat2Z.inj_add, nthZ_nat. apply (nth_concat units u Hu K n HF). Qed.

(* both interpolation schemes: unit u's function is determined by column u
   (wfK units K u: u < units and every kernel row has one entry per unit) *)
Theorem lattice_unit_local sc tensor clip units sizes (K K' : list (list Q)) u x :
  wfK units K u -> wfK units K' u -> column u K = column u K' ->
  unit_fn sc tensor clip units sizes K u x = unit_fn sc tensor clip units sizes K' u x.
Proof. intros W W' E. destruct sc.
  - unfold unit_fn. rewrite E. reflexivity.
  - rewrite !unit_fn_simplex. apply simplex_unit_ext. intros i.
    rewrite (gather_of_column units K u W i), (gather_of_column units K' u W' i), E. reflexivity. Qed.

(* the batch model: output (p, u) is unit u's function of point p's row u *)
Theorem lattice_eval_local sc tensor clip units sizes (K K' : list (list Q)) pts pts' p u :
  (p < length pts)%nat -> (p < length pts')%nat -> wfK units K u -> wfK units K' u -> column u K = column u K' ->
  nth u (nth p pts []) [] = nth u (nth p pts' []) [] ->
  (u < length (nth p pts []))%nat -> (u < length (nth p pts' []))%nat ->
  nth u (nth p (lattice_eval sc tensor clip units sizes K pts) []) 0 =
  nth u (nth p (lattice_eval sc tensor clip units sizes K' pts') []) 0.
Proof. intros Hp Hp' W W' E Ex Hl Hl'. pose proof W as [Hu _].
  rewrite (lattice_eval_unit sc tensor clip units sizes K pts p u Hp Hu Hl).
  rewrite (lattice_eval_unit sc tensor clip units sizes K' pts' p u Hp' Hu Hl').
  rewrite Ex. apply lattice_unit_local; assumption. Qed.
End Lat.

(* ================= examples: layers that agree on unit 0 and differ on unit 1 ================= *)
Example exo_linear :
  nth 0 (linear_eval 2 [[1; 2]; [3; 4]] [5; 6] [(Some 0, None); (None, None)] [[7; 8]; [1; 1]]) 0 =
  nth 0 (linear_eval 3 [[1; 9; 0]; [3; -(4); 0]] [5; 0; 0] [(Some 0, None); (None, None)] [[7; 8]; [2; 2]; [0; 0]]) 0.
Proof. apply linear_unit_local; try lia; reflexivity. Qed.

Example exo_pwl_L : PWLEval.pwl_layer :=
  PWLEval.mkPWL 2 false [[0; 1]] [[1; 1]] true [[0; 5]; [1; 6]; [2; 7]] true (Some (-(1))) [3; 4] false.
Example exo_pwl_L' : PWLEval.pwl_layer :=
  PWLEval.mkPWL 2 false [[0; 1]] [[1; 1]] true [[0; -(5)]; [1; 0]; [2; 70]] true (Some (-(1))) [3; 40] false.
Example exo_pwl : pwl_same_shape exo_pwl_L exo_pwl_L' /\ pwl_agree_unit exo_pwl_L exo_pwl_L' 0 /\
  nth 1 (PWLEval.call_row exo_pwl_L [1 # 2; 1 # 2] None) 0 <> nth 1 (PWLEval.call_row exo_pwl_L' [1 # 2; 1 # 2] None) 0.
Proof. split; [repeat split|split; [repeat split|vm_compute; discriminate]]. Qed.

Example exo_cat_L : CategoricalEval.cat_layer := CategoricalEval.mkCat 3 2 [[1; 2]; [3; 4]; [5; 6]] (Some (-1)%Z) false.
Example exo_cat_L' : CategoricalEval.cat_layer := CategoricalEval.mkCat 3 2 [[1; 0]; [3; 0]; [5; 9]] (Some (-1)%Z) false.
Example exo_cat : nth 0 (CategoricalEval.cat_row exo_cat_L [2; 0]) 0 = nth 0 (CategoricalEval.cat_row exo_cat_L' [2; 1]) 0.
Proof. apply cat_unit_local; try reflexivity. cbn. lia. Qed.

Example exo_lattice : LatticeInterp.wfK 2 [[1; 2]; [3; 4]] 0 /\ LatticeInterp.wfK 2 [[1; 9]; [3; 8]] 0 /\
  column 0 [[1; 2]; [3; 4]] = column 0 [[1; 9]; [3; 8]].
Proof. split; [|split]; [split; [lia|repeat constructor]|split; [lia|repeat constructor]|reflexivity]. Qed.
