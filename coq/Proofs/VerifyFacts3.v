(* Property C16, the integral-float reading of the correspondence glue
   (Harness/H_C16.v: q_integral / norm_num / norm_nums / norm_trusts / rmap).

   The canonicalisers of utils.py test membership with ==, so a float equal to
   an accepted int (1.0, 0.0, -1.0) is accepted and returned as it is; the
   glue therefore reads every canonicaliser output through norm_num before
   conv_zs / conv_trusts / conv_scalar type it.  This file shows that
     1. norm_num does not change any == test against an int (so every
        membership test the model's glue makes on the value is unchanged);
     2. a canonical scalar is never "stuck" after norm_num (the reason for the
        normalisation: PWLCalibration(monotonicity=1.0) has a typed model);
     3. the canonical-range statements of Proofs/VerifyLink.v hold for the
        normalised reading that decide_lattice / decide_linear / decide_pwl /
        decide_kfl / decide_cdf actually use. *)
From Coq Require Import ZArith QArith List Bool Lia.
From TFL Require Import Harness.H_C16 Proofs.Canon Proofs.VerifyFacts Proofs.VerifyLink.
Import ListNotations.
Open Scope Z_scope.

Lemma q_integral_eq q z : q_integral q = Some z -> (q == inject_Z z)%Q.
Proof.
  unfold q_integral. destruct (Pos.eqb (Qden (Qred q)) 1) eqn:E; [|discriminate].
  intros H. injection H as <-. apply Pos.eqb_eq in E.
  rewrite <- (Qred_correct q) at 1. destruct (Qred q) as [n d]. cbn in *. subst d. reflexivity.
Qed.

Lemma q_integral_of_int q k : Qred (inject_Z k) = inject_Z k -> (q == inject_Z k)%Q -> q_integral q = Some k.
Proof. intros X H. unfold q_integral. rewrite (Qred_complete _ _ H), X. reflexivity. Qed.

Lemma qeq_bool_compat a b c : (a == b)%Q -> Qeq_bool a c = Qeq_bool b c.
Proof.
  intros H. destruct (Qeq_bool a c) eqn:E1, (Qeq_bool b c) eqn:E2; try reflexivity.
  - apply Qeq_bool_iff in E1. assert (X : (b == c)%Q) by (rewrite <- H; exact E1).
    apply Qeq_bool_iff in X. congruence.
  - apply Qeq_bool_iff in E2. assert (X : (a == c)%Q) by (rewrite H; exact E2).
    apply Qeq_bool_iff in X. congruence.
Qed.

(* 1. == against an int is not changed by the normalisation *)
Lemma norm_num_py_eq_int w k : py_eq (norm_num w) (VInt k) = py_eq w (VInt k).
Proof.
  destruct w; try reflexivity. cbn [norm_num]. destruct (q_integral q) as [z|] eqn:E; [|reflexivity].
  cbn. symmetry. apply qeq_bool_compat, q_integral_eq, E.
Qed.
Lemma norm_num_in3 w : in3 (norm_num w) = in3 w.
Proof. unfold in3, py_in. cbn [existsb]. rewrite !norm_num_py_eq_int. reflexivity. Qed.
Lemma norm_num_in2 w : in2 (norm_num w) = in2 w.
Proof. unfold in2, py_in. cbn [existsb]. rewrite !norm_num_py_eq_int. reflexivity. Qed.
Lemma norm_num_none w : w = VNone -> norm_num w = VNone.
Proof. intros ->. reflexivity. Qed.

(* 2. a canonical scalar (None or a member of {-1, 0, 1} under ==) is typed
      after the normalisation, whatever its Python type (bool, int, float) *)
Lemma in3_float_integral q : in3 (VFloat q) = true -> exists k, q_integral q = Some k.
Proof.
  unfold in3, py_in. cbn [existsb]. rewrite !orb_true_iff. cbn.
  intros [H|[H|[H|H]]]; [| | |discriminate]; apply Qeq_bool_iff in H; eexists;
    (apply q_integral_of_int; [|exact H]); reflexivity.
Qed.
Lemma canonical_scalar_typed w : (w = VNone \/ in3 w = true) -> exists o, conv_scalar (Ok (norm_num w)) = CVal o.
Proof.
  intros [->|H]; [exists None; reflexivity|].
  destruct w; try (cbn in H; discriminate).
  - eexists; reflexivity.
  - eexists; reflexivity.
  - destruct (in3_float_integral q H) as [k E]. exists (Some k). cbn [norm_num]. rewrite E. reflexivity.
Qed.
Lemma monotonicity_never_stuck v ad w : canonicalize_monotonicity v ad = Ok w ->
  exists o, conv_scalar (rmap norm_num (canonicalize_monotonicity v ad)) = CVal o.
Proof. intros E. rewrite E. cbn [rmap]. apply canonical_scalar_typed. apply (gen_monotonicity_range v ad w E). Qed.
Lemma convexity_never_stuck v w : canonicalize_convexity v = Ok w ->
  exists o, conv_scalar (rmap norm_num (canonicalize_convexity v)) = CVal o.
Proof. intros E. rewrite E. cbn [rmap]. apply canonical_scalar_typed. apply (gen_convexity_range v w E). Qed.
(* the spelling of the audit: monotonicity = 1.0 and convexity = 0.0 are typed 1 and 0 *)
Example float_spellings_typed :
  conv_scalar (rmap norm_num (canonicalize_monotonicity (VFloat 1) (VBool true))) = CVal (Some 1) /\
  conv_scalar (rmap norm_num (canonicalize_convexity (VFloat 0))) = CVal (Some 0) /\
  conv_scalar (canonicalize_monotonicity (VFloat 1) (VBool true)) = CStuck.
Proof. repeat split; vm_compute; reflexivity. Qed.

(* 3. canonical ranges of the normalised reading *)
Lemma link_monotonicity_norm v ad o : conv_scalar (rmap norm_num (canonicalize_monotonicity v ad)) = CVal o ->
  oz o = -1 \/ oz o = 0 \/ oz o = 1.
Proof.
  intros H. destruct (canonicalize_monotonicity v ad) as [w| |e] eqn:Ec; cbn [rmap] in H; try (cbn in H; discriminate).
  apply (link_scalar_range (norm_num w) o); [|exact H].
  destruct (gen_monotonicity_range v ad w Ec) as [[->|H3] _]; [left; reflexivity|right; rewrite norm_num_in3; exact H3].
Qed.
Lemma link_convexity_norm v o : conv_scalar (rmap norm_num (canonicalize_convexity v)) = CVal o ->
  oz o = -1 \/ oz o = 0 \/ oz o = 1.
Proof.
  intros H. destruct (canonicalize_convexity v) as [w| |e] eqn:Ec; cbn [rmap] in H; try (cbn in H; discriminate).
  apply (link_scalar_range (norm_num w) o); [|exact H].
  destruct (gen_convexity_range v w Ec) as [->|H3]; [left; reflexivity|right; rewrite norm_num_in3; exact H3].
Qed.

Lemma Forall_map_norm (P : value -> Prop) : (forall y, P y -> P (norm_num y)) ->
  forall ys, Forall P ys -> Forall P (map norm_num ys).
Proof. intros HP ys H. induction H; cbn; constructor; auto. Qed.

Lemma link_monotonicities_norm v ad ms :
  conv_zs (rmap norm_nums (canonicalize_monotonicities v ad)) = CVal (Some ms) ->
  (forall m, In m ms -> m = 0 \/ m = 1 \/ m = -1) /\
  (py_truthy ad = false -> forall m, In m ms -> m = 0 \/ m = 1).
Proof.
  intros H. destruct (canonicalize_monotonicities v ad) as [w| |e] eqn:Ec; cbn [rmap] in H; try (cbn in H; discriminate).
  destruct (gen_monotonicities_range v ad w Ec) as [->|(ys & -> & _ & HF)]; [cbn in H; discriminate|].
  cbn [norm_nums conv_zs] in H.
  destruct (to_zs (map norm_num ys)) as [zs|] eqn:Ez; [|discriminate]. injection H as <-.
  assert (HF' : Forall (fun y => (y = VNone \/ in3 y = true) /\ (py_truthy ad = false -> py_eq y (VInt (-1)) = false))
                       (map norm_num ys)).
  { apply Forall_map_norm; [|exact HF]. intros y [[->|H3] Hn]; split.
    - left; reflexivity.
    - exact Hn.
    - right. rewrite norm_num_in3. exact H3.
    - intros Had. rewrite norm_num_py_eq_int. exact (Hn Had). }
  split.
  - refine (to_zs_Forall _ (fun m => m = 0 \/ m = 1 \/ m = -1) _ (map norm_num ys) zs Ez HF').
    intros y z [[->|H3] _] E; [discriminate|].
    destruct (num_z_in3 y z E H3) as [?|[?|?]]; auto.
  - intros Had. refine (to_zs_Forall _ (fun m => m = 0 \/ m = 1) _ (map norm_num ys) zs Ez HF').
    intros y z [[->|H3] Hn] E; [discriminate|].
    pose proof (num_z_not_minus1 y z E (Hn Had)). destruct (num_z_in3 y z E H3) as [?|[?|?]]; auto. contradiction.
Qed.

Lemma norm_trust_canonical e : canonical_trust_entry e -> canonical_trust_entry (norm_trust e).
Proof.
  intros (a & b & d & -> & H). exists a, b, (norm_num d). split; [reflexivity|]. rewrite norm_num_in2. exact H.
Qed.
Lemma link_trusts_norm v ts : conv_trusts (rmap norm_trusts (canonicalize_trust v)) = CVal ts ->
  forall a b d, In (a, b, d) ts -> d = 1 \/ d = -1.
Proof.
  intros H. destruct (canonicalize_trust v) as [w| |e] eqn:Ec; cbn [rmap] in H; try (cbn in H; discriminate).
  destruct (gen_trust_range v w Ec) as [->|(ys & -> & _ & HF)].
  - cbn in H. injection H as <-. intros a b d [].
  - cbn [norm_trusts conv_trusts] in H.
    destruct (to_trusts (map norm_trust ys)) as [ts'|] eqn:Et; [|discriminate]. injection H as <-.
    apply (to_trusts_dirs (map norm_trust ys) ts' Et).
    clear Et Ec. induction HF as [|y ys' Hy Hys IH]; cbn [map]; constructor.
    + apply norm_trust_canonical, Hy.
    + exact IH.
Qed.

(* the Lattice bridge for the reading decide_lattice uses *)
Lemma canonical_accepted_lattice_cfg_valid_norm vm ve vt c units :
  conv_zs (rmap norm_nums (canonicalize_monotonicities vm (VBool false))) = CVal (l_monos c) ->
  conv_trusts (rmap norm_trusts (canonicalize_trust ve)) = CVal (l_edge c) ->
  conv_trusts (rmap norm_trusts (canonicalize_trust vt)) = CVal (l_trap c) ->
  accepts_lattice c = true -> (1 <= units)%nat ->
  LatticeSpec.cfg_valid (conv_lattice c units).
Proof.
  intros Hm He Ht Hacc Hu. apply accepted_lattice_cfg_valid; try assumption.
  - intros ms m E Hin. rewrite E in Hm. destruct (link_monotonicities_norm _ _ _ Hm) as [_ X].
    apply (X eq_refl m Hin).
  - intros a b d Hin. apply in_app_or in Hin. destruct Hin as [Hin|Hin].
    + apply (link_trusts_norm ve _ He a b d Hin).
    + apply (link_trusts_norm vt _ Ht a b d Hin).
Qed.
