(* Proofs about the model of lattice_lib._approximately_project_edgeworth
   (Model/LatticeFinalize.v: edge_step_pos / edge_step_neg / edgeworth_one /
   approx_edgeworth).  File B of Proofs/C01_PLAN.md.

   Structure: every step of a pass adds a per-unit amount to one whole
   (main, cond, unit)-column ("rigid column move", [shifted]).  From this:
   - established: lexicographic (resp. reverse lexicographic) invariant;
   - other monotonicities / other trusts: zero-sum inside each column;
   - monotonicity along main / cond: established inequality + never-modified
     boundary column / row;
   - fixed point: all per-unit maxima are 0. *)
From TFL Require Import Base.QNum Base.Lists Base.Tensor Model.LatticeFinalize Proofs.LatticeSpec Proofs.LatticeSpecFacts.
From Coq Require Import Sorted.
Open Scope Q_scope.

Ltac eqb_simpl :=
  repeat (match goal with
          | |- context [(?a =? ?b)%nat] => destruct (Nat.eqb_spec a b); try lia
          end);
  cbn [andb].

(* ------------------------------------------------------------------ *)
(* index lemmas (prefixed E_: Proofs/LatticeSpecFacts.v has its own)    *)
Lemma E_at2_valid sh b m c i j :
  valid sh b -> (i < nth m sh 0)%nat -> (j < nth c sh 0)%nat -> valid sh (at2 b m c i j).
Proof. intros. unfold at2. apply upd_valid; [apply upd_valid|]; assumption. Qed.

Lemma E_nth_at2 b m c i j d : (m < length b)%nat -> (c < length b)%nat ->
  nth d (at2 b m c i j) 0%nat = if (d =? c)%nat then j else if (d =? m)%nat then i else nth d b 0%nat.
Proof. intros Hm Hc. unfold at2. destruct (Nat.eqb_spec d c) as [->|Hdc].
  - apply nth_upd_same. rewrite upd_length. exact Hc.
  - rewrite nth_upd_other by auto. destruct (Nat.eqb_spec d m) as [->|Hdm].
    + apply nth_upd_same. exact Hm.
    + apply nth_upd_other. auto. Qed.

Lemma E_at2_swap b m c i j : m <> c -> at2 b m c i j = upd (upd b c j) m i.
Proof. intros. unfold at2. apply upd_comm. assumption. Qed.
Lemma E_at2_self b m c : at2 b m c (nth m b 0%nat) (nth c b 0%nat) = b.
Proof. unfold at2. rewrite upd_self. apply upd_self. Qed.
Lemma E_at2_m_self b m c j : at2 b m c (nth m b 0%nat) j = upd b c j.
Proof. unfold at2. rewrite upd_self. reflexivity. Qed.
Lemma E_at2_c_self b m c i : m <> c -> at2 b m c i (nth c b 0%nat) = upd b m i.
Proof. intros. rewrite E_at2_swap by assumption. rewrite upd_self. reflexivity. Qed.

Lemma E_valid_upd0 sh x d : valid sh x -> valid (upd sh d 1%nat) (upd x d 0%nat).
Proof. intros H; revert d; induction H; intros d; cbn. constructor.
  destruct d; cbn; constructor; auto; lia. Qed.
Lemma E_valid_upd1 : forall sh d b, ((d < length sh)%nat -> (1 <= nth d sh 0)%nat) ->
  valid (upd sh d 1%nat) b -> valid sh b.
Proof. induction sh as [|s sh IH]; intros d b Hp Hv; cbn in *. exact Hv.
  destruct d; inversion Hv; subst; constructor; auto.
  - specialize (Hp ltac:(lia)). lia.
  - apply (IH d); auto. intros; apply Hp; lia. Qed.

Lemma E_mono_dims_from_bound ms : forall k d, In d (mono_dims_from k ms) -> (k <= d < k + length ms)%nat.
Proof. induction ms as [|z ms IH]; intros k d H; cbn in *. contradiction.
  destruct (z =? 0)%Z; [|destruct H as [<-|H]]; try lia; specialize (IH _ _ H); lia. Qed.
Lemma E_mono_dims_lt ms d : In d (mono_dims ms) -> (d < length ms)%nat.
Proof. intros H. apply E_mono_dims_from_bound in H. lia. Qed.

(* ------------------------------------------------------------------ *)
(* sorted folds                                                        *)
Lemma E_SS_app {A} (R : A -> A -> Prop) l1 l2 :
  StronglySorted R l1 -> StronglySorted R l2 -> (forall x y, In x l1 -> In y l2 -> R x y) ->
  StronglySorted R (l1 ++ l2).
Proof. induction l1 as [|a l1 IH]; intros H1 H2 H; cbn. exact H2.
  apply StronglySorted_inv in H1. destruct H1 as [H1 HF]. constructor.
  - apply IH; auto. intros; apply H; auto. right; auto.
  - apply Forall_app. split. exact HF. apply Forall_forall. intros y Hy. apply H; auto. left; auto. Qed.
Lemma E_SS_rev {A} (R : A -> A -> Prop) l :
  StronglySorted R l -> StronglySorted (fun x y => R y x) (rev l).
Proof. induction 1 as [|a l HS IH HF]; cbn. constructor.
  apply E_SS_app. exact IH. repeat constructor.
  intros x y Hx [<-|[]]. rewrite Forall_forall in HF. apply HF. apply in_rev. exact Hx. Qed.
Lemma E_SS_seq : forall n s, StronglySorted lt (seq s n).
Proof. induction n as [|n IH]; intros s; cbn. constructor. constructor. apply IH.
  apply Forall_forall. intros x Hx. apply in_seq in Hx. lia. Qed.

Definition lexlt (q p : nat * nat) : Prop :=
  (fst q < fst p \/ (fst q = fst p /\ snd q < snd p))%nat.

Lemma E_SS_prod l1 l2 : StronglySorted lt l1 -> StronglySorted lt l2 -> StronglySorted lexlt (list_prod l1 l2).
Proof. intros H1 H2. induction H1 as [|x l1 HS IH HF]; cbn [list_prod]. constructor.
  apply E_SS_app.
  - clear -H2. induction H2 as [|y l2 HS IH HF]; cbn; constructor; auto.
    rewrite Forall_forall in *. intros q Hq. apply in_map_iff in Hq. destruct Hq as [y' [<- Hy]].
    right; cbn; split; auto.
  - exact IH.
  - intros [a1 b1] [a2 b2] Ha Hb. apply in_map_iff in Ha. destruct Ha as [y [E Hy]]. inversion E; subst.
    apply in_prod_iff in Hb. destruct Hb as [Hb _]. rewrite Forall_forall in HF. left; cbn. apply HF; exact Hb. Qed.
Lemma E_grid_sorted a b : StronglySorted lexlt (grid_pairs a b).
Proof. apply E_SS_prod; apply E_SS_seq. Qed.
Lemma E_grid_in a b i j : In (i, j) (grid_pairs a b) <-> (i < a /\ j < b)%nat.
Proof. unfold grid_pairs. rewrite in_prod_iff, !in_seq. lia. Qed.

Section FoldSorted.
Context {A T : Type} (step : T -> A -> T) (holds : T -> A -> Prop) (R : A -> A -> Prop) (Dom : A -> Prop).
Hypothesis fixes : forall W p, Dom p -> holds (step W p) p.
Hypothesis keeps : forall W p q, Dom p -> Dom q -> R q p -> holds W q -> holds (step W p) q.
Lemma fold_sorted_holds : forall l W (Done : A -> Prop),
  (forall p, In p l -> Dom p) -> (forall q, Done q -> Dom q) -> StronglySorted R l ->
  (forall q p, Done q -> In p l -> R q p) -> (forall q, Done q -> holds W q) ->
  forall q, Done q \/ In q l -> holds (fold_left step l W) q.
Proof. induction l as [|p l IH]; intros W Done Hl HD HS HR HW q Hq; cbn [fold_left].
  - destruct Hq as [Hq|[]]. auto.
  - apply StronglySorted_inv in HS. destruct HS as [HS HF]. rewrite Forall_forall in HF.
    apply (IH (step W p) (fun q => Done q \/ q = p)).
    + intros; apply Hl; right; auto.
    + intros q' [H| ->]. auto. apply Hl; left; auto.
    + exact HS.
    + intros q' p' [H| ->] Hp'. apply HR; auto. right; auto. apply HF; auto.
    + intros q' [H| ->]. apply keeps; auto. apply Hl; left; auto. apply HR; auto. left; auto.
      apply fixes. apply Hl; left; auto.
    + destruct Hq as [Hq|[<-|Hq]]; auto. Qed.
End FoldSorted.

(* ------------------------------------------------------------------ *)
(* one pass, abstract behind list B                                    *)
Section Col.
Variables (sh : list nat) (ud units m c : nat).
Hypothesis Hmc : m <> c.
Hypothesis Hm : (m < ud)%nat.
Hypothesis Hc : (c < ud)%nat.
Hypothesis Hlen : (ud < length sh)%nat.
Hypothesis Hunits : nth ud sh 0%nat = units.
Local Notation sm := (nth m sh 0%nat).
Local Notation sc := (nth c sh 0%nat).

(* W' = W + a per-column, per-unit shift D *)
Definition shifted (W W' : tens) (D : nat -> nat -> nat -> Q) : Prop :=
  forall x, valid sh x -> W' x == W x + D (nth m x 0%nat) (nth c x 0%nat) (nth ud x 0%nat).

Lemma shifted_at W W' D b i j : shifted W W' D -> valid sh b -> (i < sm)%nat -> (j < sc)%nat ->
  W' (at2 b m c i j) == W (at2 b m c i j) + D i j (nth ud b 0%nat).
Proof. intros H Hv Hi Hj. rewrite (H _ (E_at2_valid sh b m c i j Hv Hi Hj)).
  pose proof (valid_length sh b Hv) as Hl.
  rewrite !E_nth_at2 by lia. eqb_simpl. reflexivity. Qed.

Lemma esq_shifted W W' D b i j : shifted W W' D -> valid sh b -> (S i < sm)%nat -> (S j < sc)%nat ->
  esq W' m c i j b == esq W m c i j b
     + D (S i) j (nth ud b 0%nat) - D i j (nth ud b 0%nat)
     - D (S i) (S j) (nth ud b 0%nat) + D i (S j) (nth ud b 0%nat).
Proof. intros H Hv Hi Hj. unfold esq. rewrite !(shifted_at W W' D b) by (assumption || lia). lra. Qed.

(* per-unit amounts *)
Variable B : list idx.
Definition amt (g : idx -> Q) (u : nat) : Q := nth u (unit_viols ud units B g) 0.
Lemma amt_lt g u : (u < units)%nat -> amt g u = maxl0 (map (fun b => g (upd b ud u)) B).
Proof. intros H. unfold amt, unit_viols.
  apply (nth_map_seq (fun u => maxl0 (map (fun b => g (upd b ud u)) B)) units u 0 H). Qed.
Lemma amt_nonneg g u : 0 <= amt g u.
Proof. destruct (lt_dec u units) as [H|H]. rewrite amt_lt by assumption. apply maxl0_nonneg.
  unfold amt, unit_viols. rewrite nth_overflow. lra. rewrite map_length, seq_length. lia. Qed.
Lemma amt_ge g u b : (u < units)%nat -> In b B -> g (upd b ud u) <= amt g u.
Proof. intros H Hb. rewrite amt_lt by assumption. apply maxl0_ge.
  apply (in_map (fun b => g (upd b ud u))). exact Hb. Qed.
Lemma amt_zero g u : ((u < units)%nat -> forall b, In b B -> g (upd b ud u) <= 0) -> amt g u == 0.
Proof. intros Hz. destruct (lt_dec u units) as [H|H].
  - rewrite amt_lt by assumption. apply maxl0_zero. intros x Hx. apply in_map_iff in Hx.
    destruct Hx as [b [<- Hb]]. apply Hz; assumption.
  - unfold amt, unit_viols. rewrite nth_overflow. reflexivity. rewrite map_length, seq_length. lia. Qed.

Definition Dpos (i j : nat) (a : nat -> Q) : nat -> nat -> nat -> Q :=
  fun i' j' u => if (i' =? S i)%nat && (j' =? S j)%nat then a u else 0.
Definition Dneg (i j : nat) (a : nat -> Q) : nat -> nat -> nat -> Q :=
  fun i' j' u => if (i' =? i)%nat && (j' =? j)%nat then - a u else 0.
Local Notation spos := (edge_step_pos sh ud units B m c).
Local Notation sneg := (edge_step_neg sh ud units B m c).

Lemma step_pos_shifted W i j : shifted W (spos W (i, j)) (Dpos i j (amt (esq W m c i j))).
Proof. intros x Hv. unfold edge_step_pos, Dpos, amt. cbv beta iota zeta. rewrite memo_ok by assumption.
  destruct (_ && _). apply Qred_correct. lra. Qed.
Lemma step_neg_shifted W i j : shifted W (sneg W (i, j)) (Dneg i j (amt (fun b => - esq W m c i j b))).
Proof. intros x Hv. unfold edge_step_neg, Dneg, amt. cbv beta iota zeta. rewrite memo_ok by assumption.
  destruct (_ && _). rewrite Qred_correct. lra. lra. Qed.

Definition Dom (p : nat * nat) : Prop := (S (fst p) < sm /\ S (snd p) < sc)%nat.
Definition hpos (W : tens) (p : nat * nat) : Prop := forall b, valid sh b -> esq W m c (fst p) (snd p) b <= 0.
Definition hneg (W : tens) (p : nat * nat) : Prop := forall b, valid sh b -> 0 <= esq W m c (fst p) (snd p) b.

(* B contains a representative of every column *)
Hypothesis B_repr : forall x, valid sh x ->
  exists b, In b B /\ forall i j, at2 (upd b ud (nth ud x 0%nat)) m c i j = at2 x m c i j.

Lemma unit_lt x : valid sh x -> (nth ud x 0 < units)%nat.
Proof. intros Hv. rewrite <- Hunits. apply valid_nth; assumption. Qed.

Lemma esq_le_amt W i j x : valid sh x -> esq W m c i j x <= amt (esq W m c i j) (nth ud x 0%nat).
Proof. intros Hv. destruct (B_repr x Hv) as [b [Hb He]].
  pose proof (amt_ge (esq W m c i j) _ b (unit_lt x Hv) Hb) as H.
  unfold esq at 1 in H. rewrite !He in H. unfold esq at 1. exact H. Qed.
Lemma nesq_le_amt W i j x : valid sh x -> - esq W m c i j x <= amt (fun b => - esq W m c i j b) (nth ud x 0%nat).
Proof. intros Hv. destruct (B_repr x Hv) as [b [Hb He]].
  pose proof (amt_ge (fun b => - esq W m c i j b) _ b (unit_lt x Hv) Hb) as H. cbv beta in H.
  unfold esq at 1 in H. rewrite !He in H. unfold esq at 1. exact H. Qed.

Lemma step_pos_fixes W p : Dom p -> hpos (spos W p) p.
Proof. destruct p as [i j]. intros [Hi Hj] b Hv; cbn [fst snd] in *.
  rewrite (esq_shifted _ _ _ b i j (step_pos_shifted W i j)) by assumption.
  unfold Dpos. eqb_simpl. pose proof (esq_le_amt W i j b Hv). lra. Qed.
Lemma step_neg_fixes W p : Dom p -> hneg (sneg W p) p.
Proof. destruct p as [i j]. intros [Hi Hj] b Hv; cbn [fst snd] in *.
  rewrite (esq_shifted _ _ _ b i j (step_neg_shifted W i j)) by assumption.
  unfold Dneg. eqb_simpl. pose proof (nesq_le_amt W i j b Hv). lra. Qed.

Lemma step_pos_keeps W p q : Dom p -> Dom q -> lexlt q p -> hpos W q -> hpos (spos W p) q.
Proof. destruct p as [i j], q as [i' j']. unfold lexlt. intros [Hi Hj] [Hi' Hj'] Hlt Hh b Hv; cbn [fst snd] in *.
  rewrite (esq_shifted _ _ _ b i' j' (step_pos_shifted W i j)) by assumption.
  specialize (Hh b Hv). cbn [fst snd] in Hh.
  unfold Dpos. eqb_simpl; lra. Qed.
Lemma step_neg_keeps W p q : Dom p -> Dom q -> lexlt p q -> hneg W q -> hneg (sneg W p) q.
Proof. destruct p as [i j], q as [i' j']. unfold lexlt. intros [Hi Hj] [Hi' Hj'] Hlt Hh b Hv; cbn [fst snd] in *.
  rewrite (esq_shifted _ _ _ b i' j' (step_neg_shifted W i j)) by assumption.
  specialize (Hh b Hv). cbn [fst snd] in Hh.
  unfold Dneg. eqb_simpl; lra. Qed.

Local Notation ps := (grid_pairs (sm - 1) (sc - 1)).
Lemma ps_dom p : In p ps -> Dom p.
Proof. destruct p as [i j]. intros H. apply E_grid_in in H. unfold Dom; cbn [fst snd]. lia. Qed.
Lemma dom_ps p : Dom p -> In p ps.
Proof. destruct p as [i j]. unfold Dom; cbn [fst snd]. intros H. apply E_grid_in. lia. Qed.

Lemma fold_pos_established W p : Dom p -> hpos (fold_left spos ps W) p.
Proof. intros Hp.
  apply (fold_sorted_holds spos hpos lexlt Dom step_pos_fixes step_pos_keeps ps W (fun _ => False)).
  - apply ps_dom.
  - intros q [].
  - apply E_grid_sorted.
  - intros q p' [].
  - intros q [].
  - right. apply dom_ps. exact Hp. Qed.
Lemma fold_neg_established W p : Dom p -> hneg (fold_left sneg (rev ps) W) p.
Proof. intros Hp.
  apply (fold_sorted_holds sneg hneg (fun x y => lexlt y x) Dom step_neg_fixes
           (fun W p q Hp Hq H => step_neg_keeps W p q Hp Hq H) (rev ps) W (fun _ => False)).
  - intros q Hq. apply ps_dom. apply in_rev. exact Hq.
  - intros q [].
  - apply E_SS_rev. apply E_grid_sorted.
  - intros q p' [].
  - intros q [].
  - right. apply -> in_rev. apply dom_ps. exact Hp. Qed.

(* ---- rigid column moves with a never-modified set U of columns ---- *)
Definition rigidU (U : nat -> nat -> Prop) (W W' : tens) : Prop :=
  exists D, shifted W W' D /\ forall i j u, U i j -> D i j u == 0.
Lemma rigidU_refl U W : rigidU U W W.
Proof. exists (fun _ _ _ => 0). split. intros x _. lra. intros; reflexivity. Qed.
Lemma rigidU_trans U W1 W2 W3 : rigidU U W1 W2 -> rigidU U W2 W3 -> rigidU U W1 W3.
Proof. intros [D1 [H1 U1]] [D2 [H2 U2]]. exists (fun i j u => D1 i j u + D2 i j u). split.
  - intros x Hv. rewrite (H2 x Hv), (H1 x Hv). lra.
  - intros i j u HU. rewrite U1, U2 by assumption. lra. Qed.
Lemma fold_rigid U (step : tens -> nat * nat -> tens) (P : nat * nat -> Prop) :
  (forall W p, P p -> rigidU U W (step W p)) ->
  forall l W, (forall p, In p l -> P p) -> rigidU U W (fold_left step l W).
Proof. intros Hs. induction l as [|p l IH]; intros W Hl; cbn [fold_left]. apply rigidU_refl.
  eapply rigidU_trans. apply Hs. apply Hl; left; reflexivity. apply IH. intros; apply Hl; right; assumption. Qed.

Definition Upos (i j : nat) : Prop := i = 0%nat \/ j = 0%nat.
Definition Uneg (i j : nat) : Prop := (sm <= S i \/ sc <= S j)%nat.
Lemma step_pos_rigid W p : Dom p -> rigidU Upos W (spos W p).
Proof. destruct p as [i j]. intros _. exists (Dpos i j (amt (esq W m c i j))). split. apply step_pos_shifted.
  intros i' j' u [-> | ->]; unfold Dpos; eqb_simpl; reflexivity. Qed.
Lemma step_neg_rigid W p : Dom p -> rigidU Uneg W (sneg W p).
Proof. destruct p as [i j]. intros [Hi Hj]; cbn [fst snd] in *.
  exists (Dneg i j (amt (fun b => - esq W m c i j b))). split. apply step_neg_shifted.
  intros i' j' u HU; unfold Uneg in HU; unfold Dneg; eqb_simpl; reflexivity. Qed.
Lemma fold_pos_rigid W : rigidU Upos W (fold_left spos ps W).
Proof. apply (fold_rigid Upos spos Dom). intros; apply step_pos_rigid; assumption. apply ps_dom. Qed.
Lemma fold_neg_rigid W : rigidU Uneg W (fold_left sneg (rev ps) W).
Proof. apply (fold_rigid Uneg sneg Dom). intros; apply step_neg_rigid; assumption.
  intros p Hp. apply ps_dom. apply in_rev. exact Hp. Qed.

(* ---- monotonicity along other dimensions, other trusts ---- *)
Lemma shifted_mono_other W W' D d : shifted W W' D -> d <> m -> d <> c -> d <> ud ->
  mono_along sh d W -> mono_along sh d W'.
Proof. intros HD Hdm Hdc Hdu Hmono x Hv Hs.
  assert (Hv' : valid sh (upd x d (S (nth d x 0%nat)))) by (apply upd_valid; assumption).
  pose proof (HD x Hv) as E1. pose proof (HD _ Hv') as E2.
  rewrite !(nth_upd_other x d) in E2 by auto.
  specialize (Hmono x Hv Hs). lra. Qed.

Lemma shifted_keeps_trust W W' D m2 c2 d2 : shifted W W' D -> m2 <> c2 -> (m2 < ud)%nat -> (c2 < ud)%nat ->
  ~ (m2 = m /\ c2 = c) -> ~ (m2 = c /\ c2 = m) ->
  edgeworth_holds sh (m2, c2, d2) W -> edgeworth_holds sh (m2, c2, d2) W'.
Proof. intros HD Hne Hm2 Hc2 Hn1 Hn2 H b i j Hv Hi Hj. specialize (H b i j Hv Hi Hj).
  pose proof (valid_length sh b Hv) as Hl.
  assert (E : esq W' m2 c2 i j b == esq W m2 c2 i j b).
  { unfold esq.
    rewrite (HD _ (E_at2_valid sh b m2 c2 (S i) j Hv ltac:(lia) ltac:(lia))),
            (HD _ (E_at2_valid sh b m2 c2 i j Hv ltac:(lia) ltac:(lia))),
            (HD _ (E_at2_valid sh b m2 c2 (S i) (S j) Hv ltac:(lia) ltac:(lia))),
            (HD _ (E_at2_valid sh b m2 c2 i (S j) Hv ltac:(lia) ltac:(lia))).
    rewrite !E_nth_at2 by lia. eqb_simpl; lra. }
  destruct (0 <? d2)%Z; rewrite E; exact H. Qed.

(* ---- monotonicity along main / cond ---- *)
Lemma mono_main_pos W W' : rigidU Upos W W' -> (forall p, Dom p -> hpos W' p) ->
  mono_along sh m W -> mono_along sh m W'.
Proof. intros [D [HD HU]] Hest Hmono.
  assert (P : forall j x, valid sh x -> nth c x 0%nat = j -> (S (nth m x 0) < sm)%nat ->
              W' x <= W' (upd x m (S (nth m x 0%nat)))).
  { induction j as [|j IH]; intros x Hv Hj Hi.
    - assert (Hv' : valid sh (upd x m (S (nth m x 0%nat)))) by (apply upd_valid; assumption).
      pose proof (HD x Hv) as E1. pose proof (HD _ Hv') as E2.
      rewrite (nth_upd_other x m c), (nth_upd_other x m ud) in E2 by lia.
      rewrite Hj in E1, E2.
      pose proof (fun i u => HU i 0%nat u (or_intror eq_refl)) as HU0.
      rewrite HU0 in E1, E2. specialize (Hmono x Hv Hi). lra.
    - set (i := nth m x 0%nat) in *.
      pose proof (valid_length sh x Hv) as Hl.
      assert (Hjc : (S j < sc)%nat) by (rewrite <- Hj; apply valid_nth; [assumption|lia]).
      set (x' := upd x c j).
      assert (Hv' : valid sh x') by (apply upd_valid; [assumption|lia]).
      assert (Hm' : nth m x' 0%nat = i) by (unfold x'; rewrite nth_upd_other by auto; reflexivity).
      assert (Hc' : nth c x' 0%nat = j) by (unfold x'; apply nth_upd_same; lia).
      pose proof (IH x' Hv' Hc' ltac:(rewrite Hm'; exact Hi)) as IHx. rewrite Hm' in IHx.
      pose proof (Hest (i, j) ltac:(unfold Dom; cbn [fst snd]; lia) x Hv) as He. cbn [fst snd] in He. unfold esq in He.
      replace (at2 x m c (S i) j) with (upd x' m (S i)) in He by (unfold x', at2; apply upd_comm; auto).
      replace (at2 x m c i j) with x' in He by (unfold x', i; symmetry; apply E_at2_m_self).
      replace (at2 x m c (S i) (S j)) with (upd x m (S i)) in He by (rewrite <- Hj; symmetry; apply E_at2_c_self; auto).
      replace (at2 x m c i (S j)) with x in He by (symmetry; apply at2_eq_self; auto).
      lra. }
  intros x Hv Hi. apply (P (nth c x 0%nat) x Hv eq_refl Hi). Qed.

Lemma mono_main_neg W W' : rigidU Uneg W W' -> (forall p, Dom p -> hneg W' p) ->
  mono_along sh m W -> mono_along sh m W'.
Proof. intros [D [HD HU]] Hest Hmono.
  assert (P : forall k x, valid sh x -> (nth c x 0 + k + 1 = sc)%nat -> (S (nth m x 0) < sm)%nat ->
              W' x <= W' (upd x m (S (nth m x 0%nat)))).
  { induction k as [|k IH]; intros x Hv Hj Hi.
    - assert (Hv' : valid sh (upd x m (S (nth m x 0%nat)))) by (apply upd_valid; assumption).
      pose proof (HD x Hv) as E1. pose proof (HD _ Hv') as E2.
      rewrite (nth_upd_other x m c), (nth_upd_other x m ud) in E2 by lia.
      assert (HU0 : forall i u, D i (nth c x 0%nat) u == 0) by (intros; apply HU; right; lia).
      rewrite HU0 in E1, E2. specialize (Hmono x Hv Hi). lra.
    - set (i := nth m x 0%nat) in *. set (j := nth c x 0%nat) in *.
      pose proof (valid_length sh x Hv) as Hl.
      set (x' := upd x c (S j)).
      assert (Hv' : valid sh x') by (apply upd_valid; [assumption|lia]).
      assert (Hm' : nth m x' 0%nat = i) by (unfold x'; rewrite nth_upd_other by auto; reflexivity).
      assert (Hc' : nth c x' 0%nat = S j) by (unfold x'; apply nth_upd_same; lia).
      pose proof (IH x' Hv' ltac:(rewrite Hc'; lia) ltac:(rewrite Hm'; exact Hi)) as IHx. rewrite Hm' in IHx.
      pose proof (Hest (i, j) ltac:(unfold Dom; cbn [fst snd]; lia) x Hv) as He. cbn [fst snd] in He. unfold esq in He.
      replace (at2 x m c (S i) j) with (upd x m (S i)) in He by (unfold j; symmetry; apply E_at2_c_self; auto).
      replace (at2 x m c i j) with x in He by (symmetry; apply at2_eq_self; auto).
      replace (at2 x m c (S i) (S j)) with (upd x' m (S i)) in He by (unfold x', at2; apply upd_comm; auto).
      replace (at2 x m c i (S j)) with x' in He by (unfold x', i; symmetry; apply E_at2_m_self).
      lra. }
  intros x Hv Hi. apply (P (sc - 1 - nth c x 0)%nat x Hv); [|exact Hi].
  pose proof (valid_nth sh x c Hv ltac:(lia)). lia. Qed.

Lemma mono_cond_pos W W' : rigidU Upos W W' -> (forall p, Dom p -> hpos W' p) ->
  mono_along sh c W -> mono_along sh c W'.
Proof. intros [D [HD HU]] Hest Hmono.
  assert (P : forall i x, valid sh x -> nth m x 0%nat = i -> (S (nth c x 0) < sc)%nat ->
              W' x <= W' (upd x c (S (nth c x 0%nat)))).
  { induction i as [|i IH]; intros x Hv Hi Hj.
    - assert (Hv' : valid sh (upd x c (S (nth c x 0%nat)))) by (apply upd_valid; assumption).
      pose proof (HD x Hv) as E1. pose proof (HD _ Hv') as E2.
      rewrite (nth_upd_other x c m), (nth_upd_other x c ud) in E2 by lia.
      rewrite Hi in E1, E2.
      pose proof (fun j u => HU 0%nat j u (or_introl eq_refl)) as HU0.
      rewrite !HU0 in E1, E2. specialize (Hmono x Hv Hj). lra.
    - set (j := nth c x 0%nat) in *.
      pose proof (valid_length sh x Hv) as Hl.
      assert (Him : (S i < sm)%nat) by (rewrite <- Hi; apply valid_nth; [assumption|lia]).
      set (x' := upd x m i).
      assert (Hv' : valid sh x') by (apply upd_valid; [assumption|lia]).
      assert (Hm' : nth m x' 0%nat = i) by (unfold x'; apply nth_upd_same; lia).
      assert (Hc' : nth c x' 0%nat = j) by (unfold x'; rewrite nth_upd_other by auto; reflexivity).
      pose proof (IH x' Hv' Hm' ltac:(rewrite Hc'; exact Hj)) as IHx. rewrite Hc' in IHx.
      pose proof (Hest (i, j) ltac:(unfold Dom; cbn [fst snd]; lia) x Hv) as He. cbn [fst snd] in He. unfold esq in He.
      replace (at2 x m c (S i) j) with x in He by (symmetry; apply at2_eq_self; auto).
      replace (at2 x m c i j) with x' in He by (unfold x', j; symmetry; apply E_at2_c_self; auto).
      replace (at2 x m c (S i) (S j)) with (upd x c (S j)) in He by (rewrite <- Hi; symmetry; apply E_at2_m_self).
      change (at2 x m c i (S j)) with (upd x' c (S j)) in He.
      lra. }
  intros x Hv Hj. apply (P (nth m x 0%nat) x Hv eq_refl Hj). Qed.

Lemma mono_cond_neg W W' : rigidU Uneg W W' -> (forall p, Dom p -> hneg W' p) ->
  mono_along sh c W -> mono_along sh c W'.
Proof. intros [D [HD HU]] Hest Hmono.
  assert (P : forall k x, valid sh x -> (nth m x 0 + k + 1 = sm)%nat -> (S (nth c x 0) < sc)%nat ->
              W' x <= W' (upd x c (S (nth c x 0%nat)))).
  { induction k as [|k IH]; intros x Hv Hi Hj.
    - assert (Hv' : valid sh (upd x c (S (nth c x 0%nat)))) by (apply upd_valid; assumption).
      pose proof (HD x Hv) as E1. pose proof (HD _ Hv') as E2.
      rewrite (nth_upd_other x c m), (nth_upd_other x c ud) in E2 by lia.
      assert (HU0 : forall j u, D (nth m x 0%nat) j u == 0) by (intros; apply HU; left; lia).
      rewrite !HU0 in E1, E2. specialize (Hmono x Hv Hj). lra.
    - set (i := nth m x 0%nat) in *. set (j := nth c x 0%nat) in *.
      pose proof (valid_length sh x Hv) as Hl.
      set (x' := upd x m (S i)).
      assert (Hv' : valid sh x') by (apply upd_valid; [assumption|lia]).
      assert (Hm' : nth m x' 0%nat = S i) by (unfold x'; apply nth_upd_same; lia).
      assert (Hc' : nth c x' 0%nat = j) by (unfold x'; rewrite nth_upd_other by auto; reflexivity).
      pose proof (IH x' Hv' ltac:(rewrite Hm'; lia) ltac:(rewrite Hc'; exact Hj)) as IHx. rewrite Hc' in IHx.
      pose proof (Hest (i, j) ltac:(unfold Dom; cbn [fst snd]; lia) x Hv) as He. cbn [fst snd] in He. unfold esq in He.
      replace (at2 x m c (S i) j) with x' in He by (unfold x', j; symmetry; apply E_at2_c_self; auto).
      replace (at2 x m c i j) with x in He by (symmetry; apply at2_eq_self; auto).
      change (at2 x m c (S i) (S j)) with (upd x' c (S j)) in He.
      replace (at2 x m c i (S j)) with (upd x c (S j)) in He by (unfold i; symmetry; apply E_at2_m_self).
      lra. }
  intros x Hv Hj. apply (P (sm - 1 - nth m x 0)%nat x Hv); [|exact Hj].
  pose proof (valid_nth sh x m Hv ltac:(lia)). lia. Qed.

(* ---- fixed point ---- *)
Hypothesis B_valid : forall b, In b B -> valid sh b.
Lemma step_pos_fixed W W' p : Dom p -> hpos W p -> teq sh W' W -> teq sh (spos W' p) W.
Proof. destruct p as [i j]. intros [Hi Hj] Hh Ht x Hv; cbn [fst snd] in *.
  rewrite (step_pos_shifted W' i j x Hv). unfold Dpos.
  assert (Z : amt (esq W' m c i j) (nth ud x 0%nat) == 0).
  { apply amt_zero. intros Hu b Hb.
    assert (Hvb : valid sh (upd b ud (nth ud x 0%nat))) by (apply upd_valid; [apply B_valid; exact Hb|rewrite Hunits; exact Hu]).
    rewrite (esq_teq sh W' W m c i j _ Ht Hvb Hi Hj). apply (Hh _ Hvb). }
  rewrite (Ht x Hv). destruct (_ && _); rewrite ?Z; lra. Qed.
Lemma step_neg_fixed W W' p : Dom p -> hneg W p -> teq sh W' W -> teq sh (sneg W' p) W.
Proof. destruct p as [i j]. intros [Hi Hj] Hh Ht x Hv; cbn [fst snd] in *.
  rewrite (step_neg_shifted W' i j x Hv). unfold Dneg.
  assert (Z : amt (fun b => - esq W' m c i j b) (nth ud x 0%nat) == 0).
  { apply amt_zero. intros Hu b Hb.
    assert (Hvb : valid sh (upd b ud (nth ud x 0%nat))) by (apply upd_valid; [apply B_valid; exact Hb|rewrite Hunits; exact Hu]).
    rewrite (esq_teq sh W' W m c i j _ Ht Hvb Hi Hj). pose proof (Hh _ Hvb) as H0. cbn [fst snd] in H0. lra. }
  rewrite (Ht x Hv). destruct (_ && _); rewrite ?Z; lra. Qed.
Lemma fold_fixed (step : tens -> nat * nat -> tens) (holds : tens -> nat * nat -> Prop) W :
  (forall W' p, Dom p -> holds W p -> teq sh W' W -> teq sh (step W' p) W) ->
  forall l W', (forall p, In p l -> Dom p /\ holds W p) -> teq sh W' W -> teq sh (fold_left step l W') W.
Proof. intros Hs. induction l as [|p l IH]; intros W' Hl Ht; cbn [fold_left]. exact Ht.
  apply IH. intros; apply Hl; right; assumption.
  destruct (Hl p (or_introl eq_refl)). apply Hs; assumption. Qed.
End Col.

(* ------------------------------------------------------------------ *)
(* one trust, the real behind set                                      *)
Section One.
Variables (sh : list nat) (ud units m c : nat) (dir : Z).
Hypothesis Hmc : m <> c.
Hypothesis Hm : (m < ud)%nat.
Hypothesis Hc : (c < ud)%nat.
Hypothesis Hlen : (ud < length sh)%nat.
Hypothesis Hunits : nth ud sh 0%nat = units.
Local Notation E W := (edgeworth_one sh ud units W (m, c, dir)).
Local Notation B := (behind sh [m; c; ud]).

Lemma E_behind_repr x : valid sh x ->
  exists b, In b B /\ forall i j, at2 (upd b ud (nth ud x 0%nat)) m c i j = at2 x m c i j.
Proof. intros Hv. exists (upd (upd (upd x m 0%nat) c 0%nat) ud 0%nat). split. apply behind3_proj; exact Hv.
  intros i j. rewrite upd_upd. change (upd (upd x m 0%nat) c 0%nat) with (at2 x m c 0%nat 0%nat).
  rewrite <- at2_upd_other by lia. rewrite at2_at2 by auto. rewrite at2_upd_other by lia.
  rewrite upd_self. reflexivity. Qed.
Lemma E_behind_valid x b : valid sh x -> In b B -> valid sh b.
Proof. intros Hv. apply behind_valid. intros d _ Hd. pose proof (valid_pos sh x d Hv Hd). lia. Qed.

Lemma edgeworth_one_established W : edgeworth_holds sh (m, c, dir) (E W).
Proof. unfold edgeworth_holds, edgeworth_one. intros b i j Hv Hi Hj. destruct (0 <? dir)%Z.
  - apply (fold_pos_established sh ud units m c Hmc Hm Hc Hlen Hunits B E_behind_repr W (i, j)); [split; assumption|exact Hv].
  - apply (fold_neg_established sh ud units m c Hmc Hm Hc Hlen Hunits B E_behind_repr W (i, j)); [split; assumption|exact Hv]. Qed.

(* the pass moves whole (main, cond, unit)-columns rigidly *)
Lemma edgeworth_one_rigid W :
  exists D, forall x, valid sh x -> E W x == W x + D (nth m x 0%nat) (nth c x 0%nat) (nth ud x 0%nat).
Proof. unfold edgeworth_one. destruct (0 <? dir)%Z.
  - destruct (fold_pos_rigid sh ud units m c Hmc Hm Hc Hlen Hunits B W) as [D [HD _]]. exists D. exact HD.
  - destruct (fold_neg_rigid sh ud units m c Hmc Hm Hc Hlen Hunits B W) as [D [HD _]]. exists D. exact HD. Qed.

Lemma edgeworth_one_mono_other W d : d <> m -> d <> c -> d <> ud ->
  mono_along sh d W -> mono_along sh d (E W).
Proof. intros Hdm Hdc Hdu. destruct (edgeworth_one_rigid W) as [D HD].
  apply (shifted_mono_other sh ud m c W (E W) D d HD Hdm Hdc Hdu). Qed.

Lemma edgeworth_one_mono_main W : mono_along sh m W -> mono_along sh m (E W).
Proof. unfold edgeworth_one. destruct (0 <? dir)%Z.
  - apply (mono_main_pos sh ud units m c Hmc Hm Hc Hlen Hunits). apply (fold_pos_rigid sh ud units m c Hmc Hm Hc Hlen Hunits).
    apply (fold_pos_established sh ud units m c Hmc Hm Hc Hlen Hunits B E_behind_repr).
  - apply (mono_main_neg sh ud units m c Hmc Hm Hc Hlen Hunits). apply (fold_neg_rigid sh ud units m c Hmc Hm Hc Hlen Hunits).
    apply (fold_neg_established sh ud units m c Hmc Hm Hc Hlen Hunits B E_behind_repr). Qed.
Lemma edgeworth_one_mono_cond W : mono_along sh c W -> mono_along sh c (E W).
Proof. unfold edgeworth_one. destruct (0 <? dir)%Z.
  - apply (mono_cond_pos sh ud units m c Hmc Hm Hc Hlen Hunits). apply (fold_pos_rigid sh ud units m c Hmc Hm Hc Hlen Hunits).
    apply (fold_pos_established sh ud units m c Hmc Hm Hc Hlen Hunits B E_behind_repr).
  - apply (mono_cond_neg sh ud units m c Hmc Hm Hc Hlen Hunits). apply (fold_neg_rigid sh ud units m c Hmc Hm Hc Hlen Hunits).
    apply (fold_neg_established sh ud units m c Hmc Hm Hc Hlen Hunits B E_behind_repr). Qed.

(* other trusts: only a trust on the same two features (in either role) can be disturbed *)
Lemma edgeworth_one_keeps_trust_gen W m2 c2 d2 : m2 <> c2 -> (m2 < ud)%nat -> (c2 < ud)%nat ->
  ~ (m2 = m /\ c2 = c) -> ~ (m2 = c /\ c2 = m) ->
  edgeworth_holds sh (m2, c2, d2) W -> edgeworth_holds sh (m2, c2, d2) (E W).
Proof. intros H1 H2 H3 H4 H5. destruct (edgeworth_one_rigid W) as [D HD].
  apply (shifted_keeps_trust sh ud units m c Hmc Hm Hc Hlen Hunits W (E W) D m2 c2 d2 HD H1 H2 H3 H4 H5). Qed.
Lemma edgeworth_one_keeps_trust W m2 c2 d2 : edgeworth_holds sh (m2, c2, d2) W ->
  m <> c2 -> c <> m2 -> (m2, c2) <> (m, c) -> m2 <> c2 -> (m2 < ud)%nat -> (c2 < ud)%nat ->
  edgeworth_holds sh (m2, c2, d2) (E W).
Proof. intros H H1 H2 H3 H4 H5 H6. apply edgeworth_one_keeps_trust_gen; auto.
  intros [-> ->]. apply H3; reflexivity. intros [-> _]. apply H2; reflexivity. Qed.

Lemma edgeworth_one_fixed_gen W W' : edgeworth_holds sh (m, c, dir) W -> teq sh W' W -> teq sh (E W') W.
Proof. unfold edgeworth_holds, edgeworth_one. intros H Ht. revert H.
  destruct (0 <? dir)%Z; intros H.
  - intros x Hv.
    apply (fold_fixed sh m c (edge_step_pos sh ud units B m c) (hpos sh m c) W
             (step_pos_fixed sh ud units m c Hmc Hm Hc Hlen Hunits B (fun b => E_behind_valid x b Hv) W)); auto.
    intros [i j] Hp. apply E_grid_in in Hp. split. split; cbn [fst snd]; lia.
    intros b Hb. cbn [fst snd]. apply H; auto; lia.
  - intros x Hv.
    apply (fold_fixed sh m c (edge_step_neg sh ud units B m c) (hneg sh m c) W
             (step_neg_fixed sh ud units m c Hmc Hm Hc Hlen Hunits B (fun b => E_behind_valid x b Hv) W)); auto.
    intros [i j] Hp. apply in_rev in Hp. apply E_grid_in in Hp. split. split; cbn [fst snd]; lia.
    intros b Hb. cbn [fst snd]. apply H; auto; lia. Qed.
Lemma edgeworth_one_fixed W : edgeworth_holds sh (m, c, dir) W -> teq sh (E W) W.
Proof. intros H. apply edgeworth_one_fixed_gen. exact H. apply teq_refl. Qed.
End One.

(* ------------------------------------------------------------------ *)
(* all Edgeworth trusts of a valid configuration                       *)
Section ListLevel.
Variable cf : lat_cfg.
Hypothesis Hcfg : cfg_valid cf.
Local Notation sh := (l_shape cf).
Local Notation ud := (l_ud cf).
Local Notation units := (l_units cf).

Lemma E_edge_in_all t : In t (l_edge cf) -> In t (all_trusts cf).
Proof. intros H. unfold all_trusts. apply in_app_iff. left. exact H. Qed.
Lemma E_edge_main_cond t1 t2 : In t1 (l_edge cf) -> In t2 (l_edge cf) -> fst (fst t1) <> snd (fst t2).
Proof. intros H1 H2. destruct Hcfg as (_ & _ & _ & _ & _ & Hmc & _). apply Hmc; apply E_edge_in_all; assumption. Qed.
Lemma E_edge_one_dir t1 t2 : In t1 (l_edge cf) -> In t2 (l_edge cf) -> fst t1 = fst t2 -> t1 = t2.
Proof. intros H1 H2 E. destruct Hcfg as (_ & _ & _ & _ & _ & _ & Hdir & _).
  pose proof (Hdir t1 t2 (E_edge_in_all _ H1) (E_edge_in_all _ H2) E).
  destruct t1, t2; cbn in *; congruence. Qed.

Ltac shape_side := first [apply l_ud_lt | apply l_ud_units | assumption | lia].

Lemma fold_edgeworth_established : forall ts W (Done : trust -> Prop),
  (forall t, In t ts -> In t (l_edge cf)) -> (forall t, Done t -> In t (l_edge cf)) ->
  (forall t, Done t -> edgeworth_holds sh t W) ->
  forall t, Done t \/ In t ts -> edgeworth_holds sh t (fold_left (edgeworth_one sh ud units) ts W).
Proof. induction ts as [|a ts IH]; intros W Done Hts HD HW t Ht; cbn [fold_left].
  - destruct Ht as [Ht|[]]; auto.
  - apply (IH (edgeworth_one sh ud units W a) (fun t => Done t \/ t = a)).
    + intros; apply Hts; right; auto.
    + intros t' [H| ->]; auto. apply Hts; left; auto.
    + assert (Ha : In a (l_edge cf)) by (apply Hts; left; auto).
      assert (Hest : edgeworth_holds sh a (edgeworth_one sh ud units W a)).
      { destruct a as [[m c] dir]. destruct (cfg_edge_dims cf m c dir Hcfg Ha) as (Hm & Hc & Hmc & _).
        apply edgeworth_one_established; shape_side. }
      intros t' [H| ->]; [|exact Hest].
      pose proof (HD t' H) as Ht'.
      destruct (Nat.eq_dec (fst (fst t')) (fst (fst a))) as [E1|N1];
        [destruct (Nat.eq_dec (snd (fst t')) (snd (fst a))) as [E2|N2]|].
      * assert (t' = a) as -> by (apply E_edge_one_dir; auto; destruct t' as [[? ?] ?], a as [[? ?] ?]; cbn in *; congruence).
        exact Hest.
      * pose proof (E_edge_main_cond t' a Ht' Ha) as N3.
        destruct a as [[m c] dir], t' as [[m2 c2] d2]; cbn [fst snd] in *.
        destruct (cfg_edge_dims cf m c dir Hcfg Ha) as (Hm & Hc & Hmc & _).
        destruct (cfg_edge_dims cf m2 c2 d2 Hcfg Ht') as (Hm2 & Hc2 & Hmc2 & _).
        apply edgeworth_one_keeps_trust_gen; try shape_side. apply HW; exact H.
      * pose proof (E_edge_main_cond t' a Ht' Ha) as N3.
        destruct a as [[m c] dir], t' as [[m2 c2] d2]; cbn [fst snd] in *.
        destruct (cfg_edge_dims cf m c dir Hcfg Ha) as (Hm & Hc & Hmc & _).
        destruct (cfg_edge_dims cf m2 c2 d2 Hcfg Ht') as (Hm2 & Hc2 & Hmc2 & _).
        apply edgeworth_one_keeps_trust_gen; try shape_side. apply HW; exact H.
    + destruct Ht as [Ht|[<-|Ht]]; auto. Qed.

Lemma approx_edgeworth_established W t : In t (l_edge cf) ->
  edgeworth_holds sh t (approx_edgeworth sh ud units (l_edge cf) W).
Proof. intros Ht. unfold approx_edgeworth.
  apply (fold_edgeworth_established (l_edge cf) W (fun _ => False)); auto; intros ? []. Qed.

Lemma edgeworth_one_monotone_kernel W t : In t (l_edge cf) ->
  monotone_kernel cf W -> monotone_kernel cf (edgeworth_one sh ud units W t).
Proof. destruct t as [[m c] dir]. intros Ht HW d Hd.
  destruct (cfg_edge_dims cf m c dir Hcfg Ht) as (Hm & Hc & Hmc & _).
  assert (Hdu : (d < ud)%nat).
  { apply E_mono_dims_lt in Hd. destruct Hcfg as (_ & _ & Hl & _). unfold l_ud. lia. }
  specialize (HW d Hd).
  destruct (Nat.eq_dec d m) as [->|Ndm]; [|destruct (Nat.eq_dec d c) as [->|Ndc]].
  - apply edgeworth_one_mono_main; shape_side.
  - apply edgeworth_one_mono_cond; shape_side.
  - apply edgeworth_one_mono_other; shape_side. Qed.

Lemma approx_edgeworth_mono W :
  monotone_kernel cf W -> monotone_kernel cf (approx_edgeworth sh ud units (l_edge cf) W).
Proof. unfold approx_edgeworth.
  assert (G : forall ts W, (forall t, In t ts -> In t (l_edge cf)) -> monotone_kernel cf W ->
              monotone_kernel cf (fold_left (edgeworth_one sh ud units) ts W)).
  { induction ts as [|a ts IH]; intros W0 Hts HW; cbn [fold_left]. exact HW.
    apply IH. intros; apply Hts; right; auto.
    apply edgeworth_one_monotone_kernel. apply Hts; left; auto. exact HW. }
  apply G. auto. Qed.

Lemma approx_edgeworth_fixed_gen W W' : (forall t, In t (l_edge cf) -> edgeworth_holds sh t W) ->
  teq sh W' W -> teq sh (approx_edgeworth sh ud units (l_edge cf) W') W.
Proof. intros HW. unfold approx_edgeworth.
  assert (G : forall ts W', (forall t, In t ts -> In t (l_edge cf)) -> teq sh W' W ->
              teq sh (fold_left (edgeworth_one sh ud units) ts W') W).
  { induction ts as [|a ts IH]; intros W0 Hts Ht; cbn [fold_left]. exact Ht.
    apply IH. intros; apply Hts; right; auto.
    assert (Ha : In a (l_edge cf)) by (apply Hts; left; auto).
    pose proof (HW a Ha) as Hh. destruct a as [[m c] dir].
    destruct (cfg_edge_dims cf m c dir Hcfg Ha) as (Hm & Hc & Hmc & _).
    apply edgeworth_one_fixed_gen; shape_side. }
  apply G. auto. Qed.
Lemma approx_edgeworth_fixed W : (forall t, In t (l_edge cf) -> edgeworth_holds sh t W) ->
  teq sh (approx_edgeworth sh ud units (l_edge cf) W) W.
Proof. intros H. apply approx_edgeworth_fixed_gen. exact H. apply teq_refl. Qed.
End ListLevel.

(* ------------------------------------------------------------------ *)
(* the hypotheses are satisfiable: a 3x2x3 lattice with 2 units, one trust
   in each direction, a kernel monotone in dims 0 and 2 that violates both
   trusts; the pass changes it and (computed, not only proved) repairs it *)
Definition ex_cf : lat_cfg :=
  mkLat [3; 2; 3]%nat 2%nat [1; 0; 1]%Z [(0, 1, 1%Z); (2, 1, (-1)%Z)]%nat [] None None.
Definition ex_W : tens :=
  of_list (l_shape ex_cf)
    (map inject_Z [5; -7; 5; -4; 5; 5; 6; 1; 6; 1; 6; 1; 5; 0; 5; 0; 5; 5; 6; 1; 6; 1; 7; 1;
                   5; 0; 5; 1; 5; 5; 6; 8; 6; 8; 7; 8]%Z).
Definition ex_R : tens :=
  approx_edgeworth (l_shape ex_cf) (l_ud ex_cf) (l_units ex_cf) (l_edge ex_cf) ex_W.

Example ex_cfg_valid : cfg_valid ex_cf.
Proof. unfold cfg_valid, all_trusts; cbn. repeat split.
  - intros s [<-|[<-|[<-|[]]]]; lia.
  - lia.
  - intros z [<-|[<-|[<-|[]]]]; auto.
  - intros t [<-|[<-|[]]]; cbn; repeat split; auto; lia.
  - intros t1 t2 [<-|[<-|[]]] [<-|[<-|[]]]; cbn; lia.
  - intros t1 t2 [<-|[<-|[]]] [<-|[<-|[]]]; cbn; intros E; congruence. Qed.
Example ex_monotone : monotone_kernel ex_cf ex_W.
Proof. intros d [<-|[<-|[]]]; apply mono_alongb_ok; vm_compute; reflexivity. Qed.
Example ex_violates :
  map (fun t => edgeworth_holdsb (l_shape ex_cf) t ex_W) (l_edge ex_cf) = [false; false].
Proof. vm_compute. reflexivity. Qed.
Example ex_repaired :
  map (fun t => edgeworth_holdsb (l_shape ex_cf) t ex_R) (l_edge ex_cf) = [true; true]
  /\ map (fun d => mono_alongb (l_shape ex_cf) d ex_R) (mono_dims (l_monos ex_cf)) = [true; true]
  /\ teqb (l_shape ex_cf) ex_R ex_W = false.
Proof. vm_compute. repeat split. Qed.
Example ex_theorems :
  (forall t, In t (l_edge ex_cf) -> edgeworth_holds (l_shape ex_cf) t ex_R) /\ monotone_kernel ex_cf ex_R.
Proof. split. intros t Ht. apply approx_edgeworth_established. apply ex_cfg_valid. exact Ht.
  apply approx_edgeworth_mono. apply ex_cfg_valid. apply ex_monotone. Qed.
Example ex_fixed : teq (l_shape ex_cf) (approx_edgeworth (l_shape ex_cf) (l_ud ex_cf) (l_units ex_cf) (l_edge ex_cf) ex_R) ex_R.
Proof. apply approx_edgeworth_fixed. apply ex_cfg_valid. apply ex_theorems. Qed.

Print Assumptions edgeworth_one_established.
Print Assumptions edgeworth_one_mono_other.
Print Assumptions edgeworth_one_mono_main.
Print Assumptions edgeworth_one_mono_cond.
Print Assumptions edgeworth_one_keeps_trust.
Print Assumptions edgeworth_one_fixed.
Print Assumptions approx_edgeworth_established.
Print Assumptions approx_edgeworth_mono.
Print Assumptions approx_edgeworth_fixed.
